/-
Tree-level lemmas for C14: the strict reader reads back what the serializer writes.  Core Lean only.
-/
import MdVerif.Lemmas.SerializerEsc

namespace MdVerif.Ser
open Py

/-! ### equations of the reader, one per kind of item -/

theorem readContent_nil (fmt : Fmt) (f : Nat) : readContent fmt (f + 1) [] = some ([], []) := by
  simp [readContent]

theorem readContent_close (fmt : Fmt) (f : Nat) (r : Str) :
    readContent fmt (f + 1) ('<' :: '/' :: r) = some ([], '<' :: '/' :: r) := by
  simp [readContent]

theorem readContent_comment (fmt : Fmt) (f : Nat) (r : Str) :
    readContent fmt (f + 1) ('<' :: '!' :: '-' :: '-' :: r) =
      match splitAt? "-->".toList r with
      | none => none
      | some (c, r1) => (readContent fmt f r1).map (fun (ns, rest) => (.comment c :: ns, rest)) := by
  rw [readContent]; rfl

theorem readContent_pi (fmt : Fmt) (f : Nat) (r : Str) :
    readContent fmt (f + 1) ('<' :: '?' :: r) =
      match splitAt? "?>".toList r with
      | none => none
      | some (c, r1) => (readContent fmt f r1).map (fun (ns, rest) => (.pi c :: ns, rest)) := by
  rw [readContent]; rfl

theorem readContent_elem (fmt : Fmt) (f : Nat) (c : Char) (r : Str) (h1 : c ≠ '/') (h2 : c ≠ '!') (h3 : c ≠ '?') :
    readContent fmt (f + 1) ('<' :: c :: r) =
      match readElem fmt f (c :: r) with
      | none => none
      | some (n, r1) => (readContent fmt f r1).map (fun (ns, rest) => (n :: ns, rest)) := by
  rw [readContent]
  · rfl
  all_goals (intros; simp_all)

theorem readContent_text (fmt : Fmt) (f : Nat) (c : Char) (r : Str) (h : c ≠ '<') :
    readContent fmt (f + 1) (c :: r) =
      match strict cdata 0 ((c :: r).takeWhile (· ≠ '<')) with
      | none => none
      | some toks =>
        (readContent fmt f ((c :: r).dropWhile (· ≠ '<'))).map (fun (ns, rest) => (.text toks :: ns, rest)) := by
  rw [readContent]
  · rfl
  all_goals (intros; simp_all)

theorem readAttrs_end (fmt : Fmt) (f : Nat) (r : Str) : readAttrs fmt (f + 1) ('>' :: r) = some ([], false, r) := by
  simp [readAttrs]

theorem readAttrs_selfclose (f : Nat) (r : Str) :
    readAttrs .xhtml (f + 1) (' ' :: '/' :: '>' :: r) = some ([], true, r) := by
  simp [readAttrs]

theorem readAttrs_attr (fmt : Fmt) (f : Nat) (c : Char) (r : Str) (h : c ≠ '/') :
    readAttrs fmt (f + 1) (' ' :: c :: r) =
      (let k := (c :: r).takeWhile isNameChar
       let r1 := (c :: r).dropWhile isNameChar
       if k.isEmpty then none else
       match r1 with
       | '=' :: '"' :: r2 =>
         match splitAt? ['"'] r2 with
         | none => none
         | some (v, r3) =>
           match strict attr 0 v, readAttrs fmt f r3 with
           | some toks, some (as, sc, rest) =>
             if as.any (fun kv => kv.1 = k) then none else some ((k, toks) :: as, sc, rest)
           | _, _ => none
       | _ =>
         if fmt = .html then
           match readAttrs fmt f r1 with
           | some (as, sc, rest) =>
             if as.any (fun kv => kv.1 = k) then none else some ((k, k.map Tok.ch) :: as, sc, rest)
           | none => none
         else none) := by
  rw [readAttrs]
  · rfl
  all_goals (intros; simp_all)

/-! ### searching for the delimiters -/

theorem find_single (a : Char) (v rest : Str) (h : a ∉ v) : find [a] (v ++ a :: rest) = some v.length := by
  induction v with
  | nil => simp [find, startsWith]
  | cons c cs ih =>
    have hc : c ≠ a := fun e => h (by simp [e])
    have hcs : a ∉ cs := fun e => h (by simp [e])
    simp [find, startsWith, hc, ih hcs]

theorem splitAt_single (a : Char) (v rest : Str) (h : a ∉ v) : splitAt? [a] (v ++ a :: rest) = some (v, rest) := by
  simp [splitAt?, find_single a v rest h]

theorem find_commentEnd (e rest : Str) (h : '>' ∉ e) :
    find ['-', '-', '>'] (e ++ '-' :: '-' :: '>' :: rest) = some e.length := by
  induction e with
  | nil => simp [find, startsWith]
  | cons c cs ih =>
    have hcs : '>' ∉ cs := fun e => h (by simp [e])
    have hns : startsWith (c :: cs ++ '-' :: '-' :: '>' :: rest) ['-', '-', '>'] = false := by
      match cs, hcs with
      | [], _ => simp [startsWith]
      | [d], _ => simp [startsWith]
      | d :: d' :: ds, hcs =>
        have : d' ≠ '>' := fun e => hcs (by simp [e])
        simp [startsWith, this]
    simp only [List.cons_append] at hns
    simp [find, hns, ih hcs]

theorem splitAt_commentEnd (e rest : Str) (h : '>' ∉ e) :
    splitAt? "-->".toList (e ++ '-' :: '-' :: '>' :: rest) = some (e, rest) := by
  have := find_commentEnd e rest h
  simp [splitAt?, this]

theorem find_piEnd (e rest : Str) (h : '>' ∉ e) :
    find ['?', '>'] (e ++ '?' :: '>' :: rest) = some e.length := by
  induction e with
  | nil => simp [find, startsWith]
  | cons c cs ih =>
    have hcs : '>' ∉ cs := fun e => h (by simp [e])
    have hns : startsWith (c :: cs ++ '?' :: '>' :: rest) ['?', '>'] = false := by
      match cs, hcs with
      | [], _ => simp [startsWith]
      | d :: ds, hcs =>
        have : d ≠ '>' := fun e => hcs (by simp [e])
        simp [startsWith, this]
    simp only [List.cons_append] at hns
    simp [find, hns, ih hcs]

theorem splitAt_piEnd (e rest : Str) (h : '>' ∉ e) :
    splitAt? "?>".toList (e ++ '?' :: '>' :: rest) = some (e, rest) := by
  have := find_piEnd e rest h
  simp [splitAt?, this]

/-- `W` is empty or starts with a character outside the class -/
def StopsAt (p : Char → Bool) (W : Str) : Prop := ∀ c w, W = c :: w → p c = false

theorem takeWhile_stop (p : Char → Bool) (k W : Str) (hk : ∀ c ∈ k, p c = true) (hW : StopsAt p W) :
    (k ++ W).takeWhile p = k := by
  rw [List.takeWhile_append_of_pos hk]
  cases W with
  | nil => simp
  | cons c w => simp [List.takeWhile, hW c w rfl]

theorem dropWhile_stop (p : Char → Bool) (k W : Str) (hk : ∀ c ∈ k, p c = true) (hW : StopsAt p W) :
    (k ++ W).dropWhile p = W := by
  rw [List.dropWhile_append_of_pos hk]
  cases W with
  | nil => simp
  | cons c w => simp [List.dropWhile, hW c w rfl]

theorem isName_chars {k : Str} (h : isName k = true) : ∀ c ∈ k, isNameChar c = true := by
  simp [isName] at h; exact h.2

theorem isName_cons {k : Str} (h : isName k = true) : ∃ c r, k = c :: r ∧ isNameChar c = true := by
  cases k with
  | nil => simp [isName] at h
  | cons c r => exact ⟨c, r, rfl, isName_chars h c (by simp)⟩

theorem nameChar_facts : isNameChar '/' = false ∧ isNameChar '!' = false ∧ isNameChar '?' = false ∧
    isNameChar ' ' = false ∧ isNameChar '>' = false ∧ isNameChar '=' = false ∧ isNameChar '&' = false ∧
    isNameChar '<' = false ∧ isNameChar '"' = false := by decide

/-! ### attributes -/

def canonAttrs (l : List (Str × Str)) : List (Str × List Tok) := l.map (fun kv => (kv.1, lenient attr 0 kv.2))

/-- what may follow the attributes: `>` or ` />` -/
def AttrEnd (W : Str) : Prop := ∃ w, W = '>' :: w ∨ W = ' ' :: w

theorem attrEnd_write (fmt : Fmt) (as : List (Str × Str)) (W : Str) (hW : AttrEnd W) :
    AttrEnd (writeAttrs fmt as ++ W) := by
  cases as with
  | nil => simpa [writeAttrs] using hW
  | cons kv r =>
    obtain ⟨k, v⟩ := kv
    simp only [writeAttrs]
    split <;> exact ⟨_, Or.inr (by simp; rfl)⟩

theorem attrEnd_stops {W : Str} (hW : AttrEnd W) : StopsAt isNameChar W := by
  intro c w h
  obtain ⟨w', h' | h'⟩ := hW <;> rw [h'] at h <;> injection h with h1 _ <;> subst h1 <;> decide

theorem length_le_writeAttrs (fmt : Fmt) (as : List (Str × Str)) : as.length ≤ (writeAttrs fmt as).length := by
  induction as with
  | nil => simp
  | cons kv r ih =>
    obtain ⟨k, v⟩ := kv
    simp only [writeAttrs]
    split <;> simp <;> omega

theorem readAttrs_bare (f : Nat) (k W : Str) (hk : isName k = true) (hW : AttrEnd W) :
    readAttrs .html (f + 1) (' ' :: k ++ W) =
      match readAttrs .html f W with
      | some (as, sc, rest) =>
        if as.any (fun kv => kv.1 = k) then none else some ((k, k.map Tok.ch) :: as, sc, rest)
      | none => none := by
  obtain ⟨c, r, rfl, hc⟩ := isName_cons hk
  have hne : c ≠ '/' := by intro e; subst e; revert hc; decide
  have ht := takeWhile_stop isNameChar (c :: r) W (isName_chars hk) (attrEnd_stops hW)
  have hd := dropWhile_stop isNameChar (c :: r) W (isName_chars hk) (attrEnd_stops hW)
  simp only [List.cons_append] at ht hd ⊢
  rw [readAttrs_attr _ _ _ _ hne]
  simp only [ht, hd]
  obtain ⟨w, h | h⟩ := hW <;> subst h <;> simp

theorem readAttrs_quoted (fmt : Fmt) (f : Nat) (k v W : Str) (hk : isName k = true) :
    readAttrs fmt (f + 1) (' ' :: k ++ '=' :: '"' :: escAttrHtml v ++ '"' :: W) =
      match readAttrs fmt f W with
      | some (as, sc, rest) =>
        if as.any (fun kv => kv.1 = k) then none else some ((k, lenient attr 0 v) :: as, sc, rest)
      | none => none := by
  obtain ⟨c, r, rfl, hc⟩ := isName_cons hk
  have hne : c ≠ '/' := by intro e; subst e; revert hc; decide
  have hstop : StopsAt isNameChar ('=' :: '"' :: (escAttrHtml v ++ '"' :: W)) := by
    intro c w h; injection h with h1 _; subst h1; decide
  have ht := takeWhile_stop isNameChar (c :: r) _ (isName_chars hk) hstop
  have hd := dropWhile_stop isNameChar (c :: r) _ (isName_chars hk) hstop
  have hq : '"' ∉ escAttrHtml v := by
    intro hm; rw [onepass_attr'] at hm
    exact (esc1_no_markup' true false v _ hm).2.2 rfl rfl
  have hs : strict attr 0 (escAttrHtml v) = some (lenient attr 0 v) := by
    rw [onepass_attr']; exact strict_esc1' attr v
  simp only [List.cons_append, List.append_assoc] at ht hd ⊢
  rw [readAttrs_attr _ _ _ _ hne]
  simp only [ht, hd, splitAt_single _ _ _ hq, hs]
  cases readAttrs fmt f W <;> simp

theorem canonAttrs_any (l : List (Str × Str)) (k : Str) :
    (canonAttrs l).any (fun kv => kv.1 = k) = l.any (fun kv => kv.1 = k) := by
  simp [canonAttrs, List.any_map, Function.comp_def]

theorem readAttrs_write (fmt : Fmt) (W : Str) (sc : Bool) (rest : Str) (hW : AttrEnd W)
    (hread : ∀ f, readAttrs fmt (f + 1) W = some ([], sc, rest)) :
    ∀ (as : List (Str × Str)) (fuel : Nat), (∀ kv ∈ as, isName kv.1 = true) → keysNodup as = true → as.length < fuel →
      readAttrs fmt fuel (writeAttrs fmt as ++ W) = some (canonAttrs as, sc, rest)
  | [], 0, _, _, h => by simp at h
  | [], f + 1, _, _, _ => by simpa [writeAttrs, canonAttrs] using hread f
  | _ :: _, 0, _, _, h => by simp at h
  | (k, v) :: r, f + 1, hk, hnd, hf => by
    have hkn : isName k = true := hk (k, v) (by simp)
    simp only [keysNodup, Bool.and_eq_true, Bool.not_eq_true'] at hnd
    have hany : (canonAttrs r).any (fun kv => kv.1 = k) = false := by rw [canonAttrs_any]; exact hnd.1
    have ih := readAttrs_write fmt W sc rest hW hread r f (fun kv h => hk kv (by simp [h])) hnd.2 (by simpa using hf)
    have hW' := attrEnd_write fmt r W hW
    simp only [writeAttrs]
    split
    · rename_i hb
      simp only [Bool.and_eq_true, decide_eq_true_eq] at hb
      obtain ⟨hkv, hfmt⟩ := hb
      subst hfmt
      have hv : v = k := by
        have hnoamp : ∀ c ∈ esc1 true false v, c ≠ '&' := by
          intro c hc e; subst e
          rw [← onepass_attr', ← hkv] at hc
          have := isName_chars hkn _ hc
          revert this; decide
        have := esc1_noamp true false v hnoamp
        rw [← onepass_attr', ← hkv] at this
        exact this.symm
      subst hv
      rw [← hkv, List.append_assoc, readAttrs_bare f _ _ hkn hW', ih]
      have hl : lenient attr 0 v = v.map Tok.ch := by
        apply lenient_plain'
        intro c hc e; subst e
        have := isName_chars hkn _ hc
        revert this; decide
      simp only [hany, Bool.false_eq_true, ↓reduceIte]
      simp [canonAttrs, hl]
    · have : (' ' :: k ++ "=\"".toList ++ escAttrHtml v ++ ['"']) ++ (writeAttrs fmt r ++ W) =
          ' ' :: k ++ '=' :: '"' :: escAttrHtml v ++ '"' :: (writeAttrs fmt r ++ W) := by simp
      rw [List.append_assoc, this, readAttrs_quoted fmt f k v _ hkn, ih]
      simp only [hany, Bool.false_eq_true, ↓reduceIte]
      simp [canonAttrs]

theorem mem_insAttr (kv : Str × Str) (l : List (Str × Str)) : ∀ x ∈ insAttr kv l, x = kv ∨ x ∈ l := by
  induction l with
  | nil => simp [insAttr]
  | cons a r ih =>
    intro x hx
    simp only [insAttr] at hx
    split at hx
    · simpa using hx
    · rcases List.mem_cons.1 hx with h | h
      · simp [h]
      · rcases ih x h with h' | h' <;> simp [h']

theorem mem_sortAttrs (l : List (Str × Str)) : ∀ x ∈ sortAttrs l, x ∈ l := by
  induction l with
  | nil => simp [sortAttrs]
  | cons a r ih =>
    intro x hx
    simp only [sortAttrs, List.foldr_cons] at hx
    rcases mem_insAttr a _ x hx with h | h
    · simp [h]
    · exact List.mem_cons_of_mem _ (ih x h)

theorem keysNodup_insAttr (a : Str × Str) : ∀ (l : List (Str × Str)), keysNodup l = true →
    l.any (fun x => x.1 = a.1) = false → keysNodup (insAttr a l) = true
  | [], _, _ => by simp [insAttr, keysNodup]
  | x :: xs, hl, ha => by
    simp only [keysNodup, Bool.and_eq_true, Bool.not_eq_true'] at hl
    simp only [List.any_cons, Bool.or_eq_false_iff, decide_eq_false_iff_not] at ha
    simp only [insAttr]
    split
    · simp only [keysNodup, Bool.and_eq_true, Bool.not_eq_true', List.any_cons, Bool.or_eq_false_iff,
        decide_eq_false_iff_not]
      exact ⟨⟨ha.1, ha.2⟩, hl.1, hl.2⟩
    · simp only [keysNodup, Bool.and_eq_true, Bool.not_eq_true']
      refine ⟨?_, keysNodup_insAttr a xs hl.2 ha.2⟩
      rw [List.any_eq_false]
      intro y hy
      rcases mem_insAttr a xs y hy with e | hm
      · subst e; simpa using fun e => ha.1 e.symm
      · have := List.any_eq_false.1 hl.1 y hm
        exact this

theorem keysNodup_sortAttrs : ∀ (l : List (Str × Str)), keysNodup l = true → keysNodup (sortAttrs l) = true
  | [], _ => by simp [sortAttrs, keysNodup]
  | a :: r, h => by
    simp only [keysNodup, Bool.and_eq_true, Bool.not_eq_true'] at h
    simp only [sortAttrs, List.foldr_cons]
    refine keysNodup_insAttr a _ (keysNodup_sortAttrs r h.2) ?_
    rw [List.any_eq_false]
    intro y hy
    exact List.any_eq_false.1 h.1 y (mem_sortAttrs r y hy)

/-! ### content: the invariant of `readContent` -/

def NoLt (s : Str) : Prop := ∀ c ∈ s, c ≠ '<'
/-- `pre` is text that the strict reader reads as `toks`, whatever follows -/
def Transp (pre : Str) (toks : List Tok) : Prop :=
  ∀ Y, strict cdata 0 (pre ++ Y) = (strict cdata 0 Y).map (toks ++ ·)
def EndOk (rest : Str) : Prop := rest = [] ∨ ∃ r, rest = '<' :: '/' :: r

/-- the string `X` is read as the items `items` (up to merging of adjacent texts), after any pending text `pre` -/
def Reads (fmt : Fmt) (X : Str) (items : List RNode) : Prop :=
  ∀ pre toks rest fuel, NoLt pre → Transp pre toks → EndOk rest → (pre ++ (X ++ rest)).length < fuel →
    readContent fmt fuel (pre ++ (X ++ rest)) = some (mergeTexts (.text toks :: items), rest)

theorem transp_nil {toks : List Tok} (h : Transp [] toks) : toks = [] := by
  have := h []
  simpa [strict] using this.symm

theorem transp_strict {pre : Str} {toks : List Tok} (h : Transp pre toks) : strict cdata 0 pre = some toks := by
  have := h []
  simpa [strict] using this

theorem mergeTexts_nil_text (items : List RNode) : mergeTexts (.text [] :: items) = mergeTexts items := by
  simp only [mergeTexts]
  generalize mergeTexts items = M
  rcases M with _ | ⟨(_ | _ | _ | _ | _), r'⟩ <;> simp

theorem mergeTexts_text_text (a b : List Tok) (items : List RNode) :
    mergeTexts (.text a :: .text b :: items) = mergeTexts (.text (a ++ b) :: items) := by
  simp only [mergeTexts]
  generalize mergeTexts items = M
  rcases M with _ | ⟨(_ | _ | _ | _ | _), r'⟩ <;> simp <;> by_cases hb : b = [] <;> simp [hb]

def notText : RNode → Prop
  | .text _ => False
  | _ => True

theorem mergeTexts_cons_notText (n : RNode) (l : List RNode) (hn : notText n) :
    mergeTexts (n :: l) = n :: mergeTexts l := by
  cases n <;> simp [mergeTexts, notText] at hn ⊢

theorem mergeTexts_text_notText (a : List Tok) (n : RNode) (l : List RNode) (hn : notText n) :
    mergeTexts (.text a :: n :: l) = if a.isEmpty then n :: mergeTexts l else .text a :: n :: mergeTexts l := by
  cases n <;> simp [mergeTexts, notText] at hn ⊢

theorem startsLt_stops {W : Str} (h : W = [] ∨ ∃ w, W = '<' :: w) : StopsAt (· ≠ '<') W := by
  intro c w e
  rcases h with h | ⟨w', h⟩
  · rw [h] at e; cases e
  · rw [h] at e; injection e with e1 _; subst e1; simp

/-- a pending non-empty text is read as one text item -/
theorem read_text_prefix (fmt : Fmt) (f : Nat) (pre W : Str) (toks : List Tok) (hne : pre ≠ []) (hlt : NoLt pre)
    (hs : strict cdata 0 pre = some toks) (hW : W = [] ∨ ∃ w, W = '<' :: w) :
    readContent fmt (f + 1) (pre ++ W) =
      (readContent fmt f W).map (fun (ns, rest) => (.text toks :: ns, rest)) := by
  have ht := takeWhile_stop (· ≠ '<') pre W (by intro c hc; simpa using hlt c hc) (startsLt_stops hW)
  have hd := dropWhile_stop (· ≠ '<') pre W (by intro c hc; simpa using hlt c hc) (startsLt_stops hW)
  cases pre with
  | nil => exact absurd rfl hne
  | cons c p =>
    have hc : c ≠ '<' := hlt c (by simp)
    simp only [List.cons_append] at ht hd ⊢
    rw [readContent_text fmt f c _ hc, ht, hd, hs]

theorem endOk_starts {rest : Str} (h : EndOk rest) : rest = [] ∨ ∃ w, rest = '<' :: w := by
  rcases h with h | ⟨r, h⟩
  · exact Or.inl h
  · exact Or.inr ⟨_, h⟩

theorem readContent_end (fmt : Fmt) (f : Nat) (rest : Str) (h : EndOk rest) :
    readContent fmt (f + 1) rest = some ([], rest) := by
  rcases h with h | ⟨r, h⟩ <;> subst h
  · exact readContent_nil fmt f
  · exact readContent_close fmt f r

theorem reads_nil (fmt : Fmt) : Reads fmt [] [] := by
  intro pre toks rest fuel hlt htr hend hf
  cases fuel with
  | zero => simp at hf
  | succ f =>
    cases hp : pre with
    | nil =>
      subst hp
      have := transp_nil htr
      subst this
      simp only [List.nil_append]
      rw [readContent_end fmt f rest hend]
      simp [mergeTexts]
    | cons c p =>
      rw [← hp]
      have hne : pre ≠ [] := by simp [hp]
      have hs := transp_strict htr
      simp only [List.nil_append]
      rw [read_text_prefix fmt f pre rest toks hne hlt hs (endOk_starts hend)]
      cases f with
      | zero => subst hp; simp at hf
      | succ f' =>
        rw [readContent_end fmt f' rest hend]
        have hn : toks ≠ [] := by
          subst hp; exact strict_ne_nil cdata c p toks hs
        simp [mergeTexts, hn]

theorem reads_text (fmt : Fmt) (a X : Str) (items : List RNode) (h : Reads fmt X items) :
    Reads fmt (escCdata a ++ X) (.text (lenient cdata 0 a) :: items) := by
  intro pre toks rest fuel hlt htr hend hf
  have hlt' : NoLt (pre ++ escCdata a) := by
    intro c hc
    rcases List.mem_append.1 hc with h1 | h1
    · exact hlt c h1
    · rw [onepass_cdata'] at h1; exact (esc1_no_markup' false false a c h1).1
  have htr' : Transp (pre ++ escCdata a) (toks ++ lenient cdata 0 a) := by
    intro Y
    rw [List.append_assoc, htr, onepass_cdata']
    have := strict_esc1_append cdata Y a.length a (Nat.le_refl _)
    simp only [cdata] at this ⊢
    rw [this]
    cases strict _ 0 Y <;> simp
  have := h (pre ++ escCdata a) (toks ++ lenient cdata 0 a) rest fuel hlt' htr' hend (by simpa [List.append_assoc] using hf)
  rw [mergeTexts_text_text]
  simpa [List.append_assoc] using this

theorem reads_textItem (fmt : Fmt) (t : Option Str) (X : Str) (items : List RNode) (h : Reads fmt X items) :
    Reads fmt ((if Node.truthy t then escCdata (t.getD []) else []) ++ X) (textItem t ++ items) := by
  unfold textItem
  split
  · exact reads_text fmt _ X items h
  · simpa using h

theorem transp_nil_nil : Transp [] [] := by
  intro Y; simp

theorem noLt_nil : NoLt [] := by intro c hc; cases hc

/-- a non-text item `n` written as `Z` (which starts with `<`) -/
theorem reads_node (fmt : Fmt) (Z' X : Str) (n : RNode) (items : List RNode) (hn : notText n)
    (hZ : ∀ f Y, (Z' ++ Y).length < f → readContent fmt (f + 1) ('<' :: (Z' ++ Y)) =
      (readContent fmt f Y).map (fun (ns, rest) => (n :: ns, rest)))
    (h : Reads fmt X items) : Reads fmt ('<' :: (Z' ++ X)) (n :: items) := by
  have key : ∀ rest f, EndOk rest → (Z' ++ (X ++ rest)).length < f →
      readContent fmt (f + 1) ('<' :: (Z' ++ (X ++ rest))) = some (n :: mergeTexts items, rest) := by
    intro rest f hend hf
    rw [hZ f (X ++ rest) hf]
    have := h [] [] rest f noLt_nil transp_nil_nil hend (by simp at hf ⊢; omega)
    simp only [List.nil_append] at this
    rw [this, mergeTexts_nil_text]
    rfl
  intro pre toks rest fuel hlt htr hend hf
  cases fuel with
  | zero => simp at hf
  | succ f =>
    rw [mergeTexts_text_notText _ _ _ hn]
    simp only [List.cons_append, List.append_assoc] at hf ⊢
    cases hp : pre with
    | nil =>
      subst hp
      have := transp_nil htr
      subst this
      simp only [List.nil_append]
      rw [key rest f hend (by simp at hf ⊢; omega)]
      simp
    | cons c p =>
      rw [← hp]
      have hne : pre ≠ [] := by simp [hp]
      have hs := transp_strict htr
      rw [read_text_prefix fmt f pre _ toks hne hlt hs (Or.inr ⟨_, rfl⟩)]
      have hn' : toks ≠ [] := by
        subst hp; exact strict_ne_nil cdata c p toks hs
      cases f with
      | zero => subst hp; simp at hf
      | succ f' =>
        rw [key rest f' hend (by subst hp; simp at hf ⊢; omega)]
        simp [hn']

theorem gt_notin_escCdata (a : Str) : '>' ∉ escCdata a := by
  intro h; rw [onepass_cdata'] at h
  exact (esc1_no_markup' false false a _ h).2.1 rfl

theorem reads_comment (fmt : Fmt) (a X : Str) (items : List RNode) (h : Reads fmt X items) :
    Reads fmt ("<!--".toList ++ escCdata a ++ "-->".toList ++ X) (.comment (escCdata a) :: items) := by
  have := reads_node fmt ('!' :: '-' :: '-' :: (escCdata a ++ ['-', '-', '>'])) X (.comment (escCdata a)) items
    (by simp [notText]) ?_ h
  · simpa using this
  · intro f Y _
    have hs := splitAt_commentEnd (escCdata a) Y (gt_notin_escCdata a)
    simp only [List.cons_append, List.append_assoc, List.nil_append]
    rw [readContent_comment, hs]

theorem reads_pi (fmt : Fmt) (a X : Str) (items : List RNode) (h : Reads fmt X items) :
    Reads fmt ("<?".toList ++ escCdata a ++ "?>".toList ++ X) (.pi (escCdata a) :: items) := by
  have := reads_node fmt ('?' :: (escCdata a ++ ['?', '>'])) X (.pi (escCdata a)) items
    (by simp [notText]) ?_ h
  · simpa using this
  · intro f Y _
    have hs := splitAt_piEnd (escCdata a) Y (gt_notin_escCdata a)
    simp only [List.cons_append, List.append_assoc, List.nil_append]
    rw [readContent_pi, hs]

/-! ### elements -/

theorem readElem_eq (fmt : Fmt) (f : Nat) (r : Str) :
    readElem fmt (f + 1) r =
      (let t := r.takeWhile isNameChar
       let r0 := r.dropWhile isNameChar
       if t.isEmpty then none else
       match readAttrs fmt (r0.length + 1) r0 with
       | none => none
       | some (as, selfClosed, r1) =>
         if selfClosed then (if isEmptyTag t then some (.elem t as [], r1) else none)
         else if isEmptyTag t then (if fmt = .html then some (.elem t as [], r1) else none)
         else if isRawTextTag t then
           let body := r1.takeWhile (· ≠ '<')
           let r2 := r1.dropWhile (· ≠ '<')
           (readClose t r2).map (fun rest => (.elem t as (if body.isEmpty then [] else [.raw body]), rest))
         else
           match readContent fmt f r1 with
           | none => none
           | some (kids, r2) => (readClose t r2).map (fun rest => (.elem t as kids, rest))) := by
  rw [readElem]; rfl

theorem readElem_open (fmt : Fmt) (f : Nat) (t : Str) (as : List (Str × Str)) (W : Str) (sc : Bool) (r1 : Str)
    (ht : isName t = true) (hk : ∀ kv ∈ as, isName kv.1 = true) (hnd : keysNodup as = true) (hW : AttrEnd W)
    (hread : ∀ f, readAttrs fmt (f + 1) W = some ([], sc, r1)) :
    readElem fmt (f + 1) (t ++ (writeAttrs fmt as ++ W)) =
      (if sc then (if isEmptyTag t then some (.elem t (canonAttrs as) [], r1) else none)
       else if isEmptyTag t then (if fmt = .html then some (.elem t (canonAttrs as) [], r1) else none)
       else if isRawTextTag t then
         (readClose t (r1.dropWhile (· ≠ '<'))).map (fun rest =>
           (.elem t (canonAttrs as) (if (r1.takeWhile (· ≠ '<')).isEmpty then [] else [.raw (r1.takeWhile (· ≠ '<'))]), rest))
       else
         match readContent fmt f r1 with
         | none => none
         | some (kids, r2) => (readClose t r2).map (fun rest => (.elem t (canonAttrs as) kids, rest))) := by
  have hW' := attrEnd_write fmt as W hW
  have htk := takeWhile_stop isNameChar t _ (isName_chars ht) (attrEnd_stops hW')
  have hdr := dropWhile_stop isNameChar t _ (isName_chars ht) (attrEnd_stops hW')
  have hne : t.isEmpty = false := by
    obtain ⟨c, r, rfl, _⟩ := isName_cons ht; rfl
  have hra := readAttrs_write fmt W sc r1 hW hread as ((writeAttrs fmt as ++ W).length + 1) hk hnd
    (by have := length_le_writeAttrs fmt as; simp; omega)
  rw [readElem_eq]
  simp only [htk, hdr, hne, hra, Bool.false_eq_true, if_false]

theorem readClose_self (t Y : Str) : readClose t ('<' :: '/' :: (t ++ '>' :: Y)) = some Y := by
  have hs : ∀ (a b : Str), startsWith (a ++ b) a = true := by
    intro a b; induction a with
    | nil => cases b <;> rfl
    | cons c cs ih => simp [startsWith, ih]
  have h1 : '<' :: '/' :: (t ++ '>' :: Y) = ("</".toList ++ t ++ ['>']) ++ Y := by simp
  have h2 : (('<' :: '/' :: (t ++ '>' :: Y)).drop (t.length + 3)) = Y := by
    rw [h1, List.drop_append_of_le_length (by simp)]
    have : ("</".toList ++ t ++ ['>']).length = t.length + 3 := by simp
    rw [← this, List.drop_length]; rfl
  unfold readClose
  rw [h2, h1, hs]; rfl

/-- an element whose `readElem` succeeds is read as one item -/
theorem reads_elem_core (fmt : Fmt) (t B X : Str) (n : RNode) (items : List RNode) (ht : isName t = true)
    (hn : notText n)
    (hE : ∀ f Y, (t ++ (B ++ Y)).length < f + 1 → readElem fmt (f + 1) (t ++ (B ++ Y)) = some (n, Y))
    (h : Reads fmt X items) : Reads fmt ('<' :: (t ++ B ++ X)) (n :: items) := by
  have := reads_node fmt (t ++ B) X n items hn ?_ h
  · exact this
  · intro f Y hf
    obtain ⟨c, r, rfl, hc⟩ := isName_cons ht
    have h1 : c ≠ '/' := by intro e; subst e; revert hc; decide
    have h2 : c ≠ '!' := by intro e; subst e; revert hc; decide
    have h3 : c ≠ '?' := by intro e; subst e; revert hc; decide
    cases f with
    | zero => simp at hf
    | succ f' =>
      simp only [List.cons_append, List.append_assoc] at hf ⊢
      rw [readContent_elem fmt _ c _ h1 h2 h3]
      have := hE f' Y (by simpa using hf)
      simp only [List.cons_append] at this
      rw [this]

theorem notText_elem (t : Str) (as : List (Str × List Tok)) (k : List RNode) : notText (.elem t as k) := by
  simp [notText]

/-- void element, xhtml spelling -/
theorem readElem_void_xhtml (t : Str) (as : List (Str × Str)) (ht : isName t = true)
    (hk : ∀ kv ∈ as, isName kv.1 = true) (hnd : keysNodup as = true) (hv : isEmptyTag t = true) (f : Nat) (Y : Str) :
    readElem .xhtml (f + 1) (t ++ ((writeAttrs .xhtml as ++ " />".toList) ++ Y)) =
      some (.elem t (canonAttrs as) [], Y) := by
  have := readElem_open .xhtml f t as (' ' :: '/' :: '>' :: Y) true Y ht hk hnd ⟨_, Or.inr rfl⟩
    (fun f => readAttrs_selfclose f Y)
  simp only [hv, if_true] at this
  simpa using this

/-- void element, html spelling -/
theorem readElem_void_html (t : Str) (as : List (Str × Str)) (ht : isName t = true)
    (hk : ∀ kv ∈ as, isName kv.1 = true) (hnd : keysNodup as = true) (hv : isEmptyTag t = true) (f : Nat) (Y : Str) :
    readElem .html (f + 1) (t ++ ((writeAttrs .html as ++ ['>']) ++ Y)) =
      some (.elem t (canonAttrs as) [], Y) := by
  have := readElem_open .html f t as ('>' :: Y) false Y ht hk hnd ⟨_, Or.inl rfl⟩
    (fun f => readAttrs_end .html f Y)
  simp only [hv, if_true, Bool.false_eq_true, if_false] at this
  simpa using this

/-- script / style -/
theorem readElem_raw (fmt : Fmt) (t body : Str) (as : List (Str × Str)) (ht : isName t = true)
    (hk : ∀ kv ∈ as, isName kv.1 = true) (hnd : keysNodup as = true) (hv : isEmptyTag t = false) (hr : isRawTextTag t = true)
    (hb : NoLt body) (f : Nat) (Y : Str) :
    readElem fmt (f + 1) (t ++ ((writeAttrs fmt as ++ '>' :: (body ++ ("</".toList ++ t ++ ['>']))) ++ Y)) =
      some (.elem t (canonAttrs as) (if body.isEmpty then [] else [.raw body]), Y) := by
  have := readElem_open fmt f t as ('>' :: (body ++ '<' :: '/' :: (t ++ '>' :: Y))) false
    (body ++ '<' :: '/' :: (t ++ '>' :: Y)) ht hk hnd ⟨_, Or.inl rfl⟩ (fun f => readAttrs_end fmt f _)
  have htk := takeWhile_stop (· ≠ '<') body ('<' :: '/' :: (t ++ '>' :: Y)) (by intro c hc; simpa using hb c hc)
    (startsLt_stops (Or.inr ⟨_, rfl⟩))
  have hdr := dropWhile_stop (· ≠ '<') body ('<' :: '/' :: (t ++ '>' :: Y)) (by intro c hc; simpa using hb c hc)
    (startsLt_stops (Or.inr ⟨_, rfl⟩))
  simp only [hv, hr, if_true, Bool.false_eq_true, if_false, htk, hdr, readClose_self, Option.map_some] at this
  simpa using this

/-- any other element: the content is read by `readContent` -/
theorem readElem_normal (fmt : Fmt) (t C : Str) (as : List (Str × Str)) (kids : List RNode) (ht : isName t = true)
    (hk : ∀ kv ∈ as, isName kv.1 = true) (hnd : keysNodup as = true) (hv : isEmptyTag t = false) (hr : isRawTextTag t = false)
    (hC : Reads fmt C kids) (f : Nat) (Y : Str)
    (hf : (t ++ ((writeAttrs fmt as ++ '>' :: (C ++ ("</".toList ++ t ++ ['>']))) ++ Y)).length < f + 1) :
    readElem fmt (f + 1) (t ++ ((writeAttrs fmt as ++ '>' :: (C ++ ("</".toList ++ t ++ ['>']))) ++ Y)) =
      some (.elem t (canonAttrs as) (mergeTexts kids), Y) := by
  have := readElem_open fmt f t as ('>' :: (C ++ '<' :: '/' :: (t ++ '>' :: Y))) false
    (C ++ '<' :: '/' :: (t ++ '>' :: Y)) ht hk hnd ⟨_, Or.inl rfl⟩ (fun f => readAttrs_end fmt f _)
  have hc := hC [] [] ('<' :: '/' :: (t ++ '>' :: Y)) f noLt_nil transp_nil_nil (Or.inr ⟨_, rfl⟩)
    (by simp at hf ⊢; omega)
  simp only [List.nil_append] at hc
  simp only [hv, hr, Bool.false_eq_true, if_false, hc, readClose_self, Option.map_some,
    mergeTexts_nil_text] at this
  simpa using this

/-! ### one element, its children already handled -/

theorem element_none (fmt : Fmt) (t : Str) (attrs : List (Str × Str)) (text : Option Str) (K : Str) :
    element fmt t none attrs text K =
      if fmt = .xhtml && isEmptyTag t then '<' :: (t ++ (writeAttrs fmt (sortAttrs attrs) ++ " />".toList))
      else '<' :: (t ++ (writeAttrs fmt (sortAttrs attrs) ++ '>' ::
        ((if Node.truthy text then (if isRawTextTag t then text.getD [] else escCdata (text.getD [])) else []) ++
          (K ++ (if isEmptyTag t then [] else "</".toList ++ t ++ ['>']))))) := by
  simp only [element]
  split <;> simp

theorem reads_element (fmt : Fmt) (t : Str) (attrs : List (Str × Str)) (text : Option Str) (children : List Node)
    (ht : isName t = true) (hk : attrs.all (fun kv => isName kv.1) = true) (hnd : keysNodup attrs = true)
    (hwf : (if isEmptyTag t then !Node.truthy text && children.isEmpty
            else if isRawTextTag t then children.isEmpty && !(text.getD []).contains '<' else true) = true)
    (hK : Reads fmt (serializeList fmt children) (canonList children))
    (X : Str) (items : List RNode) (h : Reads fmt X items) :
    Reads fmt (element fmt t none attrs text (serializeList fmt children) ++ X)
      ((let as := (sortAttrs attrs).map (fun kv => (kv.1, lenient attr 0 kv.2))
        if isEmptyTag t then [.elem t as []]
        else if isRawTextTag t then [.elem t as (if Node.truthy text then [.raw (text.getD [])] else [])]
        else [.elem t as (mergeTexts (textItem text ++ canonList children))]) ++ items) := by
  have hks : ∀ kv ∈ sortAttrs attrs, isName kv.1 = true := by
    intro kv hkv
    have := mem_sortAttrs attrs kv hkv
    simp only [List.all_eq_true] at hk
    exact hk kv this
  have hns := keysNodup_sortAttrs attrs hnd
  rw [element_none]
  show Reads fmt _ ((if isEmptyTag t then [.elem t (canonAttrs (sortAttrs attrs)) []]
        else if isRawTextTag t then
          [.elem t (canonAttrs (sortAttrs attrs)) (if Node.truthy text then [.raw (text.getD [])] else [])]
        else [.elem t (canonAttrs (sortAttrs attrs)) (mergeTexts (textItem text ++ canonList children))]) ++ items)
  by_cases hv : isEmptyTag t = true
  · simp only [hv, if_true, Bool.and_eq_true, Bool.not_eq_true', List.isEmpty_iff] at hwf ⊢
    obtain ⟨htx, hch⟩ := hwf
    subst hch
    cases fmt with
    | xhtml =>
      have := reads_elem_core .xhtml t (writeAttrs .xhtml (sortAttrs attrs) ++ " />".toList) X _ items ht
        (notText_elem t (canonAttrs (sortAttrs attrs)) [])
        (fun f Y _ => readElem_void_xhtml t _ ht hks hns hv f Y) h
      simpa using this
    | html =>
      have := reads_elem_core .html t (writeAttrs .html (sortAttrs attrs) ++ ['>']) X _ items ht
        (notText_elem t (canonAttrs (sortAttrs attrs)) [])
        (fun f Y _ => readElem_void_html t _ ht hks hns hv f Y) h
      simpa [htx, serializeList] using this
  · have hv' : isEmptyTag t = false := by simpa using hv
    simp only [hv', Bool.false_eq_true, if_false, Bool.and_false] at hwf ⊢
    by_cases hr : isRawTextTag t = true
    · simp only [hr, if_true, Bool.and_eq_true, Bool.not_eq_true', List.isEmpty_iff] at hwf ⊢
      obtain ⟨hch, hlt⟩ := hwf
      subst hch
      have hb : NoLt (if Node.truthy text then text.getD [] else []) := by
        intro c hc e; subst e
        split at hc
        · simp at hlt; exact hlt hc
        · cases hc
      have := reads_elem_core fmt t _ X _ items ht (notText_elem t (canonAttrs (sortAttrs attrs)) _)
        (fun f Y _ => readElem_raw fmt t _ _ ht hks hns hv' hr hb f Y) h
      have he : (if (if Node.truthy text then text.getD [] else []).isEmpty then []
          else [RNode.raw (if Node.truthy text then text.getD [] else [])]) =
          (if Node.truthy text then [RNode.raw (text.getD [])] else []) := by
        rcases text with _ | _ | ⟨c, cs⟩ <;> simp [Node.truthy]
      rw [he] at this
      simpa [serializeList] using this
    · have hr' : isRawTextTag t = false := by simpa using hr
      simp only [hr', Bool.false_eq_true, if_false]
      have hC := reads_textItem fmt text _ _ hK
      have := reads_elem_core fmt t _ X _ items ht (notText_elem t (canonAttrs (sortAttrs attrs)) _)
        (fun f Y hf => readElem_normal fmt t _ _ _ ht hks hns hv' hr' hC f Y hf) h
      simpa using this

/-! ### whole trees -/

mutual
theorem reads_tree (fmt : Fmt) : (n : Node) → WFTree n = true → ∀ (X : Str) (items : List RNode),
    Reads fmt X items → Reads fmt (serialize fmt n ++ X) (canonItems n ++ items)
  | ⟨tag, attrs, text, _, children, tail, _⟩, hwf, X, items, h => by
    simp only [WFTree, Bool.and_eq_true] at hwf
    obtain ⟨htag, hch⟩ := hwf
    have h1 := reads_textItem fmt tail X items h
    have hkids := reads_list fmt children hch
    simp only [serialize, canonItems, List.append_assoc]
    cases tag with
    | comment => exact reads_comment fmt _ _ _ h1
    | pi => exact reads_pi fmt _ _ _ h1
    | none =>
      have h2 := hkids _ _ h1
      have h3 := reads_textItem fmt text _ _ h2
      simpa [List.append_assoc] using h3
    | qname q => simp at htag
    | name t =>
      simp only [Bool.and_eq_true] at htag
      obtain ⟨⟨⟨ht, hk⟩, hnd⟩, hshape⟩ := htag
      have hK := hkids [] [] (reads_nil fmt)
      simp only [List.append_nil] at hK
      exact reads_element fmt t attrs text children ht hk hnd hshape hK _ _ h1
theorem reads_list (fmt : Fmt) : (ns : List Node) → WFList ns = true → ∀ (X : Str) (items : List RNode),
    Reads fmt X items → Reads fmt (serializeList fmt ns ++ X) (canonList ns ++ items)
  | [], _, X, items, h => by simpa [serializeList, canonList] using h
  | n :: r, hwf, X, items, h => by
    simp only [WFList, Bool.and_eq_true] at hwf
    have h1 := reads_list fmt r hwf.2 X items h
    have h2 := reads_tree fmt n hwf.1 _ _ h1
    simpa [serializeList, canonList, List.append_assoc] using h2
end

theorem roundtrip' (fmt : Fmt) (t : Node) (h : WFTree t = true) :
    readForest fmt (serialize fmt t) = some (canon t) := by
  have h1 := reads_tree fmt t h [] [] (reads_nil fmt)
  have h2 := h1 [] [] [] ((serialize fmt t).length + 1) noLt_nil transp_nil_nil (Or.inl rfl) (by simp)
  simp only [List.append_nil, List.nil_append] at h2
  simp only [readForest, h2, mergeTexts_nil_text, canon]

end MdVerif.Ser
