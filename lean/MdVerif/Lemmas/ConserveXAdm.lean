/-
C06 on the extended block parser, part 2: `AdmonitionProcessor.run` on a block with a header line
`!!! class "title"` (`admonitionP … (.re st en g1 g2)`), outside a tight list item: exact accounting of the letters.
Core Lean only.
-/
import MdVerif.Lemmas.ConserveX

namespace MdVerif.ConserveX
open Py Block BlockExt Letters

variable {L : Char → Bool}

/-- one turn of the loop that accounts for the block taken off the queue with the letters `x` -/
structure StepWith (L : Char → Bool) (tab : Nat) (state : List BState) (parent : Node) (x : Str) (rest : List Str)
    (parent' : Node) (blocks' : List Str) : Prop where
  doc : docLetters L parent' ++ queueLetters L blocks' = docLetters L parent ++ x ++ queueLetters L rest
  inv : inv L tab state parent' blocks' = true
  tag : parent'.tag = parent.tag
  tail : parent'.tail = parent.tail

theorem Step.toWith {tab : Nat} {state : List BState} {parent parent' : Node} {b : Str} {rest blocks' : List Str}
    (s : Step L tab state parent b rest parent' blocks') : StepWith L tab state parent (letters L b) rest parent' blocks' :=
  ⟨s.doc, s.inv, s.tag, s.tail⟩

/-- the `div` of an admonition before its content is parsed: class attribute, and the title `p` if there is a title -/
def admDiv (klass : Str) (title : Option Str) : Node :=
  let div : Node := { Node.el "div" with attrs := [(strClass, strAdmonition ++ ' ' :: klass)] }
  if Node.truthy title then
    div.append { mkText "p" (title.getD []) with attrs := [(strClass, "admonition-title".toList)] }
  else div

theorem admDiv_spec (klass : Str) (title : Option Str) :
    nodeOk L (admDiv klass title) = true ∧ docLetters L (admDiv klass title) = optLetters L title ∧
      (admDiv klass title).tag = .name "div".toList ∧ (admDiv klass title).tail = none := by
  simp only [admDiv]
  split
  · rename_i ht
    refine ⟨?_, ?_, rfl, rfl⟩
    · simp [Node.append, mkText, Node.el, nodeOk, localOk, preOk, kidsGood, kidsOk, optLetters, tailSafe, isListTag,
        isItemTag, Node.isTag]
    · cases title with
      | none => simp [Node.truthy] at ht
      | some t =>
        simp [Node.append, mkText, Node.el, docLetters, kidsLetters, textLetters, optLetters]
  · rename_i ht
    refine ⟨elA_nodeOk "div" _, ?_, rfl, rfl⟩
    rw [elA_doc, optLetters_falsy (by simpa using ht)]

/-- **`AdmonitionProcessor.run` on a header line**, not in a tight list item (`state` is not `list`): the text before
    the header is parsed first; the class words `g1` go into an attribute (no letter of them is visible), the title
    (`admClassTitle`: the explicit title `g2`, or — none given — the first class word, capitalised) into a `p`; the
    indented lines after the header are parsed into the `div`, the rest goes back. -/
theorem admonitionP_re_step (h : LetterClass L) {tab : Nat} {pb : PB} (hpb : Conserves L tab pb)
    {state : List BState} {refs refs' : Refs} {parent parent' : Node} {b : Str} {rest blocks' : List Str}
    (hinv : inv L tab state parent (b :: rest) = true) (hnl : isstate state .list = false)
    {st en : Nat} {g1 : Str} {g2 : Option Str}
    (hr : admonitionP tab pb state refs parent b rest (.re st en g1 g2) = some (parent', refs', blocks')) :
    StepWith L tab state parent
      (letters L (b.take st) ++ optLetters L (admClassTitle g1 g2).2 ++ letters L (b.drop en)) rest parent' blocks' := by
  obtain ⟨hok, hpl, hli⟩ := inv_iff.mp hinv
  have hpb' := hpl b (by simp)
  have hplr : ∀ y ∈ rest, plain y = true := fun y hy => hpl y (List.mem_cons_of_mem _ hy)
  obtain ⟨hd1, hd2⟩ := detab_spec h tab (b.drop en)
  obtain ⟨hp1', hp2'⟩ := hd2 (plain_drop hpb' en)
  simp only [admonitionP] at hr
  split at hr
  · cases hr
  · rename_i p1 refs1 heq
    have hp1 : Post L parent p1 (letters L (b.take st)) := by
      split at heq
      · have := hpb state refs parent [b.take st] p1 refs1
          (inv_iff.mpr ⟨hok, by simpa using plain_take hpb' st, listInv_of_not_list hnl _ _⟩) heq
        simpa using this
      · rename_i hst
        have e : st = 0 := by omega
        simp only [Option.some.injEq, Prod.mk.injEq] at heq
        rw [← heq.1, e]
        exact Post.refl hok
    change (match parseChunk pb state refs1 (admDiv (admClassTitle g1 g2).1 (admClassTitle g1 g2).2)
        (detab tab (b.drop en)).1 with
      | some (div, refs) => some (p1.append div, refs,
          if (detab tab (b.drop en)).2.isEmpty then rest else (detab tab (b.drop en)).2 :: rest)
      | none => none) = _ at hr
    obtain ⟨hdn, hdd, hdt, hdl⟩ := admDiv_spec (L := L) (admClassTitle g1 g2).1 (admClassTitle g1 g2).2
    split at hr
    · rename_i div refs2 hch
      cases hr
      have hpd := parseChunk_post h hpb hnl (treeOk_of_nodeOk hdn) hp1' hch
      have hpre : (admDiv (admClassTitle g1 g2).1 (admClassTitle g1 g2).2).isTag "pre" = false := by
        rw [Node.isTag, hdt]; decide
      have hn := hpd.node_ok hdn hpre
      have hcode : div.isTag "code" = false := by
        rw [Node.isTag, hpd.tag, hdt]; decide
      have hp2 := Post.append (L := L) hp1.ok hn hcode
      rw [hpd.doc, hpd.tail, hdd, hdl] at hp2
      have hp := hp1.trans hp2
      refine ⟨?_, inv_iff.mpr ⟨hp.ok, ?_, listInv_of_not_list hnl _ _⟩, hp.tag, hp.tail⟩
      · rw [hp.doc]
        have hq : queueLetters L (if (detab tab (b.drop en)).2.isEmpty then rest else (detab tab (b.drop en)).2 :: rest) =
            letters L (detab tab (b.drop en)).2 ++ queueLetters L rest := by
          split
          · rename_i he; rw [List.isEmpty_iff.mp he]; rfl
          · rfl
        rw [hq, ← hd1]
        simp [optLetters, List.append_assoc]
      · intro y hy
        split at hy
        · exact hplr y hy
        · simp only [List.mem_cons] at hy
          rcases hy with hy | hy
          · rw [hy]; exact hp2'
          · exact hplr y hy
    · cases hr

end MdVerif.ConserveX
