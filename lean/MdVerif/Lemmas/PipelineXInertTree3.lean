/-
`DeepC c` through the dispatcher, `parseBlocksXT`, and the footnote tree processor (`blockStage_tree`): on a text
without `c` the tree handed to the inline stage holds no `c` in any text or tail.  Core Lean only.
-/
import MdVerif.Lemmas.PipelineXInertTree2
import MdVerif.Lemmas.PipelineXInertStage

namespace MdVerif.BlockExt
open Py Block InlineX

variable {c : Char} {pb : PB} {tab : Nat} {state : List BState} {refs : Refs} {parent : Node} {b : Str} {rest : List Str}
  {cfg : XCfg}

theorem nres_pure {x : Node × Refs × List Str} (h : DeepC c x.1) : NRes c (some x) := by
  intro n r rest' e
  injection e with e
  rw [e] at h; exact h

section
variable (hs : BlockSafeC c)
include hs

theorem emptyP_tree (hp : DeepC c parent) : DeepC c (emptyP refs parent b rest).1 := by
  simp only [emptyP]
  split
  · split
    · rename_i _ sib hsib _ code hcode
      have hcodeD := preCode_deep (DeepC_last hp hsib) hcode
      apply DeepC_setCodeText hp hsib hcodeD
      have h1 := fmtOpt_notin hs ((DeepC_iff code).mp hcodeD).1
      have h3 := hs.nl
      split <;> simp [h1, h3]
    · exact hp
  · exact hp

theorem codeP_tree (hb : NoC c b) (hp : DeepC c parent) : DeepC c (codeP tab refs parent b rest).1 := by
  have hesc : c ∉ Block.codeEscape (rstrip (detab tab b).1) :=
    blockCodeEscape_notin hs (fun hm => ok_detab_fst (hc_of hs) tab hb ((rstripP_infix _ _).subset hm))
  have hfresh : DeepC c (parent.append { Node.el "pre" with
      children := [{ Node.el "code" with text := some (Block.codeEscape (rstrip (detab tab b).1) ++ ['\n']), textAtomic := true }] }) := by
    apply DeepC_append hp
    unfold DeepC; rw [deepC_eq]
    simp only [Node.el, optC, deepCs, Bool.true_and, Bool.and_true]
    rw [deepC_eq]
    simp [optC, deepCs, List.contains_iff_mem, hesc, hs.nl]
  simp only [codeP]
  split
  · split
    · rename_i _ sib hsib _ code hcode
      have hcodeD := preCode_deep (DeepC_last hp hsib) hcode
      apply DeepC_setCodeText hp hsib hcodeD
      have h1 := fmtOpt_notin hs ((DeepC_iff code).mp hcodeD).1
      have h3 := hs.nl
      simp [h1, h3, hesc]
    · exact hfresh
  · exact hfresh

theorem setextP_tree (hb : NoC c b) (hp : DeepC c parent) : DeepC c (setextP refs parent b rest).1 := by
  simp only [setextP]
  apply DeepC_append hp
  have : c ∉ strip ((lines b)[0]?.getD []) := by
    intro hm
    have h1 := (stripP_infix _ _).subset hm
    cases h0 : (lines b)[0]? with
    | none => rw [h0] at h1; simp at h1
    | some l =>
      rw [h0] at h1
      exact hb ((mem_lines_infix (List.mem_of_getElem? h0)).subset (by simpa using h1))
  unfold DeepC; rw [deepC_eq]
  simp [hTag, optC, deepCs, List.contains_iff_mem, this]

theorem paraP_tree (hb : NoC c b) (hp : DeepC c parent) : DeepC c (paraP state refs parent b rest).1 := by
  simp only [paraP]
  split
  · exact hp
  · split
    · split
      · rename_i sib hsib
        have hsibD := DeepC_last hp hsib
        apply DeepC_setLast hp
        have h' := (DeepC_iff sib).mp hsibD
        rw [DeepC_iff]
        refine ⟨h'.1, ?_, h'.2.2⟩
        intro s hs'
        cases hs'
        split
        · intro hm
          rcases List.mem_append.mp hm with hm | hm
          · exact fmtOpt_notin hs h'.2.1 hm
          · rcases List.mem_cons.mp hm with hm | hm
            · exact hs.nl hm
            · exact hb hm
        · intro hm
          rcases List.mem_cons.mp hm with hm | hm
          · exact hs.nl hm
          · exact hb hm
      · have h' := (DeepC_iff parent).mp hp
        rw [DeepC_iff]
        refine ⟨?_, h'.2.1, h'.2.2⟩
        intro s hs'
        cases hs'
        split
        · intro hm
          rcases List.mem_append.mp hm with hm | hm
          · exact fmtOpt_notin hs h'.1 hm
          · rcases List.mem_cons.mp hm with hm | hm
            · exact hs.nl hm
            · exact hb hm
        · exact fun hm => hb ((lstripP_infix _ _).subset hm)
    · exact DeepC_append hp (DeepC_mkText _ (fun hm => hb ((lstripP_infix _ _).subset hm)))

omit hs in
theorem zipCells_tree (tag : String) : ∀ (ts : List Str) (as : List (Option Tables.Align)), (∀ t ∈ ts, c ∉ t) →
    ∀ k ∈ zipCells tag ts as, DeepC c k := by
  intro ts
  induction ts with
  | nil => intro as _ k hk; simp [zipCells] at hk
  | cons t ts ih =>
    intro as ht k hk
    cases as with
    | nil => simp [zipCells] at hk
    | cons a as =>
      simp only [zipCells, List.mem_cons] at hk
      rcases hk with hk | hk
      · rw [hk]
        unfold DeepC; rw [deepC_eq]
        simp [cellNode, Node.el, optC, deepCs, List.contains_iff_mem, ht t List.mem_cons_self]
      · exact ih as (fun t' ht' => ht t' (List.mem_cons_of_mem _ ht')) k hk

omit hs in
theorem tableNode_tree (border : Nat) (sep : List Str) (hb : NoC c b) :
    DeepC c (tableNode (Tables.tableRun border sep b)) := by
  obtain ⟨h1, h2⟩ := tableRun_sub border sep b
  simp only [tableNode]
  unfold DeepC; rw [deepC_eq]
  simp only [Node.el, optC, deepCs, Bool.true_and, Bool.and_true]
  refine Bool.and_eq_true_iff.mpr ⟨?_, ?_⟩
  · rw [deepC_eq]
    simp only [optC, deepCs, Bool.true_and, Bool.and_true]
    rw [deepC_eq]
    simp only [optC, Bool.true_and]
    rw [deepCs_iff]
    exact zipCells_tree "th" _ _ (fun t ht hm => hb (h1 t ht _ hm))
  · rw [deepC_eq]
    simp only [optC, Bool.true_and]
    rw [deepCs_iff]
    intro k hk
    obtain ⟨row, hrow, rfl⟩ := List.mem_map.mp hk
    simp only [bodyRow]
    split
    · show DeepC c _
      apply DeepC_children _ (DeepC_el "tr")
      apply zipCells_tree "td"
      intro t ht hm
      obtain ⟨cell, hcell, rfl⟩ := List.mem_map.mp ht
      cases hc' : cell with
      | none => rw [hc'] at hm; simp at hm
      | some t' => rw [hc'] at hm; exact hb (h2 row hrow cell hcell t' hc' _ (by simpa using hm))
    · show DeepC c _
      apply DeepC_children _ (DeepC_el "tr")
      intro k' hk'
      obtain ⟨_, _, rfl⟩ := List.mem_map.mp hk'
      exact DeepC_el _

theorem tailRef_tree (hb : NoC c b) (hp : DeepC c parent) : NRes c (tailRef state refs parent b rest) := by
  simp only [tailRef]
  split
  · exact nres_pure hp
  · exact nres_pure (paraP_tree hs hb hp)

theorem tailAbbr_tree (hb : NoC c b) (hp : DeepC c parent) : NRes c (tailAbbr cfg state refs parent b rest) := by
  simp only [tailAbbr]
  split
  · split
    · exact nres_some hp
    · exact nres_none
    · exact tailRef_tree hs hb hp
  · exact tailRef_tree hs hb hp

theorem tailFootnote_tree (hb : NoC c b) (hp : DeepC c parent) :
    NRes c (tailFootnote cfg state refs parent b rest) := by
  simp only [tailFootnote]
  split
  · split
    · exact nres_some hp
    · exact tailAbbr_tree hs hb hp
  · exact tailAbbr_tree hs hb hp

theorem tailQuote_tree (hn : NSound c pb) (hb : NoC c b) (hp : DeepC c parent) :
    NRes c (tailQuote cfg pb state refs parent b rest) := by
  simp only [tailQuote]
  split
  · exact quoteP_tree hs hn hb hp _
  · exact tailFootnote_tree hs hb hp

theorem tailDef_tree (hn : NSound c pb) (hb : NoC c b) (hp : DeepC c parent) :
    NRes c (tailDef cfg tab pb state refs parent b rest) := by
  simp only [tailDef]
  split
  · split
    · rename_i m hm
      cases hd : defListP tab pb state refs parent b rest m with
      | none => exact tailQuote_tree hs hn hb hp
      | some x => exact defListP_tree hs hn hb hp m hm x hd
    · exact tailQuote_tree hs hn hb hp
  · exact tailQuote_tree hs hn hb hp

theorem tailList_tree (hn : NSound c pb) (hb : NoC c b) (hp : DeepC c parent) :
    NRes c (tailList cfg tab pb state refs parent b rest) := by
  simp only [tailList]
  split
  · split
    · exact listPX_tree hs hn hb hp _ "ol"
    · exact listP_tree hs hn hb hp "ol"
  · split
    · split
      · exact listPX_tree hs hn hb hp _ "ul"
      · exact listP_tree hs hn hb hp "ul"
    · exact tailDef_tree hs hn hb hp

theorem tailEmptyT_tree (tables : Bool) (hn : NSound c pb) (hb : NoC c b) (hp : DeepC c parent) :
    NRes c (tailEmptyT tables cfg tab pb state refs parent b rest) := by
  simp only [tailEmptyT]
  refine nres_ite _ (fun _ => ?_) (fun _ => ?_)
  · exact nres_pure (emptyP_tree hs hp)
  refine nres_ite _ (fun _ => indentP_tree hs hn hb hp) (fun _ => ?_)
  refine nres_ite _ (fun _ => indentPX_tree hs hn hb hp _ _ "dd") (fun _ => ?_)
  refine nres_ite _ (fun _ => ?_) (fun _ => ?_)
  · exact nres_pure (codeP_tree hs hb hp)
  split
  · rename_i bs _
    exact nres_some (DeepC_append hp (tableNode_tree bs.1 bs.2 hb))
  · split
    · rename_i m hm
      exact hashP_tree hs hn hb hp m hm
    · refine nres_ite _ (fun _ => ?_) (fun _ => ?_)
      · exact nres_pure (setextP_tree hs hb hp)
      · split
        · exact hrP_tree hs hn hb hp _
        · exact tailList_tree hs hn hb hp

theorem dispatchXT_tree (tables : Bool) (hn : NSound c pb) (hb : NoC c b) (hp : DeepC c parent) :
    NRes c (dispatchXT tables cfg tab pb state refs parent b rest) := by
  simp only [dispatchXT]
  split
  · rename_i hit hh
    apply admonitionP_tree hs hn hb hp hit
    intro st en g1 g2 he
    split at hh
    · simp only [admTest] at hh
      split at hh
      · rename_i st' en' g1' g2' hsrch
        injection hh with hh
        rw [← hh] at he
        injection he with e1 e2 e3 e4
        subst e1; subst e2; subst e3; subst e4
        exact hsrch
      · split at hh
        · injection hh with hh
          rw [← hh] at he
          cases he
        · cases hh
    · cases hh
  · exact tailEmptyT_tree hs tables hn hb hp

/-- the extended block parser keeps the parent `c`-free on `c`-free blocks -/
theorem parseBlocksXT_tree (tables : Bool) (cfg : XCfg) (tab : Nat) : ∀ fuel, NSound c (parseBlocksXT tables cfg tab fuel) := by
  intro fuel
  induction fuel with
  | zero =>
    intro st refs p bl _ hp n r h
    cases bl with
    | nil => simp only [parseBlocksXT] at h; cases h; exact hp
    | cons b rest => simp only [parseBlocksXT] at h; cases h
  | succ f ih =>
    intro st refs p bl hbl hp n r h
    cases bl with
    | nil => simp only [parseBlocksXT] at h; cases h; exact hp
    | cons b rest =>
      simp only [parseBlocksXT] at h
      have hgood : Good (NoC c) qtTrue (parseBlocksXT tables cfg tab f) (parseBlocksXT tables cfg tab f) :=
        fun _ _ _ _ _ _ => ⟨rfl, fun n _ _ => NI_true n⟩
      obtain ⟨_, s⟩ := dispatchXT_good (cfg := cfg) (tab := tab) (state := st) (refs := refs) (parent := p) tables
        (hc_of hs) (tagsOk_true cfg) (fun _ => tableTagsOk_true) hgood (AllOk.head hbl) (AllOk.tail hbl) (NI_true p)
      have hnr := dispatchXT_tree (cfg := cfg) (tab := tab) (state := st) (refs := refs) (rest := rest) hs tables ih
        (AllOk.head hbl) hp
      cases hd : dispatchXT tables cfg tab (parseBlocksXT tables cfg tab f) st refs p b rest with
      | none => rw [hd] at h; cases h
      | some res =>
        obtain ⟨n', r', bl'⟩ := res
        rw [hd] at h
        exact ih st r' n' bl' (s n' r' bl' hd).2 (hnr n' r' bl' hd) n r h

end

end MdVerif.BlockExt
