/-
C10 with ALL extensions (tables off) on the domain WITH INLINE LINKS, part 5 (worker cf): the compositions along
`PipelineX.convertX` for the generalised token grammar (`Spec/F/NoCtl.lean`) with the invariants of `Props/C10c.lean`
(simple regions behind `](` and `![`), with the parameters of the grammar (`HtmlBound`) instantiated — this file has NO
`variable [HtmlBound]`.  It follows fc1's `Lemmas/F/PlaceholdersXAllF.lean` and g3's `Lemmas/PlaceholdersXCAll.lean`.

1. `convertX_noctl_blkC amp hc`: the composition from the preprocessor facts `PrepOKC amp` (with or without ampersands),
   footnotes on or off, through the block stage (`block_stage_allC`: g3's cut-closed `BlkXC.parseDocumentXT_strs` without
   fenced_code, `XT.block_stage_ownC` with) and `tail_fnC`/`tail_nofnC`; the parameters of the grammar are
   `⟨xs.st.html.length, x.footnotes, amp⟩` (as in `Lemmas/F/PlaceholdersXAllF.lean`, worker amp);
2. the preprocessors: `prepOKC_of` (normalize_whitespace, `XT.fencedRunA_ownC`, and `Extract.extract`, which only
   inserts `;` behind unterminated character references and keeps the regions: `adjCA_semiIns`);
3. on the domains: `convertX_noctl_links_ten` (ALL TEN flags, tables off, sources without `<` and `&`: worker cf's
   statement, now the instance `amp = false`), `convertX_noctl_links_ten_amp` (sources without `<`, no entity material
   inside a region), `convertX_noctl_links_fn` (fenced_code off).

Core Lean only.
-/
import MdVerif.Lemmas.F.PlaceholdersXCFn
import MdVerif.Lemmas.F.PlaceholdersXAllF
import MdVerif.Lemmas.F.PlaceholdersXCTBlock5
import MdVerif.Lemmas.F.PlaceholdersXCTFence
import MdVerif.Spec.F.DomainAmp

namespace MdVerif.NoCtlXCF
open Py
open Inline hiding STX ETX
open InlineX
open MdVerif.NoCtl hiding Bnd BuildOK BuildOKB Clean CleanB Covered DNode DNode.mono DNode.toW DataB Delim DelimB ENode ENode.toS EscOK FMSpec FMSpecB FNode FoundOK FoundOKB GrpOK GrpOK.cut HIOut HIOut.trans HIOutB HISpec HISpecB HIok HIokB HeadOK HeadOK.close IsTok ItemOK ItemOKB ModeOK NestedOK NestedOKB Out Out.set_tail Out.tail OutB OutB.head PPInv PPInv.cons PPInv.reverse PPInvB PPInvB.finish PPOutB PPSpec PPSpecB RInv RInvB RawNode SNode SNode.mono SNode.toW SNodeB SNodeB.mono SNodeB.toW Splice SpliceB StOK StOK.push StOKB StOKB.push StrB StrB.mono StrB.toT StrS StrT StrT.mono StrW StrW.mono SubOK SubOKB TNode Unclean VInv VInvB WF WF.append WF.lstrip WF.mono WF.nil WF.of_noCtl WF.ph WF.plain WF.rstrip WF.split WF.split_aux WF.strip WF.tok WFO WNode WNode.children_irrel WNode.clean WNode.mono WNode.set_tail WNodeB WNodeB.children_irrel WNodeB.clean WNodeB.mono WNodeB.set_tail aNode_snodeB all_clean all_cleanB all_clean_list all_clean_listB applyPatternB_spec applyPattern_spec backtick_stash_ok backtick_stash_okB bnd_cons_right bnd_nil_left bnd_nil_right bnd_snoc_left brNode_raw brNode_snodeB buildB_spec build_spec dataB_of_strB delimB_star delimB_under delim_star delim_under dnode_append dnode_mkEl dnode_setTextOrTail domB_escToken domB_placeholder domChar_inner domS_escToken domS_placeholder domS_tok elStepB_spec elStep_spec emHandleB_spec emHandle_spec emScanB_spec emScan_spec em_stash_ok em_stash_okB enode_append enode_mkEl enode_setTextOrTail escOK_default escape_stash_ok escape_stash_okB find_ph_escToken find_ph_wf fmSpecB fmSpec_of_modeOK forall_DNode_mono forall_DNode_toW forall_SNodeB_mono forall_SNodeB_toW forall_WNode_mono forall_WNode_monoB getD_of_not_truthy grpOK_nil grpOK_strB handleInlineB_spec handleInline_spec hiLoopB_spec hiLoop_spec hiNodeB_spec hiNode_spec hiNodesB_spec hiNodes_spec hiOptB_spec hiOpt_spec hiSpecB hiSpecB_of_fmSpecB hiSpec_false hiSpec_of_fmSpec hiSpec_true inner inner_cases inner_digit inner_ne isTok_escToken isTok_placeholder linebreak_stash_ok linebreak_stash_okB linkHandle_ref_ok linkTextB_spec linkText_spec modeOK_false modeOK_true noCtl_of_wf noCtl_of_wf_no_stx not_strong_stash_ok not_strong_stash_okB parseSubB_spec parseSub_spec petTailB_spec petTail_spec petTextB_spec petText_code petText_spec pet_both pet_bothB ppLoopB_spec ppLoop_spec ppTopB_spec ppTop_spec procKidsB_spec procKids_spec procNodeB_spec procNode_spec processPlaceholdersB_spec processPlaceholders_spec rawNode_of_dnode runLoop_spec runLoop_specB run_spec run_specB sepOK3_placeholder sepOK_placeholder seqDecomp_wf seqMatch_spec seqMatch_specB space_not_inner spliceB_of_span spliceB_out splice_of_span splice_out strB_none strB_zero_of_not_processed strS_nil strT_none strT_of_noCtl strW_append strW_none strW_some strW_zero_of_not_processed subLoopB_spec subLoop_spec subTryB_spec subTry_spec tok_append_split tok_split unclean_setAt_outside unescStep_fnode unescapeKids_fnode_some unescapeText_wf unescapeText_wf_some unescapeTree_fnode unescapeTree_fnode_some visitChild_spec visitChild_specB visitLoop_spec visitLoop_specB visit_tail visit_tailB visit_text visit_textB wf_escToken wf_false_zero_iff wf_placeholder BtSafe btSafe_of_no_stx bt_first_match BtInv btInv_of_done btInv_succ StrC StrTC SNodeC ItemOKC StOKC WNodeC HISpecC strC_none strT_noneC StrC.mono StrTC.mono StrC.toT strT_of_noCtlC OutC HeadOKC WNodeC.set_tail HeadOKC.close OutC.head PPInvC linkTextC_spec NestedOKC PPOutC PPInvC.finish ppLoopC_spec SNodeC.toW forall_SNodeC_toW PPSpecC strC_zero_of_not_processed petTailC_spec petTextC_spec petText_codeC pet_bothC procKidsC_spec procNodeC_spec processPlaceholdersC_spec ppTopC_spec WNodeC.mono forall_WNode_monoC WNodeC.children_irrel WNodeC.clean all_cleanC visit_textC visit_tailC visitChild_specC VInvC visitLoop_specC RInvC runLoop_specC run_specC DataC SpliceC FoundOKC FMSpecC HIOutC HIokC StOKC.push SNodeC.mono forall_SNodeC_mono dataC_of_strC hiOptC_spec hiNodeC_spec hiNodesC_spec elStepC_spec spliceC_out applyPatternC_spec hiLoopC_spec handleInlineC_spec hiSpecC_of_fmSpecC GrpOKC grpOK_nilC GrpOKC.cut seqMatch_specC ENodeC ENodeC.toS grpOK_strC enode_mkElC enode_appendC enode_setTextOrTailC BuildOKC SubOKC subTryC_spec subLoopC_spec parseSubC_spec buildC_spec spliceC_of_span emHandleC_spec emScanC_spec em_stash_okC escape_stash_okC brNode_snodeC linebreak_stash_okC not_strong_stash_okC aNode_snodeC linkHandle_ref_okC snodeC_setAttr imgNode_snodeC imgEl_okC aEl_okC splice_linkC linkHandle_link_okC linkHandle_image_okC imgRefEl_okC linkHandle_imgref_okC backtick_stash_okC fmSpecC hiSpecC
open MdVerif.NoCtlF
open MdVerif.NoCtlXC hiding tok_placeholder qw_splice_data ppLoopQ_spec PPSpecQ petTailQ_spec petTextQ_spec pet_bothQ procKidsQ_spec procNodeQ_spec processPlaceholdersQ_spec ppTopQ_spec findMatchQ FMSpecXB HIokXB HISpecXB hiOptXB_spec hiNodeXB_spec hiNodesXB_spec elStepXB_spec spliceXB_out StepOut applyPatternXB_spec hiLoopXB_spec handleInlineXB_spec hiSpecXB_of_fmSpecXB visit_textXB visit_tailXB visitChildX_specB VInvXB visitLoopX_specB RInvXB runLoopX_specB runX_specB EntrySpecXB fmSpecXB_of_entries btInv_congr dataB_congr spliceB_congr foundOKB_congr entry_core entry_nl labelStr_strB wikiNode_ok entry_wikilink digits_strB noCtl_natToDec noCtl_bumpRef noCtl_uniqueRefLoop noCtl_footnoteRefId aNode2_ok fnRefNode_ok entry_footnote fmSpecXB_inline fmSpecXB_tables hiSpecXB_tables hiSpecXB_inline

/-! ## 1. the composition -/

/-- the regions of the text: `AdjC lax`, and with ampersands no entity material inside a region (`AdjCA` without the
    instance argument) -/
def AdjAmp (amp lax : Bool) (s : Str) : Prop := AdjC lax s ∧ (amp = true → NoEntR s)

instance (amp lax : Bool) (s : Str) : Decidable (AdjAmp amp lax s) := by unfold AdjAmp; infer_instance

/-- **what the preprocessors deliver** on the domain with inline links (normalize_whitespace 30, fenced_code_block 25,
    html_block 20): every raw-HTML placeholder of the text is live and a block of its own, the text is of the domain
    (`amp`: with or without ampersands), its regions are closed and simple (and hold no entity material when `amp`), and
    no stash entry holds STX or ETX -/
def PrepOKC (amp : Bool) (x : PipelineX.Exts) (cfg : Pipeline.Cfg) (src : Str) : Prop :=
  ∀ text stash, PipelineX.prepareX x cfg src = .ok (text, stash) →
    OwnBlock stash.length text ∧ DomAmp amp text ∧ AdjAmp amp false text ∧ Qw x.wikilinks text ∧ ∀ e ∈ stash, NoCtl e

/-- **the block stage on the domain with inline links, all ten flags (tables off)**: g3's cut-closed
    `parseDocumentXT_strs` without fenced_code (any tab length), `XT.block_stage_ownC` with (positive tab length) -/
theorem block_stage_allC [HtmlBound] {x : PipelineX.Exts} (htb : x.tables = false) {cfg : Pipeline.Cfg}
    (htab : x.fencedCode = true → 0 < cfg.tab) {src text : Str} {stash : List Str}
    (hh : stash.length ≤ HtmlBound.h) (hp : PipelineX.prepareX x cfg src = .ok (text, stash))
    (ho : OwnBlock stash.length text) (hd : DomA text) (ha : AdjCA false text) (hq : Qw x.wikilinks text)
    {root : Node} {log : Block.Refs}
    (hb : BlockExt.parseDocumentXT x.tables x.blockCfg cfg.tab text = some (root, log)) :
    root.Forall (FnQC x.wikilinks) ∧ BlkX.LogC NoCtlXF.pDomA (PWC x.wikilinks) log := by
  rw [htb] at hb
  cases hfc : x.fencedCode with
  | true =>
    exact XT.block_stage_ownC x.wikilinks x.blockCfg (htab hfc) (NoCtlXF.XT.ownBlock_mono hh ho) hd ha hq hb
  | false =>
    obtain ⟨-, rfl⟩ := NoCtlX.prepareX_nofence hfc hp
    have hP : PWC x.wikilinks text :=
      ⟨⟨NoCtlXF.allC_pDomA_of (NoCtlXF.noCtl_of_ownBlock_zero ho) hd, ha⟩, hq⟩
    obtain ⟨hroot, hlog⟩ := BlkXC.parseDocumentXT_strs (strDomXC_adjCqA x.wikilinks) x.blockCfg cfg.tab _ hP hb
    exact ⟨Node.Forall.mono (fun _ hn => fnQC_of_bnodeXP hn) root hroot, hlog⟩

/-- **end to end from the preprocessor facts, inline links allowed**, tables off, every other flag arbitrary, with
    (`amp = true`) or without ampersands.  The keys that cut a raw-HTML placeholder must be excluded (`hc = true`) when
    fenced_code is on and when the domain has ampersands. -/
theorem convertX_noctl_blkC (amp hc : Bool) {x : PipelineX.Exts} (htb : x.tables = false) {cfg : Pipeline.Cfg}
    (hcfg : EscOK cfg.esc) (htab : x.fencedCode = true → 0 < cfg.tab)
    {src out : Str} (hprep : PrepOKC amp x cfg src) (habbr : NoCtlXF.AbbrKeysOKH hc x cfg src)
    (hhc1 : x.fencedCode = true → hc = true) (hhc2 : amp = true → hc = true)
    (h : PipelineX.convertX x cfg src = .ok out) : NoCtl out := by
  cases hfn : x.footnotes with
  | true =>
    have hunf := by
      letI : HtmlBound := ⟨0, true, false⟩
      exact NoCtlXF.convertX_fn_ok hfn h
    rcases hunf with rfl | ⟨text, stash, root, log, div, log', t, xs, t', u, html, hp, hb, hm, hr, hdp, hl, hf⟩
    · exact noCtl_nil
    · obtain ⟨ho, hd, ha, hq, he⟩ := hprep text stash hp
      letI : HtmlBound := ⟨xs.st.html.length, x.footnotes, amp⟩
      haveI : FnOn := ⟨hfn⟩
      have hle : stash.length ≤ xs.st.html.length := NoCtlXF.runX_hle hr
      obtain ⟨hrootQ, hlog⟩ := block_stage_allC htb htab hle hp ho (domA_of_domAmp hd) ha hq hb
      refine tail_fnC hfn htb hcfg rfl he hrootQ hlog hm hr rfl hdp hl hf ?_
      intro hhtml hlog' hxa
      have hk := habbr hxa (BlockExt.abbrsOf log')
        (by simp only [NoCtlXF.abbrsX, hp, hb, NoCtlXF.fnLog, hfn, if_true, hm, Option.map_some])
      refine ⟨NoCtlXF.abbrs_noctlA hlog', hk.1, NoCtlXF.noFrnAbbr_spec hk.2 (fun _ => hfn) (fun h0 => ?_)⟩
      cases hamp : amp with
      | true => exact hhc2 hamp
      | false =>
        have e : xs.st.html = stash := hhtml.2 hamp
        have h0' : 0 < xs.st.html.length := h0
        rw [e] at h0'
        exact hhc1 (NoCtlXF.stash_pos_fenced hp h0')
  | false =>
    rcases NoCtlX.convertX_front_ok hfn h with rfl | ⟨text, stash, root, log, t, xs, u, html, hp, hb, hr, hl, hf⟩
    · exact noCtl_nil
    · obtain ⟨ho, hd, ha, hq, he⟩ := hprep text stash hp
      letI : HtmlBound := ⟨xs.st.html.length, x.footnotes, amp⟩
      have hle : stash.length ≤ xs.st.html.length := NoCtlXF.runX_hle hr
      obtain ⟨hrootQ, hlog⟩ := block_stage_allC htb htab hle hp ho (domA_of_domAmp hd) ha hq hb
      refine tail_nofnC hfn hcfg rfl he hrootQ hlog hr rfl hl hf ?_
      intro hhtml hxa
      have hk := habbr hxa (BlockExt.abbrsOf log)
        (by simp only [NoCtlXF.abbrsX, hp, hb, NoCtlXF.fnLog, hfn, Bool.false_eq_true, if_false, Option.map_some])
      refine ⟨NoCtlXF.abbrs_noctlA hlog, hk.1, NoCtlXF.noFrnAbbr_spec hk.2 (fun h1 => h1) (fun h0 => ?_)⟩
      cases hamp : amp with
      | true => exact hhc2 hamp
      | false =>
        have e : xs.st.html = stash := hhtml.2 hamp
        have h0' : 0 < xs.st.html.length := h0
        rw [e] at h0'
        exact hhc1 (NoCtlXF.stash_pos_fenced hp h0')

/-! ## 2. the preprocessors -/

/-- **the preprocessors on the domain with inline links**: normalize_whitespace, the fenced_code preprocessor (when
    enabled; worker cf: `XT.fencedRunA_ownC`), and the raw-HTML preprocessor, which only inserts `;` behind unterminated
    character references: it keeps the regions closed and simple (`;` is a `destChar` and an `altChar`) and, since no
    region holds `&#`, free of entity material (`adjCA_semiIns`) -/
theorem prepOKC_of {amp : Bool} {x : PipelineX.Exts} {cfg : Pipeline.Cfg} {src : Str} (hd : DomAmp amp src)
    (ha : AdjAmp amp false (Normalize.normalize cfg.tab src)) (hq : Qw x.wikilinks (Normalize.normalize cfg.tab src)) :
    PrepOKC amp x cfg src := by
  intro text stash hp
  letI : HtmlBound := ⟨0, false, amp⟩
  have hn : NoCtl (Normalize.normalize cfg.tab src) := normalize_noctl cfg.tab src
  have hdn : DomA (Normalize.normalize cfg.tab src) := domA_of_domAmp (NoCtlXF.domAmp_normalize cfg.tab hd)
  have han : AdjCA false (Normalize.normalize cfg.tab src) := ha
  -- behind the raw-HTML preprocessor
  have key : ∀ t' : Str, OwnBlock stash.length t' → DomA t' → AdjCA false t' → Qw x.wikilinks t' →
      OwnBlock stash.length (Extract.extract t') ∧ DomAmp amp (Extract.extract t') ∧
        AdjAmp amp false (Extract.extract t') ∧ Qw x.wikilinks (Extract.extract t') := by
    intro t' h1 h2 h3 h4
    have hi := extract_semiIns t'
    exact ⟨ownBlock_semiIns hi h1, domAmp_of_domA (domA_semiIns hi h2), adjCA_semiIns hi h3, qw_semiIns hi h4⟩
  unfold PipelineX.prepareX at hp
  simp only at hp
  split at hp
  · cases hp
  · split at hp
    · split at hp
      · cases hp
      · split at hp
        · next t' st hrun =>
          injection hp with hp
          simp only [Prod.mk.injEq] at hp
          obtain ⟨rfl, rfl⟩ := hp
          obtain ⟨⟨o1, o2, o3, o4⟩, o5⟩ := XT.fencedRunA_ownC x.wikilinks hrun hn hdn han hq
          obtain ⟨k1, k2, k3, k4⟩ := key t' o1 o2 o3 o4
          exact ⟨k1, k2, k3, k4, o5⟩
        · cases hp
    · injection hp with hp
      simp only [Prod.mk.injEq] at hp
      obtain ⟨rfl, rfl⟩ := hp
      obtain ⟨k1, k2, k3, k4⟩ := key _ (NoCtlXF.ownBlock_of_noCtl _ hn) hdn han hq
      exact ⟨k1, k2, k3, k4, by simp⟩

/-! ## 3. on the domains -/

/-- **end to end, all ten flags (tables off), on the domain with inline links, without `<` and `&`** (worker cf's
    statement; now the instance `amp = false` of the chain) -/
theorem convertX_noctl_links_ten {x : PipelineX.Exts} (htb : x.tables = false) {cfg : Pipeline.Cfg}
    (hcfg : EscOK cfg.esc) (htab : x.fencedCode = true → 0 < cfg.tab) {src out : Str}
    (hd : C10DomainC cfg.tab src) (hq : Qw x.wikilinks (Normalize.normalize cfg.tab src))
    (habbr : NoCtlXF.AbbrKeysOKA x cfg src) (h : PipelineX.convertX x cfg src = .ok out) : NoCtl out :=
  convertX_noctl_blkC false x.fencedCode htb hcfg htab
    (prepOKC_of (domAmp_of_domB hd.1) ⟨hd.2, fun h => by cases h⟩ hq) habbr (fun h => h) (fun h => by cases h) h

/-- **footnotes × inline links** with fenced_code off (worker cf's statement) -/
theorem convertX_noctl_links_fn {x : PipelineX.Exts} (hfc : x.fencedCode = false) (htb : x.tables = false)
    {cfg : Pipeline.Cfg} (hcfg : EscOK cfg.esc) {src out : Str} (hd : C10DomainC cfg.tab src)
    (hq : Qw x.wikilinks (Normalize.normalize cfg.tab src)) (habbr : NoCtlXF.AbbrKeysOKA x cfg src)
    (h : PipelineX.convertX x cfg src = .ok out) : NoCtl out :=
  convertX_noctl_links_ten htb hcfg (fun h0 => by rw [hfc] at h0; cases h0) hd hq habbr h

/-- **end to end, all ten flags (tables off), on the domain with inline links and ampersands**: no `<`; in the
    normalised text no backslash–backtick, closed simple regions behind `](` and `![` that hold neither `;` nor `&#`; the
    abbreviation keys that cut a raw-HTML placeholder are excluded whether or not fenced_code is on -/
theorem convertX_noctl_links_ten_amp {x : PipelineX.Exts} (htb : x.tables = false) {cfg : Pipeline.Cfg}
    (hcfg : EscOK cfg.esc) (htab : x.fencedCode = true → 0 < cfg.tab) {src out : Str} (hlt : '<' ∉ src)
    (ha : AdjC false (Normalize.normalize cfg.tab src)) (he : NoEntR (Normalize.normalize cfg.tab src))
    (hq : Qw x.wikilinks (Normalize.normalize cfg.tab src))
    (habbr : NoCtlXF.AbbrKeysOKAmp x cfg src) (h : PipelineX.convertX x cfg src = .ok out) : NoCtl out :=
  convertX_noctl_blkC true true htb hcfg htab (prepOKC_of ⟨hlt, fun h => by cases h⟩ ⟨ha, fun _ => he⟩ hq) habbr
    (fun _ => rfl) (fun _ => rfl) h

end MdVerif.NoCtlXCF
