/-
C10 with ALL extensions (tables off) on the domain WITH INLINE LINKS, part 5 (worker cf): the compositions along
`PipelineX.convertX` for the generalised token grammar (`Spec/F/NoCtl.lean`) with the invariants of `Props/C10c.lean`
(simple regions behind `](` and `![`), with the parameters of the grammar (`HtmlBound`) instantiated — this file has NO
`variable [HtmlBound]`.  It follows fc1's `Lemmas/F/PlaceholdersXAllF.lean` and g3's `Lemmas/PlaceholdersXCAll.lean`.

1. `convertX_noctl_of_blockC`: the generic composition from the block-stage facts (tree of `FnQC` elements, log of the
   token-free class `PWC`, stash entries without STX/ETX), footnotes on or off, through `tail_fnC`/`tail_nofnC`;
2. fenced_code off: `block_nofenceC` (g3's cut-closed `BlkXC.parseDocumentXT_strs`), `convertX_noctl_links_fn`:
   footnotes × inline links, nine flags arbitrary.
3. fenced_code on: `block_fenceC` (the preprocessor `XT.fencedRunA_ownC`, `Lemmas/F/PlaceholdersXCTFence.lean`, and the
   block stage on a text with placeholder blocks `XT.block_stage_ownC`, `Lemmas/F/PlaceholdersXCTBlock5.lean`);
   `convertX_noctl_links_ten`: ALL TEN flags (tables off) on the domain with inline links.

Core Lean only.
-/
import MdVerif.Lemmas.F.PlaceholdersXCFn
import MdVerif.Lemmas.F.PlaceholdersXAllF
import MdVerif.Lemmas.F.PlaceholdersXCTBlock5
import MdVerif.Lemmas.F.PlaceholdersXCTFence

namespace MdVerif.NoCtlXCF
open Py
open Inline hiding STX ETX
open InlineX
open MdVerif.NoCtl hiding Bnd BuildOK BuildOKB Clean CleanB Covered DNode DNode.mono DNode.toW DataB Delim DelimB ENode ENode.toS EscOK FMSpec FMSpecB FNode FoundOK FoundOKB GrpOK GrpOK.cut HIOut HIOut.trans HIOutB HISpec HISpecB HIok HIokB HeadOK HeadOK.close IsTok ItemOK ItemOKB ModeOK NestedOK NestedOKB Out Out.set_tail Out.tail OutB OutB.head PPInv PPInv.cons PPInv.reverse PPInvB PPInvB.finish PPOutB PPSpec PPSpecB RInv RInvB RawNode SNode SNode.mono SNode.toW SNodeB SNodeB.mono SNodeB.toW Splice SpliceB StOK StOK.push StOKB StOKB.push StrB StrB.mono StrB.toT StrS StrT StrT.mono StrW StrW.mono SubOK SubOKB TNode Unclean VInv VInvB WF WF.append WF.lstrip WF.mono WF.nil WF.of_noCtl WF.ph WF.plain WF.rstrip WF.split WF.split_aux WF.strip WF.tok WFO WNode WNode.children_irrel WNode.clean WNode.mono WNode.set_tail WNodeB WNodeB.children_irrel WNodeB.clean WNodeB.mono WNodeB.set_tail aNode_snodeB all_clean all_cleanB all_clean_list all_clean_listB applyPatternB_spec applyPattern_spec backtick_stash_ok backtick_stash_okB bnd_cons_right bnd_nil_left bnd_nil_right bnd_snoc_left brNode_raw brNode_snodeB buildB_spec build_spec dataB_of_strB delimB_star delimB_under delim_star delim_under dnode_append dnode_mkEl dnode_setTextOrTail domB_escToken domB_placeholder domChar_inner domS_escToken domS_placeholder domS_tok elStepB_spec elStep_spec emHandleB_spec emHandle_spec emScanB_spec emScan_spec em_stash_ok em_stash_okB enode_append enode_mkEl enode_setTextOrTail escOK_default escape_stash_ok escape_stash_okB find_ph_escToken find_ph_wf fmSpecB fmSpec_of_modeOK forall_DNode_mono forall_DNode_toW forall_SNodeB_mono forall_SNodeB_toW forall_WNode_mono forall_WNode_monoB getD_of_not_truthy grpOK_nil grpOK_strB handleInlineB_spec handleInline_spec hiLoopB_spec hiLoop_spec hiNodeB_spec hiNode_spec hiNodesB_spec hiNodes_spec hiOptB_spec hiOpt_spec hiSpecB hiSpecB_of_fmSpecB hiSpec_false hiSpec_of_fmSpec hiSpec_true inner inner_cases inner_digit inner_ne isTok_escToken isTok_placeholder linebreak_stash_ok linebreak_stash_okB linkHandle_ref_ok linkTextB_spec linkText_spec modeOK_false modeOK_true noCtl_of_wf noCtl_of_wf_no_stx not_strong_stash_ok not_strong_stash_okB parseSubB_spec parseSub_spec petTailB_spec petTail_spec petTextB_spec petText_code petText_spec pet_both pet_bothB ppLoopB_spec ppLoop_spec ppTopB_spec ppTop_spec procKidsB_spec procKids_spec procNodeB_spec procNode_spec processPlaceholdersB_spec processPlaceholders_spec rawNode_of_dnode runLoop_spec runLoop_specB run_spec run_specB sepOK3_placeholder sepOK_placeholder seqDecomp_wf seqMatch_spec seqMatch_specB space_not_inner spliceB_of_span spliceB_out splice_of_span splice_out strB_none strB_zero_of_not_processed strS_nil strT_none strT_of_noCtl strW_append strW_none strW_some strW_zero_of_not_processed subLoopB_spec subLoop_spec subTryB_spec subTry_spec tok_append_split tok_split unclean_setAt_outside unescStep_fnode unescapeKids_fnode_some unescapeText_wf unescapeText_wf_some unescapeTree_fnode unescapeTree_fnode_some visitChild_spec visitChild_specB visitLoop_spec visitLoop_specB visit_tail visit_tailB visit_text visit_textB wf_escToken wf_false_zero_iff wf_placeholder BtSafe btSafe_of_no_stx bt_first_match BtInv btInv_of_done btInv_succ StrC StrTC SNodeC ItemOKC StOKC WNodeC HISpecC strC_none strT_noneC StrC.mono StrTC.mono StrC.toT strT_of_noCtlC OutC HeadOKC WNodeC.set_tail HeadOKC.close OutC.head PPInvC linkTextC_spec NestedOKC PPOutC PPInvC.finish ppLoopC_spec SNodeC.toW forall_SNodeC_toW PPSpecC strC_zero_of_not_processed petTailC_spec petTextC_spec petText_codeC pet_bothC procKidsC_spec procNodeC_spec processPlaceholdersC_spec ppTopC_spec WNodeC.mono forall_WNode_monoC WNodeC.children_irrel WNodeC.clean all_cleanC visit_textC visit_tailC visitChild_specC VInvC visitLoop_specC RInvC runLoop_specC run_specC DataC SpliceC FoundOKC FMSpecC HIOutC HIokC StOKC.push SNodeC.mono forall_SNodeC_mono dataC_of_strC hiOptC_spec hiNodeC_spec hiNodesC_spec elStepC_spec spliceC_out applyPatternC_spec hiLoopC_spec handleInlineC_spec hiSpecC_of_fmSpecC GrpOKC grpOK_nilC GrpOKC.cut seqMatch_specC ENodeC ENodeC.toS grpOK_strC enode_mkElC enode_appendC enode_setTextOrTailC BuildOKC SubOKC subTryC_spec subLoopC_spec parseSubC_spec buildC_spec spliceC_of_span emHandleC_spec emScanC_spec em_stash_okC escape_stash_okC brNode_snodeC linebreak_stash_okC not_strong_stash_okC aNode_snodeC linkHandle_ref_okC snodeC_setAttr imgNode_snodeC imgEl_okC aEl_okC splice_linkC linkHandle_link_okC linkHandle_image_okC imgRefEl_okC linkHandle_imgref_okC backtick_stash_okC fmSpecC hiSpecC
open MdVerif.NoCtlF
open MdVerif.NoCtlXC hiding tok_placeholder qw_splice_data ppLoopQ_spec PPSpecQ petTailQ_spec petTextQ_spec pet_bothQ procKidsQ_spec procNodeQ_spec processPlaceholdersQ_spec ppTopQ_spec findMatchQ FMSpecXB HIokXB HISpecXB hiOptXB_spec hiNodeXB_spec hiNodesXB_spec elStepXB_spec spliceXB_out StepOut applyPatternXB_spec hiLoopXB_spec handleInlineXB_spec hiSpecXB_of_fmSpecXB visit_textXB visit_tailXB visitChildX_specB VInvXB visitLoopX_specB RInvXB runLoopX_specB runX_specB EntrySpecXB fmSpecXB_of_entries btInv_congr dataB_congr spliceB_congr foundOKB_congr entry_core entry_nl labelStr_strB wikiNode_ok entry_wikilink digits_strB noCtl_natToDec noCtl_bumpRef noCtl_uniqueRefLoop noCtl_footnoteRefId aNode2_ok fnRefNode_ok entry_footnote fmSpecXB_inline fmSpecXB_tables hiSpecXB_tables hiSpecXB_inline

/-! ## 1. the generic composition behind the block stage -/

/-- **what the block stage must deliver** for the text and the raw-HTML stash that the preprocessors return: a tree of
    `FnQC` elements and a log of the token-free class `PWC` — for the grammar whose live raw-HTML placeholders are those
    of the stash —, and stash entries without STX/ETX -/
def BlockOKC (x : PipelineX.Exts) (cfg : Pipeline.Cfg) (src : Str) : Prop :=
  ∀ text stash root log, PipelineX.prepareX x cfg src = .ok (text, stash) →
    BlockExt.parseDocumentXT x.tables x.blockCfg cfg.tab text = some (root, log) →
    root.Forall (@FnQC ⟨stash.length, x.footnotes⟩ x.wikilinks) ∧
    BlkX.LogC NoCtlX.pDom (PWC x.wikilinks) log ∧ ∀ e ∈ stash, NoCtl e

/-- **end to end from the block-stage facts**, tables off, every other flag arbitrary -/
theorem convertX_noctl_of_blockC {x : PipelineX.Exts} (htb : x.tables = false) {cfg : Pipeline.Cfg}
    (hcfg : EscOK cfg.esc) {src out : Str} (hblk : BlockOKC x cfg src) (habbr : NoCtlXF.AbbrKeysOKA x cfg src)
    (h : PipelineX.convertX x cfg src = .ok out) : NoCtl out := by
  cases hfn : x.footnotes with
  | true =>
    have hunf := by
      letI : HtmlBound := ⟨0, true⟩
      exact NoCtlXF.convertX_fn_ok hfn h
    rcases hunf with rfl | ⟨text, stash, root, log, div, log', t, xs, t', u, html, hp, hb, hm, hr, hdp, hl, hf⟩
    · exact noCtl_nil
    · obtain ⟨hrootQ, hlog, he⟩ := hblk text stash root log hp hb
      letI : HtmlBound := ⟨stash.length, x.footnotes⟩
      haveI : FnOn := ⟨hfn⟩
      refine tail_fnC hfn htb hcfg ⟨Nat.le_refl _, rfl, he⟩ hrootQ hlog hm hr hdp hl hf ?_
      intro hlog' hxa
      have hk := habbr hxa (BlockExt.abbrsOf log')
        (by simp only [NoCtlXF.abbrsX, hp, hb, NoCtlXF.fnLog, hfn, if_true, hm, Option.map_some])
      exact ⟨NoCtlX.abbrs_noctl hlog', hk.1,
        NoCtlXF.noFrnAbbr_spec hk.2 (fun _ => hfn) (fun h0 => NoCtlXF.stash_pos_fenced hp h0)⟩
  | false =>
    rcases NoCtlX.convertX_front_ok hfn h with rfl | ⟨text, stash, root, log, t, xs, u, html, hp, hb, hr, hl, hf⟩
    · exact noCtl_nil
    · obtain ⟨hrootQ, hlog, he⟩ := hblk text stash root log hp hb
      letI : HtmlBound := ⟨stash.length, x.footnotes⟩
      refine tail_nofnC hfn hcfg ⟨Nat.le_refl _, rfl, he⟩ hrootQ hlog hr hl hf ?_
      intro hxa
      have hk := habbr hxa (BlockExt.abbrsOf log)
        (by simp only [NoCtlXF.abbrsX, hp, hb, NoCtlXF.fnLog, hfn, Bool.false_eq_true, if_false, Option.map_some])
      refine ⟨NoCtlX.abbrs_noctl hlog, hk.1,
        NoCtlXF.noFrnAbbr_spec hk.2 (fun h1 => ?_) (fun h0 => NoCtlXF.stash_pos_fenced hp h0)⟩
      exact h1

/-! ## 2. fenced_code off: footnotes × inline links -/

/-- the block stage without fenced_code on the domain with inline links: g3's cut-closed block stage -/
theorem block_nofenceC {x : PipelineX.Exts} (hfc : x.fencedCode = false) (htb : x.tables = false)
    {cfg : Pipeline.Cfg} {src : Str} (hd : C10DomainC cfg.tab src)
    (hq : Qw x.wikilinks (Normalize.normalize cfg.tab src)) : BlockOKC x cfg src := by
  intro text stash root log hp hb
  obtain ⟨rfl, rfl⟩ := NoCtlX.prepareX_nofence hfc hp
  rw [htb] at hb
  have hP : PWC x.wikilinks (Pipeline.prepare cfg src) :=
    ⟨prepare_domC cfg hd, by rw [prepare_eq_normalize cfg hd]; exact hq⟩
  obtain ⟨hroot, hlog⟩ := BlkXC.parseDocumentXT_strs (strDomXC_adjCq x.wikilinks) x.blockCfg cfg.tab _ hP hb
  letI : HtmlBound := ⟨([] : List Str).length, x.footnotes⟩
  exact ⟨Node.Forall.mono (fun _ hn => fnQC_of_bnodeXP hn) root hroot, hlog, by simp⟩

/-- **footnotes × inline links**: end to end with every extension but fenced_code and tables (footnotes included), on
    the domain of `C10_partial_inline_links` (with wikilinks: no `[` immediately before a blank) -/
theorem convertX_noctl_links_fn {x : PipelineX.Exts} (hfc : x.fencedCode = false) (htb : x.tables = false)
    {cfg : Pipeline.Cfg} (hcfg : EscOK cfg.esc) {src out : Str} (hd : C10DomainC cfg.tab src)
    (hq : Qw x.wikilinks (Normalize.normalize cfg.tab src)) (habbr : NoCtlXF.AbbrKeysOKA x cfg src)
    (h : PipelineX.convertX x cfg src = .ok out) : NoCtl out :=
  convertX_noctl_of_blockC htb hcfg (block_nofenceC hfc htb hd hq) habbr h

/-! ## 3. fenced_code on: all ten flags -/

/-- the block stage with fenced_code on the domain with inline links: the preprocessor writes placeholder blocks and keeps
    the closed regions (`XT.fencedRunA_ownC`), the raw-HTML preprocessor is the identity on a text without `&`, the block
    parser keeps placeholders whole and the log clean (`XT.block_stage_ownC`); positive tab length -/
theorem block_fenceC {x : PipelineX.Exts} (hfc : x.fencedCode = true) (htb : x.tables = false)
    {cfg : Pipeline.Cfg} (htab : 0 < cfg.tab) {src : Str} (hd : C10DomainC cfg.tab src)
    (hq : Qw x.wikilinks (Normalize.normalize cfg.tab src)) : BlockOKC x cfg src := by
  intro text stash root log hp hb
  rw [htb] at hb
  unfold PipelineX.prepareX at hp
  simp only [hfc, if_true] at hp
  split at hp
  · cases hp
  · split at hp
    · cases hp
    · split at hp
      · next t' st hrun =>
        injection hp with hp
        simp only [Prod.mk.injEq] at hp
        obtain ⟨rfl, rfl⟩ := hp
        have h1 := prepare_domC cfg hd
        rw [prepare_eq_normalize cfg hd] at h1
        have h2 := allC_domB h1.1
        obtain ⟨⟨o1, o2, o3, o4⟩, o5⟩ := XT.fencedRunA_ownC x.wikilinks hrun h2.1 h2.2 h1.2 hq
        rw [extract_no_amp (NoCtlXF.amp_not_mem_of_domB o2)] at hb
        letI : HtmlBound := ⟨st.length, x.footnotes⟩
        obtain ⟨hroot, hlog⟩ := XT.block_stage_ownC x.wikilinks x.blockCfg htab o1 o2 o3 o4 hb
        exact ⟨hroot, hlog, o5⟩
      · cases hp

/-- the block stage on the domain with inline links, all ten flags (tables off) -/
theorem block_allC {x : PipelineX.Exts} (htb : x.tables = false) {cfg : Pipeline.Cfg}
    (htab : x.fencedCode = true → 0 < cfg.tab) {src : Str} (hd : C10DomainC cfg.tab src)
    (hq : Qw x.wikilinks (Normalize.normalize cfg.tab src)) : BlockOKC x cfg src := by
  cases hfc : x.fencedCode with
  | false => exact block_nofenceC hfc htb hd hq
  | true => exact block_fenceC hfc htb (htab hfc) hd hq

/-- **end to end, all ten flags (tables off), on the domain with inline links** -/
theorem convertX_noctl_links_ten {x : PipelineX.Exts} (htb : x.tables = false) {cfg : Pipeline.Cfg}
    (hcfg : EscOK cfg.esc) (htab : x.fencedCode = true → 0 < cfg.tab) {src out : Str}
    (hd : C10DomainC cfg.tab src) (hq : Qw x.wikilinks (Normalize.normalize cfg.tab src))
    (habbr : NoCtlXF.AbbrKeysOKA x cfg src) (h : PipelineX.convertX x cfg src = .ok out) : NoCtl out :=
  convertX_noctl_of_blockC htb hcfg (block_allC htb htab hd hq) habbr h

end MdVerif.NoCtlXCF
