/-
Helper lemmas for C10 with AMPERSANDS (worker amp), part 3: the instances of the block-stage theorems (worker b1:
`BlkX.StrDomX`, `BlkX.parseDocumentXT_strs`, abstract in the character class `p`) for the character class
`pDomA c = Blk.okc c && domCharA c` — no STX/ETX, no `<`, and no `&` unless the parameter `HtmlBound.amp` admits it
(`util.code_escape` maps `&` to `&amp;`: `&`, `a`, `m`, `p`, `;` are in the class of code texts `Blk.okc`).
With `HtmlBound.amp = false` this is the class `pDom` of `Lemmas/PlaceholdersXAll.lean`.

Namespace `MdVerif.NoCtlXF`.  Core Lean only.
-/
import MdVerif.Lemmas.PlaceholdersXAll
import MdVerif.Lemmas.F.PlaceholdersAmp

namespace MdVerif.NoCtlXF
variable [MdVerif.NoCtlF.HtmlBound]
set_option linter.unusedSectionVars false
open Py
open MdVerif.NoCtl (STX ETX NoCtl NoCtlO DomB domCharB Adj3 RefsOK attrsNoCtl noCtl_iff adj3_nil adj3_joinNl)
open MdVerif.NoCtlF
open MdVerif.NoCtlX (Qw pDom qw_nil qw_joinNl)

/-- the character class of the domain: no STX/ETX, no `<`; no `&` unless `HtmlBound.amp` -/
abbrev pDomA : Char → Bool := fun c => NoCtl.Blk.okc c && domCharA c

theorem pDomA_of_pDom {c : Char} (h : pDom c = true) : pDomA c = true := by
  simp only [pDom, Bool.and_eq_true] at h
  simp only [pDomA, Bool.and_eq_true]
  exact ⟨h.1, domCharA_of_domCharB h.2⟩

/-- a character of the class other than `&` is in the old class -/
theorem pDom_of_pDomA {c : Char} (h : pDomA c = true) (hc : c ≠ '&') : pDom c = true := by
  simp only [pDomA, domCharA, Bool.and_eq_true, bne_iff_ne, ne_eq] at h
  simp only [pDom, domCharB, Bool.and_eq_true, bne_iff_ne, ne_eq]
  exact ⟨h.1, h.2.1, hc⟩

theorem allC_domA {s : Str} (h : NoCtl.Blk.AllC pDomA s) : NoCtl s ∧ DomA s := by
  refine ⟨noCtl_iff.2 fun c hc => ?_, fun c hc => ?_⟩
  · have := h c hc
    simp only [Bool.and_eq_true] at this
    simpa [NoCtl.Blk.okc] using this.1
  · have := h c hc
    simp only [Bool.and_eq_true] at this
    exact this.2

theorem allC_pDomA_of {s : Str} (hn : NoCtl s) (hd : DomA s) : NoCtl.Blk.AllC pDomA s := by
  intro c hc
  have h1 : c ≠ STX := fun e => hn.1 (e ▸ hc)
  have h2 : c ≠ ETX := fun e => hn.2 (e ▸ hc)
  simp only [Bool.and_eq_true]
  exact ⟨by simp [NoCtl.Blk.okc, h1, h2], hd c hc⟩

theorem allC_pDomA_of_pDom {s : Str} (h : NoCtl.Blk.AllC pDom s) : NoCtl.Blk.AllC pDomA s := fun c hc => pDomA_of_pDom (h c hc)

theorem charDom_domA : NoCtl.Blk.CharDom pDomA NoCtl.Blk.okc := by
  refine NoCtl.Blk.CharDom.ofLits (fun c hc => ?_) ?_ ?_ (by decide)
  · simp only [pDomA, Bool.and_eq_true] at hc; exact hc.1
  · exact pDomA_of_pDom (by decide)
  · exact pDomA_of_pDom (by decide)

/-- the string property that the block parser keeps: characters of the domain, none of the three adjacencies -/
theorem strDom_adj3A : NoCtl.BlkB.StrDom pDomA NoCtl.Blk.okc (fun s => NoCtl.Blk.AllC pDomA s ∧ Adj3 s) where
  chars := charDom_domA
  allc := fun _ hs => hs.1
  nil := ⟨NoCtl.Blk.allC_nil, adj3_nil⟩
  inf := fun _ _ hs ht => ⟨fun c hc => hs.1 c (ht.subset hc), hs.2.infix ht⟩
  joinNl := fun _ _ ha hb =>
    ⟨NoCtl.Blk.allC_append.2 ⟨ha.1, NoCtl.Blk.allC_cons.2 ⟨pDomA_of_pDom (by decide), hb.1⟩⟩, adj3_joinNl ha.2 hb.2⟩

/-- … and (with wikilinks) no `[` immediately before a blank -/
theorem strDom_adj3qA (wl : Bool) : NoCtl.BlkB.StrDom pDomA NoCtl.Blk.okc (fun s => (NoCtl.Blk.AllC pDomA s ∧ Adj3 s) ∧ Qw wl s) where
  chars := charDom_domA
  allc := fun _ hs => hs.1.1
  nil := ⟨strDom_adj3A.nil, qw_nil wl⟩
  inf := fun s t hs ht => ⟨strDom_adj3A.inf s t hs.1 ht, hs.2.infix ht⟩
  joinNl := fun a b ha hb => ⟨strDom_adj3A.joinNl a b ha.1 hb.1, qw_joinNl ha.2 hb.2⟩

theorem litChar_pA {c : Char} (h : NoCtl.BlkX.litChar c = true) : pDomA c = true :=
  pDomA_of_pDom (MdVerif.NoCtlX.litChar_p h)

/-- `str.lower()` stays inside the character class of the domain (`&` is its own lower case) -/
theorem lowerChar_pA (c : Char) (h : pDomA c = true) : ∀ d ∈ lowerChar c, pDomA d = true := by
  by_cases hc : c = '&'
  · subst hc
    intro d hd
    have : lowerChar '&' = ['&'] := by decide
    rw [this, List.mem_singleton] at hd
    subst hd; exact h
  · intro d hd
    exact pDomA_of_pDom (MdVerif.NoCtlX.lowerChar_p c (pDom_of_pDomA h hc) d hd)

/-- the string class that the block stage keeps (characters of the domain, none of the three adjacencies, with
    wikilinks no `[` immediately before a blank) is closed under what the extension processors do -/
theorem strDomX_adj3qA (wl : Bool) : NoCtl.BlkX.StrDomX pDomA NoCtl.Blk.okc (fun s => (NoCtl.Blk.AllC pDomA s ∧ Adj3 s) ∧ Qw wl s) where
  toStrDom := strDom_adj3qA wl
  lower := lowerChar_pA
  lit := fun s hs =>
    ⟨⟨fun c hc => litChar_pA (hs c hc), ((MdVerif.NoCtlX.strDomX_adj3q wl).lit s hs).1.2⟩,
      ((MdVerif.NoCtlX.strDomX_adj3q wl).lit s hs).2⟩

/-! ### from the extended block tree to the invariants of the inline engine -/

theorem attrsNoCtl_of_attrsCA {attrs : List (Str × Str)} (h : NoCtl.BlkX.AttrsC pDomA attrs) : attrsNoCtl attrs :=
  fun kv hkv => ⟨(allC_domA (h kv hkv).1).1, (allC_domA (h kv hkv).2).1⟩

/-- the reference definitions collected by the block parser have urls and titles without STX/ETX -/
theorem refsOK_of_refsCA {refs : Block.Refs} (esc : List Char) (h : NoCtl.Blk.RefsC pDomA refs) :
    RefsOK { esc := esc, refs := refs.reverse } := by
  intro r hr
  have hr' : r ∈ refs := List.mem_reverse.1 hr
  exact ⟨(allC_domA (h r hr').1).1, (allC_domA (h r hr').2).1⟩

theorem refsOK_of_logCA {P : Str → Prop} {log : Block.Refs} (x : PipelineX.Exts) (esc : List Char)
    (h : NoCtl.BlkX.LogC pDomA P log) : RefsOK { esc := esc, refs := (PipelineX.refsX x log).reverse } := by
  apply refsOK_of_refsCA
  unfold PipelineX.refsX
  split
  · exact NoCtl.BlkX.refsOf_c h
  · exact h.refsC

theorem abbrs_noctlA {P : Str → Prop} {log : Block.Refs} (h : NoCtl.BlkX.LogC pDomA P log) :
    ∀ kv ∈ BlockExt.abbrsOf log, NoCtl kv.1 ∧ NoCtl kv.2 :=
  fun kv hkv => ⟨(allC_domA (NoCtl.BlkX.abbrsOf_c h kv hkv).1).1, (allC_domA (NoCtl.BlkX.abbrsOf_c h kv hkv).2).1⟩

end MdVerif.NoCtlXF
