/-
Helper lemmas for C10 with the footnotes extension: left-to-right rewritings that copy tokens keep the token grammar
`WF` of `Spec/F/NoCtl.lean` (`wf_pass`, `wf_replace_char`, `wf_codeEscape`).  The same statements as worker t2's
`wf_pass`/`wf_replace_char` of `Lemmas/PlaceholdersXToc.lean`, for the generalised grammar; they are needed already in the
inline stage (a code span may enclose a footnote token).  Core Lean only.
-/
import MdVerif.Lemmas.PlaceholdersXPost
import MdVerif.Lemmas.F.PlaceholdersBasic

namespace MdVerif.NoCtlF
variable [MdVerif.NoCtlF.HtmlBound]
set_option linter.unusedSectionVars false
open Py
open MdVerif.NoCtl hiding Bnd Clean DNode EscOK FNode FoundOK HISpec IsTok ItemOK RawNode SNode Splice StOK StrW TNode WF WF.append WF.mono WF.nil WF.of_noCtl WF.ph WF.plain WF.split WF.split_aux WF.tok WFO WNode bnd_cons_right bnd_nil_left bnd_nil_right bnd_snoc_left domChar_inner domS_escToken domS_placeholder domS_tok find_ph_escToken find_ph_wf inner inner_digit inner_ne isTok_escToken isTok_placeholder noCtl_of_wf tok_append_split tok_split wf_escToken wf_false_zero_iff wf_placeholder
open MdVerif.NoCtlX (replaceAux_append_of_not_mem)

/-- a character that is neither STX nor ETX nor an inner character of tokens does not occur in a token -/
theorem not_mem_tok {t : Str} (ht : IsTok t) {x : Char} (h1 : x ≠ STX) (h2 : x ≠ ETX) (h3 : inner x = false) : x ∉ t := by
  obtain ⟨body, rfl, hb⟩ := ht
  intro hm
  rcases List.mem_cons.1 hm with e | hm
  · exact h1 e
  · rcases List.mem_append.1 hm with hm | hm
    · rw [hb x hm] at h3; cases h3
    · exact h2 (List.mem_singleton.1 hm)

/-- a left-to-right rewriting that copies tokens and writes a string without STX/ETX for every ordinary character
    keeps `WF` -/
theorem wf_pass {esc : Bool} {k : Nat} {f : Str → Str} (hnil : f [] = [])
    (hplain : ∀ c s, c ≠ STX → c ≠ ETX → ∃ lit, NoCtl lit ∧ f (c :: s) = lit ++ f s)
    (htok : ∀ t s, IsTok t → f (t ++ s) = t ++ f s) {s : Str} (h : WF esc k s) : WF esc k (f s) := by
  induction h with
  | nil => rw [hnil]; exact .nil
  | plain c s h1 h2 _ ih =>
    obtain ⟨lit, hl, e⟩ := hplain c s h1 h2
    rw [e]; exact (WF.of_noCtl hl).append ih
  | ph i s hi _ ih => rw [htok _ _ (isTok_placeholder i)]; exact .ph i _ hi ih
  | tok v s he hv _ ih => rw [htok _ _ (isTok_escToken v)]; exact .tok v _ he hv ih
  | frn b s hb _ ih => rw [htok _ _ (isTok_frnToken hb)]; exact .frn b _ hb ih

/-- `str.replace` of a single ordinary character by a string without STX/ETX -/
theorem wf_replace_char {esc : Bool} {k : Nat} {x : Char} {lit : Str} (h1 : x ≠ STX) (h2 : x ≠ ETX)
    (h3 : inner x = false) (hl : NoCtl lit) {s : Str} (h : WF esc k s) : WF esc k (replace s [x] lit) := by
  have e : ∀ s, replace s [x] lit = replaceAux [x] lit 0 s := fun _ => rfl
  rw [e]
  refine wf_pass (f := replaceAux [x] lit 0) rfl ?_ ?_ h
  · intro c s hc1 hc2
    rw [replaceAux_zero_cons]
    split
    · exact ⟨lit, hl, rfl⟩
    · exact ⟨[c], noCtl_cons.2 ⟨⟨hc1, hc2⟩, noCtl_nil⟩, rfl⟩
  · intro t s ht
    exact replaceAux_append_of_not_mem (not_mem_tok ht h1 h2 h3) s

/-- `util.code_escape` replaces `&`, `<`, `>`: none of them occurs inside a token -/
theorem wf_codeEscape {esc : Bool} {k : Nat} {s : Str} (h : WF esc k s) : WF esc k (Inline.codeEscape s) := by
  unfold Inline.codeEscape
  exact wf_replace_char (by decide) (by decide) (by decide) (by decide)
    (wf_replace_char (by decide) (by decide) (by decide) (by decide)
      (wf_replace_char (by decide) (by decide) (by decide) (by decide) h))

end MdVerif.NoCtlF
