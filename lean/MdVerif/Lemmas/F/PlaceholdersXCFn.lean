/-
C10 with ALL extensions (tables off) on the domain WITH INLINE LINKS, part 1 (worker cf): the stages that the footnotes
extension adds to `PipelineX.treeX` and the generic tails behind the block parser, with the invariants of `Props/C10c.lean`
(`AdjCA`: simple regions behind `](` and `![`) over the generalised token grammar of `Spec/F/NoCtl.lean` (foreign
tokens: the two footnote tokens, live raw-HTML placeholders).  It is `Lemmas/F/PlaceholdersXFn.lean` (workers ff, fc1) with
`Adj3` replaced by `AdjCA`:

* `PWC wl`: the token-free string class of the block stage (characters of the domain, no backslash–backtick, CLOSED simple
  regions, with wikilinks no `[` before a blank) — g3's class of `Lemmas/PlaceholdersXCAll.lean`;
* `FnQC wl`: an element of the tree before the inline stage: F-`WNodeC 0`, `QN`, only `code` elements have an atomic
  text, a non-atomic text is made of ordinary characters and foreign tokens AND its regions are closed (`AdjCA false`):
  `NBSP_PLACEHOLDER` is appended to such a text, and a token appended to an OPEN region would break it
  (`regionsOK_append_closed`: STX is neither a `destChar` nor an `altChar`);
* `makeLis_specC`, `makeDiv_specC` (footnote bodies are block-parsed by `parseChunkX`: g3's cut-closed
  `BlkXC.parseChunkXT_strs`, hence `x.tables = false`), `placeDiv` through ff's generic `placeDiv_forall`;
* the inline stage: `NoCtlXCF.runX_specB`/`hiSpecXB_tables` (`Lemmas/F/PlaceholdersXC{Run,FM}.lean`), then
  `fnodeA_of_wnodeC` and the late stages of `Lemmas/F/PlaceholdersX{Fn,Late}.lean` unchanged (they only need F-`NoCtlF.FNodeX`):
  `tail_fnC`, `tail_nofnC`.

Core Lean only.
-/
import MdVerif.Lemmas.PlaceholdersXCAll
import MdVerif.Lemmas.F.PlaceholdersXCFM
import MdVerif.Lemmas.F.PlaceholdersXFn
import MdVerif.Lemmas.F.PlaceholdersAmpBlockC

namespace MdVerif.NoCtlXCF
variable [MdVerif.NoCtlF.HtmlBound]
set_option linter.unusedSectionVars false
open Py
open Inline hiding STX ETX
open InlineX
open MdVerif.NoCtl hiding Bnd BuildOK BuildOKB Clean CleanB Covered DNode DNode.mono DNode.toW DataB Delim DelimB ENode ENode.toS EscOK FMSpec FMSpecB FNode FoundOK FoundOKB GrpOK GrpOK.cut HIOut HIOut.trans HIOutB HISpec HISpecB HIok HIokB HeadOK HeadOK.close IsTok ItemOK ItemOKB ModeOK NestedOK NestedOKB Out Out.set_tail Out.tail OutB OutB.head PPInv PPInv.cons PPInv.reverse PPInvB PPInvB.finish PPOutB PPSpec PPSpecB RInv RInvB RawNode SNode SNode.mono SNode.toW SNodeB SNodeB.mono SNodeB.toW Splice SpliceB StOK StOK.push StOKB StOKB.push StrB StrB.mono StrB.toT StrS StrT StrT.mono StrW StrW.mono SubOK SubOKB TNode Unclean VInv VInvB WF WF.append WF.lstrip WF.mono WF.nil WF.of_noCtl WF.ph WF.plain WF.rstrip WF.split WF.split_aux WF.strip WF.tok WFO WNode WNode.children_irrel WNode.clean WNode.mono WNode.set_tail WNodeB WNodeB.children_irrel WNodeB.clean WNodeB.mono WNodeB.set_tail aNode_snodeB all_clean all_cleanB all_clean_list all_clean_listB applyPatternB_spec applyPattern_spec backtick_stash_ok backtick_stash_okB bnd_cons_right bnd_nil_left bnd_nil_right bnd_snoc_left brNode_raw brNode_snodeB buildB_spec build_spec dataB_of_strB delimB_star delimB_under delim_star delim_under dnode_append dnode_mkEl dnode_setTextOrTail domB_escToken domB_placeholder domChar_inner domS_escToken domS_placeholder domS_tok elStepB_spec elStep_spec emHandleB_spec emHandle_spec emScanB_spec emScan_spec em_stash_ok em_stash_okB enode_append enode_mkEl enode_setTextOrTail escOK_default escape_stash_ok escape_stash_okB find_ph_escToken find_ph_wf fmSpecB fmSpec_of_modeOK forall_DNode_mono forall_DNode_toW forall_SNodeB_mono forall_SNodeB_toW forall_WNode_mono forall_WNode_monoB getD_of_not_truthy grpOK_nil grpOK_strB handleInlineB_spec handleInline_spec hiLoopB_spec hiLoop_spec hiNodeB_spec hiNode_spec hiNodesB_spec hiNodes_spec hiOptB_spec hiOpt_spec hiSpecB hiSpecB_of_fmSpecB hiSpec_false hiSpec_of_fmSpec hiSpec_true inner inner_cases inner_digit inner_ne isTok_escToken isTok_placeholder linebreak_stash_ok linebreak_stash_okB linkHandle_ref_ok linkTextB_spec linkText_spec modeOK_false modeOK_true noCtl_of_wf noCtl_of_wf_no_stx not_strong_stash_ok not_strong_stash_okB parseSubB_spec parseSub_spec petTailB_spec petTail_spec petTextB_spec petText_code petText_spec pet_both pet_bothB ppLoopB_spec ppLoop_spec ppTopB_spec ppTop_spec procKidsB_spec procKids_spec procNodeB_spec procNode_spec processPlaceholdersB_spec processPlaceholders_spec rawNode_of_dnode runLoop_spec runLoop_specB run_spec run_specB sepOK3_placeholder sepOK_placeholder seqDecomp_wf seqMatch_spec seqMatch_specB space_not_inner spliceB_of_span spliceB_out splice_of_span splice_out strB_none strB_zero_of_not_processed strS_nil strT_none strT_of_noCtl strW_append strW_none strW_some strW_zero_of_not_processed subLoopB_spec subLoop_spec subTryB_spec subTry_spec tok_append_split tok_split unclean_setAt_outside unescStep_fnode unescapeKids_fnode_some unescapeText_wf unescapeText_wf_some unescapeTree_fnode unescapeTree_fnode_some visitChild_spec visitChild_specB visitLoop_spec visitLoop_specB visit_tail visit_tailB visit_text visit_textB wf_escToken wf_false_zero_iff wf_placeholder BtSafe btSafe_of_no_stx bt_first_match BtInv btInv_of_done btInv_succ StrC StrTC SNodeC ItemOKC StOKC WNodeC HISpecC strC_none strT_noneC StrC.mono StrTC.mono StrC.toT strT_of_noCtlC OutC HeadOKC WNodeC.set_tail HeadOKC.close OutC.head PPInvC linkTextC_spec NestedOKC PPOutC PPInvC.finish ppLoopC_spec SNodeC.toW forall_SNodeC_toW PPSpecC strC_zero_of_not_processed petTailC_spec petTextC_spec petText_codeC pet_bothC procKidsC_spec procNodeC_spec processPlaceholdersC_spec ppTopC_spec WNodeC.mono forall_WNode_monoC WNodeC.children_irrel WNodeC.clean all_cleanC visit_textC visit_tailC visitChild_specC VInvC visitLoop_specC RInvC runLoop_specC run_specC DataC SpliceC FoundOKC FMSpecC HIOutC HIokC StOKC.push SNodeC.mono forall_SNodeC_mono dataC_of_strC hiOptC_spec hiNodeC_spec hiNodesC_spec elStepC_spec spliceC_out applyPatternC_spec hiLoopC_spec handleInlineC_spec hiSpecC_of_fmSpecC GrpOKC grpOK_nilC GrpOKC.cut seqMatch_specC ENodeC ENodeC.toS grpOK_strC enode_mkElC enode_appendC enode_setTextOrTailC BuildOKC SubOKC subTryC_spec subLoopC_spec parseSubC_spec buildC_spec spliceC_of_span emHandleC_spec emScanC_spec em_stash_okC escape_stash_okC brNode_snodeC linebreak_stash_okC not_strong_stash_okC aNode_snodeC linkHandle_ref_okC snodeC_setAttr imgNode_snodeC imgEl_okC aEl_okC splice_linkC linkHandle_link_okC linkHandle_image_okC imgRefEl_okC linkHandle_imgref_okC backtick_stash_okC fmSpecC hiSpecC
open MdVerif.NoCtlF
open MdVerif.NoCtlXF (pDomA allC_domA attrsNoCtl_of_attrsCA refsOK_of_logCA abbrs_noctlA)
open MdVerif.NoCtlXC hiding tok_placeholder qw_splice_data ppLoopQ_spec PPSpecQ petTailQ_spec petTextQ_spec pet_bothQ procKidsQ_spec procNodeQ_spec processPlaceholdersQ_spec ppTopQ_spec findMatchQ FMSpecXB HIokXB HISpecXB hiOptXB_spec hiNodeXB_spec hiNodesXB_spec elStepXB_spec spliceXB_out StepOut applyPatternXB_spec hiLoopXB_spec handleInlineXB_spec hiSpecXB_of_fmSpecXB visit_textXB visit_tailXB visitChildX_specB VInvXB visitLoopX_specB RInvXB runLoopX_specB runX_specB EntrySpecXB fmSpecXB_of_entries btInv_congr dataB_congr spliceB_congr foundOKB_congr entry_core entry_nl labelStr_strB wikiNode_ok entry_wikilink digits_strB noCtl_natToDec noCtl_bumpRef noCtl_uniqueRefLoop noCtl_footnoteRefId aNode2_ok fnRefNode_ok entry_footnote fmSpecXB_inline fmSpecXB_tables hiSpecXB_tables hiSpecXB_inline

/-! ## 0. a token behind closed regions -/

theorem headOK_append_closed {lax : Bool} {c : Char} {a b : Str} (h : headOK false c a = true)
    (h1 : b.head? ≠ some '(') (h2 : b.head? ≠ some '[') : headOK lax c (a ++ b) = true := by
  by_cases hc1 : c = ']'
  · subst hc1
    cases a with
    | nil =>
      cases b with
      | nil => exact headOK_nil _ _
      | cons x b' => exact headOK_bracket_ne (fun e => h1 (by simp [e])) _
    | cons x a' =>
      by_cases hx : x = '('
      · subst hx
        rw [headOK_bracket] at h
        rw [List.cons_append, headOK_bracket]
        exact destClose_ext a' _ h
      · rw [List.cons_append]; exact headOK_bracket_ne hx _
  · by_cases hc2 : c = '!'
    · subst hc2
      cases a with
      | nil =>
        cases b with
        | nil => exact headOK_nil _ _
        | cons x b' => exact headOK_bang_ne (fun e => h2 (by simp [e])) _
      | cons x a' =>
        by_cases hx : x = '['
        · subst hx
          rw [headOK_bang] at h
          rw [List.cons_append, headOK_bang]
          exact altClose_ext a' _ h
        · rw [List.cons_append]; exact headOK_bang_ne hx _
    · exact headOK_of_ne hc1 hc2 _

/-- behind a string whose regions are all CLOSED anything may follow that does not start with `(` or `[` -/
theorem regionsOK_append_closed {lax : Bool} {a b : Str} (ha : regionsOK false a = true) (hb : regionsOK lax b = true)
    (h1 : b.head? ≠ some '(') (h2 : b.head? ≠ some '[') : regionsOK lax (a ++ b) = true := by
  induction a with
  | nil => exact hb
  | cons c r ih =>
    rw [regionsOK_cons, Bool.and_eq_true] at ha
    rw [List.cons_append, regionsOK_cons, Bool.and_eq_true]
    exact ⟨headOK_append_closed ha.1 h1 h2, ih ha.2⟩

/-! ## 1. the block tree and `FootnoteTreeprocessor` -/

/-- the string class that the block stage keeps on the domain of `C10_partial_inline_links` (+ wikilinks) -/
abbrev PWC (wl : Bool) : Str → Prop := fun s => (Blk.AllC pDomA s ∧ AdjCA false s) ∧ Qw wl s

/-- an element of the tree before the inline stage: `WNodeC 0` of the generalised grammar, `QN`, only `code` elements
    have an atomic text, a non-atomic text is made of ordinary characters and foreign tokens and its regions are closed -/
def FnQC (wl : Bool) (n : Node) : Prop :=
  WNodeC 0 n ∧ QN wl n ∧ (n.textAtomic = true → isCode n = true) ∧
  (n.textAtomic = false → WFO false 0 n.text ∧ AdjCA false (n.text.getD []))

theorem fnQC_of_bnodeXP {wl : Bool} {n : Node} (h : BlkX.BNodeXP pDomA Blk.okc (PWC wl) n) : FnQC wl n := by
  obtain ⟨⟨b1, b2, b3, b4, b5, b6, b7⟩, p1, p2⟩ := h
  have htail := allC_domA p1.1.1
  refine ⟨⟨b1, attrsNoCtl_of_attrsCA b2, b3, strT_of_noCtlC htail.1 htail.2 p1.1.2.lax, ?_,
    fun hc => b7 (by simpa [isCode] using hc)⟩, ⟨fun ha => (p2 ha).2, p1.2⟩, ?_, ?_⟩
  · split
    · rename_i hat
      rw [if_pos hat] at b5
      exact WF.of_noCtl (allC_okc b5)
    · rename_i hat
      have hat' : n.textAtomic = false := by simpa using hat
      have ht := p2 hat'
      have htx := allC_domA ht.1.1
      exact strT_of_noCtlC htx.1 htx.2 ht.1.2.lax
  · intro ha
    have := b6 ha
    simp [isCode, this]
  · intro ha
    exact ⟨WF.of_noCtl (allC_domA (p2 ha).1.1).1, (p2 ha).1.2⟩

theorem fnQC_kids {wl : Bool} {n : Node} (h : FnQC wl n) (kids : List Node) : FnQC wl { n with children := kids } := h

theorem fnQC_untail {wl : Bool} {n : Node} (h : FnQC wl n) : FnQC wl { n with tail := none, tailAtomic := false } := by
  obtain ⟨⟨h1, h2, h3, h4, h5, h6⟩, ⟨q1, q2⟩, h7, h8⟩ := h
  exact ⟨⟨h1, h2, rfl, strT_noneC 0, h5, h6⟩, ⟨q1, by intro hw; exact noPair_nil _ _⟩, h7, h8⟩

/-- a new element with a literal tag (not `code`), attributes without STX/ETX, no text, no tail -/
theorem fnQC_lit {wl : Bool} (tag : String) (attrs : List (Str × Str)) (kids : List Node) (ht : NoCtl tag.toList)
    (hc : (Tag.name tag.toList == Tag.name "code".toList) = false) (ha : attrsNoCtl attrs) :
    FnQC wl { FootnotesTree.el tag with attrs := attrs, children := kids } := by
  refine ⟨⟨ht, ha, rfl, strT_noneC 0, ?_, ?_⟩, ⟨fun _ _ => noPair_nil _ _, fun _ => noPair_nil _ _⟩, ?_,
    fun _ => ⟨.nil, adjCA_nil false⟩⟩
  · show (if false = true then _ else _)
    simp only [Bool.false_eq_true, if_false]
    exact strT_noneC 0
  · intro h
    simp only [isCode, FootnotesTree.el] at h
    rw [hc] at h; cases h
  · intro h; cases h

section FnOn
/-! `FootnoteTreeprocessor` only runs when footnotes is enabled: the grammar admits footnote tokens -/
variable [FnOn]

/-- a string of ordinary characters and foreign tokens, of the domain, is a string of the tree -/
theorem strTC_of_fwf {k : Nat} {s : Str} (h : WF false 0 s) (hd : DomA s) (ha : AdjCA true s) : StrTC k (some s) :=
  ⟨WF.mono (Nat.zero_le _) (by simp) h, hd, ha, btSafe_of_wf h⟩

/-- `NBSP_PLACEHOLDER` behind the text of a `p` -/
theorem fnQC_nbsp {wl : Bool} {node : Node} {t : Str} (h : FnQC wl node) (hp : node.isTag "p" = true)
    (ht : node.text = some t) :
    FnQC wl { node with text := some (t ++ FootnotesTree.nbspPlaceholder), textAtomic := false } := by
  obtain ⟨⟨h1, h2, h3, h4, h5, h6⟩, ⟨q1, q2⟩, h7, h8⟩ := h
  have hnc : isCode node = false := by
    simp only [Node.isTag, beq_iff_eq] at hp
    simp [isCode, hp]
  have hna : node.textAtomic = false := by
    cases hq : node.textAtomic with
    | false => rfl
    | true => rw [h7 hq] at hnc; cases hnc
  rw [hna] at h5
  simp only [Bool.false_eq_true, if_false] at h5
  have hs : StrTC 0 (some t) := by rw [← ht]; exact h5
  have hw0 : WF false 0 t := by have := (h8 hna).1; rw [ht] at this; exact this
  have hc0 : AdjCA false t := by have := (h8 hna).2; rw [ht] at this; exact this
  have hq : Qw wl t := by have := q1 hna; rw [ht] at this; exact this
  have hnew : WF false 0 (t ++ FootnotesTree.nbspPlaceholder) := hw0.append NoCtlXF.wf_nbsp
  have hdom : DomA (t ++ FootnotesTree.nbspPlaceholder) := domA_append.2 ⟨hs.2.1, domA_of_domB (by decide)⟩
  have hadj : AdjCA false (t ++ FootnotesTree.nbspPlaceholder) :=
    ⟨⟨noAdj_append hc0.1.1 (by decide) (.inr (by decide)),
     regionsOK_append_closed hc0.1.2 (by decide) (by decide) (by decide)⟩,
     noEntA_append_tok hc0.2 headStop_of_stx (by decide) (by decide)⟩
  refine ⟨⟨h1, h2, h3, h4, ?_, ?_⟩, ⟨fun _ hw => ?_, q2⟩, fun hx => (by cases hx), fun _ => ⟨hnew, hadj⟩⟩
  · show (if false = true then _ else _)
    simp only [Bool.false_eq_true, if_false]
    exact strTC_of_fwf hnew hdom hadj.lax
  · intro hc
    have : isCode node = true := hc
    rw [hnc] at this; cases this
  · exact noPair_append (hq hw) (by decide) (.inr (by decide))

/-- ids without STX/ETX give a back-link element of the class -/
theorem backlink_fnQC {wl : Bool} {id : Str} (hid : NoCtl id) (index : Nat) :
    (FootnotesTree.backlink id index).Forall (FnQC wl) := by
  rw [Node.forall_iff]
  refine ⟨?_, by intro c hc; cases hc⟩
  have hnew : WF false 0 FootnotesTree.fnBacklinkText := NoCtlXF.wf_backlinkText
  refine ⟨⟨(by decide : NoCtl "a".toList), ?_, rfl, strT_noneC 0, ?_, ?_⟩,
    ⟨fun _ _ => (by decide : NoPair '[' ' ' FootnotesTree.fnBacklinkText), fun _ => noPair_nil _ _⟩,
    fun h => (by cases h), fun _ => ⟨hnew, ⟨(by decide : AdjC false FootnotesTree.fnBacklinkText),
      noEntA_of_noEntR (by decide : NoEntR FootnotesTree.fnBacklinkText)⟩⟩⟩
  · intro kv hkv
    simp only [FootnotesTree.backlink, List.mem_cons, List.not_mem_nil, or_false] at hkv
    rcases hkv with rfl | rfl | rfl
    · refine ⟨(by decide : NoCtl "href".toList), ?_⟩
      show NoCtl ('#' :: (Footnotes.fnref ++ ':' :: id))
      exact noCtl_cons.2 ⟨by decide, noCtl_append.2 ⟨by decide, noCtl_cons.2 ⟨by decide, hid⟩⟩⟩
    · exact ⟨(by decide : NoCtl "class".toList), (by decide : NoCtl "footnote-backref".toList)⟩
    · refine ⟨(by decide : NoCtl "title".toList), ?_⟩
      exact noCtl_append.2 ⟨noCtl_append.2 ⟨by decide, NoCtlX.natToDec_noctl index⟩, by decide⟩
  · show (if false = true then _ else _)
    simp only [Bool.false_eq_true, if_false]
    exact strTC_of_fwf hnew (domA_of_domB (by decide))
      ⟨(by decide : AdjC true FootnotesTree.fnBacklinkText),
        noEntA_of_noEntR (by decide : NoEntR FootnotesTree.fnBacklinkText)⟩
  · intro hc; exact absurd (show (Tag.name "a".toList == Tag.name "code".toList) = true from hc) (by decide)

theorem addBacklink_fnQC {wl : Bool} {li bl li' : Node} (hli : li.Forall (FnQC wl)) (hbl : bl.Forall (FnQC wl))
    (h : FootnotesTree.addBacklink li bl = some li') : li'.Forall (FnQC wl) :=
  NoCtlX.addBacklink_forall hli hbl (fun _ kids hn => fnQC_kids hn kids)
    (by
      have := fnQC_lit (wl := wl) "p" [] [] (by decide) (by decide) (fun _ h => by cases h)
      exact this)
    (fun node t hn hp ht => fnQC_nbsp hn hp ht) h

/-- the loop of `makeFootnotesDiv`: every `li` is a tree of `FnQC` elements, the log keeps its class -/
theorem makeLis_specC (x : PipelineX.Exts) (htb : x.tables = false) (cfg : Pipeline.Cfg) (wl : Bool) :
    ∀ (l : List (Str × Str)) (index : Nat) (log : Block.Refs) {lis : List Node} {log' : Block.Refs},
      (∀ kv ∈ l, Blk.AllC pDomA kv.1 ∧ PWC wl kv.2) → BlkX.LogC pDomA (PWC wl) log →
      FootnotesTree.makeLis (PipelineX.parseChunkX x cfg) PipelineX.fnCount l index log = .ok (lis, log') →
      (∀ li ∈ lis, li.Forall (FnQC wl)) ∧ BlkX.LogC pDomA (PWC wl) log'
  | [], _, log, lis, log', _, hlog, h => by
    simp only [FootnotesTree.makeLis, FootnotesTree.R.ok.injEq, Prod.mk.injEq] at h
    obtain ⟨rfl, rfl⟩ := h
    exact ⟨(by intro li hli; cases hli), hlog⟩
  | (id, text) :: rest, index, log, lis, log', hl, hlog, h => by
    have hkv := hl (id, text) List.mem_cons_self
    unfold FootnotesTree.makeLis at h
    split at h
    · cases h
    · next sur log1 hparse =>
      split at h
      · cases h
      · dsimp only at h
        split at h
        · cases h
        · next li' hadd =>
          split at h
          · next lis2 log2 hrest =>
            simp only [FootnotesTree.R.ok.injEq, Prod.mk.injEq] at h
            obtain ⟨rfl, rfl⟩ := h
            unfold PipelineX.parseChunkX at hparse
            rw [htb] at hparse
            obtain ⟨hsur, hlog1⟩ := BlkXC.parseChunkXT_strs (strDomXC_adjCqA wl) x.blockCfg cfg.tab _ log hlog
              text hkv.2 hparse
            obtain ⟨ih1, ih2⟩ := makeLis_specC x htb cfg wl rest (index + 1) log1
              (fun kv hkv => hl kv (List.mem_cons_of_mem _ hkv)) hlog1 hrest
            refine ⟨?_, ih2⟩
            intro li hli
            rcases List.mem_cons.1 hli with rfl | hli
            · refine addBacklink_fnQC ?_ (backlink_fnQC (allC_domA hkv.1).1 index) hadd
              rw [Node.forall_iff]
              refine ⟨?_, ?_⟩
              · refine fnQC_lit "li" _ _ (by decide) (by decide) ?_
                intro kv hkv'
                simp only [List.mem_singleton] at hkv'
                subst hkv'
                exact ⟨(by decide : NoCtl "id".toList), noCtl_cons.2 ⟨by decide, noCtl_cons.2 ⟨by decide, noCtl_cons.2 ⟨by decide,
                  (allC_domA hkv.1).1⟩⟩⟩⟩
              · intro c hc
                have hsur' := (Node.forall_iff _ _).1 hsur
                exact Node.Forall.mono (fun _ hn => fnQC_of_bnodeXP hn) c (hsur'.2 c hc)
            · exact ih1 li hli
          · cases h
          · cases h

/-- `makeFootnotesDiv` -/
theorem makeDiv_specC (x : PipelineX.Exts) (htb : x.tables = false) (cfg : Pipeline.Cfg) (wl : Bool) {log : Block.Refs}
    (hlog : BlkX.LogC pDomA (PWC wl) log) {div : Option Node} {log' : Block.Refs}
    (h : FootnotesTree.makeDiv (PipelineX.parseChunkX x cfg) PipelineX.fnCount (BlockExt.footnotesOf log) log =
      .ok (div, log')) :
    (∀ d, div = some d → d.Forall (FnQC wl)) ∧ BlkX.LogC pDomA (PWC wl) log' := by
  unfold FootnotesTree.makeDiv at h
  split at h
  · simp only [FootnotesTree.R.ok.injEq, Prod.mk.injEq] at h
    obtain ⟨rfl, rfl⟩ := h
    exact ⟨fun d hd => (by cases hd), hlog⟩
  · split at h
    · next lis log2 hl =>
      simp only [FootnotesTree.R.ok.injEq, Prod.mk.injEq] at h
      obtain ⟨rfl, rfl⟩ := h
      obtain ⟨h1, h2⟩ := makeLis_specC x htb cfg wl _ 1 log (NoCtlXF.footnotesOf_P hlog) hlog hl
      refine ⟨?_, h2⟩
      intro d hd
      simp only [Option.some.injEq] at hd
      subst hd
      rw [Node.forall_iff]
      refine ⟨fnQC_lit "div" _ _ (by decide) (by decide) ?_, ?_⟩
      · intro kv hkv
        simp only [List.mem_singleton] at hkv
        subst hkv
        exact ⟨(by decide : NoCtl "class".toList), (by decide : NoCtl "footnote".toList)⟩
      · intro c hc
        simp only [List.mem_cons, List.not_mem_nil, or_false] at hc
        rcases hc with rfl | rfl
        · rw [Node.forall_iff]
          exact ⟨fnQC_lit "hr" [] [] (by decide) (by decide) (fun _ h => by cases h), (by intro c hc; cases hc)⟩
        · rw [Node.forall_iff]
          exact ⟨fnQC_lit "ol" [] lis (by decide) (by decide) (fun _ h => by cases h), h1⟩
    · cases h
    · cases h

end FnOn

/-! ## 2. behind the inline stage -/

theorem fnodeA_of_wnodeC {n : Node} (h : WNodeC 0 n) : NoCtlXF.FNodeA n := by
  obtain ⟨h1, h2, h3, h4, h5, h6⟩ := h
  refine ⟨⟨h1, NoCtlXF.attrsTok_of_noCtl h2, h4.1, ?_, ?_⟩, h2⟩
  · by_cases hat : n.textAtomic = true
    · rw [if_pos hat] at h5; exact WF.mono (Nat.le_refl _) (by simp) h5
    · rw [if_neg hat] at h5; exact h5.1
  · intro hc
    have hat := h6 hc
    rw [if_pos hat] at h5; exact h5

theorem fnodeX_of_wnodeC {n : Node} (h : WNodeC 0 n) : NoCtlF.FNodeX n := (fnodeA_of_wnodeC h).1

/-- **the stages behind the block parser with footnotes on, inline links allowed**: block tree of `FnQC` elements
    (texts and tails of the domain with foreign tokens, closed simple regions), log of the token-free class `PWC`, the entries
    of the raw-HTML stash of the preprocessors free of STX/ETX, `HtmlBound.h` the length of the raw-HTML stash behind the
    inline stage; whatever the rest of `convertX` answers contains neither STX
    nor ETX -/
theorem tail_fnC [FnOn] {x : PipelineX.Exts} (hfn : x.footnotes = true) (htb : x.tables = false) {cfg : Pipeline.Cfg}
    (hcfg : EscOK cfg.esc) {stash : List Str} (hfnb : HtmlBound.fn = x.footnotes) (hent : ∀ e ∈ stash, NoCtl e)
    {root : Node} {log log' : Block.Refs} {div : Option Node}
    (hroot : root.Forall (FnQC x.wikilinks)) (hlog : BlkX.LogC pDomA (PWC x.wikilinks) log)
    (hm : FootnotesTree.makeDiv (PipelineX.parseChunkX x cfg) PipelineX.fnCount (BlockExt.footnotesOf log) log =
      .ok (div, log'))
    {t t' u : Node} {xs : InlineX.XSt} {html : List Str} {out : Str}
    (hr : InlineX.runX (NoCtlX.xcX x cfg log') (NoCtlXF.fnRoot root div) stash = some (t, xs))
    (hh : HtmlBound.h = xs.st.html.length)
    (hdp : FootnotesTree.duplicates xs.fn t = some t')
    (hl : NoCtlX.lateX x cfg (BlockExt.abbrsOf log') t' xs.st.html = .ok u html)
    (hf : PipelineX.finishX x cfg html (Ser.serialize cfg.fmt u) = .ok out)
    (habbr : HtmlOK xs.st.html stash → BlkX.LogC pDomA (PWC x.wikilinks) log' →
      NoCtlXF.AbbrTabOK x (BlockExt.abbrsOf log')) :
    NoCtl out := by
  obtain ⟨hdiv, hlog'⟩ := makeDiv_specC x htb cfg x.wikilinks hlog hm
  have hfr : (NoCtlXF.fnRoot root div).Forall (FnQC x.wikilinks) := by
    cases div with
    | none => exact hroot
    | some d =>
      exact NoCtlXF.placeDiv_forall (fun _ hn => fnQC_untail hn) (fun _ kids hn => fnQC_kids hn kids) hroot (hdiv d rfl)
  have htree : (NoCtlXF.fnRoot root div).Forall (WNodeC 0) := Node.Forall.mono (fun _ hn => hn.1) _ hfr
  have htreeq : (NoCtlXF.fnRoot root div).Forall (QN x.wikilinks) := Node.Forall.mono (fun _ hn => hn.2.1) _ hfr
  have hkeys : ∀ k ∈ (NoCtlX.xcX x cfg log').fnKeys, NoCtl k := by
    intro k hk
    simp only [List.mem_map] at hk
    obtain ⟨kv, hkv, rfl⟩ := hk
    exact (allC_domA (BlkX.footnotesOf_c hlog' kv hkv).1).1
  have hhi := hiSpecXB_tables (xc := NoCtlX.xcX x cfg log') (NoCtlXF.escOK_escX x hcfg)
    (refsOK_of_logCA x _ hlog') hkeys (fn := x.footnotes) (wl := x.wikilinks) (nl := x.nl2br) rfl
  obtain ⟨ht, hhtml⟩ := runX_specB hhi htree htreeq hr (Nat.le_of_eq hh.symm)
  have htA : t'.Forall NoCtlXF.FNodeA :=
    NoCtlXF.duplicates_fnodeA xs.fn t (Node.Forall.mono (fun _ hn => fnodeA_of_wnodeC hn) t ht) hdp
  have htX : t'.Forall NoCtlF.FNodeX := Node.Forall.mono (fun _ hn => hn.1) t' htA
  have hst : NoCtlXF.StashOK x xs.st.html := ⟨Nat.le_of_eq hh, hfnb, hhtml.noCtl hent⟩
  exact NoCtlXF.late_noctl_st cfg hst (habbr hhtml hlog') htX hl hf

/-- **the stages behind the block parser with footnotes off, inline links allowed** -/
theorem tail_nofnC {x : PipelineX.Exts} (hfn : x.footnotes = false) {cfg : Pipeline.Cfg} (hcfg : EscOK cfg.esc)
    {stash : List Str} (hfnb : HtmlBound.fn = x.footnotes) (hent : ∀ e ∈ stash, NoCtl e)
    {root : Node} {log : Block.Refs}
    (hroot : root.Forall (FnQC x.wikilinks)) (hlog : BlkX.LogC pDomA (PWC x.wikilinks) log)
    {t u : Node} {xs : InlineX.XSt} {html : List Str} {out : Str}
    (hr : InlineX.runX (NoCtlX.xcX x cfg log) root stash = some (t, xs))
    (hh : HtmlBound.h = xs.st.html.length)
    (hl : NoCtlX.lateX x cfg (BlockExt.abbrsOf log) t xs.st.html = .ok u html)
    (hf : PipelineX.finishX x cfg html (Ser.serialize cfg.fmt u) = .ok out)
    (habbr : HtmlOK xs.st.html stash → NoCtlXF.AbbrTabOK x (BlockExt.abbrsOf log)) : NoCtl out := by
  have htree : root.Forall (WNodeC 0) := Node.Forall.mono (fun _ hn => hn.1) _ hroot
  have htreeq : root.Forall (QN x.wikilinks) := Node.Forall.mono (fun _ hn => hn.2.1) _ hroot
  have hkeys : ∀ k ∈ (NoCtlX.xcX x cfg log).fnKeys, NoCtl k := by
    intro k hk
    simp only [List.mem_map] at hk
    obtain ⟨kv, hkv, rfl⟩ := hk
    exact (allC_domA (BlkX.footnotesOf_c hlog kv hkv).1).1
  have hhi := hiSpecXB_tables (xc := NoCtlX.xcX x cfg log) (NoCtlXF.escOK_escX x hcfg)
    (refsOK_of_logCA x _ hlog) hkeys (fn := x.footnotes) (wl := x.wikilinks) (nl := x.nl2br) rfl
  obtain ⟨ht, hhtml⟩ := runX_specB hhi htree htreeq hr (Nat.le_of_eq hh.symm)
  have htX : t.Forall NoCtlF.FNodeX := Node.Forall.mono (fun _ hn => fnodeX_of_wnodeC hn) t ht
  have hst : NoCtlXF.StashOK x xs.st.html := ⟨Nat.le_of_eq hh, hfnb, hhtml.noCtl hent⟩
  exact NoCtlXF.late_noctl_st cfg hst (habbr hhtml) htX hl hf

end MdVerif.NoCtlXCF
