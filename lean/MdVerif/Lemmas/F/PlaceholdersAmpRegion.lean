/-
Helper lemmas for C10 with AMPERSANDS and INLINE LINKS (worker amp): the regions behind `](` and `![` in a text with
ampersands (`Spec/F/RegionsAmp.lean`: `NoEntR`, `AdjCA`).

* `NoEntR` is closed under infixes, newline-joins, replacing ANY stretch by a string that starts with STX and holds no
  `]`/`!` (every placeholder), appending such a string, and under the `;`-insertions of the raw-HTML preprocessor
  (`noEntR_semiIns`); `RegionsOK` is closed under those insertions as well (`regionsOK_semiIns`: `;` is a `destChar` and
  an `altChar`, and an insertion point is never behind a closing title quote).
* the entity pattern: a match `&…;` (all its characters are `destChar`s: it does not `break`) in a text with `NoEntR`
  lies in no region, so any placeholder may stand in its place: `regionsOK_replace_ent`, `adjCA_replace_ent`.
* `AdjCA`: the twins of the `AdjC` lemmas that the F twins of the C chain use.

Namespace `MdVerif.NoCtlF`.  Core Lean only.
-/
import MdVerif.Spec.F.RegionsAmp
import MdVerif.Lemmas.PlaceholdersCAdj
import MdVerif.Lemmas.F.PlaceholdersAmpExtract

namespace MdVerif.NoCtlF
open Py
open MdVerif.NoCtl (STX ETX NoCtl NoPair NoAdj Adj3 SepOK3 destChar altChar destClose destClose1 destClose2 altClose
  regionsOK RegionsOK AdjC headOK breaks noPair_iff)

/-! ### characters and runs -/

theorem cleanR_iff {t : Str} : cleanR t = true ↔ ';' ∉ t ∧ NoPair '&' '#' t := by
  unfold cleanR NoPair
  simp only [Bool.and_eq_true, Bool.not_eq_true', List.contains_eq_mem, decide_eq_false_iff_not]

theorem cleanR_nil : cleanR [] = true := by decide

theorem cleanR_prefix {a b : Str} (h : cleanR (a ++ b) = true) : cleanR a = true := by
  rw [cleanR_iff] at h ⊢
  exact ⟨fun hm => h.1 (List.mem_append_left _ hm), h.2.infix ⟨[], b, by simp⟩⟩

theorem cleanR_of_prefix {a b : Str} (hp : a <+: b) (h : cleanR b = true) : cleanR a = true := by
  obtain ⟨t, rfl⟩ := hp
  exact cleanR_prefix h

/-- the run of `p` characters of `a` is a prefix of the run of `a ++ b` -/
theorem takeWhile_prefix_append (p : Char → Bool) : ∀ (a b : Str), a.takeWhile p <+: (a ++ b).takeWhile p
  | [], b => by simp
  | c :: a, b => by
    rw [List.cons_append, List.takeWhile_cons, List.takeWhile_cons]
    split
    · exact (List.cons_prefix_cons).2 ⟨rfl, takeWhile_prefix_append p a b⟩
    · exact List.nil_prefix

/-- a run stops at a character outside the class -/
theorem takeWhile_append_stop {p : Char → Bool} {d : Char} (hd : p d = false) :
    ∀ (a b : Str), (a ++ d :: b).takeWhile p = a.takeWhile p
  | [], b => by simp [List.takeWhile_cons, hd]
  | c :: a, b => by
    rw [List.cons_append, List.takeWhile_cons, List.takeWhile_cons]
    split
    · rw [takeWhile_append_stop hd a b]
    · rfl

theorem takeWhile_append_of_all {p : Char → Bool} : ∀ {a : Str}, (∀ c ∈ a, p c = true) → ∀ b : Str,
    (a ++ b).takeWhile p = a ++ b.takeWhile p
  | [], _, b => rfl
  | c :: a, h, b => by
    rw [List.cons_append, List.takeWhile_cons, h c (by simp)]
    simp only [if_true, List.cons_append]
    rw [takeWhile_append_of_all (fun d hd => h d (by simp [hd])) b]

theorem takeWhile_append_of_not_all {p : Char → Bool} : ∀ {a : Str}, ¬ (∀ c ∈ a, p c = true) → ∀ b : Str,
    (a ++ b).takeWhile p = a.takeWhile p
  | [], h, _ => absurd (by simp) h
  | c :: a, h, b => by
    rw [List.cons_append, List.takeWhile_cons, List.takeWhile_cons]
    split
    · next hc =>
      rw [takeWhile_append_of_not_all (a := a) (fun h' => h (fun d hd => by
        rcases List.mem_cons.1 hd with rfl | hd
        · exact hc
        · exact h' d hd)) b]
    · rfl

theorem rcChar_of_dest {c : Char} (h : destChar c = true) : rcChar c = true := by simp [rcChar, h]

theorem rcChar_quote {q : Char} (hq : q = '"' ∨ q = '\'') : rcChar q = true := by
  rcases hq with rfl | rfl <;> decide

theorem alnum_dest {c : Char} (h : isAsciiAlnum c = true) : destChar c = true := by
  have := alnum_ne h
  simp only [destChar, Bool.and_eq_true, bne_iff_ne, ne_eq]
  refine ⟨⟨⟨⟨⟨⟨⟨⟨⟨⟨⟨⟨this.2.2.1, this.2.2.2.1⟩, this.2.2.2.2.2.2.2.2.2.2.1⟩, this.2.2.2.2.2.2.2.2.2.2.2.1⟩,
    this.2.2.2.2.2.1⟩, this.2.2.2.2.2.2.1⟩, this.2.2.2.2.2.2.2.1⟩, this.2.2.2.2.2.2.2.2.1⟩, ?_⟩, ?_⟩,
    this.2.2.2.2.2.2.2.2.2.2.2.2.1⟩, this.1⟩, this.2.1⟩
  · rintro rfl; revert h; decide
  · rintro rfl; revert h; decide

/-- the characters of an entity, and of the chunk `&#name`, are `destChar`s -/
theorem entChar_dest {c : Char} (h : c = '&' ∨ c = ';' ∨ c = '#' ∨ isAsciiAlnum c = true) : destChar c = true := by
  rcases h with rfl | rfl | rfl | h
  · decide
  · decide
  · decide
  · exact alnum_dest h

theorem entM_dest {M : Str} (h : EntM M) : ∀ c ∈ M, destChar c = true := fun c hc => entChar_dest (h.chars c hc)

theorem chunk_dest {name : Str} (hname : ∀ c ∈ name, isAsciiAlnum c = true) :
    ∀ c ∈ ('&' :: '#' :: name), destChar c = true := by
  intro c hc
  simp only [List.mem_cons] at hc
  rcases hc with rfl | rfl | hc
  · decide
  · decide
  · exact alnum_dest (hname c hc)

/-! ### the check at one character -/

/-- the check that `noEntR` makes at one character -/
def headE (c : Char) (r : Str) : Bool :=
  match c, r with
  | ']', '(' :: r' => cleanR (r'.takeWhile rcChar)
  | '!', '[' :: r' => cleanR (r'.takeWhile altChar)
  | _, _ => true

theorem noEntR_cons (c : Char) (r : Str) : noEntR (c :: r) = (headE c r && noEntR r) := rfl

theorem headE_of_ne {c : Char} (h1 : c ≠ ']') (h2 : c ≠ '!') (r : Str) : headE c r = true := by
  unfold headE
  split
  · exact absurd rfl h1
  · exact absurd rfl h2
  · rfl

theorem headE_bracket (r : Str) : headE ']' ('(' :: r) = cleanR (r.takeWhile rcChar) := rfl

theorem headE_bang (r : Str) : headE '!' ('[' :: r) = cleanR (r.takeWhile altChar) := rfl

theorem headE_bracket_ne {x : Char} (hx : x ≠ '(') (r : Str) : headE ']' (x :: r) = true := by
  unfold headE
  split
  · rename_i h; injection h with h1 _; exact absurd h1 hx
  · rename_i h _; exact absurd h (by decide)
  · rfl

theorem headE_bang_ne {x : Char} (hx : x ≠ '[') (r : Str) : headE '!' (x :: r) = true := by
  unfold headE
  split
  · rename_i h _; exact absurd h (by decide)
  · rename_i h; injection h with h1 _; exact absurd h1 hx
  · rfl

theorem headE_nil (c : Char) : headE c [] = true := by
  unfold headE
  split <;> first | rfl | (rename_i h; cases h)

/-- the check only looks at a run: it survives when the string behind it is cut or changed behind a character that
    ends every run -/
theorem headE_prefix (c : Char) (a b : Str) (h : headE c (a ++ b) = true) : headE c a = true := by
  by_cases h1 : c = ']'
  · subst h1
    cases a with
    | nil => exact headE_nil _
    | cons x a' =>
      by_cases hx : x = '('
      · subst hx
        rw [List.cons_append, headE_bracket] at h
        rw [headE_bracket]
        exact cleanR_of_prefix (takeWhile_prefix_append _ a' b) h
      · exact headE_bracket_ne hx _
  · by_cases h2 : c = '!'
    · subst h2
      cases a with
      | nil => exact headE_nil _
      | cons x a' =>
        by_cases hx : x = '['
        · subst hx
          rw [List.cons_append, headE_bang] at h
          rw [headE_bang]
          exact cleanR_of_prefix (takeWhile_prefix_append _ a' b) h
        · exact headE_bang_ne hx _
    · exact headE_of_ne h1 h2 _

/-- behind `a`, a string that starts with a character `d` outside both classes, other than `(` and `[` -/
theorem headE_stop {c : Char} {a : Str} {d : Char} (hd1 : rcChar d = false) (hd2 : altChar d = false) (hd3 : d ≠ '(')
    (hd4 : d ≠ '[') (b : Str) (h : headE c a = true) : headE c (a ++ d :: b) = true := by
  by_cases h1 : c = ']'
  · subst h1
    cases a with
    | nil => exact headE_bracket_ne hd3 _
    | cons x a' =>
      by_cases hx : x = '('
      · subst hx
        rw [headE_bracket] at h
        rw [List.cons_append, headE_bracket, takeWhile_append_stop hd1]
        exact h
      · exact headE_bracket_ne hx _
  · by_cases h2 : c = '!'
    · subst h2
      cases a with
      | nil => exact headE_bang_ne hd4 _
      | cons x a' =>
        by_cases hx : x = '['
        · subst hx
          rw [headE_bang] at h
          rw [List.cons_append, headE_bang, takeWhile_append_stop hd2]
          exact h
        · exact headE_bang_ne hx _
    · exact headE_of_ne h1 h2 _

/-! ### `NoEntR`: closure -/

theorem noEntR_nil : NoEntR [] := rfl

theorem noEntR_suffix : ∀ (x y : Str), noEntR (x ++ y) = true → noEntR y = true
  | [], _, h => h
  | c :: x, y, h => by
    rw [List.cons_append, noEntR_cons, Bool.and_eq_true] at h
    exact noEntR_suffix x y h.2

theorem noEntR_prefix : ∀ (x y : Str), noEntR (x ++ y) = true → noEntR x = true
  | [], _, _ => rfl
  | c :: x, y, h => by
    rw [List.cons_append, noEntR_cons, Bool.and_eq_true] at h
    rw [noEntR_cons, Bool.and_eq_true]
    exact ⟨headE_prefix c x y h.1, noEntR_prefix x y h.2⟩

theorem NoEntR.infix {s t : Str} (h : NoEntR s) (ht : t <:+: s) : NoEntR t := by
  obtain ⟨u, v, rfl⟩ := ht
  rw [List.append_assoc] at h
  exact noEntR_prefix t v (noEntR_suffix u _ h)

/-- a string without `]` and `!` opens no region -/
theorem noEntR_append_plain : ∀ (T Y : Str), ']' ∉ T → '!' ∉ T → noEntR (T ++ Y) = noEntR Y
  | [], _, _, _ => rfl
  | c :: T, Y, h1, h2 => by
    rw [List.cons_append, noEntR_cons, headE_of_ne (fun e => h1 (by simp [e])) (fun e => h2 (by simp [e])),
      Bool.true_and]
    exact noEntR_append_plain T Y (fun hm => h1 (List.mem_cons_of_mem _ hm)) (fun hm => h2 (List.mem_cons_of_mem _ hm))

theorem noEntR_of_plain {T : Str} (h1 : ']' ∉ T) (h2 : '!' ∉ T) : NoEntR T := by
  have := noEntR_append_plain T [] h1 h2
  rw [List.append_nil] at this
  exact this.trans rfl

theorem stx_not_rc : rcChar STX = false := by decide
theorem stx_not_alt : altChar STX = false := by decide
theorem nl_not_rc : rcChar '\n' = false := by decide
theorem nl_not_alt : altChar '\n' = false := by decide

/-- behind a text, a string that starts with a character that ends every run (STX, line feed) -/
theorem noEntR_append_stop {d : Char} (hd1 : rcChar d = false) (hd2 : altChar d = false) (hd3 : d ≠ '(')
    (hd4 : d ≠ '[') {b : Str} (hb : noEntR (d :: b) = true) : ∀ a : Str, noEntR a = true → noEntR (a ++ d :: b) = true
  | [], _ => hb
  | c :: a, h => by
    rw [noEntR_cons, Bool.and_eq_true] at h
    rw [List.cons_append, noEntR_cons, Bool.and_eq_true]
    exact ⟨headE_stop hd1 hd2 hd3 hd4 b h.1, noEntR_append_stop hd1 hd2 hd3 hd4 hb a h.2⟩

/-- **newline-joins** -/
theorem noEntR_joinNl {a b : Str} (ha : NoEntR a) (hb : NoEntR b) : NoEntR (a ++ '\n' :: b) := by
  refine noEntR_append_stop nl_not_rc nl_not_alt (by decide) (by decide) ?_ a ha
  rw [noEntR_cons, headE_of_ne (by decide) (by decide), Bool.true_and]
  exact hb

theorem headStop_of_stx {r : Str} : HeadStop (STX :: r) := ⟨STX, r, rfl, by decide⟩

theorem headStop_of_head {T : Str} (h : T.head? = some STX) : HeadStop T := by
  cases T with
  | nil => cases h
  | cons c T' => simp only [List.head?_cons, Option.some.injEq] at h; subst h; exact headStop_of_stx

theorem headStop_placeholder (i : Nat) : HeadStop (Inline.placeholder i) := by
  unfold Inline.placeholder Inline.phPrefix
  exact headStop_of_stx

/-- **replace**: ANY stretch `M` may be replaced by a string that starts with a `stopChar` (STX, `*`, `_` …) and holds
    neither `]` nor `!` -/
theorem noEntR_replace {X M Y T : Str} (h : NoEntR (X ++ M ++ Y)) (hT : HeadStop T) (h1 : ']' ∉ T)
    (h2 : '!' ∉ T) : NoEntR (X ++ T ++ Y) := by
  obtain ⟨d, T', rfl, hd⟩ := hT
  simp only [stopChar, Bool.and_eq_true, Bool.not_eq_true', bne_iff_ne, ne_eq] at hd
  have hX : noEntR X = true := noEntR_prefix X (M ++ Y) (by rw [← List.append_assoc]; exact h)
  have hY : noEntR Y = true := noEntR_suffix (X ++ M) Y h
  rw [List.append_assoc]
  refine noEntR_append_stop hd.1.1.1 hd.1.1.2 hd.1.2 hd.2 ?_ X hX
  have := noEntR_append_plain (d :: T') Y h1 h2
  exact this.trans hY

/-- a string that starts with a `stopChar` and holds neither `]` nor `!`, behind a text -/
theorem noEntR_append_tok {a T : Str} (ha : NoEntR a) (hT : HeadStop T) (h1 : ']' ∉ T) (h2 : '!' ∉ T) :
    NoEntR (a ++ T) := by
  have := noEntR_replace (X := a) (M := []) (Y := []) (by simpa using ha) hT h1 h2
  simpa using this

/-! ### the `;`-insertions of the raw-HTML preprocessor -/

theorem destClose_skip {lax : Bool} : ∀ {m : Str}, (∀ c ∈ m, destChar c = true) → ∀ z : Str,
    destClose lax (m ++ z) = destClose lax z
  | [], _, _ => rfl
  | c :: m, h, z => by
    have hc := h c (by simp)
    have hc' : c ≠ ')' ∧ c ≠ '"' ∧ c ≠ '\'' := by
      refine ⟨?_, ?_, ?_⟩ <;> (rintro rfl; revert hc; decide)
    rw [List.cons_append, MdVerif.NoCtl.destClose_cons, if_neg hc'.1]
    simp only [hc'.2.1, hc'.2.2, decide_false, Bool.or_self, Bool.false_eq_true, if_false, hc, if_true]
    exact destClose_skip (fun d hd => h d (by simp [hd])) z

theorem destClose1_skip {lax : Bool} {q : Char} (hq : q = '"' ∨ q = '\'') : ∀ {m : Str}, (∀ c ∈ m, destChar c = true) →
    ∀ z : Str, destClose1 lax q (m ++ z) = destClose1 lax q z
  | [], _, _ => rfl
  | c :: m, h, z => by
    have hc := h c (by simp)
    have hcq : c ≠ q := by
      rcases hq with rfl | rfl <;> (rintro rfl; revert hc; decide)
    rw [List.cons_append, MdVerif.NoCtl.destClose1_cons, if_neg hcq, hc]
    simp only [if_true]
    exact destClose1_skip hq (fun d hd => h d (by simp [hd])) z

theorem altClose_skip {lax : Bool} : ∀ {m : Str}, (∀ c ∈ m, altChar c = true) → ∀ z : Str,
    altClose lax (m ++ z) = altClose lax z
  | [], _, _ => rfl
  | c :: m, h, z => by
    have hc := h c (by simp)
    have hc' : c ≠ ']' := by rintro rfl; revert hc; decide
    rw [List.cons_append, MdVerif.NoCtl.altClose_cons, if_neg hc', hc]
    simp only [if_true]
    exact altClose_skip (fun d hd => h d (by simp [hd])) z

/-- a string `S` that starts with a `destChar` other than a blank: `destClose2` rejects it, whatever follows -/
theorem destClose2_ins {lax : Bool} {S S' : Str} (hS : destClose2 lax S = false) :
    ∀ a : Str, destClose2 lax (a ++ S) = true → destClose2 lax (a ++ S') = true
  | [], h => by rw [List.nil_append, hS] at h; cases h
  | c :: a, h => by
    rw [List.cons_append, MdVerif.NoCtl.destClose2_cons] at h ⊢
    split
    · rfl
    · next hc =>
      rw [if_neg hc] at h
      split
      · next hs => rw [if_pos hs] at h; exact destClose2_ins hS a h
      · next hs => rw [if_neg hs] at h; cases h

/-- scanners that agree on `S` and `S'` (a chunk `&#name` with or without the `;` behind it) agree behind any `a` -/
theorem destClose1_ins {lax : Bool} {q : Char} {S S' : Str} (h2 : destClose2 lax S = false)
    (h1 : destClose1 lax q S = destClose1 lax q S') :
    ∀ a : Str, destClose1 lax q (a ++ S) = true → destClose1 lax q (a ++ S') = true
  | [], h => by rw [List.nil_append] at h ⊢; rw [← h1]; exact h
  | c :: a, h => by
    rw [List.cons_append, MdVerif.NoCtl.destClose1_cons] at h ⊢
    split
    · next hc => rw [if_pos hc] at h; exact destClose2_ins h2 a h
    · next hc =>
      rw [if_neg hc] at h
      split
      · next hs => rw [if_pos hs] at h; exact destClose1_ins h2 h1 a h
      · next hs => rw [if_neg hs] at h; cases h

theorem destClose_ins {lax : Bool} {S S' : Str} (h2 : destClose2 lax S = false)
    (h1 : ∀ q, q = '"' ∨ q = '\'' → destClose1 lax q S = destClose1 lax q S')
    (h0 : destClose lax S = destClose lax S') :
    ∀ a : Str, destClose lax (a ++ S) = true → destClose lax (a ++ S') = true
  | [], h => by rw [List.nil_append] at h ⊢; rw [← h0]; exact h
  | c :: a, h => by
    rw [List.cons_append, MdVerif.NoCtl.destClose_cons] at h ⊢
    split
    · rfl
    · next hc =>
      rw [if_neg hc] at h
      split
      · next hq =>
        rw [if_pos hq] at h
        simp only [Bool.or_eq_true, decide_eq_true_eq] at hq
        exact destClose1_ins h2 (h1 c hq) a h
      · next hq =>
        rw [if_neg hq] at h
        split
        · next hs => rw [if_pos hs] at h; exact destClose_ins h2 h1 h0 a h
        · next hs => rw [if_neg hs] at h; cases h

theorem altClose_ins {lax : Bool} {S S' : Str} (h0 : altClose lax S = altClose lax S') :
    ∀ a : Str, altClose lax (a ++ S) = true → altClose lax (a ++ S') = true
  | [], h => by rw [List.nil_append] at h ⊢; rw [← h0]; exact h
  | c :: a, h => by
    rw [List.cons_append, MdVerif.NoCtl.altClose_cons] at h ⊢
    split
    · rfl
    · next hc =>
      rw [if_neg hc] at h
      split
      · next hs => rw [if_pos hs] at h; exact altClose_ins h0 a h
      · next hs => rw [if_neg hs] at h; cases h

theorem headOK_semiStep {lax : Bool} {c : Char} {x name y : Str} (hname : ∀ c ∈ name, isAsciiAlnum c = true)
    (h : headOK lax c (x ++ (('&' :: '#' :: name) ++ y)) = true) :
    headOK lax c (x ++ (('&' :: '#' :: name) ++ ';' :: y)) = true := by
  have hd := chunk_dest hname
  have ha : ∀ c ∈ ('&' :: '#' :: name), altChar c = true := fun c hc => MdVerif.NoCtl.destChar_altChar (hd c hc)
  have e0 : destClose lax (('&' :: '#' :: name) ++ y) = destClose lax (('&' :: '#' :: name) ++ ';' :: y) := by
    rw [destClose_skip hd, destClose_skip hd, show ';' :: y = [';'] ++ y by rfl, destClose_skip (by decide)]
  have e1 : ∀ q, q = '"' ∨ q = '\'' →
      destClose1 lax q (('&' :: '#' :: name) ++ y) = destClose1 lax q (('&' :: '#' :: name) ++ ';' :: y) := by
    intro q hq
    rw [destClose1_skip hq hd, destClose1_skip hq hd, show ';' :: y = [';'] ++ y by rfl, destClose1_skip hq (by decide)]
  have e2 : destClose2 lax (('&' :: '#' :: name) ++ y) = false := rfl
  have e3 : altClose lax (('&' :: '#' :: name) ++ y) = altClose lax (('&' :: '#' :: name) ++ ';' :: y) := by
    rw [altClose_skip ha, altClose_skip ha, show ';' :: y = [';'] ++ y by rfl, altClose_skip (by decide)]
  by_cases h1 : c = ']'
  · subst h1
    cases x with
    | nil => exact MdVerif.NoCtl.headOK_bracket_ne (by decide) _
    | cons d x' =>
      by_cases hx : d = '('
      · subst hx
        rw [List.cons_append, MdVerif.NoCtl.headOK_bracket] at h ⊢
        exact destClose_ins e2 e1 e0 x' h
      · rw [List.cons_append]; exact MdVerif.NoCtl.headOK_bracket_ne hx _
  · by_cases h2 : c = '!'
    · subst h2
      cases x with
      | nil => exact MdVerif.NoCtl.headOK_bang_ne (by decide) _
      | cons d x' =>
        by_cases hx : d = '['
        · subst hx
          rw [List.cons_append, MdVerif.NoCtl.headOK_bang] at h ⊢
          exact altClose_ins e3 x' h
        · rw [List.cons_append]; exact MdVerif.NoCtl.headOK_bang_ne hx _
    · exact MdVerif.NoCtl.headOK_of_ne h1 h2 _

theorem regionsOK_semiStep {lax : Bool} {s s' : Str} (hst : SemiStep s s') (h : RegionsOK lax s) : RegionsOK lax s' := by
  obtain ⟨x, name, y, -, hname, rfl, rfl⟩ := hst
  unfold RegionsOK at h ⊢
  rw [List.append_assoc] at h ⊢
  induction x with
  | nil =>
    rw [List.nil_append] at h ⊢
    have hp1 : ']' ∉ ('&' :: '#' :: name) := fun hm => by
      have := chunk_dest hname _ hm; revert this; decide
    have hp2 : '!' ∉ ('&' :: '#' :: name) := fun hm => by
      simp only [List.mem_cons] at hm
      rcases hm with h0 | h0 | h0
      · exact absurd h0 (by decide)
      · exact absurd h0 (by decide)
      · exact (alnum_ne (hname _ h0)).2.2.2.2.1 rfl
    rw [MdVerif.NoCtl.regionsOK_append_plain _ _ hp1 hp2] at h ⊢
    rw [MdVerif.NoCtl.regionsOK_cons, MdVerif.NoCtl.headOK_of_ne (by decide) (by decide), Bool.true_and]
    exact h
  | cons c r ih =>
    rw [List.cons_append, MdVerif.NoCtl.regionsOK_cons, Bool.and_eq_true] at h ⊢
    exact ⟨headOK_semiStep hname h.1, ih h.2⟩

theorem regionsOK_semiIns {lax : Bool} {s s' : Str} (hi : SemiIns s s') (h : RegionsOK lax s) : RegionsOK lax s' :=
  hi.induct (P := RegionsOK lax) (fun _ _ hst => regionsOK_semiStep hst) h

/-- a run that reaches the chunk `&#name` is not clean -/
theorem not_cleanR_chunk {p : Char → Bool} {a name z : Str} (ha : ∀ c ∈ a, p c = true) (hamp : p '&' = true)
    (hh : p '#' = true) : cleanR ((a ++ (('&' :: '#' :: name) ++ z)).takeWhile p) = false := by
  cases hcl : cleanR ((a ++ (('&' :: '#' :: name) ++ z)).takeWhile p) with
  | false => rfl
  | true =>
    exfalso
    rw [cleanR_iff] at hcl
    rw [takeWhile_append_of_all ha] at hcl
    have : ((('&' :: '#' :: name) ++ z)).takeWhile p = '&' :: '#' :: (name ++ z).takeWhile p := by
      simp [List.takeWhile_cons, hamp, hh]
    rw [this, noPair_iff] at hcl
    exact hcl.2 a _ rfl

theorem headE_semiStep {c : Char} {x name y : Str} (hname : ∀ c ∈ name, isAsciiAlnum c = true)
    (h : headE c (x ++ (('&' :: '#' :: name) ++ y)) = true) :
    headE c (x ++ (('&' :: '#' :: name) ++ ';' :: y)) = true := by
  by_cases h1 : c = ']'
  · subst h1
    cases x with
    | nil => exact headE_bracket_ne (by decide) _
    | cons d x' =>
      by_cases hx : d = '('
      · subst hx
        rw [List.cons_append, headE_bracket] at h ⊢
        by_cases hall : ∀ c ∈ x', rcChar c = true
        · rw [not_cleanR_chunk hall (by decide) (by decide)] at h; cases h
        · rw [takeWhile_append_of_not_all hall] at h ⊢; exact h
      · rw [List.cons_append]; exact headE_bracket_ne hx _
  · by_cases h2 : c = '!'
    · subst h2
      cases x with
      | nil => exact headE_bang_ne (by decide) _
      | cons d x' =>
        by_cases hx : d = '['
        · subst hx
          rw [List.cons_append, headE_bang] at h ⊢
          by_cases hall : ∀ c ∈ x', altChar c = true
          · rw [not_cleanR_chunk hall (by decide) (by decide)] at h; cases h
          · rw [takeWhile_append_of_not_all hall] at h ⊢; exact h
        · rw [List.cons_append]; exact headE_bang_ne hx _
    · exact headE_of_ne h1 h2 _

theorem noEntR_semiStep {s s' : Str} (hst : SemiStep s s') (h : NoEntR s) : NoEntR s' := by
  obtain ⟨x, name, y, -, hname, rfl, rfl⟩ := hst
  unfold NoEntR at h ⊢
  rw [List.append_assoc] at h ⊢
  induction x with
  | nil =>
    rw [List.nil_append] at h ⊢
    have hp1 : ']' ∉ ('&' :: '#' :: name) := fun hm => by
      have := chunk_dest hname _ hm; revert this; decide
    have hp2 : '!' ∉ ('&' :: '#' :: name) := fun hm => by
      simp only [List.mem_cons] at hm
      rcases hm with h0 | h0 | h0
      · exact absurd h0 (by decide)
      · exact absurd h0 (by decide)
      · exact (alnum_ne (hname _ h0)).2.2.2.2.1 rfl
    rw [noEntR_append_plain _ _ hp1 hp2] at h ⊢
    rw [noEntR_cons, headE_of_ne (by decide) (by decide), Bool.true_and]
    exact h
  | cons c r ih =>
    rw [List.cons_append, noEntR_cons, Bool.and_eq_true] at h ⊢
    exact ⟨headE_semiStep hname h.1, ih h.2⟩

theorem noEntR_semiIns {s s' : Str} (hi : SemiIns s s') (h : NoEntR s) : NoEntR s' :=
  hi.induct (P := NoEntR) (fun _ _ hst => noEntR_semiStep hst) h

/-! ### the entity pattern: a match lies in no region -/

/-- a run that reaches an entity is not clean -/
theorem not_cleanR_ent {p : Char → Bool} {a M z : Str} (ha : ∀ c ∈ a, p c = true) (hM : EntM M)
    (hp : ∀ c ∈ M, p c = true) : cleanR ((a ++ (M ++ z)).takeWhile p) = false := by
  cases hcl : cleanR ((a ++ (M ++ z)).takeWhile p) with
  | false => rfl
  | true =>
    exfalso
    rw [cleanR_iff] at hcl
    rw [takeWhile_append_of_all ha, takeWhile_append_of_all hp] at hcl
    apply hcl.1
    obtain ⟨b, rfl, -⟩ := hM
    simp

/-- a region that is accepted in `a ++ M ++ Y`, `M` an entity, with a clean run, is closed inside `a` -/
theorem destClose2_closed_ent {lax : Bool} {M : Str} (hM : EntM M) (Y : Str) :
    ∀ (a : Str), destClose2 lax (a ++ (M ++ Y)) = true → destClose2 false a = true
  | [], h => by
    obtain ⟨b, rfl, -⟩ := hM
    simp [MdVerif.NoCtl.destClose2_cons] at h
  | c :: r, h => by
    rw [List.cons_append, MdVerif.NoCtl.destClose2_cons] at h
    rw [MdVerif.NoCtl.destClose2_cons]
    split at h
    · rename_i hc; rw [if_pos hc]
    · rename_i hc
      rw [if_neg hc]
      split at h
      · rename_i hs; rw [if_pos hs]; exact destClose2_closed_ent hM Y r h
      · cases h

theorem destClose1_closed_ent {lax : Bool} {q : Char} (hq : q = '"' ∨ q = '\'') {M : Str} (hM : EntM M) (Y : Str) :
    ∀ (a : Str), destClose1 lax q (a ++ (M ++ Y)) = true → cleanR ((a ++ (M ++ Y)).takeWhile rcChar) = true →
      destClose1 false q a = true
  | [], _, hcl => by
    rw [not_cleanR_ent (a := []) (by simp) hM (fun c hc => rcChar_of_dest (entM_dest hM c hc))] at hcl; cases hcl
  | c :: r, h, hcl => by
    rw [List.cons_append, MdVerif.NoCtl.destClose1_cons] at h
    rw [MdVerif.NoCtl.destClose1_cons]
    split at h
    · rename_i hc; rw [if_pos hc]; exact destClose2_closed_ent hM Y r h
    · rename_i hc
      rw [if_neg hc]
      split at h
      · rename_i hs
        rw [if_pos hs]
        refine destClose1_closed_ent hq hM Y r h ?_
        rw [List.cons_append, List.takeWhile_cons, rcChar_of_dest hs] at hcl
        rw [cleanR_iff] at hcl ⊢
        exact ⟨fun hm => hcl.1 (List.mem_cons_of_mem _ hm), hcl.2.infix ⟨[c], [], by simp⟩⟩
      · cases h

theorem destClose_closed_ent {lax : Bool} {M : Str} (hM : EntM M) (Y : Str) :
    ∀ (a : Str), destClose lax (a ++ (M ++ Y)) = true → cleanR ((a ++ (M ++ Y)).takeWhile rcChar) = true →
      destClose false a = true
  | [], _, hcl => by
    rw [not_cleanR_ent (a := []) (by simp) hM (fun c hc => rcChar_of_dest (entM_dest hM c hc))] at hcl; cases hcl
  | c :: r, h, hcl => by
    rw [List.cons_append, MdVerif.NoCtl.destClose_cons] at h
    rw [MdVerif.NoCtl.destClose_cons]
    split at h
    · rename_i hc; rw [if_pos hc]
    · rename_i hc
      rw [if_neg hc]
      split at h
      · rename_i hq
        rw [if_pos hq]
        simp only [Bool.or_eq_true, decide_eq_true_eq] at hq
        refine destClose1_closed_ent hq hM Y r h ?_
        rw [List.cons_append, List.takeWhile_cons, rcChar_quote hq] at hcl
        rw [cleanR_iff] at hcl ⊢
        exact ⟨fun hm => hcl.1 (List.mem_cons_of_mem _ hm), hcl.2.infix ⟨[c], [], by simp⟩⟩
      · rename_i hq
        rw [if_neg hq]
        split at h
        · rename_i hs
          rw [if_pos hs]
          refine destClose_closed_ent hM Y r h ?_
          rw [List.cons_append, List.takeWhile_cons, rcChar_of_dest hs] at hcl
          rw [cleanR_iff] at hcl ⊢
          exact ⟨fun hm => hcl.1 (List.mem_cons_of_mem _ hm), hcl.2.infix ⟨[c], [], by simp⟩⟩
        · cases h

theorem altClose_closed_ent {lax : Bool} {M : Str} (hM : EntM M) (Y : Str) :
    ∀ (a : Str), altClose lax (a ++ (M ++ Y)) = true → cleanR ((a ++ (M ++ Y)).takeWhile altChar) = true →
      altClose false a = true
  | [], _, hcl => by
    rw [not_cleanR_ent (a := []) (by simp) hM
      (fun c hc => MdVerif.NoCtl.destChar_altChar (entM_dest hM c hc))] at hcl; cases hcl
  | c :: r, h, hcl => by
    rw [List.cons_append, MdVerif.NoCtl.altClose_cons] at h
    rw [MdVerif.NoCtl.altClose_cons]
    split at h
    · rename_i hc; rw [if_pos hc]
    · rename_i hc
      rw [if_neg hc]
      split at h
      · rename_i hs
        rw [if_pos hs]
        refine altClose_closed_ent hM Y r h ?_
        rw [List.cons_append, List.takeWhile_cons, hs] at hcl
        rw [cleanR_iff] at hcl ⊢
        exact ⟨fun hm => hcl.1 (List.mem_cons_of_mem _ hm), hcl.2.infix ⟨[c], [], by simp⟩⟩
      · cases h

theorem headOK_replace_ent {c : Char} {X M Y T : Str} (hM : EntM M) (hne : T ≠ []) (hp : '(' ∉ T) (hb : '[' ∉ T)
    (h : headOK true c (X ++ (M ++ Y)) = true) (he : headE c (X ++ (M ++ Y)) = true) :
    headOK true c (X ++ (T ++ Y)) = true := by
  by_cases h1 : c = ']'
  · subst h1
    cases X with
    | nil =>
      cases T with
      | nil => exact absurd rfl hne
      | cons t T' =>
        rw [List.nil_append, List.cons_append]
        exact MdVerif.NoCtl.headOK_bracket_ne (fun e => hp (by simp [e])) _
    | cons x X' =>
      by_cases hx : x = '('
      · subst hx
        rw [List.cons_append, MdVerif.NoCtl.headOK_bracket] at h
        rw [List.cons_append, headE_bracket] at he
        rw [List.cons_append, MdVerif.NoCtl.headOK_bracket]
        exact MdVerif.NoCtl.destClose_ext X' _ (destClose_closed_ent hM Y X' h he)
      · rw [List.cons_append]; exact MdVerif.NoCtl.headOK_bracket_ne hx _
  · by_cases h2 : c = '!'
    · subst h2
      cases X with
      | nil =>
        cases T with
        | nil => exact absurd rfl hne
        | cons t T' =>
          rw [List.nil_append, List.cons_append]
          exact MdVerif.NoCtl.headOK_bang_ne (fun e => hb (by simp [e])) _
      | cons x X' =>
        by_cases hx : x = '['
        · subst hx
          rw [List.cons_append, MdVerif.NoCtl.headOK_bang] at h
          rw [List.cons_append, headE_bang] at he
          rw [List.cons_append, MdVerif.NoCtl.headOK_bang]
          exact MdVerif.NoCtl.altClose_ext X' _ (altClose_closed_ent hM Y X' h he)
        · rw [List.cons_append]; exact MdVerif.NoCtl.headOK_bang_ne hx _
    · exact MdVerif.NoCtl.headOK_of_ne h1 h2 _

/-- **replace an entity**: in a string whose regions are simple and hold no entity material, a match `M` of the entity
    pattern lies in no region; any non-empty string without `!`, `[`, `]`, `(` may stand in its place -/
theorem regionsOK_replace_ent {X M Y T : Str} (h : regionsOK true (X ++ M ++ Y) = true) (he : NoEntR (X ++ M ++ Y))
    (hM : EntM M) (hne : T ≠ []) (h1 : '!' ∉ T) (h2 : '[' ∉ T) (h3 : ']' ∉ T) (h4 : '(' ∉ T) :
    regionsOK true (X ++ T ++ Y) = true := by
  unfold NoEntR at he
  rw [List.append_assoc] at h he ⊢
  induction X with
  | nil =>
    rw [List.nil_append] at h ⊢
    rw [MdVerif.NoCtl.regionsOK_append_plain T Y h3 h1]
    exact MdVerif.NoCtl.regionsOK_suffix M Y h
  | cons c r ih =>
    rw [List.cons_append, MdVerif.NoCtl.regionsOK_cons, Bool.and_eq_true] at h
    rw [List.cons_append, noEntR_cons, Bool.and_eq_true] at he
    rw [List.cons_append, MdVerif.NoCtl.regionsOK_cons, Bool.and_eq_true]
    exact ⟨headOK_replace_ent hM hne h4 h2 h.1 he.1, ih h.2 he.2⟩

/-! ### `NoEntA`, `AdjCA` -/

section inst
variable [HtmlBound]

theorem noEntA_nil : NoEntA [] := fun _ => noEntR_nil

theorem NoEntA.infix {s t : Str} (h : NoEntA s) (ht : t <:+: s) : NoEntA t := fun ha => (h ha).infix ht

theorem noEntA_of_plain {T : Str} (h1 : ']' ∉ T) (h2 : '!' ∉ T) : NoEntA T := fun _ => noEntR_of_plain h1 h2

theorem noEntA_of_noEntR {s : Str} (h : NoEntR s) : NoEntA s := fun _ => h

theorem noEntA_of_amp_false (hamp : HtmlBound.amp = false) (s : Str) : NoEntA s :=
  fun h => by rw [hamp] at h; cases h

theorem noEntA_joinNl {a b : Str} (ha : NoEntA a) (hb : NoEntA b) : NoEntA (a ++ '\n' :: b) :=
  fun h => noEntR_joinNl (ha h) (hb h)

theorem noEntA_replace {X M Y T : Str} (h : NoEntA (X ++ M ++ Y)) (hT : HeadStop T) (h1 : ']' ∉ T)
    (h2 : '!' ∉ T) : NoEntA (X ++ T ++ Y) := fun ha => noEntR_replace (h ha) hT h1 h2

theorem noEntA_append_tok {a T : Str} (ha : NoEntA a) (hT : HeadStop T) (h1 : ']' ∉ T) (h2 : '!' ∉ T) :
    NoEntA (a ++ T) := fun h => noEntR_append_tok (ha h) hT h1 h2

theorem noEntA_semiIns {s s' : Str} (hi : SemiIns s s') (h : NoEntA s) : NoEntA s' :=
  fun ha => noEntR_semiIns hi (h ha)

theorem adjCA_nil (lax : Bool) : AdjCA lax [] := ⟨MdVerif.NoCtl.adjC_nil lax, noEntA_nil⟩

theorem AdjCA.lax {s : Str} (h : AdjCA false s) : AdjCA true s := ⟨h.1.lax, h.2⟩

theorem AdjCA.infix {lax : Bool} {s t : Str} (h : AdjCA lax s) (ht : t <:+: s) : AdjCA true t :=
  ⟨h.1.infix ht, h.2.infix ht⟩

/-- without ampersands `AdjCA` is `AdjC` -/
theorem adjCA_of_adjC (hamp : HtmlBound.amp = false) {lax : Bool} {s : Str} (h : AdjC lax s) : AdjCA lax s :=
  ⟨h, noEntA_of_amp_false hamp s⟩

theorem noEntR_of_no_bracket {s : Str} (h1 : '[' ∉ s) (h2 : ']' ∉ s) : NoEntR s := by
  -- no `]`, and `![` needs `[`
  unfold NoEntR
  induction s with
  | nil => rfl
  | cons c r ih =>
    rw [noEntR_cons, Bool.and_eq_true]
    refine ⟨?_, ih (fun hm => h1 (List.mem_cons_of_mem _ hm)) (fun hm => h2 (List.mem_cons_of_mem _ hm))⟩
    by_cases hc : c = '!'
    · subst hc
      cases r with
      | nil => exact headE_nil _
      | cons d r' => exact headE_bang_ne (fun e => h1 (by simp [e])) _
    · exact headE_of_ne (fun e => h2 (by simp [e])) hc _

/-- without brackets there is no region -/
theorem adjCA_of_no_bracket {s : Str} (h : NoAdj s) (h1 : '[' ∉ s) (h2 : ']' ∉ s) : AdjCA true s :=
  ⟨MdVerif.NoCtl.adjC_of_no_bracket h h1 h2, noEntA_of_noEntR (noEntR_of_no_bracket h1 h2)⟩

theorem noEntR_of_adj3 {s : Str} (h : Adj3 s) : NoEntR s := by
  -- neither `](` nor `![` occurs
  have h2 := h.2.1
  have h3 := h.2.2
  unfold NoEntR
  induction s with
  | nil => rfl
  | cons c r ih =>
    rw [noEntR_cons, Bool.and_eq_true]
    refine ⟨?_, ih (h.infix ⟨[c], [], by simp⟩) (h2.infix ⟨[c], [], by simp⟩) (h3.infix ⟨[c], [], by simp⟩)⟩
    by_cases hc1 : c = ']'
    · subst hc1
      cases r with
      | nil => exact headE_nil _
      | cons d r' =>
        refine headE_bracket_ne (fun e => ?_) _
        subst e
        rw [noPair_iff] at h3
        exact h3 [] r' rfl
    · by_cases hc2 : c = '!'
      · subst hc2
        cases r with
        | nil => exact headE_nil _
        | cons d r' =>
          refine headE_bang_ne (fun e => ?_) _
          subst e
          rw [noPair_iff] at h2
          exact h2 [] r' rfl
      · exact headE_of_ne hc1 hc2 _

theorem adjCA_of_adj3 {s : Str} (h : Adj3 s) (lax : Bool) : AdjCA lax s :=
  ⟨MdVerif.NoCtl.adjC_of_adj3 h lax, noEntA_of_noEntR (noEntR_of_adj3 h)⟩

/-- **replace** for `AdjCA`: a stretch that `breaks`, replaced by a placeholder-like string that starts with a
    `stopChar` -/
theorem adjCA_replace {X M Y T : Str} (h : AdjCA true (X ++ M ++ Y)) (hM : breaks M = true) (hT : SepOK3 T)
    (hT0 : HeadStop T) : AdjCA true (X ++ T ++ Y) :=
  ⟨MdVerif.NoCtl.adjC_replace h.1 hM hT, noEntA_replace h.2 hT0 hT.2.2.2.1 hT.2.1⟩

/-- **replace an entity** for `AdjCA`, in a domain with ampersands -/
theorem adjCA_replace_ent (hamp : HtmlBound.amp = true) {X M Y T : Str} (h : AdjCA true (X ++ M ++ Y)) (hM : EntM M)
    (hT : SepOK3 T) (hT0 : HeadStop T) : AdjCA true (X ++ T ++ Y) := by
  obtain ⟨p1, -, -⟩ := MdVerif.NoCtl.sepOK3_noPair hT
  refine ⟨⟨MdVerif.NoCtl.noPair_replace (a := '\\') (b := '`') h.1.1 p1
      (MdVerif.NoCtl.not_head_of_not_mem hT.1.2.1) (MdVerif.NoCtl.not_last_of_not_mem hT.1.2.2) hT.1.1,
    regionsOK_replace_ent h.1.2 (h.2 hamp) hM hT.1.1 hT.2.1 hT.2.2.1 hT.2.2.2.1 hT.2.2.2.2⟩,
    noEntA_replace h.2 hT0 hT.2.2.2.1 hT.2.1⟩

theorem adjCA_semiIns {lax : Bool} {s s' : Str} (hi : SemiIns s s') (h : AdjCA lax s) : AdjCA lax s' :=
  ⟨⟨noPair_semiIns (a := '\\') (b := '`') (by decide) (by decide) hi h.1.1, regionsOK_semiIns hi h.1.2⟩,
    noEntA_semiIns hi h.2⟩

end inst

end MdVerif.NoCtlF
