/-
Helper lemmas for C10 with fenced_code (block stage), part 4 (worker fc2): a block that is one "inert" line — possibly
followed by one line feed, possibly preceded by one — meets only `EmptyBlockProcessor` and `ParagraphProcessor`,
whatever block-level extensions are enabled, in any parser state, under any parent (`tab_length ≥ 1`).

`dispatchXT_tokline` generalises `FencedPipe.dispatchXT_line` (state `[]`, no final line feed, a hypothesis on the
parent for the admonition test).  The raw-HTML placeholder `STX wzxhzdk:n ETX` is such a line (part 5).
Core Lean only.
-/
import MdVerif.Lemmas.F.PlaceholdersXTBlock3
import MdVerif.Lemmas.RenderXBlock
import MdVerif.Lemmas.EscXTables

namespace MdVerif.NoCtl.BlkXT
open Py Block BlockExt Escape
open MdVerif.CodeLaw (lineEsc startOk_of_head startsOkNl_of_no_nl)

theorem contains_false_of_missing {l pat : Str} {d : Char} (hd : d ∈ pat) (hl : d ∉ l) : contains l pat = false := by
  rw [contains_eq_false_iff]
  rintro a b rfl
  exact hl (by simp [hd])

/-- none of the triggers of the block-level extensions occurs in the text -/
def NoTrig (l : Str) : Prop :=
  contains l trigAdmonition = false ∧ contains l trigDefList = false ∧ contains l trigFootnote = false ∧
    contains l trigAbbr = false

/-- characters of an inert line: none of the characters that the recognisers of the block parser look for inside a
    line -/
def tokCh (d : Char) : Bool :=
  d != '\n' && d != ' ' && d != '!' && d != '[' && d != '*' && d != '\\' && d != '`' && d != '|'

theorem tokCh_ne {d x : Char} (h : tokCh d = true) (hx : tokCh x = false) : d ≠ x := by
  intro e; subst e; rw [h] at hx; cases hx

theorem not_mem_of_tokCh {l : Str} (h : ∀ d ∈ l, tokCh d = true) {x : Char} (hx : tokCh x = false) : x ∉ l :=
  fun hm => tokCh_ne (h x hm) hx rfl

theorem find_nl_at (x y : Str) (h : '\n' ∉ x) : find ['\n'] (x ++ '\n' :: y) = some x.length := by
  induction x with
  | nil => simp [find, startsWith]
  | cons c r ih =>
    have hc : c ≠ '\n' := fun e => h (by simp [e])
    have hr : '\n' ∉ r := fun e => h (List.mem_cons_of_mem _ e)
    simp only [List.cons_append, find, startsWith, hc, decide_false, Bool.false_and, Bool.false_eq_true, if_false,
      ih hr, Option.map_some, List.length_cons]

theorem setextMatch_tokline (x e : Str) (h : '\n' ∉ x) (he : e = [] ∨ e = ['\n']) : setextMatch (x ++ e) = false := by
  rcases he with rfl | rfl
  · rw [List.append_nil]
    have : find ['\n'] x = none := by
      rw [find_none_iff]; intro pre post e; apply h; rw [e]; simp
    simp [setextMatch, this]
  · simp [setextMatch, find_nl_at x [] h, firstLine]

theorem startsOkNl_snoc_nl (esc : List Char) (s : Str) (h : '\n' ∉ s) : startsOkNl esc (s ++ ['\n']) = true := by
  induction s with
  | nil => simp [startsOkNl, startOk]
  | cons c r ih =>
    have hc : c ≠ '\n' := fun e => h (by simp [e])
    simp [startsOkNl, hc, ih (fun e => h (List.mem_cons_of_mem _ e))]

theorem takeWhile_notNl_self : ∀ (x : Str), '\n' ∉ x → x.takeWhile notNl = x
  | [], _ => rfl
  | c :: r, h => by
    have hc : (c != '\n') = true := by
      simp only [bne_iff_ne, ne_eq]; intro e; exact h (by simp [e])
    simp only [List.takeWhile, notNl, hc, takeWhile_notNl_self r (fun e => h (List.mem_cons_of_mem _ e))]

theorem takeWhile_notNl_nl : ∀ (x y : Str), '\n' ∉ x → (x ++ '\n' :: y).takeWhile notNl = x
  | [], _, _ => by simp [notNl]
  | c :: r, y, h => by
    have hc : (c != '\n') = true := by
      simp only [bne_iff_ne, ne_eq]; intro e; exact h (by simp [e])
    simp only [List.cons_append, List.takeWhile, notNl, hc,
      takeWhile_notNl_nl r y (fun e => h (List.mem_cons_of_mem _ e))]

theorem firstLine_tokline (x e : Str) (h : '\n' ∉ x) (he : e = [] ∨ e = ['\n']) : firstLine (x ++ e) = x := by
  rcases he with rfl | rfl
  · rw [List.append_nil]; exact takeWhile_notNl_self x h
  · exact takeWhile_notNl_nl x [] h

theorem shape_of_tokCh : ∀ (l : Str), (∀ d ∈ l, tokCh d = true) → EscX.shape l = true
  | [], _ => rfl
  | c :: r, h => by
    have hc := h c List.mem_cons_self
    have h1 : c ≠ '\\' := tokCh_ne hc (by decide)
    have h2 : c ≠ '`' := tokCh_ne hc (by decide)
    have h3 : c ≠ '|' := tokCh_ne hc (by decide)
    have ih := shape_of_tokCh r (fun d hd => h d (List.mem_cons_of_mem _ hd))
    unfold EscX.shape
    rw [if_neg h1, ih]
    simp [h2, h3]

theorem stripC_sp_of_tokCh (l : Str) (h : ∀ d ∈ l, tokCh d = true) : stripC ' ' l = l := by
  have hns : ∀ d ∈ l, d ≠ ' ' := fun d hd => tokCh_ne (h d hd) (by decide)
  apply stripP_eq_self
  · intro c hc
    have : c ∈ l := List.mem_of_mem_head? hc
    simpa using hns c this
  · intro c hc
    have : c ∈ l := List.mem_of_getLast? hc
    simpa using hns c this

theorem noTrig_tokline (x e : Str) (h : ∀ d ∈ x, tokCh d = true) (he : e = [] ∨ e = ['\n']) : NoTrig (x ++ e) := by
  have hno : ∀ d : Char, tokCh d = false → d ≠ '\n' → d ∉ x ++ e := by
    intro d hd hn hm
    rcases List.mem_append.1 hm with hm | hm
    · exact not_mem_of_tokCh h hd hm
    · rcases he with rfl | rfl
      · cases hm
      · simp only [List.mem_singleton] at hm; exact hn hm
  exact ⟨contains_false_of_missing (d := '!') (by decide) (hno _ (by decide) (by decide)),
    contains_false_of_missing (d := ' ') (by decide) (hno _ (by decide) (by decide)),
    contains_false_of_missing (d := '[') (by decide) (hno _ (by decide) (by decide)),
    contains_false_of_missing (d := '*') (by decide) (hno _ (by decide) (by decide))⟩

/-- **an inert line, possibly followed by one line feed, is a paragraph**: no processor of the core or of a
    block-level extension finds its syntax, in any parser state, under any parent -/
theorem dispatchXT_tokline (tables : Bool) (cfg : XCfg) (tab : Nat) (htab : 0 < tab) (pb : PB) (state : List BState)
    (refs : Refs) (parent : Node) (c : Char) (r e : Str) (rest : List Str)
    (hch : ∀ d ∈ c :: r, tokCh d = true) (hc2 : c ∉ lineEsc) (hc3 : isDecimal c = false)
    (he : e = [] ∨ e = ['\n']) :
    dispatchXT tables cfg tab pb state refs parent (c :: r ++ e) rest =
      some (paraP state refs parent (c :: r ++ e) rest) := by
  have hnl : '\n' ∉ c :: r := not_mem_of_tokCh hch (by decide)
  have hc1 : c ≠ ' ' := tokCh_ne (hch c (by simp)) (by decide)
  have hcn : c ≠ '\n' := tokCh_ne (hch c (by simp)) (by decide)
  have htr := noTrig_tokline (c :: r) e hch he
  have hl : LineStartsOk lineEsc (c :: r ++ e) = true := by
    have h1 : startOk lineEsc (c :: r ++ e) = true := startOk_of_head c (r ++ e) hc1 hc2
    have h2 : startsOkNl lineEsc (c :: r ++ e) = true := by
      rcases he with rfl | rfl
      · rw [List.append_nil]; exact startsOkNl_of_no_nl _ _ hnl
      · exact startsOkNl_snoc_nl _ _ hnl
    simp only [LineStartsOk, h1, h2, Bool.and_self]
  obtain ⟨n, rfl⟩ : ∃ n, tab = n + 1 := ⟨tab - 1, by omega⟩
  have e1 : ((c :: r ++ e).isEmpty || startsWith (c :: r ++ e) ['\n']) = false := by simp [hcn]
  have e2 : startsWith (c :: r ++ e) (spaces (n + 1)) = false := by
    simp [spaces, List.replicate_succ, hc1]
  have e3 : setextMatch (c :: r ++ e) = false := setextMatch_tokline _ _ hnl he
  have hmem : ∀ d ∈ lineEsc, c ≠ d := fun d hd e => hc2 (e ▸ hd)
  have e4 : ∀ ol ul, listItemMatch (n + 1) ol ul (c :: r ++ e) = none := by
    intro ol ul
    have h0 : countPrefix ' ' (some (n + 1 - 1)) (c :: r ++ e) = 0 := countPrefix_eq_zero (by simpa using hc1) _
    have ho : olMarker (c :: r ++ e) = none := by simp [olMarker, spanLen, hc3]
    have hu : ulMarker (c :: r ++ e) = none := by
      simp [ulMarker, hmem '*' (by decide), hmem '+' (by decide), hmem '-' (by decide)]
    simp only [listItemMatch, h0, List.drop_zero, ho, hu]
    cases ol <;> cases ul <;> rfl
  have hbang : '!' ∉ c :: r ++ e := by
    intro hm
    rcases List.mem_append.1 hm with hm | hm
    · exact not_mem_of_tokCh hch (by decide) hm
    · rcases he with rfl | rfl
      · cases hm
      · simp at hm
  have hA : (if cfg.admonition then admTest (n + 1) parent (c :: r ++ e) else none) = none := by
    split
    · refine RenderX.admTest_plain (n + 1) (by omega) parent _ hbang ?_
      intro d hd
      simp only [List.cons_append, List.head?_cons, Option.some.injEq] at hd
      subst hd; exact hc1
    · rfl
  have hT : (if tables then Tables.tableTest (c :: r ++ e) else none) = none := by
    split
    · apply EscX.tableTest_shape
      rw [firstLine_tokline _ _ hnl he, stripC_sp_of_tokCh _ hch]
      exact shape_of_tokCh _ hch
    · rfl
  have hab : abbrP refs (c :: r ++ e) rest = .declined := by
    simp only [abbrP, abbrSearch_none htr.2.2.2]
  unfold dispatchXT
  rw [hA]
  simp only [tailEmptyT, e1, e2, indentTestX, hT, e3, tailList, e4, tailDef, defSearch_none htr.2.1, tailQuote,
    tailFootnote, footnoteP_none htr.2.2.1, tailAbbr, hab, tailRef, Bool.false_eq_true, if_false, Bool.false_and,
    Bool.and_false, Option.isSome_none, ite_self,
    hashSearch_eq_none (esc := lineEsc) (by decide) _ hl,
    hrSearch_eq_none (esc := lineEsc) (by decide) (by decide) (by decide) _ hl,
    quoteSearch_eq_none (esc := lineEsc) (by decide) _ hl, refSearch_eq_none (esc := lineEsc) (by decide) _ hl]

/-- **a line feed in front of an inert line: `EmptyBlockProcessor`** -/
theorem dispatchXT_nl_tokline (tables : Bool) (cfg : XCfg) (tab : Nat) (htab : 0 < tab) (pb : PB)
    (state : List BState) (refs : Refs) (parent : Node) (x e : Str) (rest : List Str)
    (hch : ∀ d ∈ x, tokCh d = true) (he : e = [] ∨ e = ['\n']) :
    dispatchXT tables cfg tab pb state refs parent ('\n' :: x ++ e) rest =
      some (emptyP refs parent ('\n' :: x ++ e) rest) := by
  have hbang : '!' ∉ '\n' :: x ++ e := by
    intro hm
    simp only [List.cons_append, List.mem_cons, List.mem_append] at hm
    rcases hm with hm | hm | hm
    · cases hm
    · exact not_mem_of_tokCh hch (by decide) hm
    · rcases he with rfl | rfl
      · cases hm
      · simp at hm
  have hA : (if cfg.admonition then admTest tab parent ('\n' :: x ++ e) else none) = none := by
    split
    · refine RenderX.admTest_plain tab htab parent _ hbang ?_
      intro d hd
      simp only [List.cons_append, List.head?_cons, Option.some.injEq] at hd
      subst hd; decide
    · rfl
  unfold dispatchXT
  rw [hA]
  simp [tailEmptyT]

end MdVerif.NoCtl.BlkXT
