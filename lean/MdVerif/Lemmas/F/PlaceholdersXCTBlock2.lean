/-
C10 with ALL extensions (tables off) on the domain WITH INLINE LINKS, part 2 (worker cf), block stage 2: fc2's
`Lemmas/F/PlaceholdersXTBlock2.lean` (`defListP`, `footnoteP`/`detectTabbed`, `abbrP` for the three string classes) re-proved
from the cut-closed class of ordinary blocks (`Dom2C`, `Lemmas/F/PlaceholdersXCTBlock.lean`); the cuts as in g3's
`Lemmas/PlaceholdersXCBlock2.lean`.  Core Lean only.
-/
import MdVerif.Lemmas.F.PlaceholdersXCTBlock
import MdVerif.Lemmas.F.PlaceholdersXTBlock2

namespace MdVerif.NoCtl.BlkXCT
open Py Block Blk BlkB BlkC BlkX BlkXC
open BlkXT (OutT PresT ResT)

section procs
variable {p q : Char → Bool} {Bp Tp Rp : Str → Prop}

/-! ### definition lists -/

theorem defListP_ct (h : Dom2C p q Bp Tp Rp) {tab : Nat} {pb : PB} (hpb : PresT p q Bp Tp Rp pb) {state : List BState}
    {refs : Refs} {parent : Node} {b : Str} {rest : List Str} {m : Nat × Nat × Str}
    (hP : TX p q Tp parent) (hA : parent.textAtomic = false) (hR : LogC p Bp refs) (hb : Bp b)
    (hrest : PL Rp rest) (hm : BlockExt.defSearch b = some m) {r : Node × Refs × List Str}
    (hr : BlockExt.defListP tab pb state refs parent b rest m = some (some r)) : ResT p q Bp Tp Rp r := by
  have hd0 := h.d
  obtain ⟨st, en, g2⟩ := m
  have hg : Bp g2 := hd0.ofCut hb (defSearch_cut hm).1
  have hterms0 : PL Tp (((lines (b.take st)).map strip).filter (fun t => !t.isEmpty)) :=
    h.tl ((pl_map (hd0.lines (hd0.ofCut hb (defSearch_cut hm).2)) (fun s hs => hd0.strip hs)).mono (fun _ hx => (List.mem_filter.1 hx).1))
  -- the definition text and the rest
  have hdr : ∀ x : Str × Str, x = (if BlockExt.defNoIndent (b.drop en) then (b.drop en, []) else detab tab (b.drop en)) →
      Bp (if x.1.isEmpty then g2 else g2 ++ '\n' :: x.1) ∧ PL Rp (if x.2.isEmpty then rest else x.2 :: rest) := by
    intro x hx
    have hx12 : Bp x.1 ∧ Bp x.2 := by
      subst hx
      split
      · exact ⟨hd0.drop hb en, hd0.nil⟩
      · exact hd0.detab tab (hd0.drop hb en)
    refine ⟨?_, pl_consIf _ (h.rOf _ hx12.2) hrest⟩
    split
    · exact hg
    · exact hd0.joinNl _ _ hg hx12.1
  simp only [BlockExt.defListP] at hr
  generalize hxe : (if BlockExt.defNoIndent (b.drop en) then (b.drop en, []) else detab tab (b.drop en)) = x at hr
  obtain ⟨hd, hre⟩ := hdr x hxe.symm
  obtain ⟨x1, x2⟩ := x
  simp only [] at hr hd hre
  have hdd : TX p q Tp (Node.el "dd") := tx_el h.tnil "dd" (by decide)
  have hdl : TX p q Tp (Node.el "dl") := tx_el h.tnil "dl" (by decide)
  -- a fresh `dl` with the terms and the new `dd`
  have fresh : ∀ {terms : List Str} {dd : Node}, PL Tp terms → TX p q Tp dd → dd.textAtomic = false →
      TX p q Tp ((BlockExt.addTerms (Node.el "dl") terms).append dd) ∧
        ((BlockExt.addTerms (Node.el "dl") terms).append dd).textAtomic = false := by
    intro terms dd ht hdd' hna
    obtain ⟨a1, _, a3⟩ := addTerms_tx h.tnil hdl ht
    exact ⟨a1.append hdd' hna, a3⟩
  split at hr
  · -- no sibling
    split at hr
    · cases hr
    · simp only [Option.some.injEq] at hr
      split at hr
      · next dd refs' hcall =>
        obtain ⟨o1, o2, o3⟩ := hpb _ _ _ _ _ hdd rfl hR (h.r1 hd) hcall
        cases hr
        obtain ⟨f1, f2⟩ := fresh hterms0 o1 o2
        exact ⟨hP.append f1 f2, hA, o3, hre⟩
      · cases hr
  · next sibling hl =>
    simp only [Option.some.injEq] at hr
    have hsib := hP.last hl
    -- the terms and the parent after `if not terms and sibling.tag == 'p'`
    have hterms : PL Tp (if ((((lines (b.take st)).map strip).filter (fun t => !t.isEmpty)).isEmpty && sibling.isTag "p") = true
        then lines (sibling.text.getD []) else ((lines (b.take st)).map strip).filter (fun t => !t.isEmpty)) := by
      split
      · next hc =>
        simp only [Bool.and_eq_true] at hc
        have hna : sibling.textAtomic = false := by
          apply hsib.1.nx.notAtomic
          rw [isTag_iff.1 hc.2]; decide
        exact h.lines _ (hsib.1.nx.textP hna)
      · exact hterms0
    have hpar : TX p q Tp (if ((((lines (b.take st)).map strip).filter (fun t => !t.isEmpty)).isEmpty && sibling.isTag "p") = true
        then BlockExt.dropLastChild parent else parent) ∧
        (if ((((lines (b.take st)).map strip).filter (fun t => !t.isEmpty)).isEmpty && sibling.isTag "p") = true
        then BlockExt.dropLastChild parent else parent).textAtomic = false := by
      split
      · exact ⟨dropLastChild_tx hP, hA⟩
      · exact ⟨hP, hA⟩
    generalize (if ((((lines (b.take st)).map strip).filter (fun t => !t.isEmpty)).isEmpty && sibling.isTag "p") = true
        then lines (sibling.text.getD []) else ((lines (b.take st)).map strip).filter (fun t => !t.isEmpty)) = terms
        at hr hterms
    generalize (if ((((lines (b.take st)).map strip).filter (fun t => !t.isEmpty)).isEmpty && sibling.isTag "p") = true
        then BlockExt.dropLastChild parent else parent) = parent2 at hr hpar
    split at hr
    · next dl hs =>
      have hdl' : parent2.last? = some dl ∧ dl.isTag "dl" = true := by
        split at hs
        · next s hl' =>
          split at hs
          · next ht => cases hs; exact ⟨hl', ht⟩
          · cases hs
        · cases hs
      have hc := hpar.1.last hdl'.1
      have hdltag : dl.tag = .name "dl".toList := isTag_iff.1 hdl'.2
      split at hr
      · next dd refs' hcall =>
        obtain ⟨o1, o2, o3⟩ := hpb _ _ _ _ _ hdd rfl hR (h.r1 hd) hcall
        cases hr
        obtain ⟨a1, a2, a3⟩ := addTerms_tx h.tnil hc.1 hterms
        refine ⟨hpar.1.setLastNA (a1.append o1 o2) ?_, hpar.2, o3, hre⟩
        rw [append_textAtomic, a3]
        apply hc.1.nx.notAtomic
        rw [hdltag]; decide
      · cases hr
    · split at hr
      · next dd refs' hcall =>
        obtain ⟨o1, o2, o3⟩ := hpb _ _ _ _ _ hdd rfl hR (h.r1 hd) hcall
        cases hr
        obtain ⟨f1, f2⟩ := fresh hterms o1 o2
        exact ⟨hpar.1.append f1 f2, hpar.2, o3, hre⟩
      · cases hr

/-! ### footnote and abbreviation definitions -/

/-- the consumed blocks start with four blanks: they are ordinary blocks -/
theorem detectTabbed_ct (h : Dom2C p q Bp Tp Rp) : ∀ {l : List Str}, PL Rp l →
    PL Bp (BlockExt.detectTabbed l).1 ∧ PL Rp (BlockExt.detectTabbed l).2
  | [], _ => by simp [BlockExt.detectTabbed, pl_nil]
  | b :: r, hl => by
    have h1 := pl_cons.1 hl
    have ih := detectTabbed_ct h h1.2
    simp only [BlockExt.detectTabbed]
    split
    · next hsp =>
      have hb : Bp b := h.rSp b h1.1 hsp
      split
      · next st x hs =>
        obtain ⟨id, g, n⟩ := x
        exact ⟨pl_one (h.d.looseDetab 4 (h.d.take_lineStart hb (fnSearch_cut hs).2) 1),
          pl_cons.2 ⟨h.rOf _ (h.d.drop hb _), h1.2⟩⟩
      · exact ⟨pl_cons.2 ⟨h.d.looseDetab 4 hb 1, ih.1⟩, ih.2⟩
    · exact ⟨pl_nil, hl⟩

theorem footnote_fin_ct (h : Dom2C p q Bp Tp Rp) {refs : Refs} (hR : LogC p Bp refs) {id b : Str} (hid : AllC p id)
    (hb : Bp b) {fb rest' : List Str} (hfb : PL Bp fb) (hrest' : PL Rp rest') {st : Nat} (hst : LineStart b st) :
    LogC p Bp (refs ++ [(BlockExt.fnKey id, (rstrip (join ['\n', '\n'] fb), none))]) ∧
      PL Rp (if isBlank (b.take st) = true then rest' else rstripC '\n' (b.take st) :: rest') := by
  have hbody : Bp (rstrip (join ['\n', '\n'] fb)) := h.d.rstripP (joinPara_xc h.d hfb) isSpace_paren
  refine ⟨hR.snoc ⟨?_, h.d.allc _ hbody, allC_nil, fun _ => hbody⟩,
    pl_consIf _ (h.rOf _ (h.d.take_lineStart hb hst)) hrest'⟩
  rw [(keyOf_fn id _).1]; exact hid

theorem footnoteP_ct (h : Dom2C p q Bp Tp Rp) {refs : Refs} {b : Str} {rest : List Str} (hR : LogC p Bp refs)
    (hb : Bp b) (hrest : PL Rp rest) {r : Refs × List Str} (hr : BlockExt.footnoteP refs b rest = some r) :
    LogC p Bp r.1 ∧ PL Rp r.2 := by
  have hd := h.d
  simp only [BlockExt.footnoteP] at hr
  split at hr
  · cases hr
  · next st id g2 n hs =>
    obtain ⟨hid, _⟩ := fnSearch_infix hs
    obtain ⟨hg, hst⟩ := fnSearch_cut hs
    have hg2 := hd.ofCut hb hg
    have hidc : AllC p id := (hd.allc _ hb).mono hid.subset
    have hther : Bp (lstripC '\n' (b.drop (st + n))) := hd.lstripC (hd.drop hb _) _
    split at hr
    · next st2 x hs2 =>
      obtain ⟨id2, g22, n2⟩ := x
      cases hr
      exact footnote_fin_ct h hR hidc hb
        (pl_one (hd.lstripC (hd.joinNl _ _ hg2 (hd.looseDetab 4 (hd.take_lineStart hther (fnSearch_cut hs2).2) 1)) '\n'))
        (pl_cons.2 ⟨h.rOf _ (hd.drop hther st2), hrest⟩) hst
    · cases hr
      have hdt := detectTabbed_ct h hrest
      exact footnote_fin_ct h hR hidc hb
        (pl_cons.2 ⟨stripC_p hd (hd.joinNl _ _ hg2 (hd.looseDetab 4 hther 1)) (by decide) (by decide), hdt.1⟩) hdt.2 hst

theorem abbrP_ct (h : Dom2C p q Bp Tp Rp) {refs : Refs} {b : Str} {rest : List Str} (hR : LogC p Bp refs) (hb : Bp b)
    (hrest : PL Rp rest) {r : Refs × List Str} (hr : BlockExt.abbrP refs b rest = .ok r) :
    LogC p Bp r.1 ∧ PL Rp r.2 := by
  have hd := h.d
  simp only [BlockExt.abbrP] at hr
  split at hr
  · cases hr
  · next st abbr0 title0 n hs =>
    obtain ⟨hab, hti⟩ := abbrSearch_infix hs
    have hbc := hd.allc _ hb
    have habc : AllC p (strip abbr0) := (hbc.mono hab.subset).strip
    have htic : AllC p (strip title0) := (hbc.mono hti.subset).strip
    have hre : PL Rp (if isBlank (b.take st) = true then
          (if isBlank (b.drop (st + n)) = true then rest else lstripC '\n' (b.drop (st + n)) :: rest)
        else rstripC '\n' (b.take st) ::
          (if isBlank (b.drop (st + n)) = true then rest else lstripC '\n' (b.drop (st + n)) :: rest)) :=
      pl_consIf _ (h.rOf _ (hd.take_lineStart hb (abbrSearch_lineStart hs)))
        (pl_consIf _ (h.rOf _ (hd.lstripC (hd.drop hb _) '\n')) hrest)
    split at hr
    · cases hr
    · split at hr
      · split at hr
        · cases hr
          refine ⟨hR.snoc ⟨?_, allC_nil, allC_nil, fun hf => ?_⟩, hre⟩
          · rw [(keyOf_ab _ _).1]; exact habc
          · rw [(keyOf_ab _ _).2] at hf; cases hf
        · cases hr
          exact ⟨hR, hre⟩
      · cases hr
        refine ⟨hR.snoc ⟨?_, htic, allC_nil, fun hf => ?_⟩, hre⟩
        · rw [(keyOf_ab _ _).1]; exact habc
        · rw [(keyOf_ab _ _).2] at hf; cases hf

end procs

end MdVerif.NoCtl.BlkXCT
