/-
Helper lemmas for C10 WITH the footnotes extension (`Props/C10XFn.lean`): the stages that the footnotes extension adds
to `PipelineX.treeX`, on the generalised token grammar of `Spec/F/NoCtl.lean` (namespaces `MdVerif.NoCtlF`,
`MdVerif.NoCtlXF`), and the composition along `convertX`.

1. `FootnoteTreeprocessor` (priority 50, before the inline stage): `makeLis`/`makeDiv`/`addBacklink`/`backlink`/`placeDiv`
   on the block tree.  The block tree (worker b1: `BlkX.parseDocumentXT_strs`, `parseChunkXT_strs` for the footnote
   bodies) consists of `FnQ` elements (F-`WNodeB 0`, `QN`, non-atomic texts `WF false 0`); the only new strings are
   `text ++ NBSP_PLACEHOLDER` and `FN_BACKLINK_TEXT`, both made of ordinary characters and footnote tokens:
   `makeLis_spec`, `makeDiv_spec`, `placeDiv_forall`.
2. the inline stage: `NoCtlXF.runX_specB` with the footnote pattern (`hiSpecXB_tables`).
3. `FootnotePostTreeprocessor` (priority 15): `duplicates_fnodeX` (copies of `a` elements with a new `href`).
4. the tail: `late_noctl_fn` of `Lemmas/F/PlaceholdersXLate.lean`; the unfolding of `convertX` with footnotes on:
   `convertX_fn_ok`; the composition `convertX_noctl_fn`.

Core Lean only.
-/
import MdVerif.Lemmas.PlaceholdersXAll
import MdVerif.Lemmas.F.PlaceholdersXFM
import MdVerif.Lemmas.F.PlaceholdersXLate
import MdVerif.Lemmas.F.PlaceholdersAmpBlock

namespace MdVerif.NoCtlXF
variable [MdVerif.NoCtlF.HtmlBound]
set_option linter.unusedSectionVars false
open Py
open Inline hiding STX ETX
open InlineX
open MdVerif.NoCtl hiding Bnd BtInv BtSafe BuildOK BuildOKB Clean CleanB Covered DNode DNode.mono DNode.toW DataB Delim DelimB ENode ENode.toS EscOK FMSpec FMSpecB FNode FNodeX FoundOK FoundOKB GrpOK GrpOK.cut HIOut HIOut.trans HIOutB HISpec HISpecB HIok HIokB HeadOK HeadOK.close IsTok ItemOK ItemOKB ModeOK NestedOK NestedOKB Out Out.set_tail Out.tail OutB OutB.head PPInv PPInv.cons PPInv.reverse PPInvB PPInvB.finish PPOutB PPSpec PPSpecB RInv RInvB RawNode SNode SNode.mono SNode.toW SNodeB SNodeB.mono SNodeB.toW Splice SpliceB StOK StOK.push StOKB StOKB.push StrB StrB.mono StrB.toT StrS StrT StrT.mono StrW StrW.mono SubOK SubOKB TNode Unclean VInv VInvB WF WF.append WF.lstrip WF.mono WF.nil WF.of_noCtl WF.ph WF.plain WF.rstrip WF.split WF.split_aux WF.strip WF.tok WFO WNode WNode.children_irrel WNode.clean WNode.mono WNode.set_tail WNodeB WNodeB.children_irrel WNodeB.clean WNodeB.mono WNodeB.set_tail aNode_snodeB all_clean all_cleanB all_clean_list all_clean_listB applyPatternB_spec applyPattern_spec attrsTok backtick_stash_ok backtick_stash_okB bnd_cons_right bnd_nil_left bnd_nil_right bnd_snoc_left brNode_raw brNode_snodeB brRule_fnode btInv_of_done btInv_succ btSafe_of_no_stx bt_first_match buildB_spec build_spec dataB_of_strB delimB_star delimB_under delim_star delim_under dnode_append dnode_mkEl dnode_setTextOrTail domB_escToken domB_placeholder domChar_inner domS_escToken domS_placeholder domS_tok elStepB_spec elStep_spec emHandleB_spec emHandle_spec emScanB_spec emScan_spec em_stash_ok em_stash_okB enode_append enode_mkEl enode_setTextOrTail escOK_default escape_stash_ok escape_stash_okB find_ph_escToken find_ph_wf fmSpecB fmSpec_of_modeOK forall_DNode_mono forall_DNode_toW forall_SNodeB_mono forall_SNodeB_toW forall_WNode_mono forall_WNode_monoB getD_of_not_truthy grpOK_nil grpOK_strB handleInlineB_spec handleInline_spec hiLoopB_spec hiLoop_spec hiNodeB_spec hiNode_spec hiNodesB_spec hiNodes_spec hiOptB_spec hiOpt_spec hiSpecB hiSpecB_of_fmSpecB hiSpec_false hiSpec_of_fmSpec hiSpec_true inner inner_cases inner_digit inner_ne isTok_escToken isTok_placeholder linebreak_stash_ok linebreak_stash_okB linkHandle_ref_ok linkTextB_spec linkText_spec mapKids_fnode mapTree_fnode modeOK_false modeOK_true noCtl_of_wf noCtl_of_wf_no_stx not_strong_stash_ok not_strong_stash_okB parseSubB_spec parseSub_spec petTailB_spec petTail_spec petTextB_spec petText_code petText_spec pet_both pet_bothB ppLoopB_spec ppLoop_spec ppTopB_spec ppTop_spec preRule_fnode prettifyETree_fnode prettifyKids_fnode prettify_fnode procKidsB_spec procKids_spec procNodeB_spec procNode_spec processPlaceholdersB_spec processPlaceholders_spec rawNode_of_dnode runLoop_spec runLoop_specB run_spec run_specB sepOK3_placeholder sepOK_placeholder seqDecomp_wf seqMatch_spec seqMatch_specB space_not_inner spliceB_of_span spliceB_out splice_of_span splice_out strB_none strB_zero_of_not_processed strS_nil strT_none strT_of_noCtl strW_append strW_none strW_some strW_zero_of_not_processed subLoopB_spec subLoop_spec subTryB_spec subTry_spec tok_append_split tok_split unclean_setAt_outside unescStep_fnode unescapeKids_fnode_some unescapeText_wf unescapeText_wf_some unescapeTree_fnode unescapeTree_fnode_some visitChild_spec visitChild_specB visitLoop_spec visitLoop_specB visit_tail visit_tailB visit_text visit_textB wf_escToken wf_false_zero_iff wf_placeholder
open MdVerif.NoCtlF
open MdVerif.NoCtlX

/-! ## 1. the block tree and `FootnoteTreeprocessor` -/

/-- the string class that the block stage keeps on the domain of `C10_partial_links` (+ wikilinks) -/
abbrev PW (wl : Bool) : Str → Prop := fun s => (Blk.AllC pDomA s ∧ Adj3 s) ∧ Qw wl s

/-- an element of the tree before the inline stage: `WNodeB 0` of the generalised grammar, `QN`, only `code` elements
    have an atomic text, a non-atomic text is made of ordinary characters and footnote tokens -/
def FnQ (wl : Bool) (n : Node) : Prop :=
  WNodeB 0 n ∧ QN wl n ∧ (n.textAtomic = true → isCode n = true) ∧ (n.textAtomic = false → WFO false 0 n.text)

theorem fnQ_of_bnodeXP {wl : Bool} {n : Node} (h : BlkX.BNodeXP pDomA Blk.okc (PW wl) n) : FnQ wl n := by
  obtain ⟨⟨b1, b2, b3, b4, b5, b6, b7⟩, p1, p2⟩ := h
  have htail := allC_domA p1.1.1
  refine ⟨⟨b1, attrsNoCtl_of_attrsCA b2, b3, strT_of_noCtl htail.1 htail.2 p1.1.2, ?_,
    fun hc => b7 (by simpa [isCode] using hc)⟩, ⟨fun ha => (p2 ha).2, p1.2⟩, ?_, ?_⟩
  · split
    · rename_i hat
      rw [if_pos hat] at b5
      exact WF.of_noCtl (allC_okc b5)
    · rename_i hat
      have hat' : n.textAtomic = false := by simpa using hat
      have ht := p2 hat'
      have htx := allC_domA ht.1.1
      exact strT_of_noCtl htx.1 htx.2 ht.1.2
  · intro ha
    have := b6 ha
    simp [isCode, this]
  · intro ha
    exact WF.of_noCtl (allC_domA (p2 ha).1.1).1

theorem fnQ_kids {wl : Bool} {n : Node} (h : FnQ wl n) (kids : List Node) : FnQ wl { n with children := kids } := h

theorem fnQ_untail {wl : Bool} {n : Node} (h : FnQ wl n) : FnQ wl { n with tail := none, tailAtomic := false } := by
  obtain ⟨⟨h1, h2, h3, h4, h5, h6⟩, ⟨q1, q2⟩, h7, h8⟩ := h
  exact ⟨⟨h1, h2, rfl, strT_none 0, h5, h6⟩, ⟨q1, by intro hw; exact noPair_nil _ _⟩, h7, h8⟩

/-- a new element with a literal tag (not `code`), attributes without STX/ETX, no text, no tail -/
theorem fnQ_lit {wl : Bool} (tag : String) (attrs : List (Str × Str)) (kids : List Node) (ht : NoCtl tag.toList)
    (hc : (Tag.name tag.toList == Tag.name "code".toList) = false) (ha : attrsNoCtl attrs) :
    FnQ wl { FootnotesTree.el tag with attrs := attrs, children := kids } := by
  refine ⟨⟨ht, ha, rfl, strT_none 0, ?_, ?_⟩, ⟨fun _ _ => noPair_nil _ _, fun _ => noPair_nil _ _⟩, ?_, fun _ => .nil⟩
  · show (if false = true then _ else _)
    simp only [Bool.false_eq_true, if_false]
    exact strT_none 0
  · intro h
    simp only [isCode, FootnotesTree.el] at h
    rw [hc] at h; cases h
  · intro h; cases h

theorem nbsp_eq : FootnotesTree.nbspPlaceholder = frnToken "qq3936677670287331zz".toList := rfl
theorem backlinkText_eq : FootnotesTree.fnBacklinkText = frnToken "zz1337820767766393qq".toList := rfl

section FnOn
/-! `FootnoteTreeprocessor` only runs when footnotes is enabled: the grammar admits footnote tokens -/
variable [FnOn]

theorem wf_nbsp {esc : Bool} {k : Nat} : WF esc k FootnotesTree.nbspPlaceholder := by
  rw [nbsp_eq]; exact wf_frnToken (.inl ⟨FnOn.out, .inr rfl⟩)

theorem wf_backlinkText {esc : Bool} {k : Nat} : WF esc k FootnotesTree.fnBacklinkText := by
  rw [backlinkText_eq]; exact wf_frnToken (.inl ⟨FnOn.out, .inl rfl⟩)

/-- a string of ordinary characters and footnote tokens, of the domain, is a string of the tree -/
theorem strT_of_fwf {k : Nat} {s : Str} (h : WF false 0 s) (hd : DomA s) (ha : Adj3 s) : StrT k (some s) :=
  ⟨WF.mono (Nat.zero_le _) (by simp) h, hd, ha, btSafe_of_wf h⟩

/-- `NBSP_PLACEHOLDER` behind the text of a `p` -/
theorem fnQ_nbsp {wl : Bool} {node : Node} {t : Str} (h : FnQ wl node) (hp : node.isTag "p" = true)
    (ht : node.text = some t) :
    FnQ wl { node with text := some (t ++ FootnotesTree.nbspPlaceholder), textAtomic := false } := by
  obtain ⟨⟨h1, h2, h3, h4, h5, h6⟩, ⟨q1, q2⟩, h7, h8⟩ := h
  have hnc : isCode node = false := by
    simp only [Node.isTag, beq_iff_eq] at hp
    simp [isCode, hp]
  have hna : node.textAtomic = false := by
    cases hq : node.textAtomic with
    | false => rfl
    | true => rw [h7 hq] at hnc; cases hnc
  rw [hna] at h5
  simp only [Bool.false_eq_true, if_false] at h5
  have hs : StrT 0 (some t) := by rw [← ht]; exact h5
  have hw0 : WF false 0 t := by have := h8 hna; rw [ht] at this; exact this
  have hq : Qw wl t := by have := q1 hna; rw [ht] at this; exact this
  have hnew : WF false 0 (t ++ FootnotesTree.nbspPlaceholder) := hw0.append wf_nbsp
  have hdom : DomA (t ++ FootnotesTree.nbspPlaceholder) := domA_append.2 ⟨hs.2.1, domA_of_domB (by decide)⟩
  have hadj : Adj3 (t ++ FootnotesTree.nbspPlaceholder) :=
    ⟨noAdj_append hs.2.2.1.1 (by decide) (.inr (by decide)),
     noPair_append hs.2.2.1.2.1 (by decide) (.inr (by decide)),
     noPair_append hs.2.2.1.2.2 (by decide) (.inr (by decide))⟩
  refine ⟨⟨h1, h2, h3, h4, ?_, ?_⟩, ⟨fun _ hw => ?_, q2⟩, fun hx => (by cases hx), fun _ => hnew⟩
  · show (if false = true then _ else _)
    simp only [Bool.false_eq_true, if_false]
    exact strT_of_fwf hnew hdom hadj
  · intro hc
    have : isCode node = true := hc
    rw [hnc] at this; cases this
  · exact noPair_append (hq hw) (by decide) (.inr (by decide))

/-- ids without STX/ETX give a back-link element of the class -/
theorem backlink_fnQ {wl : Bool} {id : Str} (hid : NoCtl id) (index : Nat) :
    (FootnotesTree.backlink id index).Forall (FnQ wl) := by
  rw [Node.forall_iff]
  refine ⟨?_, by intro c hc; cases hc⟩
  have hnew : WF false 0 FootnotesTree.fnBacklinkText := wf_backlinkText
  refine ⟨⟨(by decide : NoCtl "a".toList), ?_, rfl, strT_none 0, ?_, ?_⟩,
    ⟨fun _ _ => (by decide : NoPair '[' ' ' FootnotesTree.fnBacklinkText), fun _ => noPair_nil _ _⟩,
    fun h => (by cases h), fun _ => hnew⟩
  · intro kv hkv
    simp only [FootnotesTree.backlink, List.mem_cons, List.not_mem_nil, or_false] at hkv
    rcases hkv with rfl | rfl | rfl
    · refine ⟨(by decide : NoCtl "href".toList), ?_⟩
      show NoCtl ('#' :: (Footnotes.fnref ++ ':' :: id))
      exact noCtl_cons.2 ⟨by decide, noCtl_append.2 ⟨by decide, noCtl_cons.2 ⟨by decide, hid⟩⟩⟩
    · exact ⟨(by decide : NoCtl "class".toList), (by decide : NoCtl "footnote-backref".toList)⟩
    · refine ⟨(by decide : NoCtl "title".toList), ?_⟩
      exact noCtl_append.2 ⟨noCtl_append.2 ⟨by decide, natToDec_noctl index⟩, by decide⟩
  · show (if false = true then _ else _)
    simp only [Bool.false_eq_true, if_false]
    exact strT_of_fwf hnew (domA_of_domB (by decide)) (by decide)
  · intro hc; exact absurd (show (Tag.name "a".toList == Tag.name "code".toList) = true from hc) (by decide)

theorem addBacklink_fnQ {wl : Bool} {li bl li' : Node} (hli : li.Forall (FnQ wl)) (hbl : bl.Forall (FnQ wl))
    (h : FootnotesTree.addBacklink li bl = some li') : li'.Forall (FnQ wl) :=
  addBacklink_forall hli hbl (fun _ kids hn => fnQ_kids hn kids)
    (by
      have := fnQ_lit (wl := wl) "p" [] [] (by decide) (by decide) (fun _ h => by cases h)
      exact this)
    (fun node t hn hp ht => fnQ_nbsp hn hp ht) h

/-- ids and bodies of the footnote table: ids of the character class, bodies in the string class -/
theorem footnotesOf_P {p : Char → Bool} {P : Str → Prop} {log : Block.Refs} (h : BlkX.LogC p P log) :
    ∀ kv ∈ BlockExt.footnotesOf log, Blk.AllC p kv.1 ∧ P kv.2 := by
  unfold BlockExt.footnotesOf
  have key : ∀ (l : Block.Refs) (d : List (Str × Str)), (∀ e ∈ l, e ∈ log) →
      (∀ kv ∈ d, Blk.AllC p kv.1 ∧ P kv.2) →
      ∀ kv ∈ l.foldl (fun d e => if BlockExt.isFnEntry e then BlockExt.dictSet d (e.1.drop 2) e.2.1 else d) d,
        Blk.AllC p kv.1 ∧ P kv.2 := by
    intro l
    induction l with
    | nil => intro d _ hd; exact hd
    | cons e l ih =>
      intro d hl hd
      simp only [List.foldl_cons]
      apply ih _ (fun x hx => hl x (List.mem_cons_of_mem _ hx))
      have he := h e (hl e (by simp))
      split
      · next hfn =>
        have hk : Blk.AllC p (e.1.drop 2) := BlkX.keyOf_fn_entry hfn ▸ he.1
        have hv : P e.2.1 := he.2.2.2 hfn
        unfold BlockExt.dictSet
        split
        · intro kv hkv
          simp only [List.mem_map] at hkv
          obtain ⟨x, hx, rfl⟩ := hkv
          split
          · exact ⟨hk, hv⟩
          · exact hd x hx
        · intro kv hkv
          rcases List.mem_append.1 hkv with hkv | hkv
          · exact hd kv hkv
          · simp only [List.mem_singleton] at hkv
            subst hkv; exact ⟨hk, hv⟩
      · exact hd
  exact key log [] (fun _ hx => hx) (fun kv hkv => by cases hkv)

/-- the loop of `makeFootnotesDiv`: every `li` is a tree of `FnQ` elements, the log keeps its class -/
theorem makeLis_spec (x : PipelineX.Exts) (cfg : Pipeline.Cfg) (wl : Bool) :
    ∀ (l : List (Str × Str)) (index : Nat) (log : Block.Refs) {lis : List Node} {log' : Block.Refs},
      (∀ kv ∈ l, Blk.AllC pDomA kv.1 ∧ PW wl kv.2) → BlkX.LogC pDomA (PW wl) log →
      FootnotesTree.makeLis (PipelineX.parseChunkX x cfg) PipelineX.fnCount l index log = .ok (lis, log') →
      (∀ li ∈ lis, li.Forall (FnQ wl)) ∧ BlkX.LogC pDomA (PW wl) log'
  | [], _, log, lis, log', _, hlog, h => by
    simp only [FootnotesTree.makeLis, FootnotesTree.R.ok.injEq, Prod.mk.injEq] at h
    obtain ⟨rfl, rfl⟩ := h
    exact ⟨(by intro li hli; cases hli), hlog⟩
  | (id, text) :: rest, index, log, lis, log', hl, hlog, h => by
    have hkv := hl (id, text) List.mem_cons_self
    unfold FootnotesTree.makeLis at h
    split at h
    · cases h
    · next sur log1 hparse =>
      split at h
      · cases h
      · dsimp only at h
        split at h
        · cases h
        · next li' hadd =>
          split at h
          · next lis2 log2 hrest =>
            simp only [FootnotesTree.R.ok.injEq, Prod.mk.injEq] at h
            obtain ⟨rfl, rfl⟩ := h
            obtain ⟨hsur, hlog1⟩ := BlkX.parseChunkXT_strs (strDomX_adj3qA wl) x.tables x.blockCfg cfg.tab _ log hlog
              text hkv.2 hparse
            obtain ⟨ih1, ih2⟩ := makeLis_spec x cfg wl rest (index + 1) log1
              (fun kv hkv => hl kv (List.mem_cons_of_mem _ hkv)) hlog1 hrest
            refine ⟨?_, ih2⟩
            intro li hli
            rcases List.mem_cons.1 hli with rfl | hli
            · refine addBacklink_fnQ ?_ (backlink_fnQ (allC_domA hkv.1).1 index) hadd
              rw [Node.forall_iff]
              refine ⟨?_, ?_⟩
              · refine fnQ_lit "li" _ _ (by decide) (by decide) ?_
                intro kv hkv'
                simp only [List.mem_singleton] at hkv'
                subst hkv'
                exact ⟨(by decide : NoCtl "id".toList), noCtl_cons.2 ⟨by decide, noCtl_cons.2 ⟨by decide, noCtl_cons.2 ⟨by decide,
                  (allC_domA hkv.1).1⟩⟩⟩⟩
              · intro c hc
                have hsur' := (Node.forall_iff _ _).1 hsur
                exact Node.Forall.mono (fun _ hn => fnQ_of_bnodeXP hn) c (hsur'.2 c hc)
            · exact ih1 li hli
          · cases h
          · cases h

/-- `makeFootnotesDiv` -/
theorem makeDiv_spec (x : PipelineX.Exts) (cfg : Pipeline.Cfg) (wl : Bool) {log : Block.Refs}
    (hlog : BlkX.LogC pDomA (PW wl) log) {div : Option Node} {log' : Block.Refs}
    (h : FootnotesTree.makeDiv (PipelineX.parseChunkX x cfg) PipelineX.fnCount (BlockExt.footnotesOf log) log =
      .ok (div, log')) :
    (∀ d, div = some d → d.Forall (FnQ wl)) ∧ BlkX.LogC pDomA (PW wl) log' := by
  unfold FootnotesTree.makeDiv at h
  split at h
  · simp only [FootnotesTree.R.ok.injEq, Prod.mk.injEq] at h
    obtain ⟨rfl, rfl⟩ := h
    exact ⟨fun d hd => (by cases hd), hlog⟩
  · split at h
    · next lis log2 hl =>
      simp only [FootnotesTree.R.ok.injEq, Prod.mk.injEq] at h
      obtain ⟨rfl, rfl⟩ := h
      obtain ⟨h1, h2⟩ := makeLis_spec x cfg wl _ 1 log (footnotesOf_P hlog) hlog hl
      refine ⟨?_, h2⟩
      intro d hd
      simp only [Option.some.injEq] at hd
      subst hd
      rw [Node.forall_iff]
      refine ⟨fnQ_lit "div" _ _ (by decide) (by decide) ?_, ?_⟩
      · intro kv hkv
        simp only [List.mem_singleton] at hkv
        subst hkv
        exact ⟨(by decide : NoCtl "class".toList), (by decide : NoCtl "footnote".toList)⟩
      · intro c hc
        simp only [List.mem_cons, List.not_mem_nil, or_false] at hc
        rcases hc with rfl | rfl
        · rw [Node.forall_iff]
          exact ⟨fnQ_lit "hr" [] [] (by decide) (by decide) (fun _ h => by cases h), (by intro c hc; cases hc)⟩
        · rw [Node.forall_iff]
          exact ⟨fnQ_lit "ol" [] lis (by decide) (by decide) (fun _ h => by cases h), h1⟩
    · cases h
    · cases h

end FnOn

mutual
theorem placeNode_forall {Q : Node → Prop} (hu : ∀ n, Q n → Q { n with tail := none, tailAtomic := false })
    (hk : ∀ n kids, Q n → Q { n with children := kids }) {div : Node} (hd : div.Forall Q) : ∀ (t : Node) {t' : Node}, t.Forall Q → FootnotesTree.placeNode div t = some t' →
      t'.Forall Q
  | ⟨tag, attrs, text, ta, children, tail, tla⟩, t', h, hr => by
    simp only [Node.Forall] at h
    unfold FootnotesTree.placeNode at hr
    split at hr
    · next ks hk' =>
      simp only [Option.some.injEq] at hr
      subst hr
      simp only [Node.Forall]
      exact ⟨hk _ ks h.1, placeKids_forall hu hk hd children h.2 hk'⟩
    · cases hr
theorem placeKids_forall {Q : Node → Prop} (hu : ∀ n, Q n → Q { n with tail := none, tailAtomic := false })
    (hk : ∀ n kids, Q n → Q { n with children := kids }) {div : Node} (hd : div.Forall Q) : ∀ (l : List Node) {l' : List Node}, Node.ForallL Q l →
      FootnotesTree.placeKids div l = some l' → Node.ForallL Q l'
  | [], _, _, hr => by simp [FootnotesTree.placeKids] at hr
  | c :: r, l', h, hr => by
    simp only [Node.ForallL] at h
    unfold FootnotesTree.placeKids at hr
    split at hr
    · simp only [Option.some.injEq] at hr
      subst hr
      simp only [Node.ForallL]
      exact ⟨hd, h.2⟩
    · split at hr
      · simp only [Option.some.injEq] at hr
        subst hr
        simp only [Node.ForallL]
        refine ⟨?_, hd, h.2⟩
        have hc := (Node.forall_def Q c).1 h.1
        exact (Node.forall_def Q _).2 ⟨hu c hc.1, hc.2⟩
      · split at hr
        · next c' hc' =>
          simp only [Option.some.injEq] at hr
          subst hr
          simp only [Node.ForallL]
          exact ⟨placeNode_forall hu hk hd c h.1 hc', h.2⟩
        · split at hr
          · next r' hr' =>
            simp only [Option.some.injEq] at hr
            subst hr
            simp only [Node.ForallL]
            exact ⟨h.1, placeKids_forall hu hk hd r h.2 hr'⟩
          · cases hr
end

/-- `FootnoteTreeprocessor.run`: the `div` replaces the marker, or is appended to the root -/
theorem placeDiv_forall {Q : Node → Prop} (hu : ∀ n, Q n → Q { n with tail := none, tailAtomic := false })
    (hk : ∀ n kids, Q n → Q { n with children := kids })
    {root div : Node} (hr : root.Forall Q) (hd : div.Forall Q) : (FootnotesTree.placeDiv root div).Forall Q := by
  unfold FootnotesTree.placeDiv
  split
  · next r h => exact placeNode_forall hu hk hd root hr h
  · rw [Node.forall_iff] at hr ⊢
    refine ⟨hk root _ hr.1, ?_⟩
    intro c hc
    simp only [Node.append] at hc
    rcases List.mem_append.1 hc with hc | hc
    · exact hr.2 c hc
    · rw [List.mem_singleton.1 hc]; exact hd

/-! ## 3. `FootnotePostTreeprocessor` -/

/-- an element right behind the inline stage: `FNodeX`, and its attribute values hold no token at all (the `href` of
    a back-link is cut at its first `:`, which must not be the `:` of a raw-HTML placeholder) -/
def FNodeA (n : Node) : Prop := FNodeX n ∧ attrsNoCtl n.attrs

theorem setAttr_fnodeA {n : Node} (h : n.Forall FNodeA) {k v : Str} (hk : NoCtl k) (hv : NoCtl v) :
    (n.setAttr k v).Forall FNodeA := by
  rw [Node.forall_iff] at h
  obtain ⟨⟨⟨h1, h2, h3, h4, h5⟩, ha⟩, hkids⟩ := h
  unfold Node.setAttr
  split
  · rw [Node.forall_iff]
    refine ⟨⟨⟨h1, ?_, h3, h4, h5⟩, ?_⟩, hkids⟩
    · intro kv hkv
      simp only [List.mem_map] at hkv
      obtain ⟨x, hx, rfl⟩ := hkv
      split
      · exact ⟨hk, WF.of_noCtl hv⟩
      · exact h2 x hx
    · intro kv hkv
      simp only [List.mem_map] at hkv
      obtain ⟨x, hx, rfl⟩ := hkv
      split
      · exact ⟨hk, hv⟩
      · exact ha x hx
  · rw [Node.forall_iff]
    refine ⟨⟨⟨h1, ?_, h3, h4, h5⟩, ?_⟩, hkids⟩
    · intro kv hkv
      rcases List.mem_append.1 hkv with hkv | hkv
      · exact h2 kv hkv
      · rw [List.mem_singleton.1 hkv]; exact ⟨hk, WF.of_noCtl hv⟩
    · intro kv hkv
      rcases List.mem_append.1 hkv with hkv | hkv
      · exact ha kv hkv
      · rw [List.mem_singleton.1 hkv]; exact ⟨hk, hv⟩

/-- the `href`s of the copied back-links: the original cut at its first `:`, a number in between -/
theorem duplicateLinks_noctl {count : Nat} {href h : Str} (hw : NoCtl href)
    (hm : h ∈ Footnotes.duplicateLinks count [href]) : NoCtl h := by
  simp only [Footnotes.duplicateLinks] at hm
  split at hm
  · next ref rest hs =>
    simp only [List.mem_map] at hm
    obtain ⟨i, -, rfl⟩ := hm
    rw [splitFirst_spec hs] at hw
    obtain ⟨w1, w2⟩ := noCtl_append.1 hw
    exact noCtl_append.2 ⟨noCtl_append.2 ⟨w1, natToDec_noctl i⟩, w2⟩
  · cases hm

mutual
theorem firstBackref_forall {Q : Node → Prop} : ∀ (t : Node) {a : Node}, t.Forall Q →
    FootnotesTree.firstBackref t = some a → a.Forall Q
  | ⟨tag, attrs, text, ta, children, tail, tla⟩, a, h, hr => by
    unfold FootnotesTree.firstBackref at hr
    split at hr
    · simp only [Option.some.injEq] at hr
      subst hr; exact h
    · simp only [Node.Forall] at h
      exact firstBackrefKids_forall children h.2 hr
theorem firstBackrefKids_forall {Q : Node → Prop} : ∀ (l : List Node) {a : Node}, Node.ForallL Q l →
    FootnotesTree.firstBackrefKids l = some a → a.Forall Q
  | [], _, _, hr => by simp [FootnotesTree.firstBackrefKids] at hr
  | c :: r, a, h, hr => by
    simp only [Node.ForallL] at h
    unfold FootnotesTree.firstBackrefKids at hr
    split at hr
    · next a' ha =>
      simp only [Option.some.injEq] at hr
      subst hr
      exact firstBackref_forall c h.1 ha
    · exact firstBackrefKids_forall r h.2 hr
end

theorem getAttr_noctl {n : Node} (h : FNodeA n) (k : Str) : NoCtl ((n.getAttr k).getD []) := by
  unfold Node.getAttr
  cases hf : n.attrs.find? (fun kv => kv.1 = k) with
  | none => exact noCtl_nil
  | some kv => exact (h.2 kv (List.mem_of_find?_eq_some hf)).2

theorem setLast_forall {Q : Node → Prop} (hk : ∀ n kids, Q n → Q { n with children := kids }) {li new : Node}
    (hli : li.Forall Q) (hnew : new.Forall Q) : (li.setLast new).Forall Q := by
  rw [Node.forall_iff] at hli ⊢
  refine ⟨hk li _ hli.1, ?_⟩
  intro c hc
  simp only [Node.setLast] at hc
  rcases List.mem_append.1 hc with hc | hc
  · exact hli.2 c ((List.dropLast_sublist _).subset hc)
  · rw [List.mem_singleton.1 hc]; exact hnew

theorem fnodeA_kids {n : Node} (h : FNodeA n) (kids : List Node) : FNodeA { n with children := kids } := h

theorem dupLi_fnodeA (fn : Footnotes.State) {li li' : Node} (hli : li.Forall FNodeA)
    (h : FootnotesTree.dupLi fn li = some li') : li'.Forall FNodeA := by
  unfold FootnotesTree.dupLi at h
  simp only [] at h
  split at h
  · cases h
  · split at h
    · split at h
      · simp only [Option.some.injEq] at h; subst h; exact hli
      · next link hlink =>
        have hlk : link.Forall FNodeA := firstBackref_forall li hli hlink
        split at h
        · cases h
        · split at h
          · next last hlast =>
            simp only [Option.some.injEq] at h; subst h
            have hlast' : last.Forall FNodeA :=
              ((Node.forall_iff _ _).1 hli).2 last (List.mem_of_getLast? hlast)
            refine setLast_forall (Q := FNodeA) (fun _ kids hn => fnodeA_kids hn kids) hli ?_
            rw [Node.forall_iff] at hlast' ⊢
            refine ⟨fnodeA_kids hlast'.1 _, ?_⟩
            intro c hc
            rcases List.mem_append.1 hc with hc | hc
            · exact hlast'.2 c hc
            · simp only [List.mem_map] at hc
              obtain ⟨hr, hhr, rfl⟩ := hc
              exact setAttr_fnodeA hlk (by decide)
                (duplicateLinks_noctl (getAttr_noctl ((Node.forall_iff _ _).1 hlk).1 _) hhr)
          · cases h
    · simp only [Option.some.injEq] at h; subst h; exact hli

theorem dupLis_fnodeA (fn : Footnotes.State) : ∀ (l : List Node) {l' : List Node}, Node.ForallL FNodeA l →
    FootnotesTree.dupLis fn l = some l' → Node.ForallL FNodeA l'
  | [], l', _, h => by simp only [FootnotesTree.dupLis, Option.some.injEq] at h; subst h; simp [Node.ForallL]
  | li :: r, l', hl, h => by
    simp only [Node.ForallL] at hl
    simp only [FootnotesTree.dupLis] at h
    split at h
    · next li' r' h1 h2 =>
      simp only [Option.some.injEq] at h; subst h
      simp only [Node.ForallL]
      exact ⟨dupLi_fnodeA fn hl.1 h1, dupLis_fnodeA fn r hl.2 h2⟩
    · cases h

mutual
theorem dupFirstOl_fnodeA (fn : Footnotes.State) : ∀ (n : Node) {n' : Node} {b : Bool}, n.Forall FNodeA →
    FootnotesTree.dupFirstOl fn n = some (n', b) → n'.Forall FNodeA
  | ⟨tag, attrs, text, ta, children, tail, tla⟩, n', b, hn, h => by
    simp only [Node.Forall] at hn
    simp only [FootnotesTree.dupFirstOl] at h
    split at h
    · split at h
      · next ks hk =>
        simp only [Option.some.injEq, Prod.mk.injEq] at h
        rw [← h.1]
        simp only [Node.Forall]
        exact ⟨hn.1, dupLis_fnodeA fn children hn.2 hk⟩
      · cases h
    · split at h
      · next ks found hk =>
        simp only [Option.some.injEq, Prod.mk.injEq] at h
        rw [← h.1]
        simp only [Node.Forall]
        exact ⟨hn.1, dupFirstOlKids_fnodeA fn children hn.2 hk⟩
      · cases h
theorem dupFirstOlKids_fnodeA (fn : Footnotes.State) : ∀ (l : List Node) {l' : List Node} {b : Bool},
    Node.ForallL FNodeA l → FootnotesTree.dupFirstOlKids fn l = some (l', b) → Node.ForallL FNodeA l'
  | [], l', b, _, h => by
    simp only [FootnotesTree.dupFirstOlKids, Option.some.injEq, Prod.mk.injEq] at h
    rw [← h.1]; simp [Node.ForallL]
  | c :: r, l', b, hl, h => by
    simp only [Node.ForallL] at hl
    simp only [FootnotesTree.dupFirstOlKids] at h
    split at h
    · cases h
    · next c1 h1 =>
      simp only [Option.some.injEq, Prod.mk.injEq] at h
      rw [← h.1]
      simp only [Node.ForallL]
      exact ⟨dupFirstOl_fnodeA fn c hl.1 h1, hl.2⟩
    · next c1 h1 =>
      split at h
      · next r1 found h2 =>
        simp only [Option.some.injEq, Prod.mk.injEq] at h
        rw [← h.1]
        simp only [Node.ForallL]
        exact ⟨dupFirstOl_fnodeA fn c hl.1 h1, dupFirstOlKids_fnodeA fn r hl.2 h2⟩
      · cases h
end

mutual
/-- **`FootnotePostTreeprocessor.run` keeps `FNodeA`**: the copies of the back-link get an `href` cut out of the
    original one at `:` -/
theorem duplicates_fnodeA (fn : Footnotes.State) : ∀ (n : Node) {n' : Node}, n.Forall FNodeA →
    FootnotesTree.duplicates fn n = some n' → n'.Forall FNodeA
  | ⟨tag, attrs, text, ta, children, tail, tla⟩, n', hn, h => by
    simp only [Node.Forall] at hn
    simp only [FootnotesTree.duplicates] at h
    split at h
    · cases h
    · next ks hk =>
      have hks := duplicatesKids_fnodeA fn children hn.2 hk
      have h1 : (⟨tag, attrs, text, ta, ks, tail, tla⟩ : Node).Forall FNodeA := by
        simp only [Node.Forall]; exact ⟨hn.1, hks⟩
      split at h
      · cases hd : FootnotesTree.dupFirstOl fn ⟨tag, attrs, text, ta, ks, tail, tla⟩ with
        | none => rw [hd] at h; cases h
        | some r =>
          obtain ⟨m, b⟩ := r
          rw [hd] at h
          simp only [Option.map_some, Option.some.injEq] at h
          subst h
          exact dupFirstOl_fnodeA fn _ h1 hd
      · simp only [Option.some.injEq] at h; subst h; exact h1
theorem duplicatesKids_fnodeA (fn : Footnotes.State) : ∀ (l : List Node) {l' : List Node}, Node.ForallL FNodeA l →
    FootnotesTree.duplicatesKids fn l = some l' → Node.ForallL FNodeA l'
  | [], l', _, h => by
    simp only [FootnotesTree.duplicatesKids, Option.some.injEq] at h; subst h; simp [Node.ForallL]
  | c :: r, l', hl, h => by
    simp only [Node.ForallL] at hl
    simp only [FootnotesTree.duplicatesKids] at h
    split at h
    · next c1 r1 h1 h2 =>
      simp only [Option.some.injEq] at h; subst h
      simp only [Node.ForallL]
      exact ⟨duplicates_fnodeA fn c hl.1 h1, duplicatesKids_fnodeA fn r hl.2 h2⟩
    · cases h
end

/-! ## 4. the composition along `convertX` -/

theorem fnodeA_of_wnodeB {n : Node} (h : WNodeB 0 n) : FNodeA n := by
  obtain ⟨h1, h2, h3, h4, h5, h6⟩ := h
  refine ⟨⟨h1, attrsTok_of_noCtl h2, h4.1, ?_, ?_⟩, h2⟩
  · by_cases hat : n.textAtomic = true
    · rw [if_pos hat] at h5; exact WF.mono (Nat.le_refl _) (by simp) h5
    · rw [if_neg hat] at h5; exact h5.1
  · intro hc
    have hat := h6 hc
    rw [if_pos hat] at h5; exact h5

theorem fnodeX_of_wnodeB {n : Node} (h : WNodeB 0 n) : FNodeX n := (fnodeA_of_wnodeB h).1

theorem fnodeX_of_wnodeB' {n : Node} (h : WNodeB 0 n) : FNodeX n := by
  obtain ⟨h1, h2, h3, h4, h5, h6⟩ := h
  refine ⟨h1, attrsTok_of_noCtl h2, h4.1, ?_, ?_⟩
  · by_cases hat : n.textAtomic = true
    · rw [if_pos hat] at h5; exact WF.mono (Nat.le_refl _) (by simp) h5
    · rw [if_neg hat] at h5; exact h5.1
  · intro hc
    have hat := h6 hc
    rw [if_pos hat] at h5; exact h5

/-- the tree handed to the inline stage when footnotes is on -/
def fnRoot (root : Node) (div : Option Node) : Node :=
  match div with
  | some d => FootnotesTree.placeDiv root d
  | none => root

/-- `treeX` with footnotes on, behind the block parser and `makeFootnotesDiv` -/
theorem treeX_fn {x : PipelineX.Exts} (hfn : x.footnotes = true) {cfg : Pipeline.Cfg} {src text : Str}
    {stash : List Str} {root : Node} {log log' : Block.Refs} {div : Option Node}
    (hp : PipelineX.prepareX x cfg src = .ok (text, stash))
    (hb : BlockExt.parseDocumentXT x.tables x.blockCfg cfg.tab text = some (root, log))
    (hm : FootnotesTree.makeDiv (PipelineX.parseChunkX x cfg) PipelineX.fnCount (BlockExt.footnotesOf log) log =
      .ok (div, log')) :
    PipelineX.treeX x cfg src =
      match InlineX.runX (xcX x cfg log') (fnRoot root div) stash with
      | none => .oof
      | some (t, xs) =>
        match FootnotesTree.duplicates xs.fn t with
        | none => .err
        | some t' => lateX x cfg (BlockExt.abbrsOf log') t' xs.st.html := by
  unfold PipelineX.treeX
  rw [hp]
  simp only
  rw [hb]
  simp only [hfn, if_true]
  rw [hm]
  cases div <;> simp only [fnRoot, xcX, hfn] <;> rfl

/-- how `convertX` unfolds with footnotes on: an answer `.ok out` is `[]` (blank document) or every stage succeeded -/
theorem convertX_fn_ok {x : PipelineX.Exts} (hfn : x.footnotes = true) {cfg : Pipeline.Cfg} {src out : Str}
    (h : PipelineX.convertX x cfg src = .ok out) :
    out = [] ∨
    ∃ text stash root log div log' t xs t' u html,
      PipelineX.prepareX x cfg src = .ok (text, stash) ∧
      BlockExt.parseDocumentXT x.tables x.blockCfg cfg.tab text = some (root, log) ∧
      FootnotesTree.makeDiv (PipelineX.parseChunkX x cfg) PipelineX.fnCount (BlockExt.footnotesOf log) log =
        .ok (div, log') ∧
      InlineX.runX (xcX x cfg log') (fnRoot root div) stash = some (t, xs) ∧
      FootnotesTree.duplicates xs.fn t = some t' ∧
      lateX x cfg (BlockExt.abbrsOf log') t' xs.st.html = .ok u html ∧
      PipelineX.finishX x cfg html (Ser.serialize cfg.fmt u) = .ok out := by
  unfold PipelineX.convertX at h
  split at h
  · cases h
  · split at h
    · cases h
    · split at h
      · simp only [Pipeline.Outcome.ok.injEq] at h
        exact .inl h.symm
      · right
        cases hp : PipelineX.prepareX x cfg src with
        | oof => simp only [PipelineX.treeX, hp] at h; cases h
        | ood => simp only [PipelineX.treeX, hp] at h; cases h
        | ok ts =>
          obtain ⟨text, stash⟩ := ts
          cases hb : BlockExt.parseDocumentXT x.tables x.blockCfg cfg.tab text with
          | none => simp only [PipelineX.treeX, hp, hb] at h; cases h
          | some rl =>
            obtain ⟨root, log⟩ := rl
            cases hm : FootnotesTree.makeDiv (PipelineX.parseChunkX x cfg) PipelineX.fnCount
                (BlockExt.footnotesOf log) log with
            | oof => simp only [PipelineX.treeX, hp, hb, hfn, if_true, hm] at h; cases h
            | ood => simp only [PipelineX.treeX, hp, hb, hfn, if_true, hm] at h; cases h
            | ok dl =>
              obtain ⟨div, log'⟩ := dl
              rw [treeX_fn hfn hp hb hm] at h
              cases hr : InlineX.runX (xcX x cfg log') (fnRoot root div) stash with
              | none => rw [hr] at h; cases h
              | some ir =>
                obtain ⟨t, xs⟩ := ir
                rw [hr] at h
                simp only at h
                cases hdp : FootnotesTree.duplicates xs.fn t with
                | none => rw [hdp] at h; cases h
                | some t' =>
                  rw [hdp] at h
                  simp only at h
                  split at h
                  · cases h
                  · cases h
                  · cases h
                  · next u html hl =>
                    exact ⟨text, stash, root, log, div, log', t, xs, t', u, html, rfl, hb, hm, hr, hdp, hl, h⟩

/-- `md.ESCAPED_CHARS` with `|` appended by the tables extension -/
theorem escOK_escX (x : PipelineX.Exts) {cfg : Pipeline.Cfg} (h : EscOK cfg.esc) : EscOK (PipelineX.escX x cfg) := by
  unfold PipelineX.escX
  split
  · intro c hc
    rcases List.mem_append.1 hc with hc | hc
    · exact h c hc
    · simp only [List.mem_singleton] at hc
      subst hc
      exact ⟨by decide, by decide, by decide⟩
  · exact h

/-- the log after `FootnoteTreeprocessor` (footnote bodies are block-parsed by it: they may define further
    abbreviations and references); with footnotes off it is the log of the block stage -/
def fnLog (x : PipelineX.Exts) (cfg : Pipeline.Cfg) (log : Block.Refs) : Option Block.Refs :=
  if x.footnotes then
    match FootnotesTree.makeDiv (PipelineX.parseChunkX x cfg) PipelineX.fnCount (BlockExt.footnotesOf log) log with
    | .ok (_, log') => some log'
    | _ => none
  else some log

/-- no abbreviation of the document — those defined inside footnote bodies included — is a number (F-C10-6) or the
    body of one of the two footnote tokens (`zz1337820767766393qq`, `qq3936677670287331zz`), stated through the model
    of the block stage and of `FootnoteTreeprocessor`; decidable -/
def AbbrKeysOKF (x : PipelineX.Exts) (cfg : Pipeline.Cfg) (src : Str) : Prop :=
  x.abbr = true →
    match BlockExt.parseDocumentXT x.tables x.blockCfg cfg.tab (Pipeline.prepare cfg src) with
    | some (_, log) =>
      match fnLog x cfg log with
      | some log' => noDigitsAbbr (BlockExt.abbrsOf log') = true ∧ noFrnAbbr true false (BlockExt.abbrsOf log') = true
      | none => True
    | none => True

instance (x : PipelineX.Exts) (cfg : Pipeline.Cfg) (src : Str) : Decidable (AbbrKeysOKF x cfg src) := by
  unfold AbbrKeysOKF
  cases BlockExt.parseDocumentXT x.tables x.blockCfg cfg.tab (Pipeline.prepare cfg src) with
  | none => exact inferInstanceAs (Decidable (x.abbr = true → True))
  | some r =>
    cases h : fnLog x cfg r.2 with
    | none =>
      simp only [h]
      exact inferInstanceAs (Decidable (x.abbr = true → True))
    | some log' =>
      simp only [h]
      exact inferInstanceAs (Decidable (x.abbr = true →
        noDigitsAbbr (BlockExt.abbrsOf log') = true ∧ noFrnAbbr true false (BlockExt.abbrsOf log') = true))

/-- with footnotes off the hypothesis is (stronger than) `AbbrKeysOK` -/
theorem abbrKeysOK_of_F {x : PipelineX.Exts} (hfn : x.footnotes = false) {cfg : Pipeline.Cfg} {src : Str}
    (h : AbbrKeysOKF x cfg src) : AbbrKeysOK x cfg src := by
  intro ha
  have := h ha
  cases hb : BlockExt.parseDocumentXT x.tables x.blockCfg cfg.tab (Pipeline.prepare cfg src) with
  | none => trivial
  | some r =>
    rw [hb] at this
    simp only [fnLog, hfn, Bool.false_eq_true, if_false] at this
    exact this.1

/-- the abbreviation hypothesis of the generic tails -/
def AbbrTabOK (x : PipelineX.Exts) (abbrs : List (Str × Str)) : Prop :=
  x.abbr = true → (∀ kv ∈ abbrs, NoCtl kv.1 ∧ NoCtl kv.2) ∧ noDigitsAbbr abbrs = true ∧ NoFrnAbbr abbrs

/-- **the stages behind the block parser with footnotes on**: block tree of `FnQ` elements (texts and tails of the
    domain with foreign tokens), log of the token-free class, the entries of the raw-HTML stash of the preprocessors
    free of STX/ETX, and the parameter `HtmlBound.h` of the grammar equal to the length of the raw-HTML stash BEHIND the
    inline stage (which appends the entities); whatever the rest of `convertX` answers contains neither STX nor ETX -/
theorem tail_fn [FnOn] {x : PipelineX.Exts} (hfn : x.footnotes = true) {cfg : Pipeline.Cfg} (hcfg : EscOK cfg.esc)
    {stash : List Str} (hfnb : HtmlBound.fn = x.footnotes) (hent : ∀ e ∈ stash, NoCtl e)
    {root : Node} {log log' : Block.Refs} {div : Option Node}
    (hroot : root.Forall (FnQ x.wikilinks)) (hlog : BlkX.LogC pDomA (PW x.wikilinks) log)
    (hm : FootnotesTree.makeDiv (PipelineX.parseChunkX x cfg) PipelineX.fnCount (BlockExt.footnotesOf log) log =
      .ok (div, log'))
    {t t' u : Node} {xs : InlineX.XSt} {html : List Str} {out : Str}
    (hr : InlineX.runX (xcX x cfg log') (fnRoot root div) stash = some (t, xs))
    (hh : HtmlBound.h = xs.st.html.length)
    (hdp : FootnotesTree.duplicates xs.fn t = some t')
    (hl : lateX x cfg (BlockExt.abbrsOf log') t' xs.st.html = .ok u html)
    (hf : PipelineX.finishX x cfg html (Ser.serialize cfg.fmt u) = .ok out)
    (habbr : HtmlOK xs.st.html stash → BlkX.LogC pDomA (PW x.wikilinks) log' → AbbrTabOK x (BlockExt.abbrsOf log')) :
    NoCtl out := by
  obtain ⟨hdiv, hlog'⟩ := makeDiv_spec x cfg x.wikilinks hlog hm
  have hfr : (fnRoot root div).Forall (FnQ x.wikilinks) := by
    cases div with
    | none => exact hroot
    | some d => exact placeDiv_forall (fun _ hn => fnQ_untail hn) (fun _ kids hn => fnQ_kids hn kids) hroot (hdiv d rfl)
  have htree : (fnRoot root div).Forall (WNodeB 0) := Node.Forall.mono (fun _ hn => hn.1) _ hfr
  have htreeq : (fnRoot root div).Forall (QN x.wikilinks) := Node.Forall.mono (fun _ hn => hn.2.1) _ hfr
  have hkeys : ∀ k ∈ (xcX x cfg log').fnKeys, NoCtl k := by
    intro k hk
    simp only [List.mem_map] at hk
    obtain ⟨kv, hkv, rfl⟩ := hk
    exact (allC_domA (BlkX.footnotesOf_c hlog' kv hkv).1).1
  have hhi := hiSpecXB_tables (xc := xcX x cfg log') (escOK_escX x hcfg) (refsOK_of_logCA x _ hlog') hkeys
    (fn := x.footnotes) (wl := x.wikilinks) (nl := x.nl2br) rfl
  obtain ⟨ht, hhtml⟩ := runX_specB hhi htree htreeq hr (Nat.le_of_eq hh.symm)
  have htA : t'.Forall FNodeA :=
    duplicates_fnodeA xs.fn t (Node.Forall.mono (fun _ hn => fnodeA_of_wnodeB hn) t ht) hdp
  have htX : t'.Forall FNodeX := Node.Forall.mono (fun _ hn => hn.1) t' htA
  have hst : StashOK x xs.st.html := ⟨Nat.le_of_eq hh, hfnb, hhtml.noCtl hent⟩
  exact late_noctl_st cfg hst (habbr hhtml hlog') htX hl hf

/-- **the stages behind the block parser with footnotes off** -/
theorem tail_nofn {x : PipelineX.Exts} (hfn : x.footnotes = false) {cfg : Pipeline.Cfg} (hcfg : EscOK cfg.esc)
    {stash : List Str} (hfnb : HtmlBound.fn = x.footnotes) (hent : ∀ e ∈ stash, NoCtl e)
    {root : Node} {log : Block.Refs}
    (hroot : root.Forall (FnQ x.wikilinks)) (hlog : BlkX.LogC pDomA (PW x.wikilinks) log)
    {t u : Node} {xs : InlineX.XSt} {html : List Str} {out : Str}
    (hr : InlineX.runX (xcX x cfg log) root stash = some (t, xs))
    (hh : HtmlBound.h = xs.st.html.length)
    (hl : lateX x cfg (BlockExt.abbrsOf log) t xs.st.html = .ok u html)
    (hf : PipelineX.finishX x cfg html (Ser.serialize cfg.fmt u) = .ok out)
    (habbr : HtmlOK xs.st.html stash → AbbrTabOK x (BlockExt.abbrsOf log)) : NoCtl out := by
  have htree : root.Forall (WNodeB 0) := Node.Forall.mono (fun _ hn => hn.1) _ hroot
  have htreeq : root.Forall (QN x.wikilinks) := Node.Forall.mono (fun _ hn => hn.2.1) _ hroot
  have hkeys : ∀ k ∈ (xcX x cfg log).fnKeys, NoCtl k := by
    intro k hk
    simp only [List.mem_map] at hk
    obtain ⟨kv, hkv, rfl⟩ := hk
    exact (allC_domA (BlkX.footnotesOf_c hlog kv hkv).1).1
  have hhi := hiSpecXB_tables (xc := xcX x cfg log) (escOK_escX x hcfg) (refsOK_of_logCA x _ hlog) hkeys
    (fn := x.footnotes) (wl := x.wikilinks) (nl := x.nl2br) rfl
  obtain ⟨ht, hhtml⟩ := runX_specB hhi htree htreeq hr (Nat.le_of_eq hh.symm)
  have htX : t.Forall FNodeX := Node.Forall.mono (fun _ hn => fnodeX_of_wnodeB hn) t ht
  have hst : StashOK x xs.st.html := ⟨Nat.le_of_eq hh, hfnb, hhtml.noCtl hent⟩
  exact late_noctl_st cfg hst (habbr hhtml) htX hl hf

/-- the escapable characters: the hypothesis for the generalised grammar (`q`, `d` are inner characters too) implies
    the one of the original grammar -/
theorem escOK_orig_of_F {l : List Char} (h : EscOK l) : MdVerif.NoCtl.EscOK l := by
  intro c hc
  obtain ⟨h1, h2, h3⟩ := h c hc
  refine ⟨h1, h2, ?_⟩
  simp only [inner, Bool.or_eq_false_iff] at h3
  simp only [MdVerif.NoCtl.inner, Bool.or_eq_false_iff]
  refine ⟨h3.1, ?_⟩
  have := h3.2
  simp only [List.contains_eq_mem, List.mem_cons, List.not_mem_nil, or_false, decide_eq_false_iff_not, not_or] at this ⊢
  exact ⟨this.1, this.2.1, this.2.2.1, this.2.2.2.1, this.2.2.2.2.1, this.2.2.2.2.2.1, this.2.2.2.2.2.2.1⟩

end MdVerif.NoCtlXF
