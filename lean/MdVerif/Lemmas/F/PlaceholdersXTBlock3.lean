/-
Helper lemmas for C10 with fenced_code (block stage), part 3 (worker fc2): the table processor, the admonition processor,
the dispatcher on an ordinary block (`dispatchXT_t`), and the loop `parseBlocksXT` given one turn on every kind of block
(`parseBlocksXT_pres_of`) — port of `Lemmas/PlaceholdersXBlock3.lean`, `…XBlock4.lean` (worker b1) to the three string
classes of `Lemmas/F/PlaceholdersXTBlock.lean`.  Core Lean only.
-/
import MdVerif.Lemmas.F.PlaceholdersXTBlock2

namespace MdVerif.NoCtl.BlkXT
open Py Block Blk BlkB BlkX

/-! ### tables -/

section tables
variable {p q : Char → Bool} {Bp Tp Rp : Str → Prop}

theorem cellNode_tt (h : Dom2 p q Bp Tp Rp) (tag : String) (htag : NoCtl tag.toList ∧ Tag.name tag.toList ≠ codeTag)
    {text : Str} (ht : Tp text) (a : Option Tables.Align) :
    TX p q Tp (BlockExt.cellNode tag text a) ∧ (BlockExt.cellNode tag text a).textAtomic = false := by
  refine ⟨?_, rfl⟩
  unfold BlockExt.cellNode
  refine tx_fresh (txt := some text) h.tnil (tagNoCtl_el tag htag.1) htag.2 ?_ ht
  cases a with
  | none => exact attrsC_nil
  | some al => exact attrsC_one (h.b.litC lit_style) (h.b.litC (lit_align al))

theorem zipCells_tt (h : Dom2 p q Bp Tp Rp) (tag : String) (htag : NoCtl tag.toList ∧ Tag.name tag.toList ≠ codeTag) :
    ∀ (ts : List Str) (as : List (Option Tables.Align)), PL Tp ts → KidsOK p q Tp (BlockExt.zipCells tag ts as)
  | [], _, _ => by intro c hc; simp [BlockExt.zipCells] at hc
  | _ :: _, [], _ => by intro c hc; simp [BlockExt.zipCells] at hc
  | t :: ts, a :: as, ht => by
    have h1 := pl_cons.1 ht
    intro c hc
    simp only [BlockExt.zipCells, List.mem_cons] at hc
    rcases hc with rfl | hc
    · exact cellNode_tt h tag htag h1.1 a
    · exact zipCells_tt h tag htag ts as h1.2 c hc

theorem bodyRow_tt (h : Dom2 p q Bp Tp Rp) (align : List (Option Tables.Align)) {cells : List (Option Str)}
    (hc : ∀ c ∈ cells, ∀ t, c = some t → Tp t) :
    TX p q Tp (BlockExt.bodyRow align cells) ∧ (BlockExt.bodyRow align cells).textAtomic = false := by
  unfold BlockExt.bodyRow
  split
  · refine ⟨tx_parent h.tnil "tr" (by decide) (zipCells_tt h "td" (by decide) _ _ ?_), rfl⟩
    intro t ht
    simp only [List.mem_map] at ht
    obtain ⟨c, hcm, rfl⟩ := ht
    cases c with
    | none => exact h.tnil
    | some t => exact hc _ hcm t rfl
  · refine ⟨tx_parent h.tnil "tr" (by decide) ?_, rfl⟩
    intro c hcm
    simp only [List.mem_map] at hcm
    obtain ⟨_, _, rfl⟩ := hcm
    exact ⟨tx_el h.tnil "td" (by decide), rfl⟩

theorem tableNode_tt (h : Dom2 p q Bp Tp Rp) {t : Tables.Table} (hh : PL Tp t.head)
    (hbody : ∀ row ∈ t.body, ∀ c ∈ row, ∀ s, c = some s → Tp s) :
    TX p q Tp (BlockExt.tableNode t) ∧ (BlockExt.tableNode t).textAtomic = false := by
  refine ⟨?_, rfl⟩
  unfold BlockExt.tableNode
  refine tx_parent h.tnil "table" (by decide) ?_
  intro c hc
  simp only [List.mem_cons, List.not_mem_nil, or_false] at hc
  rcases hc with rfl | rfl
  · refine ⟨tx_parent h.tnil "thead" (by decide) ?_, rfl⟩
    intro c hc
    simp only [List.mem_singleton] at hc
    subst hc
    exact ⟨tx_parent h.tnil "tr" (by decide) (zipCells_tt h "th" (by decide) _ _ hh), rfl⟩
  · refine ⟨tx_parent h.tnil "tbody" (by decide) ?_, rfl⟩
    intro c hc
    simp only [List.mem_map] at hc
    obtain ⟨row, hrow, rfl⟩ := hc
    exact bodyRow_tt h _ (hbody row hrow)

theorem tableP_t (h : Dom2 p q Bp Tp Rp) {refs : Refs} {parent : Node} {b : Str} {rest : List Str} (bs : Nat × List Str)
    (hP : TX p q Tp parent) (hA : parent.textAtomic = false) (hR : LogC p Bp refs) (hb : Bp b)
    (hrest : PL Rp rest) : ResT p q Bp Tp Rp (BlockExt.tableP refs parent b rest bs) := by
  obtain ⟨t1, t2⟩ := tableRun_p h.d bs.1 bs.2 hb
  obtain ⟨n1, n2⟩ := tableNode_tt h (h.tl t1) (fun row hrow c hc s hs => h.sub _ (t2 row hrow c hc s hs))
  exact ⟨hP.append n1 n2, hA, hR, hrest⟩

end tables

/-! ### the admonition processor -/

section adm
variable {p q : Char → Bool} {Bp Tp Rp : Str → Prop}

theorem admonitionP_t (h : Dom2 p q Bp Tp Rp) {tab : Nat} {pb : PB} (hpb : PresT p q Bp Tp Rp pb)
    {state : List BState}
    {refs : Refs} {parent : Node} {b : Str} {rest : List Str} {hit : BlockExt.AdmHit}
    (hP : TX p q Tp parent) (hA : parent.textAtomic = false) (hR : LogC p Bp refs) (hb : Bp b)
    (hrest : PL Rp rest) (ht : BlockExt.admTest tab parent b = some hit) {r : Node × Refs × List Str}
    (hr : BlockExt.admonitionP tab pb state refs parent b rest hit = some r) : ResT p q Bp Tp Rp r := by
  have hd := h.d
  cases hit with
  | re st en g1 g2 =>
    have hs : BlockExt.admSearch b = some (st, en, g1, g2) := by
      simp only [BlockExt.admTest] at ht
      split at ht
      · next st' en' g1' g2' hs' => cases ht; exact hs'
      · split at ht <;> cases ht
    obtain ⟨hg1, hg2⟩ := admSearch_groups hs
    obtain ⟨hk, htitle⟩ := admClassTitle_p h.b hb hg1 hg2
    simp only [BlockExt.admonitionP] at hr
    split at hr
    · cases hr
    · next parent' refs' hcall =>
      have hout : OutT p q Bp Tp (parent', refs') := by
        split at hcall
        · exact hpb _ _ _ _ _ hP hA hR (h.r1 (hd.take hb st)) hcall
        · cases hcall; exact ⟨hP, hA, hR⟩
      obtain ⟨h1, h2, h3⟩ := hout
      have hdt := hd.detab tab (hd.drop hb en)
      generalize detab tab (b.drop en) = dt at hr hdt
      obtain ⟨block, theRest⟩ := dt
      generalize BlockExt.admClassTitle g1 g2 = kt at hr hk htitle
      obtain ⟨klass, title⟩ := kt
      simp only [] at hr hk htitle hdt
      -- the `div`
      have hdiv0 : TX p q Tp { Node.el "div" with attrs := [(BlockExt.strClass, BlockExt.strAdmonition ++ ' ' :: klass)] } := by
        refine tx_fresh (txt := none) h.tnil (tagNoCtl_el "div" (by decide)) (by decide)
          (attrsC_one (h.b.litC lit_class) ?_) h.tnil
        refine h.b.litC ?_
        intro c hc
        rw [List.mem_append, List.mem_cons] at hc
        rcases hc with hc | rfl | hc
        · exact lit_admonition c hc
        · decide
        · exact hk c hc
      have hdiv : TX p q Tp (if Node.truthy title = true then
            ({ Node.el "div" with attrs := [(BlockExt.strClass, BlockExt.strAdmonition ++ ' ' :: klass)] } : Node).append
              { mkText "p" (title.getD []) with attrs := [(BlockExt.strClass, "admonition-title".toList)] }
          else { Node.el "div" with attrs := [(BlockExt.strClass, BlockExt.strAdmonition ++ ' ' :: klass)] }) ∧
          (if Node.truthy title = true then
            ({ Node.el "div" with attrs := [(BlockExt.strClass, BlockExt.strAdmonition ++ ' ' :: klass)] } : Node).append
              { mkText "p" (title.getD []) with attrs := [(BlockExt.strClass, "admonition-title".toList)] }
          else { Node.el "div" with attrs := [(BlockExt.strClass, BlockExt.strAdmonition ++ ' ' :: klass)] }).textAtomic
            = false := by
        split
        · refine ⟨hdiv0.append ?_ rfl, rfl⟩
          exact tx_fresh (txt := some (title.getD [])) h.tnil (tagNoCtl_el "p" (by decide)) (by decide)
            (attrsC_one (h.b.litC lit_class) (h.b.litC lit_admTitle)) (h.sub _ htitle)
        · exact ⟨hdiv0, rfl⟩
      split at hr
      · next div' refs'' hq =>
        obtain ⟨o1, o2, o3⟩ := parseChunk_t h hpb hdiv.1 hdiv.2 h3 hdt.1 hq
        cases hr
        exact ⟨h1.append o1 o2, h2, o3, pl_consIf _ (h.rOf _ hdt.2) hrest⟩
      · cases hr
  | sib steps indent =>
    have hc : BlockExt.admContent tab parent b = some (steps, indent) := by
      simp only [BlockExt.admTest] at ht
      split at ht
      · cases ht
      · split at ht
        · next k ind hc' => cases ht; exact hc'
        · cases ht
    have hna := admContent_na hc hP
    have hS := nodeAt_tx steps hP
    simp only [BlockExt.admonitionP] at hr
    have hdt := hd.detab indent hb
    generalize detab indent b = dt at hr hdt
    obtain ⟨block, theRest⟩ := dt
    simp only [] at hr hdt
    -- the sibling after `if sibling.tag in ('li', 'dd') and sibling.text`
    have hsib : ∀ s : Node, TX p q Tp s → s.textAtomic = false →
        TX p q Tp (if ((s.isTag "li" || s.isTag "dd") && Node.truthy s.text) = true then
          { s with text := some [], textAtomic := false,
                   children := s.children ++ [{ Node.el "p" with text := s.text, textAtomic := s.textAtomic }] }
          else s) ∧
        (if ((s.isTag "li" || s.isTag "dd") && Node.truthy s.text) = true then
          { s with text := some [], textAtomic := false,
                   children := s.children ++ [{ Node.el "p" with text := s.text, textAtomic := s.textAtomic }] }
          else s).textAtomic = false := by
      intro s hs hsa
      split
      · have hb' := hs.nx
        refine ⟨tx_iff.2 ⟨⟨hb'.tag, hb'.attrs, hb'.tailAt, hb'.tail, by simpa using h.tnil, fun h' => (by cases h'),
          fun h' => by have := hb'.codeAtom h'; rw [hsa] at this; cases this⟩, ?_⟩, rfl⟩
        intro c hc
        simp only [List.mem_append, List.mem_singleton] at hc
        rcases hc with hc | rfl
        · exact hs.child hc
        · refine ⟨tx_leaf ⟨tagNoCtl_el "p" (by decide), attrsC_nil, rfl, h.tnil, ?_, ?_,
            fun h' => absurd h' (show Tag.name "p".toList ≠ Tag.name "code".toList by decide)⟩ rfl, ?_⟩
          · simp only [hsa]; simpa using hb'.textP hsa
          · intro h'; simp only [hsa] at h'; cases h'
          · intro h'; simp only [hsa] at h'; cases h'
      · exact ⟨hs, hsa⟩
    obtain ⟨s1, s2⟩ := hsib _ hS hna
    split at hr
    · next div' refs' hq =>
      obtain ⟨o1, o2, o3⟩ := parseChunk_t h hpb s1 s2 hR hdt.1 hq
      cases hr
      obtain ⟨u1, u2⟩ := updPath_tx (fun _ => div') steps hP ⟨o1, o2.trans hna.symm⟩
      exact ⟨u1, u2.trans hA, o3, pl_consIf _ (h.rOf _ hdt.2) hrest⟩
    · cases hr

end adm

/-! ### the dispatcher on an ordinary block -/

section dispatch
variable {p q : Char → Bool} {Bp Tp Rp : Str → Prop}

theorem tailRef_t (h : Dom2 p q Bp Tp Rp) {state : List BState} {refs : Refs} {parent : Node} {b : Str}
    {rest : List Str}
    (hP : TX p q Tp parent) (hA : parent.textAtomic = false) (hR : LogC p Bp refs) (hb : Bp b)
    (hrest : PL Rp rest) {r : Node × Refs × List Str}
    (hr : BlockExt.tailRef state refs parent b rest = some r) : ResT p q Bp Tp Rp r := by
  simp only [BlockExt.tailRef] at hr
  split at hr
  · next m hm => cases hr; exact referenceP_t h hP hA hR hb hrest hm
  · cases hr; exact paraP_t h hP hA hR hb hrest

theorem tailAbbr_t (h : Dom2 p q Bp Tp Rp) {cfg : BlockExt.XCfg} {state : List BState} {refs : Refs} {parent : Node}
    {b : Str} {rest : List Str}
    (hP : TX p q Tp parent) (hA : parent.textAtomic = false) (hR : LogC p Bp refs) (hb : Bp b)
    (hrest : PL Rp rest) {r : Node × Refs × List Str}
    (hr : BlockExt.tailAbbr cfg state refs parent b rest = some r) : ResT p q Bp Tp Rp r := by
  simp only [BlockExt.tailAbbr] at hr
  split at hr
  · split at hr
    · next refs' rest' ha =>
      cases hr
      obtain ⟨a1, a2⟩ := abbrP_t h hR hb hrest ha
      exact ⟨hP, hA, a1, a2⟩
    · cases hr
    · exact tailRef_t h hP hA hR hb hrest hr
  · exact tailRef_t h hP hA hR hb hrest hr

theorem tailFootnote_t (h : Dom2 p q Bp Tp Rp) {cfg : BlockExt.XCfg} {state : List BState} {refs : Refs}
    {parent : Node} {b : Str} {rest : List Str}
    (hP : TX p q Tp parent) (hA : parent.textAtomic = false) (hR : LogC p Bp refs) (hb : Bp b)
    (hrest : PL Rp rest) {r : Node × Refs × List Str}
    (hr : BlockExt.tailFootnote cfg state refs parent b rest = some r) : ResT p q Bp Tp Rp r := by
  simp only [BlockExt.tailFootnote] at hr
  split at hr
  · split at hr
    · next refs' rest' hf =>
      cases hr
      obtain ⟨a1, a2⟩ := footnoteP_t h hR hb hrest hf
      exact ⟨hP, hA, a1, a2⟩
    · exact tailAbbr_t h hP hA hR hb hrest hr
  · exact tailAbbr_t h hP hA hR hb hrest hr

theorem tailQuote_t (h : Dom2 p q Bp Tp Rp) {cfg : BlockExt.XCfg} {pb : PB} (hpb : PresT p q Bp Tp Rp pb)
    {state : List BState}
    {refs : Refs} {parent : Node} {b : Str} {rest : List Str}
    (hP : TX p q Tp parent) (hA : parent.textAtomic = false) (hR : LogC p Bp refs) (hb : Bp b)
    (hrest : PL Rp rest) {r : Node × Refs × List Str}
    (hr : BlockExt.tailQuote cfg pb state refs parent b rest = some r) : ResT p q Bp Tp Rp r := by
  simp only [BlockExt.tailQuote] at hr
  split at hr
  · exact quoteP_t h hpb hP hA hR hb hrest hr
  · exact tailFootnote_t h hP hA hR hb hrest hr

theorem tailDef_t (h : Dom2 p q Bp Tp Rp) {cfg : BlockExt.XCfg} {tab : Nat} {pb : PB} (hpb : PresT p q Bp Tp Rp pb)
    {state : List BState} {refs : Refs} {parent : Node} {b : Str} {rest : List Str}
    (hP : TX p q Tp parent) (hA : parent.textAtomic = false) (hR : LogC p Bp refs) (hb : Bp b)
    (hrest : PL Rp rest) {r : Node × Refs × List Str}
    (hr : BlockExt.tailDef cfg tab pb state refs parent b rest = some r) : ResT p q Bp Tp Rp r := by
  simp only [BlockExt.tailDef] at hr
  split at hr
  · split at hr
    · next m hm =>
      split at hr
      · next r' hd =>
        subst hr
        exact defListP_t h hpb hP hA hR hb hrest hm hd
      · exact tailQuote_t h hpb hP hA hR hb hrest hr
    · exact tailQuote_t h hpb hP hA hR hb hrest hr
  · exact tailQuote_t h hpb hP hA hR hb hrest hr

theorem tailList_t (h : Dom2 p q Bp Tp Rp) {cfg : BlockExt.XCfg} {tab : Nat} {pb : PB} (hpb : PresT p q Bp Tp Rp pb)
    {state : List BState} {refs : Refs} {parent : Node} {b : Str} {rest : List Str}
    (hP : TX p q Tp parent) (hA : parent.textAtomic = false) (hR : LogC p Bp refs) (hb : Bp b)
    (hrest : PL Rp rest) {r : Node × Refs × List Str}
    (hr : BlockExt.tailList cfg tab pb state refs parent b rest = some r) : ResT p q Bp Tp Rp r := by
  simp only [BlockExt.tailList] at hr
  split at hr
  · split at hr
    · exact listPX_t h _ hpb (by decide) (by decide) hP hA hR hb hrest hr
    · exact listP_t h hpb (by decide) (by decide) hP hA hR hb hrest hr
  · split at hr
    · split at hr
      · exact listPX_t h _ hpb (by decide) (by decide) hP hA hR hb hrest hr
      · exact listP_t h hpb (by decide) (by decide) hP hA hR hb hrest hr
    · exact tailDef_t h hpb hP hA hR hb hrest hr

theorem tailEmptyT_t (h : Dom2 p q Bp Tp Rp) {tables : Bool} {cfg : BlockExt.XCfg} {tab : Nat} {pb : PB}
    (hpb : PresT p q Bp Tp Rp pb) {state : List BState} {refs : Refs} {parent : Node} {b : Str} {rest : List Str}
    (hP : TX p q Tp parent) (hA : parent.textAtomic = false) (hR : LogC p Bp refs) (hb : Bp b)
    (hrest : PL Rp rest) {r : Node × Refs × List Str}
    (hr : BlockExt.tailEmptyT tables cfg tab pb state refs parent b rest = some r) : ResT p q Bp Tp Rp r := by
  rw [tailEmptyT_eq] at hr
  split at hr
  · cases hr; exact emptyP_t h hP hA hR (h.rOf _ (h.d.drop hb 1)) hrest
  · split at hr
    · exact indentP_t h hpb hP hA hR hb hrest hr
    · split at hr
      · exact indentPX_t h (fun _ => isListTagD_ne_code) (fun _ => isItemTagD_ne_code) (by decide) hpb hP hA hR hb
          hrest hr
      · split at hr
        · cases hr; exact codeP_t h hP hA hR hb hrest
        · split at hr
          · next bs _ => cases hr; exact tableP_t h bs hP hA hR hb hrest
          · split at hr
            · next m hm => exact hashP_t h hpb hP hA hR hb hrest hm hr
            · split at hr
              · cases hr; exact setextP_t h hP hA hR hb hrest
              · split at hr
                · exact hrP_t h hpb hP hA hR hb hrest hr
                · exact tailList_t h hpb hP hA hR hb hrest hr

/-- **one turn of the loop on an ordinary block preserves the invariant** -/
theorem dispatchXT_t (h : Dom2 p q Bp Tp Rp) {tables : Bool} {cfg : BlockExt.XCfg} {tab : Nat} {pb : PB}
    (hpb : PresT p q Bp Tp Rp pb) {state : List BState} {refs : Refs} {parent : Node} {b : Str} {rest : List Str}
    (hP : TX p q Tp parent) (hA : parent.textAtomic = false) (hR : LogC p Bp refs) (hb : Bp b)
    (hrest : PL Rp rest) {r : Node × Refs × List Str}
    (hr : BlockExt.dispatchXT tables cfg tab pb state refs parent b rest = some r) : ResT p q Bp Tp Rp r := by
  simp only [BlockExt.dispatchXT] at hr
  split at hr
  · next hit ht =>
    split at ht
    · exact admonitionP_t h hpb hP hA hR hb hrest ht hr
    · cases ht
  · exact tailEmptyT_t h hpb hP hA hR hb hrest hr

/-- the loop, given one turn on every block of the list class `Rp` -/
theorem parseBlocksXT_pres_of (tables : Bool) (cfg : BlockExt.XCfg) (tab : Nat)
    (hstep : ∀ (pb : PB), PresT p q Bp Tp Rp pb → ∀ state refs parent b rest r, TX p q Tp parent →
      parent.textAtomic = false → LogC p Bp refs → Rp b → PL Rp rest →
      BlockExt.dispatchXT tables cfg tab pb state refs parent b rest = some r → ResT p q Bp Tp Rp r) :
    ∀ f : Nat, PresT p q Bp Tp Rp (BlockExt.parseBlocksXT tables cfg tab f)
  | 0 => by
    intro state refs parent blocks r hP hA hR hB hr
    cases blocks with
    | nil => simp only [BlockExt.parseBlocksXT] at hr; cases hr; exact ⟨hP, hA, hR⟩
    | cons b rest => simp [BlockExt.parseBlocksXT] at hr
  | f + 1 => by
    intro state refs parent blocks r hP hA hR hB hr
    cases blocks with
    | nil => simp only [BlockExt.parseBlocksXT] at hr; cases hr; exact ⟨hP, hA, hR⟩
    | cons b rest =>
      have hB' := pl_cons.1 hB
      have ih := parseBlocksXT_pres_of tables cfg tab hstep f
      simp only [BlockExt.parseBlocksXT] at hr
      split at hr
      · next parent' refs' blocks' hd =>
        obtain ⟨d1, d2, d3, d4⟩ := hstep _ ih _ _ _ _ _ _ hP hA hR hB'.1 hB'.2 hd
        exact ih _ _ _ _ _ d1 d2 d3 d4 hr
      · cases hr

end dispatch

end MdVerif.NoCtl.BlkXT
