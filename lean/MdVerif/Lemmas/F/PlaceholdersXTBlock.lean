/-
Helper lemmas for C10 with fenced_code (block stage), part 1 (worker fc2): the extended block parser
`BlockExt.parseBlocksXT` on a text whose blocks are ordinary blocks or raw-HTML placeholders (`Spec/F/OwnBlock.lean`).

`Lemmas/PlaceholdersXBlock{,2,3,4}.lean` (worker b1, namespace `BlkX`) thread ONE string class `P` through the parser:
blocks, tree strings and footnote bodies all satisfy `P`, and `P` implies the character class `p` of the attributes
and of the log.  With placeholders in the text that is too coarse: a class that admits STX/ETX says nothing about the
attributes, the atomic texts and the log.  Here the roles are separated (`Dom2`):

* `Bp`  blocks that the processors take apart: b1's class (`StrDomX p q Bp`: closed under infixes, newline-joins, `lower`,
        literals; implies `AllC p`) — NO placeholder;
* `Tp`  strings of the tree (tail, non-atomic text): contains `Bp`; closed under what the parser does to a string that is
        already in the tree (`paraP` appends a block; `tailFix` strips it on the left; `defListP` takes the lines of the
        previous paragraph as terms) — may hold placeholders;
* `Rp`  the elements of a block list: contains `Bp`; a block that starts with four blanks is a `Bp` block
        (`detectTabbed`); an `Rp` block that is not a `Bp` block is handled by a hypothesis of the loop lemma
        (`Lemmas/F/PlaceholdersXTBlock4.lean`: a placeholder block only meets `emptyP` and `paraP`).

The invariant is b1's: `BlkX.TX p q Tp` on the tree (attribute names/values `AllC p`, atomic texts `AllC q`, strings `Tp`),
`BlkX.LogC p Bp` on the log.  b1's tree lemmas (`tx_*`, `TX.*`) need only `P []` and are used as they are.

Part 1: the core processors, lists, block quotes, list indentation.  Core Lean only.
-/
import MdVerif.Lemmas.PlaceholdersXBlock4

namespace MdVerif.NoCtl.BlkXT
open Py Block Blk BlkB BlkX

/-- the three string classes of the block stage on a text with placeholder blocks -/
structure Dom2 (p q : Char → Bool) (Bp Tp Rp : Str → Prop) : Prop where
  /-- ordinary blocks: b1's closure -/
  b : StrDomX p q Bp
  /-- a piece of a block becomes a string of the tree -/
  sub : ∀ s, Bp s → Tp s
  /-- a piece of a block goes back to the block list -/
  rOf : ∀ s, Bp s → Rp s
  /-- `FootnoteBlockProcessor.detectTabbed` consumes blocks that start with four blanks -/
  rSp : ∀ s, Rp s → startsWith s (spaces 4) = true → Bp s
  /-- `ParagraphProcessor` appends a block to a string of the tree -/
  join : ∀ a b, Tp a → Bp b → Tp (a ++ '\n' :: b)
  /-- `OListProcessor`: the tail of the last child moves into a `p`, stripped on the left -/
  lstrip : ∀ s, Tp s → Tp (Py.lstrip s)
  /-- `DefListProcessor`: the lines of the previous paragraph are the terms -/
  lines : ∀ s, Tp s → PL Tp (Py.lines s)

section basics
variable {p q : Char → Bool} {Bp Tp Rp : Str → Prop}

theorem Dom2.d (h : Dom2 p q Bp Tp Rp) : StrDom p q Bp := h.b.toStrDom
theorem Dom2.tnil (h : Dom2 p q Bp Tp Rp) : Tp [] := h.sub _ h.b.nil
theorem Dom2.rnil (h : Dom2 p q Bp Tp Rp) : Rp [] := h.rOf _ h.b.nil
theorem Dom2.rl (h : Dom2 p q Bp Tp Rp) {l : List Str} (hl : PL Bp l) : PL Rp l := fun s hs => h.rOf s (hl s hs)
theorem Dom2.tl (h : Dom2 p q Bp Tp Rp) {l : List Str} (hl : PL Bp l) : PL Tp l := fun s hs => h.sub s (hl s hs)
theorem Dom2.r1 (h : Dom2 p q Bp Tp Rp) {s : Str} (hs : Bp s) : PL Rp [s] := pl_one (h.rOf s hs)

/-- what a call of the parser gives back -/
def OutT (p q : Char → Bool) (Bp Tp : Str → Prop) (r : Node × Refs) : Prop :=
  TX p q Tp r.1 ∧ r.1.textAtomic = false ∧ LogC p Bp r.2

/-- the callback preserves the invariant -/
def PresT (p q : Char → Bool) (Bp Tp Rp : Str → Prop) (pb : PB) : Prop :=
  ∀ state refs parent blocks r, TX p q Tp parent → parent.textAtomic = false → LogC p Bp refs → PL Rp blocks →
    pb state refs parent blocks = some r → OutT p q Bp Tp r

/-- what one turn of the loop gives back -/
def ResT (p q : Char → Bool) (Bp Tp Rp : Str → Prop) (r : Node × Refs × List Str) : Prop :=
  TX p q Tp r.1 ∧ r.1.textAtomic = false ∧ LogC p Bp r.2.1 ∧ PL Rp r.2.2

/-- the `code` child of a `pre` has an atomic text -/
theorem preCode_textQT (hc0 : CharDom p q) {parent sib code : Node} (hP : TX p q Tp parent)
    (hl : parent.last? = some sib) (hc : preCode sib = some code) : AllC q (fmtOpt code.text) := by
  obtain ⟨_, hct, tl, hch⟩ := preCode_some hc
  have hcode := ((hP.last hl).1.child (c := code) (by rw [hch]; simp)).1
  have ha := hcode.nx.codeAtom hct
  have ht := hcode.nx.text
  rw [if_pos ha] at ht
  exact allC_fmtOpt hc0.none ht

end basics

/-! ### the processors -/

section processors
variable {p q : Char → Bool} {Bp Tp Rp : Str → Prop}

/-- `EmptyBlockProcessor` (also run on a placeholder block that starts with a line feed: `hb1`) -/
theorem emptyP_t (h : Dom2 p q Bp Tp Rp) {refs : Refs} {parent : Node} {b : Str} {rest : List Str}
    (hP : TX p q Tp parent) (hA : parent.textAtomic = false) (hR : LogC p Bp refs) (hb1 : Rp (b.drop 1))
    (hrest : PL Rp rest) : ResT p q Bp Tp Rp (emptyP refs parent b rest) := by
  have key : PL Rp (if (b.drop 1).isEmpty then rest else b.drop 1 :: rest) := pl_consIf _ hb1 hrest
  have hfill : AllC q (if b.isEmpty then ['\n', '\n'] else ['\n']) := by
    have := h.d.chars.sub _ h.d.chars.nl
    split <;> simp [AllC, this]
  simp only [emptyP]
  split
  · next sib hl =>
    split
    · next code hc =>
      exact ⟨setCodeText_tx hP hl hc (allC_append.2 ⟨preCode_textQT h.d.chars hP hl hc, hfill⟩), hA, hR, key⟩
    · exact ⟨hP, hA, hR, key⟩
  · exact ⟨hP, hA, hR, key⟩

theorem codeP_t (h : Dom2 p q Bp Tp Rp) {tab : Nat} {refs : Refs} {parent : Node} {b : Str} {rest : List Str}
    (hP : TX p q Tp parent) (hA : parent.textAtomic = false) (hR : LogC p Bp refs) (hb : Bp b)
    (hrest : PL Rp rest) : ResT p q Bp Tp Rp (codeP tab refs parent b rest) := by
  have hd := h.d.detab tab hb
  have key : PL Rp (if (detab tab b).2.isEmpty then rest else (detab tab b).2 :: rest) :=
    pl_consIf _ (h.rOf _ hd.2) hrest
  have hesc : AllC q (codeEscape (rstrip (detab tab b).1)) :=
    h.d.chars.esc _ (fun c hc => h.d.chars.sub c ((h.d.allc _ hd.1).rstrip c hc))
  have hnl : AllC q ['\n'] := AllC.nlStr (h.d.chars.sub _ h.d.chars.nl)
  have hfresh := hP.append (tx_pre (p := p) (P := Tp) h.tnil (allC_append.2 ⟨hesc, hnl⟩)) rfl
  simp only [codeP]
  split
  · next sib hl =>
    split
    · next code hc =>
      refine ⟨setCodeText_tx hP hl hc (allC_append.2 ⟨allC_append.2 ⟨preCode_textQT h.d.chars hP hl hc, ?_⟩, hnl⟩),
        hA, hR, key⟩
      exact allC_cons.2 ⟨h.d.chars.sub _ h.d.chars.nl, hesc⟩
    · exact ⟨hfresh, hA, hR, key⟩
  · exact ⟨hfresh, hA, hR, key⟩

theorem optCall_t (h : Dom2 p q Bp Tp Rp) {pb : PB} (hpb : PresT p q Bp Tp Rp pb) {state : List BState} {refs : Refs}
    {parent : Node} (hP : TX p q Tp parent) (hA : parent.textAtomic = false) (hR : LogC p Bp refs) {x : Str}
    (hx : Bp x) {r : Node × Refs}
    (hc : (if x.isEmpty then some (parent, refs) else pb state refs parent [x]) = some r) : OutT p q Bp Tp r := by
  split at hc
  · cases hc; exact ⟨hP, hA, hR⟩
  · exact hpb _ _ _ _ _ hP hA hR (h.r1 hx) hc

theorem hashP_t (h : Dom2 p q Bp Tp Rp) {tab : Nat} {pb : PB} (hpb : PresT p q Bp Tp Rp pb) {state : List BState}
    {refs : Refs} {parent : Node} {b : Str} {rest : List Str} {m : Nat × Nat × Nat × Str}
    (hP : TX p q Tp parent) (hA : parent.textAtomic = false) (hR : LogC p Bp refs) (hb : Bp b)
    (hrest : PL Rp rest) (hm : hashSearch b = some m) {r : Node × Refs × List Str}
    (hr : hashP tab pb state refs parent b rest m = some r) : ResT p q Bp Tp Rp r := by
  obtain ⟨st, en, lv, header⟩ := m
  have hhd : Bp header := h.d.inf _ _ hb (hashSearch_infix hm)
  simp only [hashP] at hr
  split at hr
  · cases hr
  · next parent' refs' hcall =>
    obtain ⟨h1, h2, h3⟩ := optCall_t h hpb hP hA hR (h.d.take hb st) hcall
    cases hr
    refine ⟨h1.append (tx_text h.tnil (tagNoCtl_hTag lv) (hTag_ne_code lv) (txt := some (strip header))
      (h.sub _ (h.d.strip hhd))) rfl, h2, h3, ?_⟩
    show PL Rp (if _ then _ else _)
    split
    · exact hrest
    · refine pl_cons.2 ⟨?_, hrest⟩
      split
      · exact h.rOf _ (h.d.looseDetab tab (h.d.drop hb en) 1)
      · exact h.rOf _ (h.d.drop hb en)

theorem setextP_t (h : Dom2 p q Bp Tp Rp) {refs : Refs} {parent : Node} {b : Str} {rest : List Str}
    (hP : TX p q Tp parent) (hA : parent.textAtomic = false) (hR : LogC p Bp refs) (hb : Bp b)
    (hrest : PL Rp rest) : ResT p q Bp Tp Rp (setextP refs parent b rest) := by
  simp only [setextP]
  refine ⟨hP.append (tx_text h.tnil (tagNoCtl_hTag _) (hTag_ne_code _) (txt := some (strip ((lines b).getD 0 [])))
    (h.sub _ (h.d.strip (h.d.getD (h.d.lines hb) 0)))) rfl, hA, hR, ?_⟩
  show PL Rp (if _ then _ else _)
  split
  · exact pl_cons.2 ⟨h.rOf _ (h.d.joinLines ((h.d.lines hb).mono (List.drop_subset _ _))), hrest⟩
  · exact hrest

theorem hrP_t (h : Dom2 p q Bp Tp Rp) {pb : PB} (hpb : PresT p q Bp Tp Rp pb) {state : List BState}
    {refs : Refs} {parent : Node} {b : Str} {rest : List Str} {m : Nat × Nat}
    (hP : TX p q Tp parent) (hA : parent.textAtomic = false) (hR : LogC p Bp refs) (hb : Bp b)
    (hrest : PL Rp rest) {r : Node × Refs × List Str}
    (hr : hrP pb state refs parent b rest m = some r) : ResT p q Bp Tp Rp r := by
  obtain ⟨st, en⟩ := m
  simp only [hrP] at hr
  split at hr
  · cases hr
  · next parent' refs' hcall =>
    obtain ⟨h1, h2, h3⟩ := optCall_t h hpb hP hA hR (h.d.rstripC (h.d.take hb st) '\n') hcall
    cases hr
    refine ⟨h1.append (tx_el h.tnil "hr" (by decide)) rfl, h2, h3, ?_⟩
    show PL Rp (if _ then _ else _)
    split
    · exact hrest
    · exact pl_cons.2 ⟨h.rOf _ (h.d.lstripC (h.d.drop hb en) '\n'), hrest⟩

theorem referenceP_t (h : Dom2 p q Bp Tp Rp) {refs : Refs} {parent : Node} {b : Str} {rest : List Str}
    {m : Nat × Nat × Str × Str × Option Str × Option Str}
    (hP : TX p q Tp parent) (hA : parent.textAtomic = false) (hR : LogC p Bp refs) (hb : Bp b)
    (hrest : PL Rp rest) (hm : refSearch b = some m) : ResT p q Bp Tp Rp (referenceP refs parent b rest m) := by
  obtain ⟨st, en, ident, link, t5, t6⟩ := m
  obtain ⟨hbr, hurl, ht5, ht6⟩ := refSearch_sub hm
  obtain ⟨hid, hurl'⟩ := refSearch_infix hm
  have hbc := h.d.allc _ hb
  simp only [referenceP]
  refine ⟨hP, hA, ?_, ?_⟩
  · refine hR.snoc ⟨?_, ((hbc.mono hurl).lstripC '<').rstripC '>', ?_, ?_⟩
    · exact (allC_lower h.b (hbc.mono hid.subset).strip).mono (keyOf_sub _)
    · show AllC p ((if _ then t5 else t6).getD [])
      split
      · exact hbc.mono ht5
      · exact hbc.mono ht6
    · intro _
      exact h.d.rstripP (h.d.lstripP (h.d.inf _ _ hb hurl') _) _
  · show PL Rp (if _ then _ else _)
    have h1 : PL Rp (if isBlank (b.drop en) then rest else lstripC '\n' (b.drop en) :: rest) :=
      pl_consIf _ (h.rOf _ (h.d.lstripC (h.d.drop hb en) '\n')) hrest
    split
    · exact h1
    · exact pl_cons.2 ⟨h.rOf _ (h.d.rstripC (h.d.take hb st) '\n'), h1⟩

/-- `ParagraphProcessor` on any block that may be appended to a string of the tree (an ordinary block: `paraP_t`; a
    placeholder block: `Lemmas/F/PlaceholdersXTBlock4.lean`) -/
theorem paraP_gen (hnil : Tp []) {state : List BState} {refs : Refs} {parent : Node} {b : Str} {rest : List Str}
    (hP : TX p q Tp parent) (hA : parent.textAtomic = false) (hR : LogC p Bp refs)
    (hj : ∀ a, Tp a → Tp (a ++ '\n' :: b)) (hl : Tp (Py.lstrip b))
    (hrest : PL Rp rest) : ResT p q Bp Tp Rp (paraP state refs parent b rest) := by
  simp only [paraP]
  split
  · exact ⟨hP, hA, hR, hrest⟩
  · split
    · split
      · next sib hl' =>
        have hs := hP.last hl'
        have hsb := hs.1.nx
        refine ⟨hP.setLast (hs.1.congr rfl rfl ?_) hs.2, hA, hR, hrest⟩
        refine ⟨hsb.tag, hsb.attrs, rfl, ?_, hsb.text, hsb.atomCode, hsb.codeAtom⟩
        show Tp (if _ then _ else _)
        split
        · next ht => rw [fmtOpt_truthy ht]; exact hj _ hsb.tail
        · exact hj [] hnil
      · have hpb := hP.nx
        refine ⟨hP.congr rfl rfl ?_, rfl, hR, hrest⟩
        refine ⟨hpb.tag, hpb.attrs, hpb.tailAt, hpb.tail, ?_, fun h' => (by cases h'),
          fun h' => by have := hpb.codeAtom h'; rw [hA] at this; cases this⟩
        show if false = true then _ else Tp (if _ then _ else _)
        simp only [Bool.false_eq_true, if_false]
        split
        · next ht => rw [fmtOpt_truthy ht]; exact hj _ (hpb.textP hA)
        · exact hl
    · exact ⟨hP.append (tx_mkText hnil "p" (by decide) hl) rfl, hA, hR, hrest⟩

theorem paraP_t (h : Dom2 p q Bp Tp Rp) {state : List BState} {refs : Refs} {parent : Node} {b : Str}
    {rest : List Str} (hP : TX p q Tp parent) (hA : parent.textAtomic = false) (hR : LogC p Bp refs) (hb : Bp b)
    (hrest : PL Rp rest) : ResT p q Bp Tp Rp (paraP state refs parent b rest) :=
  paraP_gen h.tnil hP hA hR (fun a ha => h.join a b ha hb) (h.sub _ (h.d.lstrip hb)) hrest

end processors

/-! ### lists, block quotes, list indentation -/

section recursive
variable {p q : Char → Bool} {Bp Tp Rp : Str → Prop}

theorem tailFix_tt (h : Dom2 p q Bp Tp Rp) {li : Node} (hL : TX p q Tp li) :
    TX p q Tp (tailFix li) ∧ (tailFix li).textAtomic = li.textAtomic ∧ (tailFix li).tag = li.tag := by
  unfold tailFix
  split
  · next lch hl =>
    split
    · have hc := hL.last hl
      have hcb := hc.1.nx
      have hlch : TX p q Tp { lch with tail := some [], tailAtomic := false } :=
        hc.1.congr rfl rfl ⟨hcb.tag, hcb.attrs, rfl, h.tnil, hcb.text, hcb.atomCode, hcb.codeAtom⟩
      exact ⟨(hL.setLast hlch hc.2).append (tx_mkText h.tnil "p" (by decide) (h.lstrip _ hcb.tail)) rfl, rfl, rfl⟩
    · exact ⟨hL, rfl, rfl⟩
  · exact ⟨hL, rfl, rfl⟩

theorem fixLast_tt (h : Dom2 p q Bp Tp Rp) {lst : Node} (hL : TX p q Tp lst) (ht : lst.tag ≠ preTag) :
    TX p q Tp (fixLast lst) ∧ (fixLast lst).textAtomic = lst.textAtomic ∧ (fixLast lst).tag = lst.tag := by
  unfold fixLast
  split
  · next li hl =>
    have hc := hL.last hl
    have hna := hL.lastNA hl ht
    obtain ⟨t1, t2, t3⟩ := textToP_tx h.tnil hc.1 hna
    obtain ⟨f1, f2, f3⟩ := tailFix_tt h t1
    exact ⟨hL.setLast f1 (fun ha => by rw [f2, t2] at ha; cases ha), rfl, rfl⟩
  · exact ⟨hL, rfl, rfl⟩

theorem listItems_t (h : Dom2 p q Bp Tp Rp) {tab : Nat} {pb : PB} (hpb : PresT p q Bp Tp Rp pb) {st2 : List BState} :
    ∀ (items : List Str) (refs : Refs) (lst : Node) (r : Node × Refs), TX p q Tp lst → lst.tag ≠ preTag →
      LogC p Bp refs → PL Bp items → listItems tab pb st2 refs lst items = some r →
      TX p q Tp r.1 ∧ r.1.textAtomic = lst.textAtomic ∧ r.1.tag = lst.tag ∧ LogC p Bp r.2
  | [], refs, lst, r, hL, _, hR, _, hr => by
    simp only [listItems] at hr
    cases hr
    exact ⟨hL, rfl, rfl, hR⟩
  | item :: items, refs, lst, r, hL, ht, hR, hI, hr => by
    have hI' := pl_cons.1 hI
    simp only [listItems] at hr
    split at hr
    · split at hr
      · next l hl =>
        split at hr
        · next li refs' hcall =>
          have hc := hL.last hl
          obtain ⟨o1, o2, o3⟩ := hpb _ _ _ _ _ hc.1 (hL.lastNA hl ht) hR (h.r1 hI'.1) hcall
          exact listItems_t h hpb items refs' (lst.setLast li) r (hL.setLastNA o1 o2) ht o3 hI'.2 hr
        · cases hr
      · exact listItems_t h hpb items refs lst r hL ht hR hI'.2 hr
    · split at hr
      · next li refs' hcall =>
        obtain ⟨o1, o2, o3⟩ := hpb _ _ _ _ _ (tx_el h.tnil "li" (by decide)) rfl hR (h.r1 hI'.1) hcall
        exact listItems_t h hpb items refs' (lst.append li) r (hL.append o1 o2) ht o3 hI'.2 hr
      · cases hr

theorem freshList_tt (h : Dom2 p q Bp Tp Rp) (ps : BlockExt.ListParams) (tab : Nat) {tag : String}
    (htag : NoCtl tag.toList ∧ Tag.name tag.toList ≠ codeTag) {b : Str} (hb : Bp b) :
    TX p q Tp (freshList ps tab tag b) ∧ (freshList ps tab tag b).tag = .name tag.toList ∧
      (freshList ps tab tag b).textAtomic = false := by
  unfold freshList
  split
  · refine ⟨tx_fresh (txt := none) h.tnil (tagNoCtl_el tag htag.1) htag.2 (attrsC_one ?_ ?_) h.tnil, rfl, rfl⟩
    · exact h.b.litC (by decide)
    · unfold BlockExt.startsWithOf
      split
      · split
        · next marker _ hm =>
          have hbc := h.d.allc _ hb
          have h1 : firstLine b ⊆ b := List.takeWhile_subset _
          exact ((hbc.mono h1).mono (listItemMatch_marker_sub hm)).takeWhile _
        · exact h.b.litC (by decide)
      · exact h.b.litC (by decide)
  · exact ⟨tx_el h.tnil tag htag, rfl, rfl⟩

theorem listPX_t (h : Dom2 p q Bp Tp Rp) (ps : BlockExt.ListParams) {tab : Nat} {pb : PB}
    (hpb : PresT p q Bp Tp Rp pb)
    {state : List BState} {refs : Refs} {parent : Node} {b : Str} {rest : List Str} {tag : String}
    (htag : NoCtl tag.toList ∧ Tag.name tag.toList ≠ codeTag)
    (htag' : Tag.name tag.toList ≠ preTag)
    (hP : TX p q Tp parent) (hA : parent.textAtomic = false) (hR : LogC p Bp refs) (hb : Bp b)
    (hrest : PL Rp rest) {r : Node × Refs × List Str}
    (hr : BlockExt.listPX ps tab pb state refs parent b rest tag = some r) : ResT p q Bp Tp Rp r := by
  have hd := h.d
  have hitems : PL Bp (BlockExt.getItemsX ps tab b) := BlockExt.ok_getItemsX h.b.closed ps tab hb
  rw [listPX_eq] at hr
  split at hr
  · next lst hs =>
    obtain ⟨hl, hlt⟩ := sibListX_some hs
    have hc := hP.last hl
    obtain ⟨f1, f2, f3⟩ := fixLast_tt h hc.1 (isListTag_notPre hlt)
    split at hr
    · cases hr
    · next newli refs' hcall =>
      obtain ⟨o1, o2, o3⟩ := hpb _ _ _ _ _ (tx_el h.tnil "li" (by decide)) rfl hR (h.r1 (hd.headD hitems)) hcall
      split at hr
      · next lst' refs'' hli =>
        obtain ⟨i1, i2, i3, i4⟩ := listItems_t h hpb _ _ _ _ (f1.append o1 o2)
          (by rw [append_tag, f3]; exact isListTag_notPre hlt) o3 (hitems.mono (List.drop_subset _ _)) hli
        cases hr
        refine ⟨hP.setLastNA i1 ?_, hA, i4, hrest⟩
        rw [i2, append_textAtomic, f2]
        exact hc.1.nx.notAtomic (isListTag_ne_code hlt)
      · cases hr
  · split at hr
    · next hlt =>
      split at hr
      · next lst' refs'' hli =>
        obtain ⟨i1, i2, i3, i4⟩ := listItems_t h hpb _ _ _ _ hP (isListTag_notPre hlt) hR hitems hli
        cases hr
        exact ⟨i1, i2.trans hA, i4, hrest⟩
      · cases hr
    · obtain ⟨g1, g2, g3⟩ := freshList_tt h ps tab htag hb
      split at hr
      · next lst' refs'' hli =>
        obtain ⟨i1, i2, i3, i4⟩ := listItems_t h hpb _ _ _ _ g1 (by rw [g2]; exact htag') hR hitems hli
        cases hr
        exact ⟨hP.append i1 (i2.trans g3), hA, i4, hrest⟩
      · cases hr

theorem listP_t (h : Dom2 p q Bp Tp Rp) {tab : Nat} {pb : PB} (hpb : PresT p q Bp Tp Rp pb)
    {state : List BState} {refs : Refs} {parent : Node} {b : Str} {rest : List Str} {tag : String}
    (htag : NoCtl tag.toList ∧ Tag.name tag.toList ≠ codeTag)
    (htag' : Tag.name tag.toList ≠ preTag)
    (hP : TX p q Tp parent) (hA : parent.textAtomic = false) (hR : LogC p Bp refs) (hb : Bp b)
    (hrest : PL Rp rest) {r : Node × Refs × List Str}
    (hr : listP tab pb state refs parent b rest tag = some r) : ResT p q Bp Tp Rp r := by
  rw [← BlockExt.listPX_default] at hr
  exact listPX_t h .default hpb htag htag' hP hA hR hb hrest hr

theorem parseChunk_t (h : Dom2 p q Bp Tp Rp) {pb : PB} (hpb : PresT p q Bp Tp Rp pb) {state : List BState}
    {refs : Refs} {parent : Node} {text : Str} (hP : TX p q Tp parent) (hA : parent.textAtomic = false)
    (hR : LogC p Bp refs) (ht : Bp text) {r : Node × Refs} (hr : parseChunk pb state refs parent text = some r) :
    OutT p q Bp Tp r :=
  hpb _ _ _ _ _ hP hA hR (h.rl (h.d.splitS ht (by simp))) hr

theorem quoteP_t (h : Dom2 p q Bp Tp Rp) {pb : PB} (hpb : PresT p q Bp Tp Rp pb) {state : List BState}
    {refs : Refs} {parent : Node} {b : Str} {rest : List Str} {q0 : Nat}
    (hP : TX p q Tp parent) (hA : parent.textAtomic = false) (hR : LogC p Bp refs) (hb : Bp b)
    (hrest : PL Rp rest) {r : Node × Refs × List Str}
    (hr : quoteP pb state refs parent b rest q0 = some r) : ResT p q Bp Tp Rp r := by
  have hblock := h.d.quoteBlock (h.d.drop hb q0)
  simp only [quoteP] at hr
  split at hr
  · cases hr
  · next parent' refs' hcall =>
    obtain ⟨h1, h2, h3⟩ := hpb _ _ _ _ _ hP hA hR (h.r1 (h.d.take hb q0)) hcall
    split at hr
    · next sib hs =>
      have hsib : parent'.last? = some sib ∧ sib.isTag "blockquote" = true := by
        split at hs
        · next s hl =>
          split at hs
          · next ht => cases hs; exact ⟨hl, ht⟩
          · cases hs
        · cases hs
      have hc := h1.last hsib.1
      have hna : sib.textAtomic = false := by
        apply hc.1.nx.notAtomic
        rw [isTag_iff.1 hsib.2]; decide
      split at hr
      · next quote refs'' hq =>
        obtain ⟨o1, o2, o3⟩ := parseChunk_t h hpb hc.1 hna h3 hblock hq
        cases hr
        exact ⟨h1.setLastNA o1 o2, h2, o3, hrest⟩
      · cases hr
    · split at hr
      · next quote refs'' hq =>
        obtain ⟨o1, o2, o3⟩ := parseChunk_t h hpb (tx_el h.tnil "blockquote" (by decide)) rfl h3 hblock hq
        cases hr
        exact ⟨h1.append o1 o2, h2, o3, hrest⟩
      · cases hr

/-- `ListIndentProcessor.run` with the tag lists as parameters -/
theorem indentPX_t (h : Dom2 p q Bp Tp Rp) {isL isI : Node → Bool} {itemTag : String}
    (hL : ∀ n, isL n = true → n.tag ≠ codeTag) (hI : ∀ n, isI n = true → n.tag ≠ codeTag)
    (hit : NoCtl itemTag.toList ∧ Tag.name itemTag.toList ≠ codeTag)
    {tab : Nat} {pb : PB} (hpb : PresT p q Bp Tp Rp pb) {state : List BState}
    {refs : Refs} {parent : Node} {b : Str} {rest : List Str}
    (hP : TX p q Tp parent) (hA : parent.textAtomic = false) (hR : LogC p Bp refs) (hb : Bp b)
    (hrest : PL Rp rest) {r : Node × Refs × List Str}
    (hr : BlockExt.indentPX isL isI itemTag tab pb state refs parent b rest = some r) : ResT p q Bp Tp Rp r := by
  unfold BlockExt.indentPX at hr
  generalize BlockExt.getLevelX isL isI tab state parent b = ls at hr
  obtain ⟨level, steps⟩ := ls
  simp only [] at hr
  have hblock := h.d.looseDetab tab hb level
  have hS := nodeAt_tx steps hP
  split at hr
  · split at hr
    · next c hs =>
      have hc : parent.last? = some c ∧ isL c = true := by
        split at hs
        · next s hl =>
          split at hs
          · next ht => cases hs; exact ⟨hl, ht⟩
          · cases hs
        · cases hs
      have hl := hP.last hc.1
      split at hr
      · next sub refs' hq =>
        obtain ⟨o1, o2, o3⟩ := hpb _ _ _ _ _ hl.1 (hl.1.nx.notAtomic (hL _ hc.2)) hR (h.r1 hblock) hq
        cases hr
        exact ⟨hP.setLastNA o1 o2, hA, o3, hrest⟩
      · cases hr
    · split at hr
      · next par' refs' hq =>
        obtain ⟨o1, o2, o3⟩ := hpb _ _ _ _ _ hP hA hR (h.r1 hblock) hq
        cases hr
        exact ⟨o1, o2, o3, hrest⟩
      · cases hr
  · split at hr
    · next hit' =>
      split at hr
      · next sub refs' hq =>
        have hna := hS.nx.notAtomic (hI _ hit')
        obtain ⟨o1, o2, o3⟩ := hpb _ _ _ _ _ hS hna hR (h.r1 hblock) hq
        cases hr
        obtain ⟨u1, u2⟩ := updPath_tx (fun _ => sub) steps hP ⟨o1, o2.trans hna.symm⟩
        exact ⟨u1, u2.trans hA, o3, hrest⟩
      · cases hr
    · split at hr
      · next li hs =>
        have hc : (nodeAt steps parent).last? = some li ∧ isI li = true := by
          split at hs
          · next s hl =>
            split at hs
            · next ht => cases hs; exact ⟨hl, ht⟩
            · cases hs
          · cases hs
        have hl := hS.last hc.1
        obtain ⟨t1, t2, _⟩ := textToP_tx h.tnil hl.1 (hl.1.nx.notAtomic (hI _ hc.2))
        split at hr
        · next li' refs' hq =>
          obtain ⟨o1, o2, o3⟩ := parseChunk_t h hpb t1 t2 hR hblock hq
          cases hr
          obtain ⟨u1, u2⟩ := updPath_tx (fun s => s.setLast li') steps hP ⟨hS.setLastNA o1 o2, rfl⟩
          exact ⟨u1, u2.trans hA, o3, hrest⟩
        · cases hr
      · split at hr
        · next li' refs' hq =>
          obtain ⟨o1, o2, o3⟩ := hpb _ _ _ _ _ (tx_el h.tnil itemTag hit) rfl hR (h.r1 hblock) hq
          cases hr
          obtain ⟨u1, u2⟩ := updPath_tx (fun s => s.append li') steps hP ⟨hS.append o1 o2, rfl⟩
          exact ⟨u1, u2.trans hA, o3, hrest⟩
        · cases hr

theorem indentP_t (h : Dom2 p q Bp Tp Rp) {tab : Nat} {pb : PB} (hpb : PresT p q Bp Tp Rp pb) {state : List BState}
    {refs : Refs} {parent : Node} {b : Str} {rest : List Str}
    (hP : TX p q Tp parent) (hA : parent.textAtomic = false) (hR : LogC p Bp refs) (hb : Bp b)
    (hrest : PL Rp rest) {r : Node × Refs × List Str}
    (hr : indentP tab pb state refs parent b rest = some r) : ResT p q Bp Tp Rp r := by
  rw [← BlockExt.indentPX_core] at hr
  exact indentPX_t h (fun _ => isListTag_ne_code) (fun _ => isItemTag_ne_code) (by decide) hpb hP hA hR hb hrest hr

end recursive

end MdVerif.NoCtl.BlkXT
