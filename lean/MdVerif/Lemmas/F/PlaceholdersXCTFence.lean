/-
C10 with ALL extensions (tables off) on the domain WITH INLINE LINKS, part 3 (worker cf): the preprocessor.  fc2's
`Lemmas/F/PlaceholdersXTFence.lean` (`XT.fencedRunA_own`: what `FencedBlockPreprocessor.run` hands to the block parser for a
text without STX/ETX) with `AdjCA false` (no backslash–backtick, CLOSED simple regions behind `](` and `![`) carried through
the loop in place of `Adj3`.  A fenced block `text[start:stop]` is replaced by `"\n" ++ placeholder ++ "\n"`, where `start`
is a line start and `stop` a line end: the regions of `text[:start]` are closed before its final line feed (a region does
not cross a line feed: `regionsOK_cut` with `cutOK ('\n' :: …)`), `text[stop:]` is a suffix (`regionsOK_suffix`), the
placeholder holds neither `]` nor `!` (`regionsOK_of_plain`), and newline-joins keep closed regions (`regionsOK_joinNl`).
So an unclosed `[a](` in front of a fence is outside the domain, and a fence line never sits inside a region.
Everything about the shape of a match, the placeholders (`OwnBlock`) and the stash entries is fc2's, used as it is; only
the invariant `FInvC`, its step and the loop are restated.  No `HtmlBound` instance occurs in the statements.  Core Lean only.
-/
import MdVerif.Lemmas.F.PlaceholdersXTFence
import MdVerif.Lemmas.PlaceholdersXCAll
import MdVerif.Lemmas.F.PlaceholdersAmpRegion

namespace MdVerif.NoCtlXCF.XT
variable [MdVerif.NoCtlF.HtmlBound]
set_option linter.unusedSectionVars false
open Py
open MdVerif.NoCtl (STX ETX NoCtl DomB AdjC NoPair domCharB)
open MdVerif.NoCtlF (nn NlOpt BeforeTok AfterTok OwnBlock DomA domCharA AdjCA NoEntR)
open MdVerif.NoCtlXC (Qw)
open MdVerif.Fenced
open MdVerif.NoCtlXF.XT (Eol fenceFindFrom_shape noCtl_suffix noPair_mid mem_mid not_mem_mid ownBlock_mono ownBlock_of_noCtl
  afterTok_replace entry_noctl placeholder_eq ph_not_mem unique_occ)

/-- what holds of the text at every turn of the loop: every placeholder written so far (numbers below `h`) is a block of
    its own; behind the search index there is no STX/ETX; the facts of the source (characters, no backslash–backtick, closed simple regions, `Qw`) -/
structure FInvC (wl : Bool) (text : Str) (index h : Nat) : Prop where
  own : OwnBlock h text
  rest : NoCtl (text.drop index)
  dom : DomA text
  adj : AdjCA false text
  qw : Qw wl text

/-- **one replacement keeps the invariant** -/
theorem finv_stepC {wl : Bool} {text : Str} {index h : Nat} (hI : FInvC wl text index h) {m : FenceMatch}
    (hm : fenceFindFrom text index = some m) :
    FInvC wl (text.take m.start ++ '\n' :: (Fenced.placeholder h ++ '\n' :: text.drop m.stop))
      (m.start + 1 + (Fenced.placeholder h).length) (h + 1) := by
  obtain ⟨b1, b2, b3, hls, ⟨c, rD, hD, hc⟩, hle, _, _, _⟩ := fenceFindFrom_shape hm
  have hcn : c ≠ '\n' := by rcases hc with rfl | rfl <;> decide
  have hcph : ∀ n, c ∉ Fenced.placeholder n := by
    intro n
    rcases hc with rfl | rfl <;> exact ph_not_mem n (by decide) (by decide) (by decide)
  -- the pieces
  have hDsuf : text.drop m.start <:+: text.drop index := by
    have : text.drop m.start = (text.drop index).drop (m.start - index) := by
      rw [List.drop_drop]; congr 1; omega
    rw [this]; exact (List.drop_suffix _ _).isInfix
  have hCsuf : text.drop m.stop <:+: text.drop index := by
    have : text.drop m.stop = (text.drop index).drop (m.stop - index) := by
      rw [List.drop_drop]; congr 1; omega
    rw [this]; exact (List.drop_suffix _ _).isInfix
  have hDn : NoCtl (text.drop m.start) := noCtl_suffix hI.rest hDsuf
  have hCn : NoCtl (text.drop m.stop) := noCtl_suffix hI.rest hCsuf
  have htext : text = text.take m.start ++ text.drop m.start := (List.take_append_drop _ _).symm
  have hbody : ∀ d ∈ NoCtlF.htmlBody h, d ≠ STX ∧ d ≠ ETX :=
    fun d hd => NoCtlF.inner_ne (NoCtlF.htmlBody_inner h d hd)
  have hph : Fenced.placeholder h = STX :: (NoCtlF.htmlBody h ++ [ETX]) := by
    rw [placeholder_eq]; simp [NoCtlF.frnToken]
  generalize hA : text.take m.start = A at hls htext
  generalize hDD : text.drop m.start = D at hD hDn htext
  generalize hC : text.drop m.stop = C at hle hCn
  have hAlen : A.length = m.start := by rw [← hA, List.length_take]; omega
  refine ⟨⟨?_, ?_⟩, ?_, ?_, ?_, ?_⟩
  · -- every STX starts a placeholder block
    intro u w e
    rcases List.append_eq_append_iff.1 e with ⟨y, hy1, hy2⟩ | ⟨y, hy1, hy2⟩
    · -- the new placeholder
      have e2 : ['\n'] ++ STX :: (NoCtlF.htmlBody h ++ ETX :: '\n' :: C) = y ++ STX :: w := by
        rw [← hy2, hph]; simp
      have hnot : STX ∉ NoCtlF.htmlBody h ++ ETX :: '\n' :: C := by
        intro hm'
        simp only [List.mem_append, List.mem_cons] at hm'
        rcases hm' with hm' | hm' | hm' | hm'
        · exact (hbody _ hm').1 rfl
        · revert hm'; decide
        · revert hm'; decide
        · exact hCn.1 hm'
      obtain ⟨rfl, rfl⟩ := unique_occ (x := STX) (p := ['\n']) (by decide) hnot e2
      refine ⟨h, '\n' :: C, by omega, by rw [hph]; simp, ?_, ?_⟩
      · rw [hy1]
        rcases hls with h0 | ⟨x, hx⟩
        · rw [h0]; exact .inr (.inl rfl)
        · rw [hx]; exact .inr (.inr ⟨x, by simp [nn]⟩)
      · rcases hle with h0 | ⟨y, hy⟩
        · rw [h0]; exact .inr (.inl rfl)
        · rw [hy]; exact .inr (.inr ⟨y, by simp [nn]⟩)
    · -- an earlier placeholder
      cases y with
      | nil =>
        exfalso
        simp only [List.nil_append, List.cons.injEq] at hy2
        exact absurd hy2.1 (by decide)
      | cons d y' =>
        simp only [List.cons_append, List.cons.injEq] at hy2
        obtain ⟨rfl, rfl⟩ := hy2
        have eold : text = u ++ STX :: (y' ++ D) := by rw [htext, hy1]; simp
        obtain ⟨n, r, hn, hphn, hbef, haft⟩ := hI.own.1 u (y' ++ D) eold
        -- the placeholder lies inside `A`
        obtain ⟨r1, hr1, hr⟩ : ∃ r1, STX :: y' = Fenced.placeholder n ++ r1 ∧ r = r1 ++ D := by
          have e3 : (STX :: y') ++ D = Fenced.placeholder n ++ r := by rw [← hphn]; rfl
          rcases List.append_eq_append_iff.1 e3 with ⟨z, hz1, hz2⟩ | ⟨z, hz1, hz2⟩
          · cases z with
            | nil => exact ⟨[], by simpa using hz1.symm, by simpa using hz2.symm⟩
            | cons z0 z' =>
              exfalso
              rw [hD] at hz2
              simp only [List.cons_append, List.cons.injEq] at hz2
              apply hcph n
              rw [hz1, hz2.1]; simp
          · exact ⟨z, hz1, hz2⟩
        refine ⟨n, r1 ++ '\n' :: (Fenced.placeholder h ++ '\n' :: C), by omega, ?_, hbef, ?_⟩
        · have : STX :: (y' ++ '\n' :: (Fenced.placeholder h ++ '\n' :: C)) =
              (STX :: y') ++ '\n' :: (Fenced.placeholder h ++ '\n' :: C) := rfl
          rw [this, hr1]; simp
        · exact afterTok_replace hD hcn (hr ▸ haft)
  · -- every ETX ends a placeholder
    intro u w e
    rcases List.append_eq_append_iff.1 e with ⟨y, hy1, hy2⟩ | ⟨y, hy1, hy2⟩
    · have e2 : ('\n' :: STX :: NoCtlF.htmlBody h) ++ ETX :: ('\n' :: C) = y ++ ETX :: w := by
        rw [← hy2, hph]; simp
      have hnot1 : ETX ∉ '\n' :: STX :: NoCtlF.htmlBody h := by
        intro hm'
        simp only [List.mem_cons] at hm'
        rcases hm' with hm' | hm' | hm'
        · revert hm'; decide
        · revert hm'; decide
        · exact (hbody _ hm').2 rfl
      have hnot2 : ETX ∉ '\n' :: C := by
        intro hm'
        simp only [List.mem_cons] at hm'
        rcases hm' with hm' | hm'
        · revert hm'; decide
        · exact hCn.2 hm'
      obtain ⟨rfl, rfl⟩ := unique_occ hnot1 hnot2 e2
      exact ⟨h, A ++ ['\n'], by omega, by rw [hy1, hph]; simp⟩
    · cases y with
      | nil =>
        exfalso
        simp only [List.nil_append, List.cons.injEq] at hy2
        exact absurd hy2.1 (by decide)
      | cons d y' =>
        simp only [List.cons_append, List.cons.injEq] at hy2
        obtain ⟨rfl, rfl⟩ := hy2
        have eold : text = u ++ ETX :: (y' ++ D) := by rw [htext, hy1]; simp
        obtain ⟨n, u', hn, hq⟩ := hI.own.2 u (y' ++ D) eold
        exact ⟨n, u', by omega, hq⟩
  · -- behind the new index
    have : (A ++ '\n' :: (Fenced.placeholder h ++ '\n' :: C)).drop (m.start + 1 + (Fenced.placeholder h).length) =
        '\n' :: C := by
      rw [← hAlen, show A.length + 1 + (Fenced.placeholder h).length =
        A.length + (1 + (Fenced.placeholder h).length) by omega, ← List.drop_drop, List.drop_left]
      rw [show 1 + (Fenced.placeholder h).length = (Fenced.placeholder h).length + 1 by omega,
        List.drop_succ_cons, List.drop_left]
    rw [this]
    exact ⟨by intro hm'; simp only [List.mem_cons] at hm'; rcases hm' with hm' | hm'
              · revert hm'; decide
              · exact hCn.1 hm',
           by intro hm'; simp only [List.mem_cons] at hm'; rcases hm' with hm' | hm'
              · revert hm'; decide
              · exact hCn.2 hm'⟩
  · -- characters
    intro d hd
    have hAd : ∀ x ∈ A, domCharA x = true := fun x hx => hI.dom x (by rw [htext]; exact List.mem_append_left _ hx)
    have hCd : ∀ x ∈ C, domCharA x = true := fun x hx => hI.dom x (by
      rw [← hC] at hx; exact (List.drop_suffix _ _).subset hx)
    simp only [List.mem_append, List.mem_cons] at hd
    rcases hd with hd | rfl | hd | rfl | hd
    · exact hAd d hd
    · exact NoCtlF.domCharA_of_ne (by decide) (by decide)
    · refine NoCtlF.domCharA_of_ne ?_ ?_ <;> rintro rfl <;>
        exact ph_not_mem h (by decide) (by decide) (by decide) hd
    · exact NoCtlF.domCharA_of_ne (by decide) (by decide)
    · exact hCd d hd
  · -- no backslash–backtick; the regions stay closed: a fence starts at a line start, and no region crosses a line feed
    have hre : A ++ '\n' :: (Fenced.placeholder h ++ '\n' :: C) = A ++ ('\n' :: Fenced.placeholder h ++ ['\n']) ++ C := by
      simp
    have hAi : A <:+: text := ⟨[], D, by rw [htext]; simp⟩
    have hCi : C <:+: text := by rw [← hC]; exact (List.drop_suffix _ _).isInfix
    refine ⟨⟨?_, ?_⟩, ?_⟩
    rotate_left 2
    · -- no entity material inside a region: infixes, newline-joins
      have hPe : NoCtlF.NoEntA (Fenced.placeholder h) :=
        NoCtlF.noEntA_of_plain (ph_not_mem h (by decide) (by decide) (by decide))
          (ph_not_mem h (by decide) (by decide) (by decide))
      exact NoCtlF.noEntA_joinNl (hI.adj.2.infix hAi) (NoCtlF.noEntA_joinNl hPe (hI.adj.2.infix hCi))
    · rw [hre]
      exact noPair_mid (hI.adj.1.1.infix hAi) (hI.adj.1.1.infix hCi) (by simp)
        (not_mem_mid h (by decide) (by decide) (by decide) (by decide))
        (not_mem_mid h (by decide) (by decide) (by decide) (by decide))
    · have hrA : NoCtl.RegionsOK false A := by
        rcases hls with h0 | ⟨x, hx⟩
        · rw [h0]; rfl
        · have hx' : NoCtl.RegionsOK false x := by
            refine NoCtl.regionsOK_cut (u := []) (t := x) (v := '\n' :: D) ?_ (NoCtl.BlkC.cutOK_nl _)
            have := hI.adj.1.2
            rw [htext, hx] at this
            simpa using this
          rw [hx]
          exact NoCtl.regionsOK_joinNl hx' (NoCtl.regionsOK_nil false)
      have hrC : NoCtl.RegionsOK false C := by
        obtain ⟨pre, hpre⟩ : ∃ pre, text = pre ++ C := ⟨text.take m.stop, by rw [← hC]; simp⟩
        have := hI.adj.1.2
        rw [hpre] at this
        exact NoCtl.regionsOK_suffix pre C this
      have hrP : NoCtl.RegionsOK false (Fenced.placeholder h) :=
        NoCtl.regionsOK_of_plain (ph_not_mem h (by decide) (by decide) (by decide))
          (ph_not_mem h (by decide) (by decide) (by decide))
      exact NoCtl.regionsOK_joinNl hrA (NoCtl.regionsOK_joinNl hrP hrC)
  · intro hw
    have hre : A ++ '\n' :: (Fenced.placeholder h ++ '\n' :: C) = A ++ ('\n' :: Fenced.placeholder h ++ ['\n']) ++ C := by
      simp
    have hAi : A <:+: text := ⟨[], D, by rw [htext]; simp⟩
    have hCi : C <:+: text := by rw [← hC]; exact (List.drop_suffix _ _).isInfix
    rw [hre]
    exact noPair_mid ((hI.qw hw).infix hAi) ((hI.qw hw).infix hCi) (by simp)
      (not_mem_mid h (by decide) (by decide) (by decide) (by decide))
      (not_mem_mid h (by decide) (by decide) (by decide) (by decide))


/-! ### the loop and the statement -/

theorem fencedLoopA_invC (wl : Bool) : ∀ (fuel : Nat) (text : Str) (index : Nat) (stash : List Str) (t' : Str)
    (stash' : List Str), Fenced.fencedLoopA fuel text index stash = .ok t' stash' →
    FInvC wl text index stash.length → (∀ e ∈ stash, NoCtl e) →
    (OwnBlock stash'.length t' ∧ DomA t' ∧ AdjCA false t' ∧ Qw wl t') ∧ ∀ e ∈ stash', NoCtl e := by
  intro fuel
  induction fuel with
  | zero => intro text index stash t' stash' h; simp [Fenced.fencedLoopA] at h
  | succ k ih =>
    intro text index stash t' stash' h hI hS
    simp only [Fenced.fencedLoopA] at h
    split at h
    · simp only [Fenced.RunResult.ok.injEq] at h
      obtain ⟨rfl, rfl⟩ := h
      exact ⟨⟨hI.own, hI.dom, hI.adj, hI.qw⟩, hS⟩
    · rename_i m hm
      obtain ⟨b1, _, _, _, _, _, i1, i2, i3⟩ := fenceFindFrom_shape hm
      have hcode := noCtl_suffix hI.rest i1
      have hattrs := noCtl_suffix hI.rest i2
      have hlang := noCtl_suffix hI.rest i3
      obtain ⟨e1, e2⟩ := entry_noctl hattrs hlang hcode
      have hstep := finv_stepC hI hm
      have hS' : ∀ x, NoCtl x → ∀ e ∈ stash ++ [x], NoCtl e := by
        intro x hx e he
        rcases List.mem_append.1 he with he | he
        · exact hS e he
        · simp only [List.mem_singleton] at he; subst he; exact hx
      split at h
      · refine ih _ _ _ _ _ h ?_ (hS' _ e1)
        simpa using hstep
      · split at h
        · refine ih _ _ _ _ _ h ⟨hI.own, ?_, hI.dom, hI.adj, hI.qw⟩ hS
          have hge : index ≤ Fenced.attrsEnd text m (m.attrs.getD []) := by
            unfold Fenced.attrsEnd; omega
          have : text.drop (Fenced.attrsEnd text m (m.attrs.getD [])) =
              (text.drop index).drop (Fenced.attrsEnd text m (m.attrs.getD []) - index) := by
            rw [List.drop_drop]; congr 1; omega
          rw [this]
          exact noCtl_suffix hI.rest (List.drop_suffix _ _).isInfix
        · refine ih _ _ _ _ _ h ?_ (hS' _ e2)
          simpa using hstep

/-- **`FencedBlockPreprocessor.run` on a text without STX/ETX**: in the text handed on every STX/ETX belongs to a
    placeholder `STX wzxhzdk:n ETX`, `n` below the length of the stash, that is a block of its own; the text keeps the
    character class of the domain (`DomA`: no `<`, and no `&` unless `HtmlBound.amp`), has none of the three adjacencies and (with wikilinks) no
    `[` before a blank when the source has none; every stash entry is free of STX/ETX. -/
theorem fencedRunA_ownC (wl : Bool) {t t' : Str} {stash : List Str} (h : Fenced.fencedRunA t = .ok t' stash)
    (hn : NoCtl t) (hd : DomA t) (ha : AdjCA false t) (hq : Qw wl t) :
    (OwnBlock stash.length t' ∧ DomA t' ∧ AdjCA false t' ∧ Qw wl t') ∧ ∀ e ∈ stash, NoCtl e :=
  fencedLoopA_invC wl _ _ _ _ _ _ h
    ⟨ownBlock_of_noCtl hn, by simpa using hn, hd, ha, hq⟩ (fun e he => by cases he)

end MdVerif.NoCtlXCF.XT
