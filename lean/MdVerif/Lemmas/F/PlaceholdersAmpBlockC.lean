/-
Helper lemmas for C10 with AMPERSANDS and INLINE LINKS (worker amp): the instances of the cut-closed block-stage
theorems (workers a1/g3: `BlkC.StrDomC`, `BlkXC.StrDomXC`, `BlkXC.parseDocumentXT_strs`, abstract in the character
class) for the character class `pDomA` (`Lemmas/F/PlaceholdersAmpBlock.lean`) and the string class
"`AllC pDomA`, `AdjCA false`" — `AdjC false` (no backslash–backtick, simple closed regions behind `](` and `![`) and
`NoEntA` (with ampersands: no `;`, no `&#` inside a region; infix-closed and closed under newline-joins, so every cut keeps it).

Namespace `MdVerif.NoCtlXCF`.  Core Lean only.
-/
import MdVerif.Lemmas.PlaceholdersXCAll
import MdVerif.Lemmas.F.PlaceholdersAmpBlock
import MdVerif.Lemmas.F.PlaceholdersAmpRegion

namespace MdVerif.NoCtlXCF
variable [MdVerif.NoCtlF.HtmlBound]
set_option linter.unusedSectionVars false
open Py
open MdVerif.NoCtl (STX ETX NoCtl AdjC NoAdj cutOK)
open MdVerif.NoCtlF
open MdVerif.NoCtlXF (pDomA charDom_domA litChar_pA lowerChar_pA)
open MdVerif.NoCtlX (Qw qw_nil qw_joinNl)

/-- the class of C10c with ampersands: characters of the domain, `AdjCA false` -/
theorem strDomC_adjCA : NoCtl.BlkC.StrDomC pDomA NoCtl.Blk.okc (fun s => NoCtl.Blk.AllC pDomA s ∧ AdjCA false s) where
  chars := charDom_domA
  allc := fun _ hs => hs.1
  nil := ⟨NoCtl.Blk.allC_nil, adjCA_nil false⟩
  cut := fun u t v hs hv =>
    have hi : t <:+: u ++ t ++ v := ⟨u, v, rfl⟩
    ⟨fun c hc => hs.1 c (hi.subset hc),
      ⟨NoCtl.BlkB.noAdj_infix hs.2.1.1 hi, NoCtl.regionsOK_cut hs.2.1.2 hv⟩, hs.2.2.infix hi⟩
  joinNl := fun _ _ ha hb =>
    ⟨NoCtl.Blk.allC_append.2 ⟨ha.1, NoCtl.Blk.allC_cons.2 ⟨MdVerif.NoCtlXF.pDomA_of_pDom (by decide), hb.1⟩⟩,
      ⟨NoCtl.BlkB.noAdj_joinNl ha.2.1.1 hb.2.1.1, NoCtl.regionsOK_joinNl ha.2.1.2 hb.2.1.2⟩,
      noEntA_joinNl ha.2.2 hb.2.2⟩

/-- … and (with wikilinks) no `[` immediately before a blank -/
theorem strDomC_adjCqA (wl : Bool) : NoCtl.BlkC.StrDomC pDomA NoCtl.Blk.okc
    (fun s => (NoCtl.Blk.AllC pDomA s ∧ AdjCA false s) ∧ Qw wl s) where
  chars := charDom_domA
  allc := fun _ hs => hs.1.1
  nil := ⟨strDomC_adjCA.nil, qw_nil wl⟩
  cut := fun u t v hs hv => ⟨strDomC_adjCA.cut u t v hs.1 hv, hs.2.infix ⟨u, v, rfl⟩⟩
  joinNl := fun a b ha hb => ⟨strDomC_adjCA.joinNl a b ha.1 hb.1, qw_joinNl ha.2 hb.2⟩

/-- the string class that the block stage keeps on the domain of `C10c` with ampersands is closed under what the
    extension processors do -/
theorem strDomXC_adjCqA (wl : Bool) : NoCtl.BlkXC.StrDomXC pDomA NoCtl.Blk.okc
    (fun s => (NoCtl.Blk.AllC pDomA s ∧ AdjCA false s) ∧ Qw wl s) where
  toStrDomC := strDomC_adjCqA wl
  lower := lowerChar_pA
  lit := fun s hs =>
    have h0 := (MdVerif.NoCtlXC.strDomXC_adjCq wl).lit s hs
    ⟨⟨fun c hc => litChar_pA (hs c hc),
      ⟨h0.1.2, noEntA_of_plain (MdVerif.NoCtlX.lit_not_mem hs (by decide)) (MdVerif.NoCtlX.lit_not_mem hs (by decide))⟩⟩,
      h0.2⟩

end MdVerif.NoCtlXCF
