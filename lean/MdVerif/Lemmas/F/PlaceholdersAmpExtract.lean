/-
Helper lemmas for C10 with AMPERSANDS (worker amp), part 4: what the raw-HTML preprocessor (`Extract.extract`: the text
re-assembled from the `handle_data` / `handle_charref` / `handle_entityref` events of `html.parser`) does to a text
without `<`.  It only INSERTS `;` behind an unterminated character reference `&#38` / `&#x26` (`&#38x` comes back as
`&#38;x`):

* `SemiStep s s'`: `s'` is `s` with one `;` inserted right behind `&#` + ASCII letters/digits;  `SemiIns`: any number of
  such insertions;  `extract_semiIns : SemiIns s (Extract.extract s)`.  (Which of the unterminated references get their
  `;` depends on the whole text — the two-phase bail rule of `goahead` —, so the closure lemmas are proved for ANY
  sequence of such insertions.)
* closure: the characters (`mem_semiIns`), `NoCtl`, `'<' ∉`, `DomA`, `NoPair a b` for `a, b ≠ ';'` (so `NoAdj`, `Adj3`,
  `Qw`), and `OwnBlock` (a raw-HTML placeholder holds no `&`, and an insertion point is never next to a blank line
  boundary).

Namespace `MdVerif.NoCtlF`.  Core Lean only.
-/
import MdVerif.Lemmas.F.PlaceholdersAmp
import MdVerif.Spec.F.OwnBlock
import MdVerif.Lemmas.PlaceholdersXQ

namespace MdVerif.NoCtlF
open Py
open MdVerif.NoCtl (STX ETX NoCtl NoPair NoAdj Adj3 noCtl_iff noPair_iff noPair_append)

/-! ### the relation -/

/-- one `;` inserted behind `&#name`, `name` a non-empty run of ASCII letters and digits -/
def SemiStep (s s' : Str) : Prop :=
  ∃ x name y, name ≠ [] ∧ (∀ c ∈ name, isAsciiAlnum c = true) ∧
    s = x ++ ('&' :: '#' :: name) ++ y ∧ s' = x ++ ('&' :: '#' :: name) ++ ';' :: y

/-- any number of such insertions -/
inductive SemiIns : Str → Str → Prop
  | refl (s : Str) : SemiIns s s
  | step {s t u : Str} : SemiStep s t → SemiIns t u → SemiIns s u

theorem SemiIns.trans {a b c : Str} (h1 : SemiIns a b) (h2 : SemiIns b c) : SemiIns a c := by
  induction h1 with
  | refl => exact h2
  | step hs _ ih => exact .step hs (ih h2)

theorem SemiStep.prepend (p : Str) {s s' : Str} (h : SemiStep s s') : SemiStep (p ++ s) (p ++ s') := by
  obtain ⟨x, name, y, h1, h2, rfl, rfl⟩ := h
  exact ⟨p ++ x, name, y, h1, h2, by simp, by simp⟩

theorem SemiStep.append {s s' : Str} (h : SemiStep s s') (q : Str) : SemiStep (s ++ q) (s' ++ q) := by
  obtain ⟨x, name, y, h1, h2, rfl, rfl⟩ := h
  exact ⟨x, name, y ++ q, h1, h2, by simp, by simp⟩

theorem SemiIns.prepend (p : Str) {s s' : Str} (h : SemiIns s s') : SemiIns (p ++ s) (p ++ s') := by
  induction h with
  | refl => exact .refl _
  | step hs _ ih => exact .step (hs.prepend p) ih

theorem SemiIns.append {s s' : Str} (h : SemiIns s s') (q : Str) : SemiIns (s ++ q) (s' ++ q) := by
  induction h with
  | refl => exact .refl _
  | step hs _ ih => exact .step (hs.append q) ih

theorem SemiIns.cons (c : Char) {s s' : Str} (h : SemiIns s s') : SemiIns (c :: s) (c :: s') := h.prepend [c]

theorem SemiIns.app {a a' b b' : Str} (h1 : SemiIns a a') (h2 : SemiIns b b') : SemiIns (a ++ b) (a' ++ b') :=
  (h1.append b).trans (h2.prepend a')

/-- a closure property of one insertion is one of any number -/
theorem SemiIns.induct {P : Str → Prop} (hstep : ∀ s s', SemiStep s s' → P s → P s') {s s' : Str} (h : SemiIns s s')
    (hs : P s) : P s' := by
  induction h with
  | refl => exact hs
  | step hst _ ih => exact ih (hstep _ _ hst hs)

/-! ### `goahead`, `extract` -/

/-- a match of `html.parser.charref` at the start of `s`: `&#`, a non-empty name of ASCII letters and digits, the
    terminating character -/
theorem charrefAt_spec {s : Str} {e : Nat} (h : Extract.charrefAt s = some e) :
    ∃ name term rest, s = '&' :: '#' :: (name ++ term :: rest) ∧ e = name.length + 3 ∧ name ≠ [] ∧
      ∀ c ∈ name, isAsciiAlnum c = true := by
  unfold Extract.charrefAt at h
  split at h
  · next a hh r =>
    split at h
    · next hc =>
      simp only [Bool.and_eq_true, decide_eq_true_eq] at hc
      obtain ⟨rfl, rfl⟩ := hc
      simp only at h
      -- what follows a run of `n > 0` characters of class `p` when there is a character at index `n`
      have key : ∀ (p : Char → Bool) (r : Str), (∀ c, p c = true → isAsciiAlnum c = true) →
          spanLen p r > 0 → Extract.nonHexAt r (spanLen p r) = true →
          ∃ term rest, r = r.take (spanLen p r) ++ term :: rest ∧ r.take (spanLen p r) ≠ [] ∧
            (r.take (spanLen p r)).length = spanLen p r ∧ ∀ c ∈ r.take (spanLen p r), isAsciiAlnum c = true := by
        intro p r hp hpos hnh
        unfold Extract.nonHexAt at hnh
        split at hnh
        · next c hc =>
          obtain ⟨hlt, hget⟩ := List.getElem?_eq_some_iff.1 hc
          refine ⟨c, r.drop (spanLen p r + 1), ?_, ?_, ?_, fun d hd => hp d (spanLen_prefix_all p r d hd)⟩
          · conv => lhs; rw [← List.take_append_drop (spanLen p r) r]
            rw [List.drop_eq_getElem_cons hlt, hget]
          · intro e0
            have := congrArg List.length e0
            simp only [List.length_take, List.length_nil] at this
            omega
          · rw [List.length_take]; omega
        · cases hnh
      split at h
      · next hq =>
        simp only [Bool.and_eq_true, decide_eq_true_eq] at hq
        simp only [Option.some.injEq] at h
        subst h
        obtain ⟨term, rest, e1, e2, e3, e4⟩ := key isAsciiDigit r (fun c hc => digit_alnum hc) hq.1 hq.2
        exact ⟨_, term, rest, by rw [← e1], by rw [e3], e2, e4⟩
      · split at h
        · rename_i x r2 _
          split at h
          · next hx =>
            split at h
            · next hk =>
              simp only [Bool.and_eq_true, decide_eq_true_eq] at hk
              simp only [Option.some.injEq] at h
              subst h
              obtain ⟨term, rest, e1, e2, e3, e4⟩ := key isHexDigit r2 (fun c hc => hex_alnum hc) hk.1 hk.2
              refine ⟨x :: r2.take (spanLen isHexDigit r2), term, rest, ?_, ?_, by simp, ?_⟩
              · rw [List.cons_append, ← e1]
              · simp only [List.length_cons, e3]
              · intro c hc
                rcases List.mem_cons.1 hc with rfl | hc
                · simp only [Bool.or_eq_true, decide_eq_true_eq] at hx
                  rcases hx with rfl | rfl <;> decide
                · exact e4 c hc
            · cases h
          · cases h
        · cases h
    · cases h
  · cases h

theorem leave_spec (end_ : Bool) (out rem : Str) :
    ∃ p, rem = p ++ (Extract.leave end_ out rem).2 ∧ (Extract.leave end_ out rem).1 = out ++ p := by
  unfold Extract.leave
  cases end_ with
  | true => exact ⟨rem, by simp, by simp⟩
  | false => exact ⟨[], by simp, by simp⟩

/-- **`HTMLParser.goahead`**: the unread rest is a suffix of the text, and the emitted text is the consumed prefix with
    `;` inserted behind unterminated character references -/
theorem goahead_semiIns (e : Bool) : ∀ (f : Nat) (s : Str),
    ∃ p, s = p ++ (Extract.goahead e f s).2 ∧ SemiIns p (Extract.goahead e f s).1 := by
  intro f
  induction f with
  | zero => intro s; exact ⟨[], by simp [Extract.goahead], by simp only [Extract.goahead]; exact .refl _⟩
  | succ f ih =>
    intro s
    cases s with
    | nil => exact ⟨[], by simp [Extract.goahead], by simp only [Extract.goahead]; exact .refl _⟩
    | cons c r =>
      rw [Extract.goahead]
      split
      · -- an ordinary character
        obtain ⟨p, e1, e2⟩ := ih r
        generalize Extract.goahead e f r = g at e1 e2 ⊢
        obtain ⟨o, rest⟩ := g
        exact ⟨c :: p, by simp only at e1 ⊢; rw [List.cons_append, ← e1], e2.cons c⟩
      · next hc =>
        have hc : c = '&' := by simpa using hc
        subst hc
        simp only
        split
        · -- `&#`
          split
          · next en hcr =>
            obtain ⟨name, term, rest0, hs, rfl, hne, hname⟩ := charrefAt_spec hcr
            have hsl : Extract.slice ('&' :: r) 2 (name.length + 3 - 1) = name := by
              rw [hs]
              unfold Extract.slice
              simp only [List.drop_succ_cons, List.drop_zero]
              rw [show name.length + 3 - 1 - 2 = name.length by omega, List.take_left]
            have hget : ('&' :: r)[name.length + 3 - 1]? = some term := by
              rw [hs, show name.length + 3 - 1 = name.length + 2 by omega]
              simp only [List.getElem?_cons_succ]
              rw [List.getElem?_append_right (Nat.le_refl _), Nat.sub_self]
              rfl
            rw [hsl, hget]
            by_cases ht : term = ';'
            · subst ht
              simp only [BEq.rfl, if_true]
              have hdrop : ('&' :: r).drop (name.length + 3) = rest0 := by
                rw [hs]
                simp only [List.drop_succ_cons]
                rw [show name.length + 1 = (name ++ [';']).length by simp,
                  show name ++ ';' :: rest0 = (name ++ [';']) ++ rest0 by simp, List.drop_left]
              rw [hdrop]
              obtain ⟨p, e1, e2⟩ := ih rest0
              generalize Extract.goahead e f rest0 = g at e1 e2 ⊢
              obtain ⟨o, rest⟩ := g
              refine ⟨'&' :: '#' :: (name ++ ';' :: p), ?_, ?_⟩
              · simp only at e1 ⊢
                rw [hs, e1]; simp
              · simp only
                have : '&' :: '#' :: name ++ ';' :: o = ('&' :: '#' :: (name ++ [';'])) ++ o := by simp
                rw [this]
                have h2 : '&' :: '#' :: (name ++ ';' :: p) = ('&' :: '#' :: (name ++ [';'])) ++ p := by simp
                rw [h2]
                exact e2.prepend _
            · have hne' : (some term == some ';') = false := by simp [ht]
              simp only [hne', Bool.false_eq_true, if_false]
              have hdrop : ('&' :: r).drop (name.length + 3 - 1) = term :: rest0 := by
                rw [hs, show name.length + 3 - 1 = name.length + 2 by omega]
                simp only [List.drop_succ_cons]
                rw [List.drop_left]
              rw [hdrop]
              obtain ⟨p, e1, e2⟩ := ih (term :: rest0)
              generalize Extract.goahead e f (term :: rest0) = g at e1 e2 ⊢
              obtain ⟨o, rest⟩ := g
              refine ⟨'&' :: '#' :: (name ++ p), ?_, ?_⟩
              · simp only at e1 ⊢
                rw [hs, e1]; simp
              · simp only
                have hstep : SemiStep ('&' :: '#' :: (name ++ p)) ('&' :: '#' :: name ++ ';' :: p) :=
                  ⟨[], name, p, hne, hname, by simp, by simp⟩
                refine .step hstep ?_
                have : '&' :: '#' :: name ++ ';' :: o = ('&' :: '#' :: (name ++ [';'])) ++ o := by simp
                rw [this]
                have h2 : '&' :: '#' :: name ++ ';' :: p = ('&' :: '#' :: (name ++ [';'])) ++ p := by simp
                rw [h2]
                exact e2.prepend _
          · -- an incomplete `&#…`
            rename_i hsw _ _
            split
            · obtain ⟨p, e1, e2⟩ := leave_spec e ['&', '#'] (('&' :: r).drop 2)
              refine ⟨'&' :: '#' :: p, ?_, ?_⟩
              · rw [List.cons_append, List.cons_append, ← e1]
                have := startsWith_drop hsw
                simp only [List.length_cons, List.length_nil, List.cons_append, List.nil_append, Nat.zero_add] at this
                show '&' :: r = '&' :: '#' :: List.drop 1 r
                exact congrArg ('&' :: ·) this
              · rw [e2]; exact .refl _
            · obtain ⟨p, e1, e2⟩ := leave_spec e [] ('&' :: r)
              exact ⟨p, e1, by rw [e2]; exact .refl _⟩
        · -- `&name;` or a lone `&`
          split
          · next en her =>
            obtain ⟨p, e1, e2⟩ := ih (('&' :: r).drop en)
            generalize Extract.goahead e f (('&' :: r).drop en) = g at e1 e2 ⊢
            obtain ⟨o, rest⟩ := g
            refine ⟨('&' :: r).take en ++ p, ?_, ?_⟩
            · simp only at e1 ⊢
              rw [List.append_assoc, ← e1, List.take_append_drop]
            · exact e2.prepend _
          · split
            · obtain ⟨p, e1, e2⟩ := leave_spec e [] ('&' :: r)
              exact ⟨p, e1, by rw [e2]; exact .refl _⟩
            · obtain ⟨p, e1, e2⟩ := ih r
              generalize Extract.goahead e f r = g at e1 e2 ⊢
              obtain ⟨o, rest⟩ := g
              exact ⟨'&' :: p, by simp only at e1 ⊢; rw [List.cons_append, ← e1], e2.cons '&'⟩

/-- **the raw-HTML preprocessor on a text without `<`** only inserts `;` behind unterminated character references -/
theorem extract_semiIns (s : Str) : SemiIns s (Extract.extract s) := by
  unfold Extract.extract
  obtain ⟨p1, e1, h1⟩ := goahead_semiIns false (s.length + 1) s
  generalize Extract.goahead false (s.length + 1) s = g1 at e1 h1 ⊢
  obtain ⟨o1, rest1⟩ := g1
  obtain ⟨p2, e2, h2⟩ := goahead_semiIns true (rest1.length + 1) rest1
  simp only at e1 h1 ⊢
  generalize Extract.goahead true (rest1.length + 1) rest1 = g2 at e2 h2 ⊢
  obtain ⟨o2, rest2⟩ := g2
  simp only at e2 h2 ⊢
  have : s = p1 ++ p2 ++ rest2 := by rw [e1, e2]; simp
  conv => lhs; rw [this]
  exact ((h1.app h2).append rest2)

/-! ### closure: characters -/

theorem mem_semiStep {s s' : Str} (h : SemiStep s s') {c : Char} (hc : c ∈ s') : c ∈ s ∨ c = ';' := by
  obtain ⟨x, name, y, -, -, rfl, rfl⟩ := h
  simp only [List.mem_append, List.mem_cons] at hc ⊢
  rcases hc with (hc | hc | hc | hc) | hc | hc
  · exact .inl (.inl (.inl hc))
  · exact .inl (.inl (.inr (.inl hc)))
  · exact .inl (.inl (.inr (.inr (.inl hc))))
  · exact .inl (.inl (.inr (.inr (.inr hc))))
  · exact .inr hc
  · exact .inl (.inr hc)

theorem mem_semiIns {s s' : Str} (h : SemiIns s s') {c : Char} (hc : c ∈ s') : c ∈ s ∨ c = ';' := by
  induction h with
  | refl => exact .inl hc
  | step hs _ ih =>
    rcases ih hc with h1 | h1
    · exact mem_semiStep hs h1
    · exact .inr h1

/-- nothing is lost either -/
theorem mem_of_semiIns {s s' : Str} (h : SemiIns s s') {c : Char} (hc : c ∈ s) : c ∈ s' := by
  induction h with
  | refl => exact hc
  | step hs _ ih =>
    apply ih
    obtain ⟨x, name, y, -, -, rfl, rfl⟩ := hs
    simp only [List.mem_append, List.mem_cons] at hc ⊢
    rcases hc with (hc | hc | hc | hc) | hc
    · exact .inl (.inl hc)
    · exact .inl (.inr (.inl hc))
    · exact .inl (.inr (.inr (.inl hc)))
    · exact .inl (.inr (.inr (.inr hc)))
    · exact .inr (.inr hc)

theorem noCtl_semiIns {s s' : Str} (h : SemiIns s s') (hs : NoCtl s) : NoCtl s' := by
  rw [noCtl_iff] at hs ⊢
  intro c hc
  rcases mem_semiIns h hc with h1 | rfl
  · exact hs c h1
  · decide

theorem not_mem_semiIns {s s' : Str} (h : SemiIns s s') {a : Char} (ha : a ≠ ';') (hs : a ∉ s) : a ∉ s' := by
  intro hm
  rcases mem_semiIns h hm with h1 | h1
  · exact hs h1
  · exact ha h1

theorem domA_semiIns [HtmlBound] {s s' : Str} (h : SemiIns s s') (hs : DomA s) : DomA s' := by
  intro c hc
  rcases mem_semiIns h hc with h1 | rfl
  · exact hs c h1
  · exact domCharA_of_ne (by decide) (by decide)

/-! ### closure: adjacencies -/

theorem noPair_semiStep {a b : Char} (ha : a ≠ ';') (hb : b ≠ ';') {s s' : Str} (h : SemiStep s s')
    (hs : NoPair a b s) : NoPair a b s' := by
  obtain ⟨x, name, y, -, -, rfl, rfl⟩ := h
  have h1 : NoPair a b (x ++ ('&' :: '#' :: name)) := hs.infix ⟨[], y, by simp⟩
  have h2 : NoPair a b y := hs.infix ⟨x ++ ('&' :: '#' :: name), [], by simp⟩
  have h3 : NoPair a b (';' :: y) := by
    have : ';' :: y = [';'] ++ y := rfl
    rw [this]
    refine noPair_append ?_ h2 (.inl (by simpa using fun e => ha e.symm))
    rw [noPair_iff]; intro u v e
    have := congrArg List.length e
    simp only [List.length_cons, List.length_nil, List.length_append] at this
    omega
  exact noPair_append h1 h3 (.inr (by simpa using fun e => hb e.symm))

theorem noPair_semiIns {a b : Char} (ha : a ≠ ';') (hb : b ≠ ';') {s s' : Str} (h : SemiIns s s')
    (hs : NoPair a b s) : NoPair a b s' :=
  h.induct (P := NoPair a b) (fun _ _ hst => noPair_semiStep ha hb hst) hs

theorem adj3_semiIns {s s' : Str} (h : SemiIns s s') (hs : Adj3 s) : Adj3 s' :=
  ⟨noPair_semiIns (a := '\\') (b := '`') (by decide) (by decide) h hs.1,
   noPair_semiIns (by decide) (by decide) h hs.2.1, noPair_semiIns (by decide) (by decide) h hs.2.2⟩

theorem qw_semiIns {wl : Bool} {s s' : Str} (h : SemiIns s s') (hs : MdVerif.NoCtlX.Qw wl s) :
    MdVerif.NoCtlX.Qw wl s' :=
  fun hw => noPair_semiIns (by decide) (by decide) h (hs hw)

/-! ### closure: `OwnBlock` -/

theorem amp_not_mem_placeholder (n : Nat) : '&' ∉ Fenced.placeholder n := by
  letI : HtmlBound := ⟨0, false, false⟩
  have : Fenced.placeholder n = frnToken (htmlBody n) := rfl
  rw [this]
  exact not_mem_htmlToken (by decide) (by decide) (by decide)

theorem alnum_ne_nl {c : Char} (h : isAsciiAlnum c = true) : c ≠ '\n' := (alnum_ne h).2.2.2.2.2.2.2.2.2.2.2.2.1

/-- the chunk `&#name` as a suffix: its last character is a letter or digit -/
theorem chunk_last {name : Str} (hne : name ≠ []) (hname : ∀ c ∈ name, isAsciiAlnum c = true) :
    ∃ c, ('&' :: '#' :: name).getLast? = some c ∧ isAsciiAlnum c = true := by
  obtain ⟨l, c, rfl⟩ : ∃ l c, name = l ++ [c] := by
    rcases List.eq_nil_or_concat name with h | ⟨l, c, h⟩
    · exact absurd h hne
    · exact ⟨l, c, by rw [h, List.concat_eq_append]⟩
  refine ⟨c, ?_, hname c (by simp)⟩
  rw [show '&' :: '#' :: (l ++ [c]) = ('&' :: '#' :: l) ++ [c] by simp, List.getLast?_concat]

/-- where a character other than `;` of `X ++ ';' :: y` stands -/
theorem split_ins {X y u w : Str} {c : Char} (hc : c ≠ ';') (e : X ++ ';' :: y = u ++ c :: w) :
    (∃ w1, X = u ++ c :: w1 ∧ w = w1 ++ ';' :: y) ∨ (∃ u2, u = X ++ ';' :: u2 ∧ y = u2 ++ c :: w) := by
  rcases List.append_eq_append_iff.1 e with ⟨a', h1, h2⟩ | ⟨c', h1, h2⟩
  · right
    cases a' with
    | nil =>
      simp only [List.nil_append, List.cons.injEq] at h2
      exact absurd h2.1.symm hc
    | cons d u2 =>
      simp only [List.cons_append, List.cons.injEq] at h2
      obtain ⟨rfl, rfl⟩ := h2
      exact ⟨u2, h1, rfl⟩
  · left
    cases c' with
    | nil =>
      simp only [List.nil_append, List.cons.injEq] at h2
      exact absurd h2.1 hc
    | cons d w1 =>
      simp only [List.cons_append, List.cons.injEq] at h2
      obtain ⟨rfl, rfl⟩ := h2
      exact ⟨w1, h1, rfl⟩

/-- a string without `&` and a string that ends with the chunk `&#name`: the first cannot reach behind the second -/
theorem chunk_suffix_of {name t a b : Str} (hname : ∀ c ∈ name, isAsciiAlnum c = true) {d : Char} (hd : d ≠ '&')
    (hd' : d ≠ '#') (hda : isAsciiAlnum d = false) (h : t ++ ('&' :: '#' :: name) = a ++ d :: b) :
    ('&' :: '#' :: name) <:+ b := by
  rcases List.append_eq_append_iff.1 h with ⟨a', h1, h2⟩ | ⟨c', h1, h2⟩
  · -- `d` is a character of the chunk
    exfalso
    have hm : d ∈ ('&' :: '#' :: name) := by rw [h2]; simp
    simp only [List.mem_cons] at hm
    rcases hm with h0 | h0 | h0
    · exact hd h0
    · exact hd' h0
    · rw [hname d h0] at hda; cases hda
  · cases c' with
    | nil =>
      exfalso
      simp only [List.nil_append] at h2
      have hm : d ∈ ('&' :: '#' :: name) := by rw [← h2]; simp
      simp only [List.mem_cons] at hm
      rcases hm with h0 | h0 | h0
      · exact hd h0
      · exact hd' h0
      · rw [hname d h0] at hda; cases hda
    | cons d' c'' =>
      simp only [List.cons_append, List.cons.injEq] at h2
      exact ⟨c'', h2.2.symm⟩

theorem ownBlock_semiStep {h : Nat} {s s' : Str} (hst : SemiStep s s') (ho : OwnBlock h s) : OwnBlock h s' := by
  obtain ⟨x, name, y, hne, hname, rfl, rfl⟩ := hst
  obtain ⟨cl, hcl, hcla⟩ := chunk_last hne hname
  have hchunk3 : 3 ≤ ('&' :: '#' :: name).length := by
    cases name with
    | nil => exact absurd rfl hne
    | cons a t => simp only [List.length_cons]; omega
  -- the part before the insertion point: `X = x ++ &#name`
  generalize hX : x ++ ('&' :: '#' :: name) = X at ho ⊢
  have hXlast : X.getLast? = some cl := by
    rw [← hX, List.getLast?_append, hcl]; rfl
  have hXlen : 3 ≤ X.length := by
    rw [← hX, List.length_append]; omega
  have hclnl : cl ≠ '\n' := alnum_ne_nl hcla
  obtain ⟨Xl, hXl⟩ : ∃ Xl, X = Xl ++ [cl] := by
    rcases List.eq_nil_or_concat X with h0 | ⟨l, c, h0⟩
    · rw [h0] at hXlen; simp at hXlen
    · rw [List.concat_eq_append] at h0
      rw [h0, List.getLast?_concat] at hXlast
      simp only [Option.some.injEq] at hXlast
      exact ⟨l, by rw [h0, hXlast]⟩
  -- a suffix `nn` of `X ++ u2` lies inside `u2`
  have hsuf : ∀ u2, nn <:+ X ++ u2 → nn <:+ u2 := by
    intro u2 hs
    obtain ⟨t, ht⟩ := hs
    rcases List.append_eq_append_iff.1 ht with ⟨a', h1, h2⟩ | ⟨c', h1, h2⟩
    · -- `X = t ++ a'`, `nn = a' ++ u2`: `a'` is empty (otherwise the last character of `X` is a line feed)
      cases a' with
      | nil => exact ⟨[], by rw [List.nil_append] at h2 ⊢; exact h2⟩
      | cons d a'' =>
        exfalso
        have hm : cl ∈ nn := by
          have : cl ∈ d :: a'' := by
            have hl : (t ++ d :: a'').getLast? = some cl := by rw [← h1]; exact hXlast
            rw [List.getLast?_append] at hl
            cases hl' : (d :: a'').getLast? with
            | none => simp at hl'
            | some z =>
              rw [hl'] at hl
              simp only [Option.some_or, Option.some.injEq] at hl
              subst hl
              exact List.mem_of_mem_getLast? hl'
          rw [h2]; exact List.mem_append_left _ this
        simp only [nn, List.mem_cons, List.not_mem_nil, or_false, or_self] at hm
        exact hclnl hm
    · exact ⟨c', h2.symm⟩
  -- the chunk is a suffix of `X`
  have hsufX : ('&' :: '#' :: name) <:+ X := ⟨x, hX⟩
  refine ⟨fun u' w' e => ?_, fun u' w' e => ?_⟩
  · -- an STX of the new text
    rcases split_ins (by decide) e with ⟨w1, hw1, rfl⟩ | ⟨u2, rfl, rfl⟩
    · -- inside `X`: the placeholder is followed by the chunk
      obtain ⟨n, r, hn, hph, hbef, haft⟩ := ho.1 u' (w1 ++ y) (by rw [hw1]; simp)
      have hsufw : ('&' :: '#' :: name) <:+ w1 := by
        obtain ⟨t, ht⟩ := hsufX
        rw [hw1] at ht
        exact chunk_suffix_of hname (by decide) (by decide) (by decide) ht
      -- the placeholder ends inside `w1`
      have hsplit : ∃ r1, STX :: w1 = Fenced.placeholder n ++ r1 ∧ r = r1 ++ y ∧ ('&' :: '#' :: name) <:+ r1 := by
        have hpre : Fenced.placeholder n <+: (STX :: w1) ++ y := by
          rw [show (STX :: w1) ++ y = STX :: (w1 ++ y) by rfl, hph]; exact List.prefix_append _ _
        rcases List.prefix_or_prefix_of_prefix hpre (List.prefix_append (STX :: w1) y) with hp | hp
        · obtain ⟨r1, hr1⟩ := hp
          refine ⟨r1, hr1.symm, ?_, ?_⟩
          · have : Fenced.placeholder n ++ r = Fenced.placeholder n ++ (r1 ++ y) := by
              rw [← hph, ← List.append_assoc, hr1]; rfl
            exact List.append_cancel_left this
          · -- the chunk is a suffix of `placeholder n ++ r1` and holds `&`: it lies inside `r1`
            have h1 : ('&' :: '#' :: name) <:+ Fenced.placeholder n ++ r1 := by
              rw [hr1]; exact hsufw.trans (List.suffix_cons _ _)
            obtain ⟨t, ht⟩ := h1
            rcases List.append_eq_append_iff.1 ht with ⟨a', h1, h2⟩ | ⟨c', h1, h2⟩
            · -- `placeholder n = t ++ a'`, chunk `= a' ++ r1`: `a'` is empty, or `&` is a character of the placeholder
              cases a' with
              | nil => exact ⟨[], by rw [List.nil_append] at h2 ⊢; exact h2⟩
              | cons d a'' =>
                exfalso
                have : '&' ∈ Fenced.placeholder n := by
                  rw [h1]
                  simp only [List.cons_append, List.cons.injEq] at h2
                  rw [← h2.1]; simp
                exact amp_not_mem_placeholder n this
            · exact ⟨c', h2.symm⟩
        · exfalso
          have : '&' ∈ STX :: w1 := List.mem_cons_of_mem _ (hsufw.subset (by simp))
          exact amp_not_mem_placeholder n (hp.subset this)
      obtain ⟨r1, hr1, hr, hsufr⟩ := hsplit
      refine ⟨n, r1 ++ ';' :: y, hn, ?_, hbef, ?_⟩
      · rw [show STX :: (w1 ++ ';' :: y) = (STX :: w1) ++ ';' :: y by rfl, hr1]; simp
      · -- the blank line behind the placeholder lies inside `r1`
        subst hr
        have hr1len : 3 ≤ r1.length := Nat.le_trans hchunk3 hsufr.length_le
        rcases haft with h0 | h0 | h0
        · exfalso
          have := congrArg List.length h0
          simp only [List.length_append, List.length_nil] at this; omega
        · exfalso
          have := congrArg List.length h0
          simp only [List.length_append, List.length_cons, List.length_nil] at this; omega
        · right; right
          have h1 : nn <+: r1 :=
            List.prefix_of_prefix_length_le h0 (List.prefix_append r1 y) (by simp only [nn, List.length_cons, List.length_nil]; omega)
          exact h1.trans (List.prefix_append _ _)
    · -- behind the insertion point
      obtain ⟨n, r, hn, hph, hbef, haft⟩ := ho.1 (X ++ u2) w' (by simp)
      refine ⟨n, r, hn, hph, ?_, haft⟩
      rcases hbef with h0 | h0 | h0
      · exfalso
        have := congrArg List.length h0
        simp only [List.length_append, List.length_nil] at this; omega
      · exfalso
        have := congrArg List.length h0
        simp only [List.length_append, List.length_cons, List.length_nil] at this; omega
      · right; right
        obtain ⟨t, ht⟩ := hsuf u2 h0
        exact ⟨X ++ ';' :: t, by rw [← ht]; simp⟩
  · -- an ETX of the new text
    rcases split_ins (by decide) e with ⟨w1, hw1, rfl⟩ | ⟨u2, rfl, rfl⟩
    · obtain ⟨n, u'', hn, hu⟩ := ho.2 u' (w1 ++ y) (by rw [hw1]; simp)
      exact ⟨n, u'', hn, hu⟩
    · obtain ⟨n, u'', hn, hu⟩ := ho.2 (X ++ u2) w' (by simp)
      -- the placeholder ends at this ETX and holds no `&`: it lies inside `u2 ++ [ETX]`
      have hsufph : Fenced.placeholder n <:+ u2 ++ [ETX] := by
        have h1 : u'' ++ Fenced.placeholder n = X ++ (u2 ++ [ETX]) := by rw [← hu]; simp
        rcases List.append_eq_append_iff.1 h1 with ⟨a', h2, h3⟩ | ⟨c', h2, h3⟩
        · -- `X = u'' ++ a'`, `placeholder n = a' ++ (u2 ++ [ETX])`
          cases a' with
          | nil => exact ⟨[], by rw [List.nil_append] at h3 ⊢; exact h3⟩
          | cons d a'' =>
            exfalso
            -- `X` ends with the chunk; the placeholder starts (with STX) inside `X`: either the chunk lies inside
            -- the placeholder, or STX is a character of the chunk
            obtain ⟨t, ht⟩ := hsufX
            rw [h2] at ht
            rcases List.append_eq_append_iff.1 ht with ⟨b', h4, h5⟩ | ⟨b', h4, h5⟩
            · -- `u'' = t ++ b'`, chunk = `b' ++ d :: a''`: `d = STX` is a character of the chunk
              have hd : d = STX := by
                have : (Fenced.placeholder n).head? = some STX := rfl
                rw [h3] at this
                simpa using this
              have hm : STX ∈ ('&' :: '#' :: name) := by rw [h5, ← hd]; simp
              simp only [List.mem_cons] at hm
              rcases hm with h0 | h0 | h0
              · exact absurd h0 (by decide)
              · exact absurd h0 (by decide)
              · exact (alnum_ne (hname _ h0)).1 rfl
            · -- `t = u'' ++ b'`, `d :: a'' = b' ++ chunk`: the chunk lies inside the placeholder
              have : '&' ∈ Fenced.placeholder n := by
                rw [h3, h5]; simp
              exact amp_not_mem_placeholder n this
        · exact ⟨c', h3.symm⟩
      obtain ⟨t, ht⟩ := hsufph
      exact ⟨n, X ++ ';' :: t, hn, by
        rw [show X ++ ';' :: u2 ++ [ETX] = X ++ ';' :: (u2 ++ [ETX]) by simp, ← ht]; simp⟩

theorem ownBlock_semiIns {h : Nat} {s s' : Str} (hi : SemiIns s s') (ho : OwnBlock h s) : OwnBlock h s' :=
  hi.induct (P := OwnBlock h) (fun _ _ hst => ownBlock_semiStep hst) ho

end MdVerif.NoCtlF
