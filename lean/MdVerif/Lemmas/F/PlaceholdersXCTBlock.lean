/-
C10 with ALL extensions (tables off) on the domain WITH INLINE LINKS, part 2 (worker cf), block stage 1: fc2's
`Lemmas/F/PlaceholdersXTBlock.lean` (the extended block parser on a text whose blocks are ordinary blocks or raw-HTML
placeholders; three string classes `Bp` blocks / `Tp` strings of the tree / `Rp` elements of a block list) re-proved from
the WEAKER closure of the ordinary blocks `Bp`: g3's cut-closed `BlkXC.StrDomXC` (dropping a prefix, cutting off an end that
has neither `)` nor `]` before its first line feed, newline-joins) in place of b1's infix-closed `BlkX.StrDomX`.
`Dom2C` is fc2's `Dom2` with that one field changed; every cut of a processor is discharged as in g3's
`Lemmas/PlaceholdersXCBlock.lean` (a1's `Cut` lemmas).  fc2's `OutT`, `PresT`, `ResT`, `paraP_gen`, `preCode_textQT` do not
depend on the closure and are used as they are.

Part 1: the core processors, lists, block quotes, list indentation.  Core Lean only.
-/
import MdVerif.Lemmas.F.PlaceholdersXTBlock
import MdVerif.Lemmas.PlaceholdersXCBlock2

namespace MdVerif.NoCtl.BlkXCT
open Py Block Blk BlkB BlkC BlkX BlkXC
open BlkXT (OutT PresT ResT preCode_textQT paraP_gen)

/-- the three string classes of the block stage on a text with placeholder blocks -/
structure Dom2C (p q : Char → Bool) (Bp Tp Rp : Str → Prop) : Prop where
  /-- ordinary blocks: b1's closure -/
  b : StrDomXC p q Bp
  /-- a piece of a block becomes a string of the tree -/
  sub : ∀ s, Bp s → Tp s
  /-- a piece of a block goes back to the block list -/
  rOf : ∀ s, Bp s → Rp s
  /-- `FootnoteBlockProcessor.detectTabbed` consumes blocks that start with four blanks -/
  rSp : ∀ s, Rp s → startsWith s (spaces 4) = true → Bp s
  /-- `ParagraphProcessor` appends a block to a string of the tree -/
  join : ∀ a b, Tp a → Bp b → Tp (a ++ '\n' :: b)
  /-- `OListProcessor`: the tail of the last child moves into a `p`, stripped on the left -/
  lstrip : ∀ s, Tp s → Tp (Py.lstrip s)
  /-- `DefListProcessor`: the lines of the previous paragraph are the terms -/
  lines : ∀ s, Tp s → PL Tp (Py.lines s)

section basics
variable {p q : Char → Bool} {Bp Tp Rp : Str → Prop}

theorem Dom2C.d (h : Dom2C p q Bp Tp Rp) : StrDomC p q Bp := h.b.toStrDomC
theorem Dom2C.tnil (h : Dom2C p q Bp Tp Rp) : Tp [] := h.sub _ h.b.nil
theorem Dom2C.rnil (h : Dom2C p q Bp Tp Rp) : Rp [] := h.rOf _ h.b.nil
theorem Dom2C.rl (h : Dom2C p q Bp Tp Rp) {l : List Str} (hl : PL Bp l) : PL Rp l := fun s hs => h.rOf s (hl s hs)
theorem Dom2C.tl (h : Dom2C p q Bp Tp Rp) {l : List Str} (hl : PL Bp l) : PL Tp l := fun s hs => h.sub s (hl s hs)
theorem Dom2C.r1 (h : Dom2C p q Bp Tp Rp) {s : Str} (hs : Bp s) : PL Rp [s] := pl_one (h.rOf s hs)

end basics

/-! ### the processors -/

section processors
variable {p q : Char → Bool} {Bp Tp Rp : Str → Prop}

/-- `EmptyBlockProcessor` (also run on a placeholder block that starts with a line feed: `hb1`) -/
theorem emptyP_ct (h : Dom2C p q Bp Tp Rp) {refs : Refs} {parent : Node} {b : Str} {rest : List Str}
    (hP : TX p q Tp parent) (hA : parent.textAtomic = false) (hR : LogC p Bp refs) (hb1 : Rp (b.drop 1))
    (hrest : PL Rp rest) : ResT p q Bp Tp Rp (emptyP refs parent b rest) := by
  have key : PL Rp (if (b.drop 1).isEmpty then rest else b.drop 1 :: rest) := pl_consIf _ hb1 hrest
  have hfill : AllC q (if b.isEmpty then ['\n', '\n'] else ['\n']) := by
    have := h.d.chars.sub _ h.d.chars.nl
    split <;> simp [AllC, this]
  simp only [emptyP]
  split
  · next sib hl =>
    split
    · next code hc =>
      exact ⟨setCodeText_tx hP hl hc (allC_append.2 ⟨preCode_textQT h.d.chars hP hl hc, hfill⟩), hA, hR, key⟩
    · exact ⟨hP, hA, hR, key⟩
  · exact ⟨hP, hA, hR, key⟩

theorem codeP_ct (h : Dom2C p q Bp Tp Rp) {tab : Nat} {refs : Refs} {parent : Node} {b : Str} {rest : List Str}
    (hP : TX p q Tp parent) (hA : parent.textAtomic = false) (hR : LogC p Bp refs) (hb : Bp b)
    (hrest : PL Rp rest) : ResT p q Bp Tp Rp (codeP tab refs parent b rest) := by
  have hd := h.d.detab tab hb
  have key : PL Rp (if (detab tab b).2.isEmpty then rest else (detab tab b).2 :: rest) :=
    pl_consIf _ (h.rOf _ hd.2) hrest
  have hesc : AllC q (codeEscape (rstrip (detab tab b).1)) :=
    h.d.chars.esc _ (fun c hc => h.d.chars.sub c ((h.d.allc _ hd.1).rstrip c hc))
  have hnl : AllC q ['\n'] := AllC.nlStr (h.d.chars.sub _ h.d.chars.nl)
  have hfresh := hP.append (tx_pre (p := p) (P := Tp) h.tnil (allC_append.2 ⟨hesc, hnl⟩)) rfl
  simp only [codeP]
  split
  · next sib hl =>
    split
    · next code hc =>
      refine ⟨setCodeText_tx hP hl hc (allC_append.2 ⟨allC_append.2 ⟨preCode_textQT h.d.chars hP hl hc, ?_⟩, hnl⟩),
        hA, hR, key⟩
      exact allC_cons.2 ⟨h.d.chars.sub _ h.d.chars.nl, hesc⟩
    · exact ⟨hfresh, hA, hR, key⟩
  · exact ⟨hfresh, hA, hR, key⟩

theorem optCall_ct (h : Dom2C p q Bp Tp Rp) {pb : PB} (hpb : PresT p q Bp Tp Rp pb) {state : List BState} {refs : Refs}
    {parent : Node} (hP : TX p q Tp parent) (hA : parent.textAtomic = false) (hR : LogC p Bp refs) {x : Str}
    (hx : Bp x) {r : Node × Refs}
    (hc : (if x.isEmpty then some (parent, refs) else pb state refs parent [x]) = some r) : OutT p q Bp Tp r := by
  split at hc
  · cases hc; exact ⟨hP, hA, hR⟩
  · exact hpb _ _ _ _ _ hP hA hR (h.r1 hx) hc

theorem hashP_ct (h : Dom2C p q Bp Tp Rp) {tab : Nat} {pb : PB} (hpb : PresT p q Bp Tp Rp pb) {state : List BState}
    {refs : Refs} {parent : Node} {b : Str} {rest : List Str} {m : Nat × Nat × Nat × Str}
    (hP : TX p q Tp parent) (hA : parent.textAtomic = false) (hR : LogC p Bp refs) (hb : Bp b)
    (hrest : PL Rp rest) (hm : hashSearch b = some m) {r : Node × Refs × List Str}
    (hr : hashP tab pb state refs parent b rest m = some r) : ResT p q Bp Tp Rp r := by
  obtain ⟨st, en, lv, header⟩ := m
  have hhd : Bp header := h.d.ofCut hb (hashSearch_cut hm).1
  simp only [hashP] at hr
  split at hr
  · cases hr
  · next parent' refs' hcall =>
    obtain ⟨h1, h2, h3⟩ := optCall_ct h hpb hP hA hR (h.d.ofCut hb (hashSearch_cut hm).2) hcall
    cases hr
    refine ⟨h1.append (tx_text h.tnil (tagNoCtl_hTag lv) (hTag_ne_code lv) (txt := some (strip header))
      (h.sub _ (h.d.strip hhd))) rfl, h2, h3, ?_⟩
    show PL Rp (if _ then _ else _)
    split
    · exact hrest
    · refine pl_cons.2 ⟨?_, hrest⟩
      split
      · exact h.rOf _ (h.d.looseDetab tab (h.d.drop hb en) 1)
      · exact h.rOf _ (h.d.drop hb en)

theorem setextP_ct (h : Dom2C p q Bp Tp Rp) {refs : Refs} {parent : Node} {b : Str} {rest : List Str}
    (hP : TX p q Tp parent) (hA : parent.textAtomic = false) (hR : LogC p Bp refs) (hb : Bp b)
    (hrest : PL Rp rest) : ResT p q Bp Tp Rp (setextP refs parent b rest) := by
  simp only [setextP]
  refine ⟨hP.append (tx_text h.tnil (tagNoCtl_hTag _) (hTag_ne_code _) (txt := some (strip ((lines b).getD 0 [])))
    (h.sub _ (h.d.strip (h.d.getD (h.d.lines hb) 0)))) rfl, hA, hR, ?_⟩
  show PL Rp (if _ then _ else _)
  split
  · exact pl_cons.2 ⟨h.rOf _ (h.d.joinLines ((h.d.lines hb).mono (List.drop_subset _ _))), hrest⟩
  · exact hrest

theorem hrP_ct (h : Dom2C p q Bp Tp Rp) {pb : PB} (hpb : PresT p q Bp Tp Rp pb) {state : List BState}
    {refs : Refs} {parent : Node} {b : Str} {rest : List Str} {m : Nat × Nat}
    (hP : TX p q Tp parent) (hA : parent.textAtomic = false) (hR : LogC p Bp refs) (hb : Bp b)
    (hrest : PL Rp rest) (hm : hrSearch b = some m) {r : Node × Refs × List Str}
    (hr : hrP pb state refs parent b rest m = some r) : ResT p q Bp Tp Rp r := by
  obtain ⟨st, en⟩ := m
  simp only [hrP] at hr
  split at hr
  · cases hr
  · next parent' refs' hcall =>
    obtain ⟨h1, h2, h3⟩ := optCall_ct h hpb hP hA hR (h.d.take_lineStart hb (hrSearch_lineStart hm)) hcall
    cases hr
    refine ⟨h1.append (tx_el h.tnil "hr" (by decide)) rfl, h2, h3, ?_⟩
    show PL Rp (if _ then _ else _)
    split
    · exact hrest
    · exact pl_cons.2 ⟨h.rOf _ (h.d.lstripC (h.d.drop hb en) '\n'), hrest⟩

theorem referenceP_ct (h : Dom2C p q Bp Tp Rp) {refs : Refs} {parent : Node} {b : Str} {rest : List Str}
    {m : Nat × Nat × Str × Str × Option Str × Option Str}
    (hP : TX p q Tp parent) (hA : parent.textAtomic = false) (hR : LogC p Bp refs) (hb : Bp b)
    (hrest : PL Rp rest) (hm : refSearch b = some m) : ResT p q Bp Tp Rp (referenceP refs parent b rest m) := by
  obtain ⟨st, en, ident, link, t5, t6⟩ := m
  obtain ⟨hbr, hurl, ht5, ht6⟩ := refSearch_sub hm
  obtain ⟨hid, hurl'⟩ := refSearch_infix hm
  have hbc := h.d.allc _ hb
  simp only [referenceP]
  refine ⟨hP, hA, ?_, ?_⟩
  · refine hR.snoc ⟨?_, ((hbc.mono hurl).lstripC '<').rstripC '>', ?_, ?_⟩
    · exact (allC_lower_xc h.b (hbc.mono hid.subset).strip).mono (keyOf_sub _)
    · show AllC p ((if _ then t5 else t6).getD [])
      split
      · exact hbc.mono ht5
      · exact hbc.mono ht6
    · intro hf
      rw [refKey_notFn hm] at hf; cases hf
  · show PL Rp (if _ then _ else _)
    have h1 : PL Rp (if isBlank (b.drop en) then rest else lstripC '\n' (b.drop en) :: rest) :=
      pl_consIf _ (h.rOf _ (h.d.lstripC (h.d.drop hb en) '\n')) hrest
    split
    · exact h1
    · exact pl_cons.2 ⟨h.rOf _ (h.d.take_lineStart hb (refSearch_lineStart hm)), h1⟩

theorem paraP_ct (h : Dom2C p q Bp Tp Rp) {state : List BState} {refs : Refs} {parent : Node} {b : Str}
    {rest : List Str} (hP : TX p q Tp parent) (hA : parent.textAtomic = false) (hR : LogC p Bp refs) (hb : Bp b)
    (hrest : PL Rp rest) : ResT p q Bp Tp Rp (paraP state refs parent b rest) :=
  paraP_gen h.tnil hP hA hR (fun a ha => h.join a b ha hb) (h.sub _ (h.d.lstrip hb)) hrest

end processors

/-! ### lists, block quotes, list indentation -/

section recursive
variable {p q : Char → Bool} {Bp Tp Rp : Str → Prop}

theorem tailFix_ctt (h : Dom2C p q Bp Tp Rp) {li : Node} (hL : TX p q Tp li) :
    TX p q Tp (tailFix li) ∧ (tailFix li).textAtomic = li.textAtomic ∧ (tailFix li).tag = li.tag := by
  unfold tailFix
  split
  · next lch hl =>
    split
    · have hc := hL.last hl
      have hcb := hc.1.nx
      have hlch : TX p q Tp { lch with tail := some [], tailAtomic := false } :=
        hc.1.congr rfl rfl ⟨hcb.tag, hcb.attrs, rfl, h.tnil, hcb.text, hcb.atomCode, hcb.codeAtom⟩
      exact ⟨(hL.setLast hlch hc.2).append (tx_mkText h.tnil "p" (by decide) (h.lstrip _ hcb.tail)) rfl, rfl, rfl⟩
    · exact ⟨hL, rfl, rfl⟩
  · exact ⟨hL, rfl, rfl⟩

theorem fixLast_ctt (h : Dom2C p q Bp Tp Rp) {lst : Node} (hL : TX p q Tp lst) (ht : lst.tag ≠ preTag) :
    TX p q Tp (fixLast lst) ∧ (fixLast lst).textAtomic = lst.textAtomic ∧ (fixLast lst).tag = lst.tag := by
  unfold fixLast
  split
  · next li hl =>
    have hc := hL.last hl
    have hna := hL.lastNA hl ht
    obtain ⟨t1, t2, t3⟩ := textToP_tx h.tnil hc.1 hna
    obtain ⟨f1, f2, f3⟩ := tailFix_ctt h t1
    exact ⟨hL.setLast f1 (fun ha => by rw [f2, t2] at ha; cases ha), rfl, rfl⟩
  · exact ⟨hL, rfl, rfl⟩

theorem listItems_ct (h : Dom2C p q Bp Tp Rp) {tab : Nat} {pb : PB} (hpb : PresT p q Bp Tp Rp pb) {st2 : List BState} :
    ∀ (items : List Str) (refs : Refs) (lst : Node) (r : Node × Refs), TX p q Tp lst → lst.tag ≠ preTag →
      LogC p Bp refs → PL Bp items → listItems tab pb st2 refs lst items = some r →
      TX p q Tp r.1 ∧ r.1.textAtomic = lst.textAtomic ∧ r.1.tag = lst.tag ∧ LogC p Bp r.2
  | [], refs, lst, r, hL, _, hR, _, hr => by
    simp only [listItems] at hr
    cases hr
    exact ⟨hL, rfl, rfl, hR⟩
  | item :: items, refs, lst, r, hL, ht, hR, hI, hr => by
    have hI' := pl_cons.1 hI
    simp only [listItems] at hr
    split at hr
    · split at hr
      · next l hl =>
        split at hr
        · next li refs' hcall =>
          have hc := hL.last hl
          obtain ⟨o1, o2, o3⟩ := hpb _ _ _ _ _ hc.1 (hL.lastNA hl ht) hR (h.r1 hI'.1) hcall
          exact listItems_ct h hpb items refs' (lst.setLast li) r (hL.setLastNA o1 o2) ht o3 hI'.2 hr
        · cases hr
      · exact listItems_ct h hpb items refs lst r hL ht hR hI'.2 hr
    · split at hr
      · next li refs' hcall =>
        obtain ⟨o1, o2, o3⟩ := hpb _ _ _ _ _ (tx_el h.tnil "li" (by decide)) rfl hR (h.r1 hI'.1) hcall
        exact listItems_ct h hpb items refs' (lst.append li) r (hL.append o1 o2) ht o3 hI'.2 hr
      · cases hr

theorem freshList_ctt (h : Dom2C p q Bp Tp Rp) (ps : BlockExt.ListParams) (tab : Nat) {tag : String}
    (htag : NoCtl tag.toList ∧ Tag.name tag.toList ≠ codeTag) {b : Str} (hb : Bp b) :
    TX p q Tp (freshList ps tab tag b) ∧ (freshList ps tab tag b).tag = .name tag.toList ∧
      (freshList ps tab tag b).textAtomic = false := by
  unfold freshList
  split
  · refine ⟨tx_fresh (txt := none) h.tnil (tagNoCtl_el tag htag.1) htag.2 (attrsC_one ?_ ?_) h.tnil, rfl, rfl⟩
    · exact h.b.litC (by decide)
    · unfold BlockExt.startsWithOf
      split
      · split
        · next marker _ hm =>
          have hbc := h.d.allc _ hb
          have h1 : firstLine b ⊆ b := List.takeWhile_subset _
          exact ((hbc.mono h1).mono (listItemMatch_marker_sub hm)).takeWhile _
        · exact h.b.litC (by decide)
      · exact h.b.litC (by decide)
  · exact ⟨tx_el h.tnil tag htag, rfl, rfl⟩

theorem listPX_ct (h : Dom2C p q Bp Tp Rp) (ps : BlockExt.ListParams) {tab : Nat} {pb : PB}
    (hpb : PresT p q Bp Tp Rp pb)
    {state : List BState} {refs : Refs} {parent : Node} {b : Str} {rest : List Str} {tag : String}
    (htag : NoCtl tag.toList ∧ Tag.name tag.toList ≠ codeTag)
    (htag' : Tag.name tag.toList ≠ preTag)
    (hP : TX p q Tp parent) (hA : parent.textAtomic = false) (hR : LogC p Bp refs) (hb : Bp b)
    (hrest : PL Rp rest) {r : Node × Refs × List Str}
    (hr : BlockExt.listPX ps tab pb state refs parent b rest tag = some r) : ResT p q Bp Tp Rp r := by
  have hd := h.d
  have hitems : PL Bp (BlockExt.getItemsX ps tab b) := pl_getItemsX h.d ps tab hb
  rw [listPX_eq] at hr
  split at hr
  · next lst hs =>
    obtain ⟨hl, hlt⟩ := sibListX_some hs
    have hc := hP.last hl
    obtain ⟨f1, f2, f3⟩ := fixLast_ctt h hc.1 (isListTag_notPre hlt)
    split at hr
    · cases hr
    · next newli refs' hcall =>
      obtain ⟨o1, o2, o3⟩ := hpb _ _ _ _ _ (tx_el h.tnil "li" (by decide)) rfl hR (h.r1 (hd.headD hitems)) hcall
      split at hr
      · next lst' refs'' hli =>
        obtain ⟨i1, i2, i3, i4⟩ := listItems_ct h hpb _ _ _ _ (f1.append o1 o2)
          (by rw [append_tag, f3]; exact isListTag_notPre hlt) o3 (hitems.mono (List.drop_subset _ _)) hli
        cases hr
        refine ⟨hP.setLastNA i1 ?_, hA, i4, hrest⟩
        rw [i2, append_textAtomic, f2]
        exact hc.1.nx.notAtomic (isListTag_ne_code hlt)
      · cases hr
  · split at hr
    · next hlt =>
      split at hr
      · next lst' refs'' hli =>
        obtain ⟨i1, i2, i3, i4⟩ := listItems_ct h hpb _ _ _ _ hP (isListTag_notPre hlt) hR hitems hli
        cases hr
        exact ⟨i1, i2.trans hA, i4, hrest⟩
      · cases hr
    · obtain ⟨g1, g2, g3⟩ := freshList_ctt h ps tab htag hb
      split at hr
      · next lst' refs'' hli =>
        obtain ⟨i1, i2, i3, i4⟩ := listItems_ct h hpb _ _ _ _ g1 (by rw [g2]; exact htag') hR hitems hli
        cases hr
        exact ⟨hP.append i1 (i2.trans g3), hA, i4, hrest⟩
      · cases hr

theorem listP_ct (h : Dom2C p q Bp Tp Rp) {tab : Nat} {pb : PB} (hpb : PresT p q Bp Tp Rp pb)
    {state : List BState} {refs : Refs} {parent : Node} {b : Str} {rest : List Str} {tag : String}
    (htag : NoCtl tag.toList ∧ Tag.name tag.toList ≠ codeTag)
    (htag' : Tag.name tag.toList ≠ preTag)
    (hP : TX p q Tp parent) (hA : parent.textAtomic = false) (hR : LogC p Bp refs) (hb : Bp b)
    (hrest : PL Rp rest) {r : Node × Refs × List Str}
    (hr : listP tab pb state refs parent b rest tag = some r) : ResT p q Bp Tp Rp r := by
  rw [← BlockExt.listPX_default] at hr
  exact listPX_ct h .default hpb htag htag' hP hA hR hb hrest hr

theorem parseChunk_ct (h : Dom2C p q Bp Tp Rp) {pb : PB} (hpb : PresT p q Bp Tp Rp pb) {state : List BState}
    {refs : Refs} {parent : Node} {text : Str} (hP : TX p q Tp parent) (hA : parent.textAtomic = false)
    (hR : LogC p Bp refs) (ht : Bp text) {r : Node × Refs} (hr : parseChunk pb state refs parent text = some r) :
    OutT p q Bp Tp r :=
  hpb _ _ _ _ _ hP hA hR (h.rl (h.d.splitS ht (by simp))) hr

theorem quoteP_ct (h : Dom2C p q Bp Tp Rp) {pb : PB} (hpb : PresT p q Bp Tp Rp pb) {state : List BState}
    {refs : Refs} {parent : Node} {b : Str} {rest : List Str} {q0 : Nat}
    (hP : TX p q Tp parent) (hA : parent.textAtomic = false) (hR : LogC p Bp refs) (hb : Bp b)
    (hrest : PL Rp rest) (hq : quoteSearch b = some q0) {r : Node × Refs × List Str}
    (hr : quoteP pb state refs parent b rest q0 = some r) : ResT p q Bp Tp Rp r := by
  have hblock := h.d.quoteBlock (h.d.drop hb q0)
  simp only [quoteP] at hr
  split at hr
  · cases hr
  · next parent' refs' hcall =>
    obtain ⟨h1, h2, h3⟩ := hpb _ _ _ _ _ hP hA hR (h.r1 (h.d.ofCut hb (quoteSearch_cut hq))) hcall
    split at hr
    · next sib hs =>
      have hsib : parent'.last? = some sib ∧ sib.isTag "blockquote" = true := by
        split at hs
        · next s hl =>
          split at hs
          · next ht => cases hs; exact ⟨hl, ht⟩
          · cases hs
        · cases hs
      have hc := h1.last hsib.1
      have hna : sib.textAtomic = false := by
        apply hc.1.nx.notAtomic
        rw [isTag_iff.1 hsib.2]; decide
      split at hr
      · next quote refs'' hq =>
        obtain ⟨o1, o2, o3⟩ := parseChunk_ct h hpb hc.1 hna h3 hblock hq
        cases hr
        exact ⟨h1.setLastNA o1 o2, h2, o3, hrest⟩
      · cases hr
    · split at hr
      · next quote refs'' hq =>
        obtain ⟨o1, o2, o3⟩ := parseChunk_ct h hpb (tx_el h.tnil "blockquote" (by decide)) rfl h3 hblock hq
        cases hr
        exact ⟨h1.append o1 o2, h2, o3, hrest⟩
      · cases hr

/-- `ListIndentProcessor.run` with the tag lists as parameters -/
theorem indentPX_ct (h : Dom2C p q Bp Tp Rp) {isL isI : Node → Bool} {itemTag : String}
    (hL : ∀ n, isL n = true → n.tag ≠ codeTag) (hI : ∀ n, isI n = true → n.tag ≠ codeTag)
    (hit : NoCtl itemTag.toList ∧ Tag.name itemTag.toList ≠ codeTag)
    {tab : Nat} {pb : PB} (hpb : PresT p q Bp Tp Rp pb) {state : List BState}
    {refs : Refs} {parent : Node} {b : Str} {rest : List Str}
    (hP : TX p q Tp parent) (hA : parent.textAtomic = false) (hR : LogC p Bp refs) (hb : Bp b)
    (hrest : PL Rp rest) {r : Node × Refs × List Str}
    (hr : BlockExt.indentPX isL isI itemTag tab pb state refs parent b rest = some r) : ResT p q Bp Tp Rp r := by
  unfold BlockExt.indentPX at hr
  generalize BlockExt.getLevelX isL isI tab state parent b = ls at hr
  obtain ⟨level, steps⟩ := ls
  simp only [] at hr
  have hblock := h.d.looseDetab tab hb level
  have hS := nodeAt_tx steps hP
  split at hr
  · split at hr
    · next c hs =>
      have hc : parent.last? = some c ∧ isL c = true := by
        split at hs
        · next s hl =>
          split at hs
          · next ht => cases hs; exact ⟨hl, ht⟩
          · cases hs
        · cases hs
      have hl := hP.last hc.1
      split at hr
      · next sub refs' hq =>
        obtain ⟨o1, o2, o3⟩ := hpb _ _ _ _ _ hl.1 (hl.1.nx.notAtomic (hL _ hc.2)) hR (h.r1 hblock) hq
        cases hr
        exact ⟨hP.setLastNA o1 o2, hA, o3, hrest⟩
      · cases hr
    · split at hr
      · next par' refs' hq =>
        obtain ⟨o1, o2, o3⟩ := hpb _ _ _ _ _ hP hA hR (h.r1 hblock) hq
        cases hr
        exact ⟨o1, o2, o3, hrest⟩
      · cases hr
  · split at hr
    · next hit' =>
      split at hr
      · next sub refs' hq =>
        have hna := hS.nx.notAtomic (hI _ hit')
        obtain ⟨o1, o2, o3⟩ := hpb _ _ _ _ _ hS hna hR (h.r1 hblock) hq
        cases hr
        obtain ⟨u1, u2⟩ := updPath_tx (fun _ => sub) steps hP ⟨o1, o2.trans hna.symm⟩
        exact ⟨u1, u2.trans hA, o3, hrest⟩
      · cases hr
    · split at hr
      · next li hs =>
        have hc : (nodeAt steps parent).last? = some li ∧ isI li = true := by
          split at hs
          · next s hl =>
            split at hs
            · next ht => cases hs; exact ⟨hl, ht⟩
            · cases hs
          · cases hs
        have hl := hS.last hc.1
        obtain ⟨t1, t2, _⟩ := textToP_tx h.tnil hl.1 (hl.1.nx.notAtomic (hI _ hc.2))
        split at hr
        · next li' refs' hq =>
          obtain ⟨o1, o2, o3⟩ := parseChunk_ct h hpb t1 t2 hR hblock hq
          cases hr
          obtain ⟨u1, u2⟩ := updPath_tx (fun s => s.setLast li') steps hP ⟨hS.setLastNA o1 o2, rfl⟩
          exact ⟨u1, u2.trans hA, o3, hrest⟩
        · cases hr
      · split at hr
        · next li' refs' hq =>
          obtain ⟨o1, o2, o3⟩ := hpb _ _ _ _ _ (tx_el h.tnil itemTag hit) rfl hR (h.r1 hblock) hq
          cases hr
          obtain ⟨u1, u2⟩ := updPath_tx (fun s => s.append li') steps hP ⟨hS.append o1 o2, rfl⟩
          exact ⟨u1, u2.trans hA, o3, hrest⟩
        · cases hr

theorem indentP_ct (h : Dom2C p q Bp Tp Rp) {tab : Nat} {pb : PB} (hpb : PresT p q Bp Tp Rp pb) {state : List BState}
    {refs : Refs} {parent : Node} {b : Str} {rest : List Str}
    (hP : TX p q Tp parent) (hA : parent.textAtomic = false) (hR : LogC p Bp refs) (hb : Bp b)
    (hrest : PL Rp rest) {r : Node × Refs × List Str}
    (hr : indentP tab pb state refs parent b rest = some r) : ResT p q Bp Tp Rp r := by
  rw [← BlockExt.indentPX_core] at hr
  exact indentPX_ct h (fun _ => isListTag_ne_code) (fun _ => isItemTag_ne_code) (by decide) hpb hP hA hR hb hrest hr

end recursive

end MdVerif.NoCtl.BlkXCT
