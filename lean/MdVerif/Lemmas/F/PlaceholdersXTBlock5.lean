/-
Helper lemmas for C10 with fenced_code (block stage), part 5 (worker fc2): the instance of the three string classes of
`Lemmas/F/PlaceholdersXTBlock.lean` for the token grammar of `Spec/F/NoCtl.lean`, and the block stage on a text in which
every raw-HTML placeholder is a block of its own (`NoCtlF.OwnBlock`, `Spec/F/OwnBlock.lean`).

* `Bw wl`  ordinary blocks: b1's class — characters of the domain (no STX/ETX), none of the three adjacencies, with
           wikilinks no `[` before a blank;
* `Tw wl`  strings of the tree: the same facts over the domain characters plus STX/ETX (`DomA`), and `WF false 0`
           (ordinary characters and LIVE foreign tokens only);
* `Rw wl`  elements of a block list: `Bw wl` or one placeholder block `("\n")? STX wzxhzdk:n ETX ("\n")?`, `n < HtmlBound.h`.

`block_stage_own`: for `OwnBlock HtmlBound.h text`, `DomA text`, `Adj3 text`, `Qw wl text`, `0 < tab`, the tree of
`parseDocumentXT tables xc tab text` consists of F-`WNodeB 0` elements (+ `QN wl`, only `code` elements have an atomic
text, non-atomic texts are `WF false 0`), and the log satisfies b1's `LogC pDomA (Bw wl)`: reference ids/urls/titles,
footnote ids and bodies, abbreviations and their titles hold no STX/ETX at all.
Core Lean only.
-/
import MdVerif.Lemmas.F.PlaceholdersXTBlock4
import MdVerif.Lemmas.PlaceholdersXAll
import MdVerif.Lemmas.F.PlaceholdersPat
import MdVerif.Lemmas.F.PlaceholdersBBt
import MdVerif.Spec.F.OwnBlock
import MdVerif.Spec.F.NoCtlB
import MdVerif.Lemmas.F.PlaceholdersAmpBlock

namespace MdVerif.NoCtlXF.XT
variable [MdVerif.NoCtlF.HtmlBound]
set_option linter.unusedSectionVars false
open Py
open MdVerif.NoCtl (STX ETX NoCtl DomB Adj3 NoPair NoAdj domCharB Blk.AllC)
open MdVerif.NoCtl.BlkB (PL pl_cons pl_one pl_nil)
open MdVerif.NoCtl.BlkX (TX LogC XInv)
open MdVerif.NoCtl.BlkXT
open MdVerif.NoCtlF (HtmlBound nn NlOpt BeforeTok AfterTok OwnBlock TokBlock DomA domCharA)
open MdVerif.NoCtlX (Qw QN)
open MdVerif.NoCtlXF (pDomA allC_domA strDomX_adj3qA)

/-- ordinary blocks: b1's class (`= PW wl` of `Lemmas/F/PlaceholdersXFn.lean`) -/
abbrev Bw (wl : Bool) : Str → Prop := fun s => (NoCtl.Blk.AllC pDomA s ∧ Adj3 s) ∧ Qw wl s

/-- strings of the tree: domain characters and live foreign tokens -/
def Tw (wl : Bool) (s : Str) : Prop := (DomA s ∧ Adj3 s ∧ NoCtlF.WF false 0 s) ∧ Qw wl s

/-- the elements of a block list: an ordinary block or one live placeholder block -/
def Rw (wl : Bool) (s : Str) : Prop := Bw wl s ∨ TokBlock HtmlBound.h s

/-! ### the placeholder -/

theorem placeholder_eq (n : Nat) : Fenced.placeholder n = NoCtlF.frnToken (NoCtlF.htmlBody n) := rfl

theorem mem_placeholder {n : Nat} {d : Char} (h : d ∈ Fenced.placeholder n) :
    d = STX ∨ d = ETX ∨ NoCtlF.inner d = true := by
  rw [placeholder_eq] at h
  simp only [NoCtlF.frnToken, List.mem_cons, List.mem_append, List.not_mem_nil, or_false] at h
  rcases h with (h | h) | h
  · exact .inl h
  · exact .inr (.inr (NoCtlF.htmlBody_inner n d h))
  · exact .inr (.inl h)

/-- a character that is neither STX, ETX nor an inner character does not occur in a placeholder -/
theorem ph_not_mem (n : Nat) {x : Char} (h1 : x ≠ STX) (h2 : x ≠ ETX) (h3 : NoCtlF.inner x = false) :
    x ∉ Fenced.placeholder n := by
  intro hm
  rcases mem_placeholder hm with h | h | h
  · exact h1 h
  · exact h2 h
  · rw [h3] at h; cases h

theorem tokCh_placeholder (n : Nat) : ∀ d ∈ Fenced.placeholder n, tokCh d = true := by
  intro d hd
  cases hq : tokCh d with
  | true => rfl
  | false =>
    exfalso
    simp only [tokCh, Bool.and_eq_false_iff, bne_eq_false_iff_eq] at hq
    rcases hq with ((((((h | h) | h) | h) | h) | h) | h) | h <;> subst h <;>
      exact ph_not_mem n (by decide) (by decide) (by decide) hd

theorem placeholder_cons (n : Nat) : ∃ r, Fenced.placeholder n = STX :: r := ⟨_, rfl⟩

theorem wf_placeholder {n : Nat} (hn : n < HtmlBound.h) : NoCtlF.WF false 0 (Fenced.placeholder n) := by
  rw [placeholder_eq]
  exact NoCtlF.wf_frnToken (Or.inr ⟨n, hn, rfl⟩)

/-- the characters of a placeholder block -/
theorem mem_tokBlock {x : Str} (h : TokBlock HtmlBound.h x) {d : Char} (hd : d ∈ x) :
    d = '\n' ∨ d = STX ∨ d = ETX ∨ NoCtlF.inner d = true := by
  obtain ⟨n, a, b, _, ha, hb, rfl⟩ := h
  simp only [List.mem_append] at hd
  rcases hd with (hd | hd) | hd
  · rcases ha with rfl | rfl
    · cases hd
    · simp only [List.mem_singleton] at hd; exact .inl hd
  · exact .inr (mem_placeholder hd)
  · rcases hb with rfl | rfl
    · cases hd
    · simp only [List.mem_singleton] at hd; exact .inl hd

theorem tokBlock_not_mem {x : Str} (h : TokBlock HtmlBound.h x) {c : Char} (h0 : c ≠ '\n') (h1 : c ≠ STX)
    (h2 : c ≠ ETX) (h3 : NoCtlF.inner c = false) : c ∉ x := by
  intro hm
  rcases mem_tokBlock h hm with e | e | e | e
  · exact h0 e
  · exact h1 e
  · exact h2 e
  · rw [h3] at e; cases e

theorem wf_nlOpt {a : Str} (h : NlOpt a) : NoCtlF.WF false 0 a := by
  rcases h with rfl | rfl
  · exact .nil
  · exact .plain _ _ (by decide) (by decide) .nil

/-- a placeholder block is a string of the tree -/
theorem tw_tokBlock (wl : Bool) {x : Str} (h : TokBlock HtmlBound.h x) : Tw wl x := by
  have hno := fun {c : Char} (h0 : c ≠ '\n') (h1 : c ≠ STX) (h2 : c ≠ ETX) (h3 : NoCtlF.inner c = false) =>
    tokBlock_not_mem h h0 h1 h2 h3
  refine ⟨⟨?_, ⟨?_, ?_, ?_⟩, ?_⟩, fun _ => ?_⟩
  · intro c hc
    refine NoCtlF.domCharA_of_ne ?_ ?_ <;> rintro rfl <;>
      exact hno (by decide) (by decide) (by decide) (by decide) hc
  · exact NoCtl.noPair_of_not_mem_left (hno (by decide) (by decide) (by decide) (by decide))
  · exact NoCtl.noPair_of_not_mem_left (hno (by decide) (by decide) (by decide) (by decide))
  · exact NoCtl.noPair_of_not_mem_left (hno (by decide) (by decide) (by decide) (by decide))
  · obtain ⟨n, a, b, hn, ha, hb, rfl⟩ := h
    exact ((wf_nlOpt ha).append (wf_placeholder hn)).append (wf_nlOpt hb)
  · exact NoCtl.noPair_of_not_mem_left (hno (by decide) (by decide) (by decide) (by decide))

/-! ### the instance -/

theorem tw_of_bw {wl : Bool} {s : Str} (h : Bw wl s) : Tw wl s := by
  have := allC_domA h.1.1
  exact ⟨⟨this.2, h.1.2, NoCtlF.WF.of_noCtl this.1⟩, h.2⟩

theorem Tw.infix_of_wf {wl : Bool} {s t : Str} (h : Tw wl s) (ht : t <:+: s) (hw : NoCtlF.WF false 0 t) : Tw wl t :=
  ⟨⟨fun c hc => h.1.1 c (ht.subset hc), h.1.2.1.infix ht, hw⟩, h.2.infix ht⟩

theorem tw_join {wl : Bool} {a b : Str} (ha : Tw wl a) (hb : Tw wl b) : Tw wl (a ++ '\n' :: b) := by
  refine ⟨⟨?_, NoCtl.adj3_joinNl ha.1.2.1 hb.1.2.1, ha.1.2.2.append (.plain _ _ (by decide) (by decide) hb.1.2.2)⟩,
    NoCtlX.qw_joinNl ha.2 hb.2⟩
  intro c hc
  simp only [List.mem_append, List.mem_cons] at hc
  rcases hc with hc | rfl | hc
  · exact ha.1.1 c hc
  · exact NoCtlF.domCharA_of_ne (by decide) (by decide)
  · exact hb.1.1 c hc

/-- a member of a joined list, with what stands on either side -/
theorem mem_join_decomp {sep x : Str} : ∀ {l : List Str}, x ∈ l →
    ∃ u v, join sep l = u ++ x ++ v ∧ (u = [] ∨ ∃ u', u = u' ++ sep) ∧ (v = [] ∨ ∃ v', v = sep ++ v')
  | [a], hx => by
    simp only [List.mem_singleton] at hx; subst hx
    exact ⟨[], [], by simp [join], .inl rfl, .inl rfl⟩
  | a :: b :: r, hx => by
    rw [BlockExt.join_cons_cons]
    rcases List.mem_cons.1 hx with rfl | hx
    · exact ⟨[], sep ++ join sep (b :: r), by simp, .inl rfl, .inr ⟨_, rfl⟩⟩
    · obtain ⟨u, v, e, hu, hv⟩ := mem_join_decomp (sep := sep) hx
      refine ⟨a ++ sep ++ u, v, by rw [e]; simp, .inr ?_, hv⟩
      rcases hu with rfl | ⟨u', rfl⟩
      · exact ⟨a, by simp⟩
      · exact ⟨a ++ sep ++ u', by simp⟩
termination_by l => l.length


theorem inner_nl : NoCtlF.inner '\n' = false := by decide

theorem tw_lines {wl : Bool} {s : Str} (h : Tw wl s) : PL (Tw wl) (lines s) := by
  intro l hl
  obtain ⟨u, v, e, hu, hv⟩ := mem_join_decomp (sep := ['\n']) hl
  have e' : s = u ++ l ++ v := by
    rw [← e]; exact (lines_joinLines s).symm
  have hw := h.1.2.2
  rw [e'] at hw
  have h1 : NoCtlF.WF false 0 (u ++ l) := by
    refine (hw.split ?_).1
    rcases hv with rfl | ⟨v', rfl⟩
    · exact NoCtlF.bnd_nil_right _
    · exact NoCtlF.bnd_cons_right _ _ inner_nl (by decide)
  have h2 : NoCtlF.WF false 0 l := by
    refine (h1.split ?_).2
    rcases hu with rfl | ⟨u', rfl⟩
    · exact NoCtlF.bnd_nil_left _
    · exact NoCtlF.bnd_snoc_left _ _ inner_nl (by decide)
  exact h.infix_of_wf ⟨u, v, e'.symm⟩ h2

/-- **the three string classes of the block stage with raw-HTML placeholders** -/
theorem dom2_w (wl : Bool) : Dom2 pDomA NoCtl.Blk.okc (Bw wl) (Tw wl) (Rw wl) where
  b := strDomX_adj3qA wl
  sub := fun _ h => tw_of_bw h
  rOf := fun _ h => .inl h
  rSp := by
    intro s hs hsp
    rcases hs with h | h
    · exact h
    · exfalso
      have hp := (BlockExt.startsWith_iff_prefix _ _).mp hsp
      exact tokBlock_not_mem h (c := ' ') (by decide) (by decide) (by decide) (by decide)
        (hp.subset (by decide))
  join := fun _ _ ha hb => tw_join ha (tw_of_bw hb)
  lstrip := fun s h => h.infix_of_wf (lstripP_suffix _ s).isInfix h.1.2.2.lstrip
  lines := fun _ h => tw_lines h

/-! ### a placeholder block in the loop -/

theorem lstrip_of_head {c : Char} {r : Str} (h : isSpace c = false) : Py.lstrip (c :: r) = c :: r := by
  simp [Py.lstrip, lstripP, h]

theorem tok_step (wl : Bool) {tables : Bool} {cfg : BlockExt.XCfg} {tab : Nat} (htab : 0 < tab) {pb : Block.PB}
    (_hpb : PresT pDomA NoCtl.Blk.okc (Bw wl) (Tw wl) (Rw wl) pb) {state : List Block.BState} {refs : Block.Refs}
    {parent : Node} {b : Str} {rest : List Str} {r : Node × Block.Refs × List Str}
    (hP : TX pDomA NoCtl.Blk.okc (Tw wl) parent) (hA : parent.textAtomic = false) (hR : LogC pDomA (Bw wl) refs)
    (hb : TokBlock HtmlBound.h b) (hrest : PL (Rw wl) rest)
    (hr : BlockExt.dispatchXT tables cfg tab pb state refs parent b rest = some r) :
    ResT pDomA NoCtl.Blk.okc (Bw wl) (Tw wl) (Rw wl) r := by
  have hbT := tw_tokBlock wl hb
  obtain ⟨n, a, e, hn, ha, he, rfl⟩ := hb
  obtain ⟨w, hw⟩ := placeholder_cons n
  have hch := tokCh_placeholder n
  rw [hw] at hch
  rcases ha with rfl | rfl
  · -- the paragraph
    have e1 : [] ++ Fenced.placeholder n ++ e = STX :: w ++ e := by rw [hw]; rfl
    rw [e1] at hr hbT
    rw [dispatchXT_tokline tables cfg tab htab pb state refs parent STX w e rest hch (by decide) (by decide) he] at hr
    cases hr
    refine paraP_gen (dom2_w wl).tnil hP hA hR (fun a' ha' => tw_join ha' hbT) ?_ hrest
    rw [show STX :: w ++ e = STX :: (w ++ e) from rfl, lstrip_of_head (by decide)]
    exact hbT
  · -- the line feed in front
    have e1 : ['\n'] ++ Fenced.placeholder n ++ e = '\n' :: (STX :: w) ++ e := by rw [hw]; rfl
    rw [e1] at hr
    rw [dispatchXT_nl_tokline tables cfg tab htab pb state refs parent (STX :: w) e rest hch he] at hr
    cases hr
    refine emptyP_t (dom2_w wl) hP hA hR ?_ hrest
    refine .inr ⟨n, [], e, hn, .inl rfl, he, ?_⟩
    rw [hw]; rfl

/-- **the loop of the extended block parser keeps the invariant on lists of ordinary blocks and placeholder blocks** -/
theorem parseBlocksXT_pres_w (wl : Bool) (tables : Bool) (cfg : BlockExt.XCfg) {tab : Nat} (htab : 0 < tab) (f : Nat) :
    PresT pDomA NoCtl.Blk.okc (Bw wl) (Tw wl) (Rw wl) (BlockExt.parseBlocksXT tables cfg tab f) :=
  parseBlocksXT_pres_of tables cfg tab (fun pb hpb state refs parent b rest r hP hA hR hb hrest hd => by
    rcases hb with hb | hb
    · exact dispatchXT_t (dom2_w wl) hpb hP hA hR hb hrest hd
    · exact tok_step wl htab hpb hP hA hR hb hrest hd) f


/-! ### the blocks of a text in which every placeholder is a block of its own -/

/-- no piece of `s.split(sep)` holds the separator -/
theorem splitAux_no_sep (sep : Str) (hsep : sep ≠ []) : ∀ (s : Str) (k : Nat), ∀ l ∈ splitAux sep k s, ¬ sep <:+: l := by
  intro s
  induction s with
  | nil =>
    intro k l hl hi
    simp only [splitAux, List.mem_singleton] at hl
    subst hl
    exact hsep (List.eq_nil_of_infix_nil hi)
  | cons c s ih =>
    intro k
    cases k with
    | succ k => simpa [splitAux] using ih k
    | zero =>
      intro l hl
      by_cases hs : startsWith (c :: s) sep = true
      · simp only [splitAux, hs, if_true, List.mem_cons] at hl
        rcases hl with rfl | hl
        · exact fun hi => hsep (List.eq_nil_of_infix_nil hi)
        · exact ih _ l hl
      · obtain ⟨p, ps, h1, h2, _, _⟩ := BlockExt.splitAux_spec sep s 0
        have hl' : l = c :: p ∨ l ∈ ps := by
          simp only [splitAux, hs, h1] at hl
          simpa using hl
        rcases hl' with rfl | hl'
        · intro hi
          rcases List.infix_cons_iff.1 hi with hi | hi
          · apply hs
            rw [BlockExt.startsWith_iff_prefix]
            exact hi.trans ((List.prefix_cons_inj c).mpr (h2 rfl))
          · exact ih 0 p (by rw [h1]; simp) hi
        · exact ih 0 l (by rw [h1]; simp [hl'])

/-- a non-empty end of a string that ends with a blank line ends with a line feed -/
theorem last_of_suffix_nn {t u : Str} (ht : t ≠ []) (h1 : t <:+ u) (h2 : nn <:+ u) : '\n' ∈ t := by
  obtain ⟨a, rfl⟩ := h1
  obtain ⟨z, hz⟩ := h2
  obtain ⟨t', c, rfl⟩ : ∃ t' c, t = t' ++ [c] := ⟨t.dropLast, t.getLast ht, (List.dropLast_concat_getLast ht).symm⟩
  have e : (a ++ t') ++ [c] = (z ++ ['\n']) ++ ['\n'] := by
    rw [List.append_assoc, ← hz]; simp [nn]
  have := (List.append_inj' e rfl).2
  simp only [List.cons.injEq, and_true] at this
  subst this
  simp

/-- a non-empty start of a string that starts with a blank line starts with a line feed -/
theorem head_of_prefix_nn {t v : Str} (ht : t ≠ []) (h1 : t <+: v) (h2 : nn <+: v) : '\n' ∈ t := by
  obtain ⟨a, rfl⟩ := h1
  obtain ⟨z, hz⟩ := h2
  cases t with
  | nil => exact absurd rfl ht
  | cons c t' =>
    simp only [nn, List.cons_append, List.cons.injEq] at hz
    rw [← hz.1]; simp

/-- what stands between the preceding blank line and the placeholder -/
theorem nlOpt_before {u x1 : Str} (hb : BeforeTok (u ++ x1)) (hx : ¬ nn <:+: x1) : NlOpt x1 := by
  rcases hb with h | h | h
  · exact .inl (List.append_eq_nil_iff.1 h).2
  · cases x1 with
    | nil => exact .inl rfl
    | cons c r =>
      have hl := congrArg List.length h
      simp only [List.length_append, List.length_cons, List.length_nil] at hl
      have hr : r = [] := List.eq_nil_of_length_eq_zero (by omega)
      have hu : u = [] := List.eq_nil_of_length_eq_zero (by omega)
      subst hr hu
      simp only [List.nil_append, List.cons.injEq, and_true] at h
      subst h
      exact .inr rfl
  · cases x1 with
    | nil => exact .inl rfl
    | cons c r =>
      cases r with
      | nil =>
        have hm := last_of_suffix_nn (t := [c]) (by simp) (List.suffix_append u [c]) h
        simp only [List.mem_singleton] at hm
        subst hm
        exact .inr rfl
      | cons d r' =>
        exfalso
        apply hx
        exact (List.suffix_of_suffix_length_le h (List.suffix_append u (c :: d :: r')) (by simp [nn])).isInfix

/-- what stands between the placeholder and the following blank line -/
theorem nlOpt_after {x3 v : Str} (ha : AfterTok (x3 ++ v)) (hx : ¬ nn <:+: x3) : NlOpt x3 := by
  rcases ha with h | h | h
  · exact .inl (List.append_eq_nil_iff.1 h).1
  · cases x3 with
    | nil => exact .inl rfl
    | cons c r =>
      have hl := congrArg List.length h
      simp only [List.length_append, List.length_cons, List.length_nil] at hl
      have hr : r = [] := List.eq_nil_of_length_eq_zero (by omega)
      have hv : v = [] := List.eq_nil_of_length_eq_zero (by omega)
      subst hr hv
      simp only [List.append_nil, List.cons.injEq, and_true] at h
      subst h
      exact .inr rfl
  · cases x3 with
    | nil => exact .inl rfl
    | cons c r =>
      cases r with
      | nil =>
        have hm := head_of_prefix_nn (t := [c]) (by simp) (List.prefix_append [c] v) h
        simp only [List.mem_singleton] at hm
        subst hm
        exact .inr rfl
      | cons d r' =>
        exfalso
        apply hx
        exact (List.prefix_of_prefix_length_le h (List.prefix_append (c :: d :: r') v) (by simp [nn])).isInfix

theorem nl_not_mem_placeholder (n : Nat) : '\n' ∉ Fenced.placeholder n :=
  ph_not_mem n (by decide) (by decide) inner_nl

/-- **a block of a text in which every placeholder is a block of its own is an ordinary block or a placeholder block** -/
theorem rw_of_piece (wl : Bool) {s x u v : Str} (e : s = u ++ x ++ v) (hu : u = [] ∨ ∃ u', u = u' ++ nn)
    (hv : v = [] ∨ ∃ v', v = nn ++ v') (hx : ¬ nn <:+: x) (ho : OwnBlock HtmlBound.h s) (hd : DomA s) (ha : Adj3 s)
    (hq : Qw wl s) : Rw wl x := by
  have hinf : x <:+: s := ⟨u, v, e.symm⟩
  by_cases hs : STX ∈ x
  · -- a placeholder block
    right
    obtain ⟨x1, x2, rfl⟩ := List.append_of_mem hs
    obtain ⟨n, r, hn, hph, hbef, haft⟩ := ho.1 (u ++ x1) (x2 ++ v) (by rw [e]; simp)
    -- the placeholder lies inside the block
    obtain ⟨x3, h3, hr3⟩ : ∃ x3, STX :: x2 = Fenced.placeholder n ++ x3 ∧ r = x3 ++ v := by
      have e2 : (STX :: x2) ++ v = Fenced.placeholder n ++ r := by rw [← hph]; rfl
      rcases List.append_eq_append_iff.1 e2 with ⟨w, hw1, hw2⟩ | ⟨w, hw1, hw2⟩
      · -- `placeholder = STX :: x2 ++ w`, `v = w ++ r`
        cases w with
        | nil => exact ⟨[], by simpa using hw1.symm, by simpa using hw2.symm⟩
        | cons c w' =>
          exfalso
          rcases hv with rfl | ⟨v', rfl⟩
          · cases hw2
          · simp only [nn, List.cons_append, List.cons.injEq] at hw2
            apply nl_not_mem_placeholder n
            rw [hw1, ← hw2.1]; simp
      · exact ⟨w, hw1, hw2⟩
    have hx1 : ¬ nn <:+: x1 := fun hi => hx (hi.trans ⟨[], STX :: x2, by simp⟩)
    have hx3 : ¬ nn <:+: x3 := fun hi => hx (hi.trans ⟨x1 ++ Fenced.placeholder n, [], by rw [h3]; simp⟩)
    refine ⟨n, x1, x3, hn, nlOpt_before hbef hx1, nlOpt_after (hr3 ▸ haft) hx3, ?_⟩
    rw [h3]; simp
  · -- an ordinary block
    left
    have he : ETX ∉ x := by
      intro hm
      obtain ⟨x1, x2, rfl⟩ := List.append_of_mem hm
      obtain ⟨n, u', _, hq'⟩ := ho.2 (u ++ x1) (x2 ++ v) (by rw [e]; simp)
      -- `u ++ x1 = u' ++ STX :: body`
      obtain ⟨body, hbody⟩ : ∃ body, Fenced.placeholder n = (STX :: body) ++ [ETX] := ⟨_, rfl⟩
      have hcut : u ++ x1 = u' ++ STX :: body := by
        rw [hbody, ← List.append_assoc] at hq'
        exact (List.append_inj' hq' rfl).1
      have hbm : ∀ c ∈ STX :: body, c ∈ Fenced.placeholder n := by
        intro c hc; rw [hbody]; exact List.mem_append_left _ hc
      have hs1 : STX ∉ x1 := fun h => hs (List.mem_append_left _ h)
      by_cases hlen : (STX :: body).length ≤ x1.length
      · have : (STX :: body) <:+ x1 :=
          List.suffix_of_suffix_length_le (l₃ := u ++ x1) ⟨u', hcut.symm⟩ (List.suffix_append u x1) hlen
        exact hs1 (this.subset (by simp))
      · -- `STX :: body = t ++ x1` with a non-empty end `t` of `u`
        have hsuf : x1 <:+ STX :: body :=
          List.suffix_of_suffix_length_le (l₃ := u ++ x1) (List.suffix_append u x1) ⟨u', hcut.symm⟩ (by omega)
        obtain ⟨t, ht⟩ := hsuf
        have htne : t ≠ [] := by
          intro h0; subst h0
          simp only [List.nil_append] at ht
          rw [ht] at hlen; exact hlen (Nat.le_refl _)
        have hu' : u = u' ++ t := by
          rw [← ht, ← List.append_assoc] at hcut
          exact List.append_cancel_right hcut
        rcases hu with rfl | ⟨u'', hu2⟩
        · have := congrArg List.length hu'
          simp only [List.length_nil, List.length_append] at this
          exact htne (List.eq_nil_of_length_eq_zero (by omega))
        · have hm := last_of_suffix_nn htne ⟨u', hu'.symm⟩ ⟨u'', hu2.symm⟩
          exact nl_not_mem_placeholder n (hbm _ (by rw [← ht]; exact List.mem_append_left _ hm))
    have hc : NoCtl x := ⟨hs, he⟩
    refine ⟨⟨?_, ha.infix hinf⟩, hq.infix hinf⟩
    intro c hcm
    have h1 := hd c (hinf.subset hcm)
    have h2 : c ≠ STX := fun h => hs (h ▸ hcm)
    have h3 : c ≠ ETX := fun h => he (h ▸ hcm)
    simp only [pDomA, NoCtl.Blk.okc, Bool.and_eq_true, bne_iff_ne, ne_eq]
    exact ⟨⟨h2, h3⟩, by simpa using h1⟩

/-- **the block list of a text in which every placeholder is a block of its own** -/
theorem pl_splitS_own (wl : Bool) {s : Str} (ho : OwnBlock HtmlBound.h s) (hd : DomA s) (ha : Adj3 s) (hq : Qw wl s) :
    PL (Rw wl) (splitS nn s) := by
  intro x hx
  obtain ⟨u, v, e, hu, hv⟩ := mem_join_decomp (sep := nn) hx
  rw [join_splitS (by simp [nn])] at e
  exact rw_of_piece wl e hu hv (splitAux_no_sep nn (by simp [nn]) s 0 x hx) ho hd ha hq



/-! ### texts of the shape: one placeholder between two ordinary texts -/

/-- a character that occurs once -/
theorem unique_occ {x : Char} {p t u w : Str} (hp : x ∉ p) (ht : x ∉ t) (h : p ++ x :: t = u ++ x :: w) :
    u = p ∧ w = t := by
  rcases List.append_eq_append_iff.1 h with ⟨y, hy1, hy2⟩ | ⟨y, hy1, hy2⟩
  · -- `u = p ++ y`, `x :: t = y ++ x :: w`
    cases y with
    | nil =>
      simp only [List.nil_append, List.cons.injEq, true_and] at hy2
      exact ⟨by simpa using hy1, hy2.symm⟩
    | cons d y' =>
      exfalso
      simp only [List.cons_append, List.cons.injEq] at hy2
      exact ht (by rw [hy2.2]; simp)
  · -- `p = u ++ y`, `x :: w = y ++ x :: t`
    cases y with
    | nil =>
      simp only [List.nil_append, List.cons.injEq, true_and] at hy2
      exact ⟨by simpa using hy1.symm, hy2⟩
    | cons d y' =>
      exfalso
      simp only [List.cons_append, List.cons.injEq] at hy2
      exact hp (by rw [hy1, ← hy2.1]; simp)

/-- **one placeholder between two texts without STX/ETX, a blank line (or the text boundary) on both sides** -/
theorem ownBlock_one {h n : Nat} (hn : n < h) {a c : Str} (ha : NoCtl a) (hc : NoCtl c) (hb : BeforeTok a)
    (hf : AfterTok c) : OwnBlock h (a ++ Fenced.placeholder n ++ c) := by
  have hbody : ∀ d ∈ NoCtlF.htmlBody n, d ≠ STX ∧ d ≠ ETX := fun d hd => NoCtlF.inner_ne (NoCtlF.htmlBody_inner n d hd)
  have e1 : a ++ Fenced.placeholder n ++ c = a ++ STX :: (NoCtlF.htmlBody n ++ [ETX] ++ c) := by
    rw [placeholder_eq]; simp [NoCtlF.frnToken]
  have e2 : a ++ Fenced.placeholder n ++ c = (a ++ STX :: NoCtlF.htmlBody n) ++ ETX :: c := by
    rw [placeholder_eq]; simp [NoCtlF.frnToken]
  constructor
  · intro u w huw
    rw [e1] at huw
    have h2 : STX ∉ NoCtlF.htmlBody n ++ [ETX] ++ c := by
      intro hm
      simp only [List.mem_append, List.mem_singleton] at hm
      rcases hm with (hm | hm) | hm
      · exact (hbody _ hm).1 rfl
      · revert hm; decide
      · exact hc.1 hm
    obtain ⟨rfl, rfl⟩ := unique_occ ha.1 h2 huw
    exact ⟨n, c, hn, by rw [placeholder_eq]; simp [NoCtlF.frnToken], hb, hf⟩
  · intro u w huw
    rw [e2] at huw
    have h1 : ETX ∉ a ++ STX :: NoCtlF.htmlBody n := by
      intro hm
      simp only [List.mem_append, List.mem_cons] at hm
      rcases hm with hm | hm | hm
      · exact ha.2 hm
      · revert hm; decide
      · exact (hbody _ hm).2 rfl
    obtain ⟨rfl, rfl⟩ := unique_occ h1 hc.2 huw
    exact ⟨n, a, hn, by rw [placeholder_eq]; simp [NoCtlF.frnToken]⟩

/-! ### the statements -/

/-- what the later stages need of an element of the block tree: `WNodeB 0` of the generalised grammar, `QN`, only `code`
    elements have an atomic text, a non-atomic text is made of ordinary characters and live foreign tokens
    (`= FnQ wl n` of `Lemmas/F/PlaceholdersXFn.lean`) -/
def BlkOut (wl : Bool) (n : Node) : Prop :=
  NoCtlF.WNodeB 0 n ∧ QN wl n ∧ (n.textAtomic = true → NoCtl.isCode n = true) ∧
    (n.textAtomic = false → NoCtlF.WFO false 0 n.text)

theorem strT_of_tw {wl : Bool} {s : Str} (h : Tw wl s) : NoCtlF.StrT 0 (some s) :=
  ⟨NoCtlF.WF.mono (Nat.le_refl _) (by simp) h.1.2.2, h.1.1, h.1.2.1, NoCtlF.btSafe_of_wf h.1.2.2⟩

theorem strT_of_tw_opt {wl : Bool} {t : Option Str} (h : Tw wl (t.getD [])) : NoCtlF.StrT 0 t :=
  ⟨NoCtlF.WF.mono (Nat.le_refl _) (by simp) h.1.2.2, h.1.1, h.1.2.1, NoCtlF.btSafe_of_wf h.1.2.2⟩

theorem blkOut_of_xinv {wl : Bool} {n : Node} (h : XInv pDomA NoCtl.Blk.okc (Tw wl) n) : BlkOut wl n := by
  obtain ⟨hn, _⟩ := h
  have ht := hn.text
  refine ⟨⟨hn.tag, NoCtlXF.attrsNoCtl_of_attrsCA hn.attrs, hn.tailAt, strT_of_tw_opt hn.tail, ?_, ?_⟩,
    ⟨fun ha => (hn.textP ha).2, hn.tail.2⟩, ?_, ?_⟩
  · split
    · next hat =>
      rw [if_pos hat] at ht
      exact NoCtlF.WF.of_noCtl (NoCtl.allC_okc ht)
    · next hat =>
      have hat' : n.textAtomic = false := by simpa using hat
      exact strT_of_tw_opt (hn.textP hat')
  · intro hc
    refine hn.codeAtom ?_
    have : n.tag = Tag.name "code".toList := by simpa [NoCtl.isCode] using hc
    exact this
  · intro ha
    have := hn.atomCode ha
    simp [NoCtl.isCode, this]
  · intro ha
    exact (hn.textP ha).1.2.2

/-- **the loop of the extended block parser on a list of ordinary blocks and placeholder blocks**, from any tree that
    satisfies the invariant -/
theorem parseBlocksXT_own (wl : Bool) (tables : Bool) (cfg : BlockExt.XCfg) {tab : Nat} (htab : 0 < tab) (f : Nat)
    {state : List Block.BState} {log : Block.Refs} {parent : Node} {blocks : List Str} {r : Node × Block.Refs}
    (hP : parent.Forall (XInv pDomA NoCtl.Blk.okc (Tw wl))) (hA : parent.textAtomic = false)
    (hL : LogC pDomA (Bw wl) log) (hB : ∀ b ∈ blocks, Rw wl b)
    (hr : BlockExt.parseBlocksXT tables cfg tab f state log parent blocks = some r) :
    r.1.Forall (XInv pDomA NoCtl.Blk.okc (Tw wl)) ∧ r.1.textAtomic = false ∧ LogC pDomA (Bw wl) r.2 :=
  parseBlocksXT_pres_w wl tables cfg htab f _ _ _ _ _ hP hA hL hB hr

/-- **the block stage with fenced_code**: on a text in which every STX/ETX belongs to a live raw-HTML placeholder that is a
    block of its own (what `FencedBlockPreprocessor` writes), made of characters of the domain, with none of the three
    adjacencies (and, with wikilinks, no `[` before a blank), the extended block parser — every combination of admonition,
    def_list, footnotes, abbr, sane_lists, tables; `tab_length ≥ 1` — builds a tree of `BlkOut` elements: literal tags,
    attributes free of STX/ETX, atomic (`code`) texts free of STX/ETX, tails and non-atomic texts made of domain
    characters and WHOLE live placeholders; and every string of the log (reference ids, urls, titles; footnote ids and
    bodies; abbreviations and titles) is free of STX/ETX, footnote bodies are ordinary blocks (`LogC pDomA (Bw wl)`:
    b1's invariant, unchanged). -/
theorem block_stage_own (wl : Bool) (tables : Bool) (xc : BlockExt.XCfg) {tab : Nat} (htab : 0 < tab) {text : Str}
    (ho : OwnBlock HtmlBound.h text) (hd : DomA text) (ha : Adj3 text) (hq : Qw wl text)
    {root : Node} {log : Block.Refs} (hr : BlockExt.parseDocumentXT tables xc tab text = some (root, log)) :
    root.Forall (BlkOut wl) ∧ LogC pDomA (Bw wl) log := by
  obtain ⟨o1, _, o3⟩ := parseBlocksXT_pres_w wl tables xc htab _ _ _ _ _ _
    (NoCtl.BlkX.tx_el (dom2_w wl).tnil "div" (by decide)) rfl NoCtl.BlkX.logC_nil (pl_splitS_own wl ho hd ha hq) hr
  exact ⟨NoCtl.Blk.forall_mono (fun _ hn => blkOut_of_xinv hn) root o1, o3⟩

/-- the same for a chunk parsed on an empty surrogate `div` with a given log -/
theorem block_chunk_own (wl : Bool) (tables : Bool) (xc : BlockExt.XCfg) {tab : Nat} (htab : 0 < tab) (f : Nat)
    {log : Block.Refs} (hl : LogC pDomA (Bw wl) log) {text : Str}
    (ho : OwnBlock HtmlBound.h text) (hd : DomA text) (ha : Adj3 text) (hq : Qw wl text)
    {root : Node} {log' : Block.Refs}
    (hr : Block.parseChunk (BlockExt.parseBlocksXT tables xc tab f) [] log (Node.el "div") text = some (root, log')) :
    root.Forall (BlkOut wl) ∧ LogC pDomA (Bw wl) log' := by
  obtain ⟨o1, _, o3⟩ := parseBlocksXT_pres_w wl tables xc htab f _ _ _ _ _
    (NoCtl.BlkX.tx_el (dom2_w wl).tnil "div" (by decide)) rfl hl (pl_splitS_own wl ho hd ha hq) hr
  exact ⟨NoCtl.Blk.forall_mono (fun _ hn => blkOut_of_xinv hn) root o1, o3⟩

end MdVerif.NoCtlXF.XT
