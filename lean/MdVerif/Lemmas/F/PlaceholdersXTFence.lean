/-
Helper lemmas for C10 with fenced_code (the preprocessor, worker fc2): what `FencedBlockPreprocessor.run`
(`Fenced.fencedRunA`) hands to the block parser and stores in the raw-HTML stash, for a text without STX/ETX.

* a match of `FENCED_BLOCK_RE` (`Fenced.fenceFindFrom`) starts at a line start with a fence character, ends at a line end,
  and its groups are pieces of the text behind the search index (`fenceFindFrom_shape`);
* the loop invariant: every placeholder written so far is a block of its own and lies before the search index; behind the
  index the text is a piece of the source (`fencedLoopA_inv`);
* `fencedRunA_own`: the result is `NoCtlF.OwnBlock stash.length t'` (`Spec/F/OwnBlock.lean`), keeps the character class
  of the domain (`DomA`: no `<`, and no `&` unless `HtmlBound.amp`), `Adj3`, `Qw wl`, and every stash entry is free of STX/ETX.

The `HtmlBound` instance occurs in the statements only through the character domain `DomA` (parameter `amp`).  Core Lean only.
-/
import MdVerif.Lemmas.F.PlaceholdersXTBlock5
import MdVerif.Lemmas.FencedCodeAttrs
import MdVerif.Lemmas.PlaceholdersXAttr
import MdVerif.Lemmas.PlaceholdersChain
import MdVerif.Lemmas.Code

namespace MdVerif.NoCtlXF.XT
variable [MdVerif.NoCtlF.HtmlBound]
set_option linter.unusedSectionVars false
open Py
open MdVerif.NoCtl (STX ETX NoCtl DomB Adj3 NoPair domCharB)
open MdVerif.NoCtlF (nn NlOpt BeforeTok AfterTok OwnBlock DomA domCharA)
open MdVerif.NoCtlX (Qw)
open MdVerif.Fenced

/-! ### the closing line ends at a line end -/

/-- nothing, or a line feed first -/
def Eol (s : Str) : Prop := s = [] ∨ ∃ y, s = '\n' :: y

theorem closeLines_eol (fence : Str) : ∀ (ls : List Str) (off cl ll : Nat), closeLines fence off ls = some (cl, ll) →
    off ≤ cl ∧ Eol ((joinLines ls).drop (cl - off + ll))
  | [], _, _, _, h => by simp [closeLines] at h
  | l :: rest, off, cl, ll, h => by
    simp only [closeLines] at h
    split at h
    · simp only [Option.some.injEq, Prod.mk.injEq] at h
      obtain ⟨rfl, rfl⟩ := h
      refine ⟨Nat.le_refl _, ?_⟩
      rw [Nat.sub_self, Nat.zero_add]
      cases rest with
      | nil => left; simp [Py.joinLines, join]
      | cons b r =>
        right
        refine ⟨joinLines (b :: r), ?_⟩
        rw [Block.joinLines_cons_cons, List.drop_left]
    · obtain ⟨h1, h2⟩ := closeLines_eol fence rest _ cl ll h
      refine ⟨by omega, ?_⟩
      cases rest with
      | nil => simp [closeLines] at h
      | cons b r =>
        have e : cl - off + ll = l.length + ((cl - (off + l.length + 1) + ll) + 1) := by omega
        rw [Block.joinLines_cons_cons, e, ← List.drop_drop, List.drop_left, List.drop_succ_cons]
        exact h2

/-! ### the groups of a match are pieces of the text -/

theorem attrCands_infix {b : Str} {base : Nat} {c : Cand} (h : c ∈ attrCands b base) :
    c.attrs.getD [] <:+: b ∧ c.lang = none := by
  simp only [attrCands] at h
  split at h
  · rename_i r
    simp only [List.mem_filterMap] at h
    obtain ⟨j, _, hj⟩ := h
    split at hj
    · injection hj with hj
      subst hj
      refine ⟨?_, rfl⟩
      show (r.takeWhile (· ≠ '\n')).take j <:+: '{' :: r
      exact ((List.take_prefix _ _).trans (List.takeWhile_prefix _)).isInfix.trans (List.suffix_cons _ _).isInfix
    · cases hj
  · cases h

theorem langCands_infix {b : Str} {base : Nat} {x : Option Str × Option Str × Nat} (h : x ∈ langCands b base) :
    x.1.getD [] <:+: b := by
  simp only [langCands, List.mem_append, List.mem_flatMap, List.mem_map] at h
  rcases h with ⟨d, _, l, _, s2, _, hp, _, rfl⟩ | ⟨hp, _, rfl⟩
  · exact (List.take_prefix _ _).isInfix.trans (List.drop_suffix _ _).isInfix
  · exact List.nil_infix

theorem openCands_infix {a : Str} {c : Cand} (h : c ∈ openCands a) :
    c.attrs.getD [] <:+: a ∧ c.lang.getD [] <:+: a := by
  simp only [openCands, List.mem_flatMap, List.mem_append, List.mem_map] at h
  obtain ⟨k, _, h | ⟨x, hx, rfl⟩⟩ := h
  · obtain ⟨h1, h2⟩ := attrCands_infix h
    refine ⟨h1.trans (List.drop_suffix _ _).isInfix, ?_⟩
    rw [h2]; exact List.nil_infix
  · exact ⟨List.nil_infix, (langCands_infix hx).trans (List.drop_suffix _ _).isInfix⟩

/-- a match at the start of `s`: the first character is a fence character, the match ends at a line end, the groups
    are pieces of `s` -/
theorem fenceAt_shape {s : Str} {m : FenceMatch} (h : fenceAt s = some m) :
    (∃ c r, s = c :: r ∧ (c = '~' ∨ c = '`')) ∧ Eol (s.drop m.stop) ∧
      m.code <:+: s ∧ m.attrs.getD [] <:+: s ∧ m.lang.getD [] <:+: s := by
  simp only [fenceAt] at h
  split at h
  · cases h
  · rename_i hn
    have hhead : ∃ c r, s = c :: r ∧ (c = '~' ∨ c = '`') := by
      unfold fenceRun at hn
      split at hn
      · exact ⟨_, _, rfl, .inl rfl⟩
      · exact ⟨_, _, rfl, .inr rfl⟩
      · omega
    obtain ⟨c, hc, ht⟩ := List.exists_of_findSome?_eq_some h
    obtain ⟨i1, i2⟩ := openCands_infix hc
    have hsuf : s.drop (fenceRun s) <:+: s := (List.drop_suffix _ _).isInfix
    simp only [tryCand] at ht
    split at ht
    · rename_i body hb
      split at ht
      · rename_i cl ll hcl
        injection ht with ht
        subst ht
        obtain ⟨_, he⟩ := closeLines_eol _ _ _ _ _ hcl
        rw [lines_joinLines, Nat.sub_zero] at he
        have hbody : s.drop (fenceRun s + c.p + 1) = body := by
          have : s.drop (fenceRun s + c.p) = '\n' :: body := by rw [← List.drop_drop]; exact hb
          rw [← List.drop_drop, this]; rfl
        refine ⟨hhead, ?_, ?_, i1.trans hsuf, i2.trans hsuf⟩
        · show Eol (s.drop (fenceRun s + c.p + 1 + cl + ll))
          have e : fenceRun s + c.p + 1 + cl + ll = (fenceRun s + c.p + 1) + (cl + ll) := by omega
          rw [e, ← List.drop_drop, hbody]
          exact he
        · show body.take cl <:+: s
          rw [← hbody]
          exact (List.take_prefix _ _).isInfix.trans (List.drop_suffix _ _).isInfix
      · cases ht
    · cases ht

/-- the leftmost match in `s` (at offset `off` of the text) -/
theorem fenceScan_shape : ∀ (s : Str) (bol : Bool) (off : Nat) {m : FenceMatch}, fenceScan bol off s = some m →
    ∃ pre suf m0, s = pre ++ suf ∧ fenceAt suf = some m0 ∧ m.start = off + pre.length ∧
      m.stop = off + pre.length + m0.stop ∧ m.code = m0.code ∧ m.attrs = m0.attrs ∧ m.lang = m0.lang ∧
      ((pre = [] ∧ bol = true) ∨ ∃ p', pre = p' ++ ['\n']) := by
  intro s
  induction s with
  | nil => intro bol off m h; simp [fenceScan] at h
  | cons c r ih =>
    intro bol off m h
    simp only [fenceScan] at h
    split at h
    · rename_i m0 hm0
      injection h with h
      subst h
      split at hm0
      · rename_i hb
        exact ⟨[], c :: r, m0, rfl, hm0, rfl, rfl, rfl, rfl, rfl, .inl ⟨rfl, hb⟩⟩
      · cases hm0
    · obtain ⟨pre, suf, m0, e, h1, h2, h3, h4, h5, h6, h7⟩ := ih _ _ h
      refine ⟨c :: pre, suf, m0, by rw [e]; rfl, h1, by rw [h2]; simp; omega, by rw [h3]; simp; omega, h4, h5, h6, ?_⟩
      right
      rcases h7 with ⟨rfl, hb⟩ | ⟨p', rfl⟩
      · have : c = '\n' := by simpa using hb
        exact ⟨[], by rw [this]; rfl⟩
      · exact ⟨c :: p', rfl⟩

/-- **a match of `FENCED_BLOCK_RE.search(text, index)`**: it starts at a line start behind the index, with a fence
    character; it ends at a line end; its groups are pieces of the text behind the index -/
theorem fenceFindFrom_shape {text : Str} {index : Nat} {m : FenceMatch} (h : fenceFindFrom text index = some m) :
    index ≤ m.start ∧ m.start + 3 ≤ m.stop ∧ m.stop ≤ text.length ∧
      (text.take m.start = [] ∨ ∃ x, text.take m.start = x ++ ['\n']) ∧
      (∃ c r, text.drop m.start = c :: r ∧ (c = '~' ∨ c = '`')) ∧ Eol (text.drop m.stop) ∧
      m.code <:+: text.drop index ∧ m.attrs.getD [] <:+: text.drop index ∧ m.lang.getD [] <:+: text.drop index := by
  obtain ⟨b1, b2, b3⟩ := fenceFindFrom_bounds text index m h
  unfold fenceFindFrom at h
  obtain ⟨pre, suf, m0, e, h1, h2, h3, h4, h5, h6, h7⟩ := fenceScan_shape _ _ _ h
  obtain ⟨s1, s2, s3, s4, s5⟩ := fenceAt_shape h1
  have hsuf : suf <:+: text.drop index := ⟨pre, [], by rw [e]; simp⟩
  have hdrop : text.drop m.start = suf := by
    rw [h2, ← List.drop_drop, e, List.drop_left]
  have htake : text.take m.start = text.take index ++ pre := by
    rw [h2, List.take_add, e, List.take_left]
  refine ⟨b1, b2, b3, ?_, by rw [hdrop]; exact s1, ?_, by rw [h4]; exact s3.trans hsuf,
    by rw [h5]; exact s4.trans hsuf, by rw [h6]; exact s5.trans hsuf⟩
  · rw [htake]
    rcases h7 with ⟨rfl, hb⟩ | ⟨p', rfl⟩
    · rw [List.append_nil]
      simp only [Bool.or_eq_true, decide_eq_true_eq] at hb
      by_cases h0 : index = 0
      · left; rw [h0]; rfl
      · rcases hb with hb | hb
        · exact absurd hb h0
        · right
          have hi : index = (index - 1) + 1 := by omega
          refine ⟨text.take (index - 1), ?_⟩
          rw [hi, List.take_add_one, ← hi]
          simp [hb]
    · right; exact ⟨text.take index ++ p', by simp⟩
  · rw [h3]
    have : text.drop (index + pre.length + m0.stop) = suf.drop m0.stop := by
      rw [← hdrop, h2, List.drop_drop]
    rw [this]; exact s2


/-! ### the loop invariant -/

/-- what holds of the text at every turn of the loop: every placeholder written so far (numbers below `h`) is a block of
    its own; behind the search index there is no STX/ETX; the infix-closed facts of the source -/
structure FInv (wl : Bool) (text : Str) (index h : Nat) : Prop where
  own : OwnBlock h text
  rest : NoCtl (text.drop index)
  dom : DomA text
  adj : Adj3 text
  qw : Qw wl text

theorem noCtl_suffix {s t : Str} (h : NoCtl s) (ht : t <:+: s) : NoCtl t :=
  ⟨fun hm => h.1 (ht.subset hm), fun hm => h.2 (ht.subset hm)⟩

theorem noPair_mid {a b : Char} {X M Y : Str} (hX : NoPair a b X) (hY : NoPair a b Y) (hM : M ≠ []) (ha : a ∉ M)
    (hb : b ∉ M) : NoPair a b (X ++ M ++ Y) := by
  refine NoCtl.noPair_append (NoCtl.noPair_append hX (NoCtl.noPair_of_not_mem_left ha) (.inr ?_)) hY (.inl ?_)
  · intro hh
    exact hb (List.mem_of_mem_head? hh)
  · intro hh
    obtain ⟨M', z, rfl⟩ : ∃ M' z, M = M' ++ [z] :=
      ⟨M.dropLast, M.getLast hM, (List.dropLast_concat_getLast hM).symm⟩
    rw [← List.append_assoc, List.getLast?_concat] at hh
    injection hh with hh
    exact ha (by rw [← hh]; simp)

/-- the characters written around and inside a placeholder -/
theorem mem_mid {n : Nat} {c : Char} (h : c ∈ '\n' :: Fenced.placeholder n ++ ['\n']) :
    c = '\n' ∨ c ∈ Fenced.placeholder n := by
  simp only [List.cons_append, List.mem_cons, List.mem_append, List.not_mem_nil, or_false] at h
  rcases h with h | h | h
  · exact .inl h
  · exact .inr h
  · exact .inl h

theorem not_mem_mid (n : Nat) {x : Char} (h0 : x ≠ '\n') (h1 : x ≠ STX) (h2 : x ≠ ETX) (h3 : NoCtlF.inner x = false) :
    x ∉ '\n' :: Fenced.placeholder n ++ ['\n'] := by
  intro hm
  rcases mem_mid hm with e | e
  · exact h0 e
  · exact ph_not_mem n h1 h2 h3 e

theorem ownBlock_mono {h h' : Nat} (hh : h ≤ h') {s : Str} (ho : OwnBlock h s) : OwnBlock h' s := by
  refine ⟨fun u w e => ?_, fun u w e => ?_⟩
  · obtain ⟨n, r, hn, h1, h2, h3⟩ := ho.1 u w e
    exact ⟨n, r, by omega, h1, h2, h3⟩
  · obtain ⟨n, u', hn, h1⟩ := ho.2 u w e
    exact ⟨n, u', by omega, h1⟩

theorem ownBlock_of_noCtl {s : Str} (h : NoCtl s) : OwnBlock 0 s := by
  refine ⟨fun u w e => ?_, fun u w e => ?_⟩
  · exact absurd (by rw [e]; simp) h.1
  · exact absurd (by rw [e]; simp) h.2

/-- what follows a placeholder stays a blank line when a fence behind it is replaced -/
theorem afterTok_replace {r1 D R : Str} {c : Char} {rD : Str} (hD : D = c :: rD) (hc : c ≠ '\n')
    (h : AfterTok (r1 ++ D)) : AfterTok (r1 ++ R) := by
  subst hD
  rcases h with h | h | h
  · exact absurd (List.append_eq_nil_iff.1 h).2 (by simp)
  · exfalso
    have hl := congrArg List.length h
    simp only [List.length_append, List.length_cons, List.length_nil] at hl
    have h1 : r1 = [] := List.eq_nil_of_length_eq_zero (by omega)
    subst h1
    simp only [List.nil_append, List.cons.injEq] at h
    exact hc h.1
  · cases r1 with
    | nil =>
      exfalso
      obtain ⟨z, hz⟩ := h
      simp only [nn, List.nil_append, List.cons_append, List.cons.injEq] at hz
      exact hc hz.1.symm
    | cons x r1' =>
      cases r1' with
      | nil =>
        exfalso
        obtain ⟨z, hz⟩ := h
        simp only [nn, List.cons_append, List.nil_append, List.cons.injEq] at hz
        exact hc hz.2.1.symm
      | cons y r1'' =>
        right; right
        obtain ⟨z, hz⟩ := h
        simp only [nn, List.cons_append, List.cons.injEq] at hz
        exact ⟨r1'' ++ R, by simp [nn, ← hz.1, ← hz.2.1]⟩

/-- **one replacement keeps the invariant** -/
theorem finv_step {wl : Bool} {text : Str} {index h : Nat} (hI : FInv wl text index h) {m : FenceMatch}
    (hm : fenceFindFrom text index = some m) :
    FInv wl (text.take m.start ++ '\n' :: (Fenced.placeholder h ++ '\n' :: text.drop m.stop))
      (m.start + 1 + (Fenced.placeholder h).length) (h + 1) := by
  obtain ⟨b1, b2, b3, hls, ⟨c, rD, hD, hc⟩, hle, _, _, _⟩ := fenceFindFrom_shape hm
  have hcn : c ≠ '\n' := by rcases hc with rfl | rfl <;> decide
  have hcph : ∀ n, c ∉ Fenced.placeholder n := by
    intro n
    rcases hc with rfl | rfl <;> exact ph_not_mem n (by decide) (by decide) (by decide)
  -- the pieces
  have hDsuf : text.drop m.start <:+: text.drop index := by
    have : text.drop m.start = (text.drop index).drop (m.start - index) := by
      rw [List.drop_drop]; congr 1; omega
    rw [this]; exact (List.drop_suffix _ _).isInfix
  have hCsuf : text.drop m.stop <:+: text.drop index := by
    have : text.drop m.stop = (text.drop index).drop (m.stop - index) := by
      rw [List.drop_drop]; congr 1; omega
    rw [this]; exact (List.drop_suffix _ _).isInfix
  have hDn : NoCtl (text.drop m.start) := noCtl_suffix hI.rest hDsuf
  have hCn : NoCtl (text.drop m.stop) := noCtl_suffix hI.rest hCsuf
  have htext : text = text.take m.start ++ text.drop m.start := (List.take_append_drop _ _).symm
  have hbody : ∀ d ∈ NoCtlF.htmlBody h, d ≠ STX ∧ d ≠ ETX :=
    fun d hd => NoCtlF.inner_ne (NoCtlF.htmlBody_inner h d hd)
  have hph : Fenced.placeholder h = STX :: (NoCtlF.htmlBody h ++ [ETX]) := by
    rw [placeholder_eq]; simp [NoCtlF.frnToken]
  generalize hA : text.take m.start = A at hls htext
  generalize hDD : text.drop m.start = D at hD hDn htext
  generalize hC : text.drop m.stop = C at hle hCn
  have hAlen : A.length = m.start := by rw [← hA, List.length_take]; omega
  refine ⟨⟨?_, ?_⟩, ?_, ?_, ?_, ?_⟩
  · -- every STX starts a placeholder block
    intro u w e
    rcases List.append_eq_append_iff.1 e with ⟨y, hy1, hy2⟩ | ⟨y, hy1, hy2⟩
    · -- the new placeholder
      have e2 : ['\n'] ++ STX :: (NoCtlF.htmlBody h ++ ETX :: '\n' :: C) = y ++ STX :: w := by
        rw [← hy2, hph]; simp
      have hnot : STX ∉ NoCtlF.htmlBody h ++ ETX :: '\n' :: C := by
        intro hm'
        simp only [List.mem_append, List.mem_cons] at hm'
        rcases hm' with hm' | hm' | hm' | hm'
        · exact (hbody _ hm').1 rfl
        · revert hm'; decide
        · revert hm'; decide
        · exact hCn.1 hm'
      obtain ⟨rfl, rfl⟩ := unique_occ (x := STX) (p := ['\n']) (by decide) hnot e2
      refine ⟨h, '\n' :: C, by omega, by rw [hph]; simp, ?_, ?_⟩
      · rw [hy1]
        rcases hls with h0 | ⟨x, hx⟩
        · rw [h0]; exact .inr (.inl rfl)
        · rw [hx]; exact .inr (.inr ⟨x, by simp [nn]⟩)
      · rcases hle with h0 | ⟨y, hy⟩
        · rw [h0]; exact .inr (.inl rfl)
        · rw [hy]; exact .inr (.inr ⟨y, by simp [nn]⟩)
    · -- an earlier placeholder
      cases y with
      | nil =>
        exfalso
        simp only [List.nil_append, List.cons.injEq] at hy2
        exact absurd hy2.1 (by decide)
      | cons d y' =>
        simp only [List.cons_append, List.cons.injEq] at hy2
        obtain ⟨rfl, rfl⟩ := hy2
        have eold : text = u ++ STX :: (y' ++ D) := by rw [htext, hy1]; simp
        obtain ⟨n, r, hn, hphn, hbef, haft⟩ := hI.own.1 u (y' ++ D) eold
        -- the placeholder lies inside `A`
        obtain ⟨r1, hr1, hr⟩ : ∃ r1, STX :: y' = Fenced.placeholder n ++ r1 ∧ r = r1 ++ D := by
          have e3 : (STX :: y') ++ D = Fenced.placeholder n ++ r := by rw [← hphn]; rfl
          rcases List.append_eq_append_iff.1 e3 with ⟨z, hz1, hz2⟩ | ⟨z, hz1, hz2⟩
          · cases z with
            | nil => exact ⟨[], by simpa using hz1.symm, by simpa using hz2.symm⟩
            | cons z0 z' =>
              exfalso
              rw [hD] at hz2
              simp only [List.cons_append, List.cons.injEq] at hz2
              apply hcph n
              rw [hz1, hz2.1]; simp
          · exact ⟨z, hz1, hz2⟩
        refine ⟨n, r1 ++ '\n' :: (Fenced.placeholder h ++ '\n' :: C), by omega, ?_, hbef, ?_⟩
        · have : STX :: (y' ++ '\n' :: (Fenced.placeholder h ++ '\n' :: C)) =
              (STX :: y') ++ '\n' :: (Fenced.placeholder h ++ '\n' :: C) := rfl
          rw [this, hr1]; simp
        · exact afterTok_replace hD hcn (hr ▸ haft)
  · -- every ETX ends a placeholder
    intro u w e
    rcases List.append_eq_append_iff.1 e with ⟨y, hy1, hy2⟩ | ⟨y, hy1, hy2⟩
    · have e2 : ('\n' :: STX :: NoCtlF.htmlBody h) ++ ETX :: ('\n' :: C) = y ++ ETX :: w := by
        rw [← hy2, hph]; simp
      have hnot1 : ETX ∉ '\n' :: STX :: NoCtlF.htmlBody h := by
        intro hm'
        simp only [List.mem_cons] at hm'
        rcases hm' with hm' | hm' | hm'
        · revert hm'; decide
        · revert hm'; decide
        · exact (hbody _ hm').2 rfl
      have hnot2 : ETX ∉ '\n' :: C := by
        intro hm'
        simp only [List.mem_cons] at hm'
        rcases hm' with hm' | hm'
        · revert hm'; decide
        · exact hCn.2 hm'
      obtain ⟨rfl, rfl⟩ := unique_occ hnot1 hnot2 e2
      exact ⟨h, A ++ ['\n'], by omega, by rw [hy1, hph]; simp⟩
    · cases y with
      | nil =>
        exfalso
        simp only [List.nil_append, List.cons.injEq] at hy2
        exact absurd hy2.1 (by decide)
      | cons d y' =>
        simp only [List.cons_append, List.cons.injEq] at hy2
        obtain ⟨rfl, rfl⟩ := hy2
        have eold : text = u ++ ETX :: (y' ++ D) := by rw [htext, hy1]; simp
        obtain ⟨n, u', hn, hq⟩ := hI.own.2 u (y' ++ D) eold
        exact ⟨n, u', by omega, hq⟩
  · -- behind the new index
    have : (A ++ '\n' :: (Fenced.placeholder h ++ '\n' :: C)).drop (m.start + 1 + (Fenced.placeholder h).length) =
        '\n' :: C := by
      rw [← hAlen, show A.length + 1 + (Fenced.placeholder h).length =
        A.length + (1 + (Fenced.placeholder h).length) by omega, ← List.drop_drop, List.drop_left]
      rw [show 1 + (Fenced.placeholder h).length = (Fenced.placeholder h).length + 1 by omega,
        List.drop_succ_cons, List.drop_left]
    rw [this]
    exact ⟨by intro hm'; simp only [List.mem_cons] at hm'; rcases hm' with hm' | hm'
              · revert hm'; decide
              · exact hCn.1 hm',
           by intro hm'; simp only [List.mem_cons] at hm'; rcases hm' with hm' | hm'
              · revert hm'; decide
              · exact hCn.2 hm'⟩
  · -- characters
    intro d hd
    have hAd : ∀ x ∈ A, domCharA x = true := fun x hx => hI.dom x (by rw [htext]; exact List.mem_append_left _ hx)
    have hCd : ∀ x ∈ C, domCharA x = true := fun x hx => hI.dom x (by
      rw [← hC] at hx; exact (List.drop_suffix _ _).subset hx)
    simp only [List.mem_append, List.mem_cons] at hd
    rcases hd with hd | rfl | hd | rfl | hd
    · exact hAd d hd
    · exact NoCtlF.domCharA_of_ne (by decide) (by decide)
    · refine NoCtlF.domCharA_of_ne ?_ ?_ <;> rintro rfl <;>
        exact ph_not_mem h (by decide) (by decide) (by decide) hd
    · exact NoCtlF.domCharA_of_ne (by decide) (by decide)
    · exact hCd d hd
  · -- the three adjacencies
    have hre : A ++ '\n' :: (Fenced.placeholder h ++ '\n' :: C) = A ++ ('\n' :: Fenced.placeholder h ++ ['\n']) ++ C := by
      simp
    have hAi : A <:+: text := ⟨[], D, by rw [htext]; simp⟩
    have hCi : C <:+: text := by rw [← hC]; exact (List.drop_suffix _ _).isInfix
    rw [hre]
    exact ⟨noPair_mid (hI.adj.1.infix hAi) (hI.adj.1.infix hCi) (by simp)
        (not_mem_mid h (by decide) (by decide) (by decide) (by decide))
        (not_mem_mid h (by decide) (by decide) (by decide) (by decide)),
      noPair_mid (hI.adj.2.1.infix hAi) (hI.adj.2.1.infix hCi) (by simp)
        (not_mem_mid h (by decide) (by decide) (by decide) (by decide))
        (not_mem_mid h (by decide) (by decide) (by decide) (by decide)),
      noPair_mid (hI.adj.2.2.infix hAi) (hI.adj.2.2.infix hCi) (by simp)
        (not_mem_mid h (by decide) (by decide) (by decide) (by decide))
        (not_mem_mid h (by decide) (by decide) (by decide) (by decide))⟩
  · intro hw
    have hre : A ++ '\n' :: (Fenced.placeholder h ++ '\n' :: C) = A ++ ('\n' :: Fenced.placeholder h ++ ['\n']) ++ C := by
      simp
    have hAi : A <:+: text := ⟨[], D, by rw [htext]; simp⟩
    have hCi : C <:+: text := by rw [← hC]; exact (List.drop_suffix _ _).isInfix
    rw [hre]
    exact noPair_mid ((hI.qw hw).infix hAi) ((hI.qw hw).infix hCi) (by simp)
      (not_mem_mid h (by decide) (by decide) (by decide) (by decide))
      (not_mem_mid h (by decide) (by decide) (by decide) (by decide))


/-! ### the stash entries -/

theorem noCtl_fenceEscape {s : Str} (h : NoCtl s) : NoCtl (Code.fenceEscape s) := by
  rw [Code.fenceEscape_onepass, Code.fenceEscape1_eq_flatMap, NoCtl.noCtl_iff]
  intro c hc
  simp only [List.mem_flatMap] at hc
  obtain ⟨d, hd, hcd⟩ := hc
  have hdd := (NoCtl.noCtl_iff.1 h) d hd
  unfold Code.fesc1Char at hcd
  split at hcd
  · have : c ∈ "&amp;".toList := hcd
    constructor <;> (intro e; subst e; revert this; decide)
  · split at hcd
    · have : c ∈ "&lt;".toList := hcd
      constructor <;> (intro e; subst e; revert this; decide)
    · split at hcd
      · have : c ∈ "&gt;".toList := hcd
        constructor <;> (intro e; subst e; revert this; decide)
      · split at hcd
        · have : c ∈ "&quot;".toList := hcd
          constructor <;> (intro e; subst e; revert this; decide)
        · simp only [List.mem_singleton] at hcd
          subst hcd; exact hdd

theorem noCtl_join_sp : ∀ {l : List Str}, (∀ x ∈ l, NoCtl x) → NoCtl (Py.join [' '] l)
  | [], _ => NoCtl.noCtl_nil
  | [a], h => h a (by simp)
  | a :: b :: r, h => by
    rw [BlockExt.join_cons_cons]
    refine NoCtl.noCtl_append.2 ⟨NoCtl.noCtl_append.2 ⟨h a (by simp), by decide⟩, ?_⟩
    exact noCtl_join_sp (fun x hx => h x (List.mem_cons_of_mem _ hx))

/-- the HTML stored for a block holds no STX/ETX when its parts hold none -/
theorem noCtl_blockHtmlA {id : Str} {classes : List Str} {lang code : Str} (h1 : NoCtl id)
    (h2 : ∀ x ∈ classes, NoCtl x) (h3 : NoCtl lang) (h4 : NoCtl code) :
    NoCtl (Fenced.blockHtmlA id classes lang code) := by
  unfold Fenced.blockHtmlA
  have e1 := NoCtl.escAttrHtml_noctl h1
  have e2 := NoCtl.escAttrHtml_noctl (noCtl_join_sp h2)
  have e3 := NoCtl.escAttrHtml_noctl h3
  have e4 := noCtl_fenceEscape h4
  have l1 : NoCtl "<pre".toList := by decide
  have l2 : NoCtl " id=\"".toList := by decide
  have l3 : NoCtl ['"'] := by decide
  have l4 : NoCtl " class=\"".toList := by decide
  have l5 : NoCtl "><code".toList := by decide
  have l6 : NoCtl " class=\"language-".toList := by decide
  have l7 : NoCtl ['>'] := by decide
  have l8 : NoCtl "</code></pre>".toList := by decide
  have i1 : NoCtl (if id.isEmpty = true then [] else " id=\"".toList ++ Ser.escAttrHtml id ++ ['"']) := by
    split
    · exact NoCtl.noCtl_nil
    · exact NoCtl.noCtl_append.2 ⟨NoCtl.noCtl_append.2 ⟨l2, e1⟩, l3⟩
  have i2 : NoCtl (if classes.isEmpty = true then []
      else " class=\"".toList ++ Ser.escAttrHtml (Py.join [' '] classes) ++ ['"']) := by
    split
    · exact NoCtl.noCtl_nil
    · exact NoCtl.noCtl_append.2 ⟨NoCtl.noCtl_append.2 ⟨l4, e2⟩, l3⟩
  have i3 : NoCtl (if lang.isEmpty = true then [] else " class=\"language-".toList ++ Ser.escAttrHtml lang ++ ['"']) := by
    split
    · exact NoCtl.noCtl_nil
    · exact NoCtl.noCtl_append.2 ⟨NoCtl.noCtl_append.2 ⟨l6, e3⟩, l3⟩
  exact NoCtl.noCtl_append.2 ⟨NoCtl.noCtl_append.2 ⟨NoCtl.noCtl_append.2 ⟨NoCtl.noCtl_append.2
    ⟨NoCtl.noCtl_append.2 ⟨NoCtl.noCtl_append.2 ⟨NoCtl.noCtl_append.2 ⟨l1, i1⟩, i2⟩, l5⟩, i3⟩, l7⟩, e4⟩, l8⟩

theorem handleAttrs_noctl {attrs : List (Str × Str)} (h : ∀ kv ∈ attrs, NoCtl kv.1 ∧ NoCtl kv.2) :
    NoCtl (Fenced.handleAttrs attrs).1 ∧ ∀ x ∈ (Fenced.handleAttrs attrs).2, NoCtl x := by
  unfold Fenced.handleAttrs
  have key : ∀ (l : List (Str × Str)) (acc : Str × List Str), (∀ kv ∈ l, NoCtl kv.1 ∧ NoCtl kv.2) →
      (NoCtl acc.1 ∧ ∀ x ∈ acc.2, NoCtl x) →
      NoCtl (l.foldl (fun acc kv => if kv.fst = "id".toList then (kv.snd, acc.snd)
        else if kv.fst = ".".toList then (acc.fst, acc.snd ++ [kv.snd]) else acc) acc).1 ∧
      ∀ x ∈ (l.foldl (fun acc kv => if kv.fst = "id".toList then (kv.snd, acc.snd)
        else if kv.fst = ".".toList then (acc.fst, acc.snd ++ [kv.snd]) else acc) acc).2, NoCtl x := by
    intro l
    induction l with
    | nil => intro acc _ ha; exact ha
    | cons kv l ih =>
      intro acc hl ha
      simp only [List.foldl_cons]
      apply ih _ (fun x hx => hl x (List.mem_cons_of_mem _ hx))
      have hkv := hl kv (by simp)
      split
      · exact ⟨hkv.2, ha.2⟩
      · split
        · refine ⟨ha.1, ?_⟩
          intro x hx
          rcases List.mem_append.1 hx with hx | hx
          · exact ha.2 x hx
          · simp only [List.mem_singleton] at hx; subst hx; exact hkv.2
        · exact ha
  exact key attrs ([], []) h ⟨NoCtl.noCtl_nil, fun x hx => by cases hx⟩

/-- the entry stored for a match whose groups hold no STX/ETX -/
theorem entry_noctl {a lang code : Str} (ha : NoCtl a) (hl : NoCtl lang) (hc : NoCtl code) :
    NoCtl (Fenced.blockHtmlA [] [] lang code) ∧
    NoCtl (Fenced.blockHtmlA (Fenced.handleAttrs (AttrList.getAttrsAndRemainder a).1).1
      (Fenced.handleAttrs (AttrList.getAttrsAndRemainder a).1).2.tail
      ((Fenced.handleAttrs (AttrList.getAttrsAndRemainder a).1).2.head?.getD []) code) := by
  refine ⟨noCtl_blockHtmlA NoCtl.noCtl_nil (fun x hx => by cases hx) hl hc, ?_⟩
  have hw := (NoCtlX.getAttrsAndRemainder_wf (esc := false) (NoCtl.WF.of_noCtl ha)).1
  obtain ⟨g1, g2⟩ := handleAttrs_noctl (attrs := (AttrList.getAttrsAndRemainder a).1)
    (fun kv hkv => ⟨NoCtl.noCtl_of_wf (hw kv hkv).1, NoCtl.noCtl_of_wf (hw kv hkv).2⟩)
  refine noCtl_blockHtmlA g1 (fun x hx => g2 x (List.mem_of_mem_tail hx)) ?_ hc
  cases hh : (Fenced.handleAttrs (AttrList.getAttrsAndRemainder a).1).2.head? with
  | none => exact NoCtl.noCtl_nil
  | some x => exact g2 x (List.mem_of_mem_head? hh)

/-! ### the loop and the statement -/

theorem fencedLoopA_inv (wl : Bool) : ∀ (fuel : Nat) (text : Str) (index : Nat) (stash : List Str) (t' : Str)
    (stash' : List Str), Fenced.fencedLoopA fuel text index stash = .ok t' stash' →
    FInv wl text index stash.length → (∀ e ∈ stash, NoCtl e) →
    (OwnBlock stash'.length t' ∧ DomA t' ∧ Adj3 t' ∧ Qw wl t') ∧ ∀ e ∈ stash', NoCtl e := by
  intro fuel
  induction fuel with
  | zero => intro text index stash t' stash' h; simp [Fenced.fencedLoopA] at h
  | succ k ih =>
    intro text index stash t' stash' h hI hS
    simp only [Fenced.fencedLoopA] at h
    split at h
    · simp only [Fenced.RunResult.ok.injEq] at h
      obtain ⟨rfl, rfl⟩ := h
      exact ⟨⟨hI.own, hI.dom, hI.adj, hI.qw⟩, hS⟩
    · rename_i m hm
      obtain ⟨b1, _, _, _, _, _, i1, i2, i3⟩ := fenceFindFrom_shape hm
      have hcode := noCtl_suffix hI.rest i1
      have hattrs := noCtl_suffix hI.rest i2
      have hlang := noCtl_suffix hI.rest i3
      obtain ⟨e1, e2⟩ := entry_noctl hattrs hlang hcode
      have hstep := finv_step hI hm
      have hS' : ∀ x, NoCtl x → ∀ e ∈ stash ++ [x], NoCtl e := by
        intro x hx e he
        rcases List.mem_append.1 he with he | he
        · exact hS e he
        · simp only [List.mem_singleton] at he; subst he; exact hx
      split at h
      · refine ih _ _ _ _ _ h ?_ (hS' _ e1)
        simpa using hstep
      · split at h
        · refine ih _ _ _ _ _ h ⟨hI.own, ?_, hI.dom, hI.adj, hI.qw⟩ hS
          have hge : index ≤ Fenced.attrsEnd text m (m.attrs.getD []) := by
            unfold Fenced.attrsEnd; omega
          have : text.drop (Fenced.attrsEnd text m (m.attrs.getD [])) =
              (text.drop index).drop (Fenced.attrsEnd text m (m.attrs.getD []) - index) := by
            rw [List.drop_drop]; congr 1; omega
          rw [this]
          exact noCtl_suffix hI.rest (List.drop_suffix _ _).isInfix
        · refine ih _ _ _ _ _ h ?_ (hS' _ e2)
          simpa using hstep

/-- **`FencedBlockPreprocessor.run` on a text without STX/ETX**: in the text handed on every STX/ETX belongs to a
    placeholder `STX wzxhzdk:n ETX`, `n` below the length of the stash, that is a block of its own; the text keeps the
    character class of the domain (`DomA`: no `<`, and no `&` unless `HtmlBound.amp`), has none of the three adjacencies and (with wikilinks) no
    `[` before a blank when the source has none; every stash entry is free of STX/ETX. -/
theorem fencedRunA_own (wl : Bool) {t t' : Str} {stash : List Str} (h : Fenced.fencedRunA t = .ok t' stash)
    (hn : NoCtl t) (hd : DomA t) (ha : Adj3 t) (hq : Qw wl t) :
    (OwnBlock stash.length t' ∧ DomA t' ∧ Adj3 t' ∧ Qw wl t') ∧ ∀ e ∈ stash, NoCtl e :=
  fencedLoopA_inv wl _ _ _ _ _ _ h
    ⟨ownBlock_of_noCtl hn, by simpa using hn, hd, ha, hq⟩ (fun e he => by cases he)

/-- without ampersands `DomA` is "neither `<` nor `&`": with `fencedRunA_own` neither comes in (so
    `Extract.extract t' = t'`) -/
theorem domA_no_amp_lt (hamp : NoCtlF.HtmlBound.amp = false) {s : Str} (h : DomA s) : '&' ∉ s ∧ '<' ∉ s :=
  ⟨NoCtlF.domA_no_amp hamp h, NoCtlF.domA_no_lt h⟩

end MdVerif.NoCtlXF.XT
