/-
C10 with ALL extensions (tables off) on the domain WITH INLINE LINKS, part 2 (worker cf), block stage 5: fc2's
`Lemmas/F/PlaceholdersXTBlock5.lean` with `AdjCA false` (closed simple regions behind `](` and `![`) in place of `Adj3`: the
instance of the three string classes of `Lemmas/F/PlaceholdersXCTBlock.lean` for the token grammar of `Spec/F/NoCtl.lean`,
and the block stage on a text in which every raw-HTML placeholder is a block of its own (`NoCtlF.OwnBlock`).

* `BwC wl` (`= PWC wl`)  ordinary blocks: g3's cut-closed class — characters of the domain (no STX/ETX), no
           backslash–backtick, CLOSED simple regions, with wikilinks no `[` before a blank;
* `TwC wl`  strings of the tree: the same facts over the domain characters plus STX/ETX (`DomA`), and `WF false 0`
           (ordinary characters and LIVE foreign tokens only).  A placeholder holds neither `]` nor `!` nor `(` nor `[`:
           it opens no region, and it never lies INSIDE a region of a `TwC` string, because a closed region is made of
           `destChar`/`altChar` characters, which exclude STX;
* `RwC wl`  elements of a block list: `BwC wl` or one placeholder block.

A block of the text is cut out at blank lines (`cutOK`: what follows starts with a line feed), the lines of a paragraph
at line ends, `lstrip` drops a prefix: all are `Cut`s, under which `AdjCA false` is closed (`regionsOK_cut`).

`block_stage_ownC`: for `OwnBlock HtmlBound.h text`, `DomA text`, `AdjCA false text`, `Qw wl text`, `0 < tab`, the tree of
`parseDocumentXT false xc tab text` consists of `FnQC wl` elements and the log satisfies `LogC pDomA (PWC wl)`.
Core Lean only.
-/
import MdVerif.Lemmas.F.PlaceholdersXCTBlock3
import MdVerif.Lemmas.F.PlaceholdersXTBlock5
import MdVerif.Lemmas.F.PlaceholdersXCFn

namespace MdVerif.NoCtlXCF.XT
variable [MdVerif.NoCtlF.HtmlBound]
set_option linter.unusedSectionVars false
open Py
open MdVerif.NoCtl (STX ETX NoCtl DomB AdjC NoPair NoAdj domCharB Blk.AllC cutOK)
open MdVerif.NoCtl.BlkB (PL pl_cons pl_one pl_nil)
open MdVerif.NoCtl.BlkC (Cut)
open MdVerif.NoCtl.BlkX (TX LogC XInv)
open MdVerif.NoCtl.BlkXT (PresT ResT OutT paraP_gen parseBlocksXT_pres_of dispatchXT_tokline dispatchXT_nl_tokline tokCh)
open MdVerif.NoCtl.BlkXCT
open MdVerif.NoCtlF (HtmlBound nn NlOpt BeforeTok AfterTok OwnBlock TokBlock DomA domCharA AdjCA NoEntR)
open MdVerif.NoCtlXF (pDomA allC_domA attrsNoCtl_of_attrsCA)
open MdVerif.NoCtlXC (Qw QN)
open MdVerif.NoCtlXF.XT (placeholder_eq mem_placeholder ph_not_mem tokCh_placeholder placeholder_cons wf_placeholder
  mem_tokBlock tokBlock_not_mem wf_nlOpt mem_join_decomp inner_nl lstrip_of_head splitAux_no_sep nlOpt_before nlOpt_after
  nl_not_mem_placeholder last_of_suffix_nn)

/-- ordinary blocks: g3's class (`= PWC wl` of `Lemmas/F/PlaceholdersXCFn.lean`) -/
abbrev BwC (wl : Bool) : Str → Prop := PWC wl

/-- strings of the tree: domain characters and live foreign tokens, closed simple regions -/
def TwC (wl : Bool) (s : Str) : Prop := (DomA s ∧ AdjCA false s ∧ NoCtlF.WF false 0 s) ∧ Qw wl s

/-- the elements of a block list: an ordinary block or one live placeholder block -/
def RwC (wl : Bool) (s : Str) : Prop := BwC wl s ∨ TokBlock HtmlBound.h s

/-- a placeholder block is a string of the tree -/
theorem tw_tokBlockC (wl : Bool) {x : Str} (h : TokBlock HtmlBound.h x) : TwC wl x := by
  have hno := fun {c : Char} (h0 : c ≠ '\n') (h1 : c ≠ STX) (h2 : c ≠ ETX) (h3 : NoCtlF.inner c = false) =>
    tokBlock_not_mem h h0 h1 h2 h3
  refine ⟨⟨?_, ⟨⟨?_, ?_⟩, ?_⟩, ?_⟩, fun _ => ?_⟩
  · intro c hc
    refine NoCtlF.domCharA_of_ne ?_ ?_ <;> rintro rfl <;>
      exact hno (by decide) (by decide) (by decide) (by decide) hc
  · exact NoCtl.noPair_of_not_mem_left (hno (by decide) (by decide) (by decide) (by decide))
  · exact NoCtl.regionsOK_of_plain (hno (by decide) (by decide) (by decide) (by decide))
      (hno (by decide) (by decide) (by decide) (by decide))
  · exact NoCtlF.noEntA_of_plain (hno (by decide) (by decide) (by decide) (by decide))
      (hno (by decide) (by decide) (by decide) (by decide))
  · obtain ⟨n, a, b, hn, ha, hb, rfl⟩ := h
    exact ((wf_nlOpt ha).append (wf_placeholder hn)).append (wf_nlOpt hb)
  · exact NoCtl.noPair_of_not_mem_left (hno (by decide) (by decide) (by decide) (by decide))

/-! ### the instance -/

theorem tw_of_bwC {wl : Bool} {s : Str} (h : BwC wl s) : TwC wl s := by
  have := allC_domA h.1.1
  exact ⟨⟨this.2, h.1.2, NoCtlF.WF.of_noCtl this.1⟩, h.2⟩

theorem Cut.isInfix {t s : Str} (h : Cut t s) : t <:+: s := by
  obtain ⟨u, v, rfl, _⟩ := h
  exact ⟨u, v, rfl⟩

theorem adjCA_cut {t s : Str} (h : AdjCA false s) (ht : Cut t s) : AdjCA false t := by
  obtain ⟨u, v, rfl, hv⟩ := ht
  exact ⟨⟨NoCtl.BlkB.noAdj_infix h.1.1 ⟨u, v, rfl⟩, NoCtl.regionsOK_cut h.1.2 hv⟩, h.2.infix ⟨u, v, rfl⟩⟩

theorem TwC.cut_of_wf {wl : Bool} {s t : Str} (h : TwC wl s) (ht : Cut t s) (hw : NoCtlF.WF false 0 t) : TwC wl t :=
  ⟨⟨fun c hc => h.1.1 c ((Cut.isInfix ht).subset hc), adjCA_cut h.1.2.1 ht, hw⟩, h.2.infix (Cut.isInfix ht)⟩

theorem tw_joinC {wl : Bool} {a b : Str} (ha : TwC wl a) (hb : TwC wl b) : TwC wl (a ++ '\n' :: b) := by
  refine ⟨⟨?_, ⟨⟨NoCtl.BlkB.noAdj_joinNl ha.1.2.1.1.1 hb.1.2.1.1.1, NoCtl.regionsOK_joinNl ha.1.2.1.1.2 hb.1.2.1.1.2⟩,
      NoCtlF.noEntA_joinNl ha.1.2.1.2 hb.1.2.1.2⟩,
    ha.1.2.2.append (.plain _ _ (by decide) (by decide) hb.1.2.2)⟩, NoCtlXC.qw_joinNl ha.2 hb.2⟩
  intro c hc
  simp only [List.mem_append, List.mem_cons] at hc
  rcases hc with hc | rfl | hc
  · exact ha.1.1 c hc
  · exact NoCtlF.domCharA_of_ne (by decide) (by decide)
  · exact hb.1.1 c hc

theorem tw_linesC {wl : Bool} {s : Str} (h : TwC wl s) : PL (TwC wl) (lines s) := by
  intro l hl
  obtain ⟨u, v, e, hu, hv⟩ := mem_join_decomp (sep := ['\n']) hl
  have e' : s = u ++ l ++ v := by
    rw [← e]; exact (lines_joinLines s).symm
  have hw := h.1.2.2
  rw [e'] at hw
  have h1 : NoCtlF.WF false 0 (u ++ l) := by
    refine (hw.split ?_).1
    rcases hv with rfl | ⟨v', rfl⟩
    · exact NoCtlF.bnd_nil_right _
    · exact NoCtlF.bnd_cons_right _ _ inner_nl (by decide)
  have h2 : NoCtlF.WF false 0 l := by
    refine (h1.split ?_).2
    rcases hu with rfl | ⟨u', rfl⟩
    · exact NoCtlF.bnd_nil_left _
    · exact NoCtlF.bnd_snoc_left _ _ inner_nl (by decide)
  exact h.cut_of_wf (NoCtl.BlkC.lines_cut hl) h2

/-- **the three string classes of the block stage with raw-HTML placeholders, inline links allowed** -/
theorem dom2_wC (wl : Bool) : Dom2C pDomA NoCtl.Blk.okc (BwC wl) (TwC wl) (RwC wl) where
  b := strDomXC_adjCqA wl
  sub := fun _ h => tw_of_bwC h
  rOf := fun _ h => .inl h
  rSp := by
    intro s hs hsp
    rcases hs with h | h
    · exact h
    · exfalso
      have hp := (BlockExt.startsWith_iff_prefix _ _).mp hsp
      exact tokBlock_not_mem h (c := ' ') (by decide) (by decide) (by decide) (by decide)
        (hp.subset (by decide))
  join := fun _ _ ha hb => tw_joinC ha (tw_of_bwC hb)
  lstrip := fun s h => h.cut_of_wf (NoCtl.BlkC.cut_lstripP _ s) h.1.2.2.lstrip
  lines := fun _ h => tw_linesC h

/-! ### a placeholder block in the loop -/

theorem tok_stepC (wl : Bool) {tables : Bool} {cfg : BlockExt.XCfg} {tab : Nat} (htab : 0 < tab) {pb : Block.PB}
    (_hpb : PresT pDomA NoCtl.Blk.okc (BwC wl) (TwC wl) (RwC wl) pb) {state : List Block.BState} {refs : Block.Refs}
    {parent : Node} {b : Str} {rest : List Str} {r : Node × Block.Refs × List Str}
    (hP : TX pDomA NoCtl.Blk.okc (TwC wl) parent) (hA : parent.textAtomic = false) (hR : LogC pDomA (BwC wl) refs)
    (hb : TokBlock HtmlBound.h b) (hrest : PL (RwC wl) rest)
    (hr : BlockExt.dispatchXT tables cfg tab pb state refs parent b rest = some r) :
    ResT pDomA NoCtl.Blk.okc (BwC wl) (TwC wl) (RwC wl) r := by
  have hbT := tw_tokBlockC wl hb
  obtain ⟨n, a, e, hn, ha, he, rfl⟩ := hb
  obtain ⟨w, hw⟩ := placeholder_cons n
  have hch := tokCh_placeholder n
  rw [hw] at hch
  rcases ha with rfl | rfl
  · -- the paragraph
    have e1 : [] ++ Fenced.placeholder n ++ e = STX :: w ++ e := by rw [hw]; rfl
    rw [e1] at hr hbT
    rw [dispatchXT_tokline tables cfg tab htab pb state refs parent STX w e rest hch (by decide) (by decide) he] at hr
    cases hr
    refine paraP_gen (dom2_wC wl).tnil hP hA hR (fun a' ha' => tw_joinC ha' hbT) ?_ hrest
    rw [show STX :: w ++ e = STX :: (w ++ e) from rfl, lstrip_of_head (by decide)]
    exact hbT
  · -- the line feed in front
    have e1 : ['\n'] ++ Fenced.placeholder n ++ e = '\n' :: (STX :: w) ++ e := by rw [hw]; rfl
    rw [e1] at hr
    rw [dispatchXT_nl_tokline tables cfg tab htab pb state refs parent (STX :: w) e rest hch he] at hr
    cases hr
    refine emptyP_ct (dom2_wC wl) hP hA hR ?_ hrest
    refine .inr ⟨n, [], e, hn, .inl rfl, he, ?_⟩
    rw [hw]; rfl

/-- **the loop of the extended block parser (tables off) keeps the invariant on lists of ordinary blocks and placeholder
    blocks** -/
theorem parseBlocksXT_pres_wC (wl : Bool) (cfg : BlockExt.XCfg) {tab : Nat} (htab : 0 < tab) (f : Nat) :
    PresT pDomA NoCtl.Blk.okc (BwC wl) (TwC wl) (RwC wl) (BlockExt.parseBlocksXT false cfg tab f) :=
  parseBlocksXT_pres_of false cfg tab (fun pb hpb state refs parent b rest r hP hA hR hb hrest hd => by
    rcases hb with hb | hb
    · exact dispatchXT_ct (dom2_wC wl) hpb hP hA hR hb hrest hd
    · exact tok_stepC wl htab hpb hP hA hR hb hrest hd) f

/-! ### the blocks of a text in which every placeholder is a block of its own -/

/-- **a block of a text in which every placeholder is a block of its own is an ordinary block or a placeholder block** -/
theorem rw_of_pieceC (wl : Bool) {s x u v : Str} (e : s = u ++ x ++ v) (hu : u = [] ∨ ∃ u', u = u' ++ nn)
    (hv : v = [] ∨ ∃ v', v = nn ++ v') (hx : ¬ nn <:+: x) (ho : OwnBlock HtmlBound.h s) (hd : DomA s)
    (ha : AdjCA false s) (hq : Qw wl s) : RwC wl x := by
  have hinf : x <:+: s := ⟨u, v, e.symm⟩
  have hcut : Cut x s := by
    refine ⟨u, v, e, ?_⟩
    rcases hv with rfl | ⟨v', rfl⟩
    · rfl
    · exact NoCtl.BlkC.cutOK_nl _
  by_cases hs : STX ∈ x
  · -- a placeholder block
    right
    obtain ⟨x1, x2, rfl⟩ := List.append_of_mem hs
    obtain ⟨n, r, hn, hph, hbef, haft⟩ := ho.1 (u ++ x1) (x2 ++ v) (by rw [e]; simp)
    -- the placeholder lies inside the block
    obtain ⟨x3, h3, hr3⟩ : ∃ x3, STX :: x2 = Fenced.placeholder n ++ x3 ∧ r = x3 ++ v := by
      have e2 : (STX :: x2) ++ v = Fenced.placeholder n ++ r := by rw [← hph]; rfl
      rcases List.append_eq_append_iff.1 e2 with ⟨w, hw1, hw2⟩ | ⟨w, hw1, hw2⟩
      · cases w with
        | nil => exact ⟨[], by simpa using hw1.symm, by simpa using hw2.symm⟩
        | cons c w' =>
          exfalso
          rcases hv with rfl | ⟨v', rfl⟩
          · cases hw2
          · simp only [nn, List.cons_append, List.cons.injEq] at hw2
            apply nl_not_mem_placeholder n
            rw [hw1, ← hw2.1]; simp
      · exact ⟨w, hw1, hw2⟩
    have hx1 : ¬ nn <:+: x1 := fun hi => hx (hi.trans ⟨[], STX :: x2, by simp⟩)
    have hx3 : ¬ nn <:+: x3 := fun hi => hx (hi.trans ⟨x1 ++ Fenced.placeholder n, [], by rw [h3]; simp⟩)
    refine ⟨n, x1, x3, hn, nlOpt_before hbef hx1, nlOpt_after (hr3 ▸ haft) hx3, ?_⟩
    rw [h3]; simp
  · -- an ordinary block
    left
    have he : ETX ∉ x := by
      intro hm
      obtain ⟨x1, x2, rfl⟩ := List.append_of_mem hm
      obtain ⟨n, u', _, hq'⟩ := ho.2 (u ++ x1) (x2 ++ v) (by rw [e]; simp)
      obtain ⟨body, hbody⟩ : ∃ body, Fenced.placeholder n = (STX :: body) ++ [ETX] := ⟨_, rfl⟩
      have hcut' : u ++ x1 = u' ++ STX :: body := by
        rw [hbody, ← List.append_assoc] at hq'
        exact (List.append_inj' hq' rfl).1
      have hbm : ∀ c ∈ STX :: body, c ∈ Fenced.placeholder n := by
        intro c hc; rw [hbody]; exact List.mem_append_left _ hc
      have hs1 : STX ∉ x1 := fun h => hs (List.mem_append_left _ h)
      by_cases hlen : (STX :: body).length ≤ x1.length
      · have : (STX :: body) <:+ x1 :=
          List.suffix_of_suffix_length_le (l₃ := u ++ x1) ⟨u', hcut'.symm⟩ (List.suffix_append u x1) hlen
        exact hs1 (this.subset (by simp))
      · have hsuf : x1 <:+ STX :: body :=
          List.suffix_of_suffix_length_le (l₃ := u ++ x1) (List.suffix_append u x1) ⟨u', hcut'.symm⟩ (by omega)
        obtain ⟨t, ht⟩ := hsuf
        have htne : t ≠ [] := by
          intro h0; subst h0
          simp only [List.nil_append] at ht
          rw [ht] at hlen; exact hlen (Nat.le_refl _)
        have hu' : u = u' ++ t := by
          rw [← ht, ← List.append_assoc] at hcut'
          exact List.append_cancel_right hcut'
        rcases hu with rfl | ⟨u'', hu2⟩
        · have := congrArg List.length hu'
          simp only [List.length_nil, List.length_append] at this
          exact htne (List.eq_nil_of_length_eq_zero (by omega))
        · have hm := last_of_suffix_nn htne ⟨u', hu'.symm⟩ ⟨u'', hu2.symm⟩
          exact nl_not_mem_placeholder n (hbm _ (by rw [← ht]; exact List.mem_append_left _ hm))
    refine ⟨⟨?_, adjCA_cut ha hcut⟩, hq.infix hinf⟩
    intro c hcm
    have h1 := hd c (hinf.subset hcm)
    have h2 : c ≠ STX := fun h => hs (h ▸ hcm)
    have h3 : c ≠ ETX := fun h => he (h ▸ hcm)
    simp only [pDomA, NoCtl.Blk.okc, Bool.and_eq_true, bne_iff_ne, ne_eq]
    exact ⟨⟨h2, h3⟩, h1⟩

/-- **the block list of a text in which every placeholder is a block of its own** -/
theorem pl_splitS_ownC (wl : Bool) {s : Str} (ho : OwnBlock HtmlBound.h s) (hd : DomA s) (ha : AdjCA false s)
    (hq : Qw wl s) : PL (RwC wl) (splitS nn s) := by
  intro x hx
  obtain ⟨u, v, e, hu, hv⟩ := mem_join_decomp (sep := nn) hx
  rw [join_splitS (by simp [nn])] at e
  exact rw_of_pieceC wl e hu hv (splitAux_no_sep nn (by simp [nn]) s 0 x hx) ho hd ha hq

/-! ### the statements -/

theorem strTC_of_tw_opt {wl : Bool} {t : Option Str} (h : TwC wl (t.getD [])) : NoCtlF.StrTC 0 t :=
  ⟨NoCtlF.WF.mono (Nat.le_refl _) (by simp) h.1.2.2, h.1.1, h.1.2.1.lax, NoCtlF.btSafe_of_wf h.1.2.2⟩

theorem fnQC_of_xinv {wl : Bool} {n : Node} (h : XInv pDomA NoCtl.Blk.okc (TwC wl) n) : FnQC wl n := by
  obtain ⟨hn, _⟩ := h
  have ht := hn.text
  refine ⟨⟨hn.tag, attrsNoCtl_of_attrsCA hn.attrs, hn.tailAt, strTC_of_tw_opt hn.tail, ?_, ?_⟩,
    ⟨fun ha => (hn.textP ha).2, hn.tail.2⟩, ?_, ?_⟩
  · split
    · next hat =>
      rw [if_pos hat] at ht
      exact NoCtlF.WF.of_noCtl (NoCtl.allC_okc ht)
    · next hat =>
      have hat' : n.textAtomic = false := by simpa using hat
      exact strTC_of_tw_opt (hn.textP hat')
  · intro hc
    refine hn.codeAtom ?_
    have : n.tag = Tag.name "code".toList := by simpa [NoCtl.isCode] using hc
    exact this
  · intro ha
    have := hn.atomCode ha
    simp [NoCtl.isCode, this]
  · intro ha
    exact ⟨(hn.textP ha).1.2.2, (hn.textP ha).1.2.1⟩

/-- **the block stage with fenced_code on the domain with inline links** (tables off): on a text in which every STX/ETX
    belongs to a live raw-HTML placeholder that is a block of its own (what `FencedBlockPreprocessor` writes), made of
    characters of the domain, without backslash–backtick, with closed simple regions behind `](` and `![` (and, with
    wikilinks, no `[` before a blank), the extended block parser — every combination of admonition, def_list, footnotes,
    abbr, sane_lists; `tab_length ≥ 1` — builds a tree of `FnQC` elements, and every string of the log is free of STX/ETX,
    footnote bodies are ordinary blocks (`LogC pDomA (PWC wl)`) -/
theorem block_stage_ownC (wl : Bool) (xc : BlockExt.XCfg) {tab : Nat} (htab : 0 < tab) {text : Str}
    (ho : OwnBlock HtmlBound.h text) (hd : DomA text) (ha : AdjCA false text) (hq : Qw wl text)
    {root : Node} {log : Block.Refs} (hr : BlockExt.parseDocumentXT false xc tab text = some (root, log)) :
    root.Forall (FnQC wl) ∧ LogC pDomA (PWC wl) log := by
  obtain ⟨o1, _, o3⟩ := parseBlocksXT_pres_wC wl xc htab _ _ _ _ _ _
    (NoCtl.BlkX.tx_el (dom2_wC wl).tnil "div" (by decide)) rfl NoCtl.BlkX.logC_nil (pl_splitS_ownC wl ho hd ha hq) hr
  exact ⟨NoCtl.Blk.forall_mono (fun _ hn => fnQC_of_xinv hn) root o1, o3⟩

end MdVerif.NoCtlXCF.XT
