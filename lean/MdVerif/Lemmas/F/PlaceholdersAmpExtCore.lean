/-
Helper lemmas for C10 with AMPERSANDS (worker amp): the raw-HTML stash never shrinks during the CORE inline stage
(`Inline.handleInline`, `Inline.run`) — for every tree and state, without any invariant.  The chain of
`Lemmas/StashEntities.lean` (`hiOpt_ent` … `runLoop_ent`, which cannot be imported next to the F chain: `BlockVocab`/`BlockRef`
clash) restated for lengths; `Lemmas/F/PlaceholdersAmpExt.lean` has the same for the table-driven `InlineX` functions.

Namespace `MdVerif.NoCtlF`.  Core Lean only.
-/
import MdVerif.Lemmas.PlaceholdersRun
import MdVerif.Lemmas.PlaceholdersHI

namespace MdVerif.NoCtlF
open Py
open Inline hiding STX ETX
open MdVerif.NoCtl (applyPattern_eq elStep)

/-- the raw-HTML stash has at least `N` entries -/
def LenGe (N : Nat) (l : List Str) : Prop := N ≤ l.length

/-- `findMatch` leaves the raw-HTML stash alone or (pattern 12) appends one entry; it never touches the inline stash -/
theorem findMatch_html_cases {cfg : Cfg} {pi : Nat} {data : Str} {si : Nat} {st st' : St} {fo : Option Found}
    (h : findMatch cfg pi data si st = some (fo, st')) :
    st'.stash = st.stash ∧ (st'.html = st.html ∨ ∃ raw, st'.html = st.html ++ [raw]) := by
  unfold findMatch at h
  simp only [] at h
  split at h
  · cases h; exact ⟨rfl, Or.inl rfl⟩
  · split at h
    case h_4 =>
      split at h
      · simp only [Option.some.injEq, Prod.mk.injEq] at h
        obtain ⟨_, rfl⟩ := h
        exact ⟨rfl, .inr ⟨_, rfl⟩⟩
      · cases h; exact ⟨rfl, Or.inl rfl⟩
    all_goals (repeat (first | (cases h <;> exact ⟨rfl, Or.inl rfl⟩) | split at h))

theorem findMatch_lenGe {N : Nat} (cfg : Cfg) (pi : Nat) (data : Str) (si : Nat) (st st' : St) (fo : Option Found)
    (h : findMatch cfg pi data si st = some (fo, st')) (hs : LenGe N st.html) : LenGe N st'.html := by
  unfold LenGe at hs ⊢
  rcases (findMatch_html_cases h).2 with e | ⟨raw, e⟩
  · rw [e]; exact hs
  · rw [e, List.length_append]; omega

variable {N : Nat}

def HIlen (N : Nat) (hi : HI) : Prop := ∀ d p st d' st', hi d p st = some (d', st') → LenGe N st.html → LenGe N st'.html

theorem hiOpt_len {hi : HI} (hhi : HIlen N hi) (t : Option Str) (atomic : Bool) (pi : Nat) (st : St) (t' : Option Str)
    (st' : St) (h : hiOpt hi t atomic pi st = some (t', st')) (hs : LenGe N st.html) : LenGe N st'.html := by
  unfold hiOpt at h
  split at h
  · split at h
    · rename_i d st1 hh
      simp only [Option.some.injEq, Prod.mk.injEq] at h
      obtain ⟨_, h2⟩ := h; subst h2
      exact hhi _ _ _ _ _ hh hs
    · cases h
  · simp only [Option.some.injEq, Prod.mk.injEq] at h
    obtain ⟨_, h2⟩ := h; subst h2; exact hs

theorem hiNode_len {hi : HI} (hhi : HIlen N hi) (pi : Nat) (n : Node) (st : St) (n' : Node) (st' : St)
    (h : hiNode hi pi n st = some (n', st')) (hs : LenGe N st.html) : LenGe N st'.html := by
  unfold hiNode at h
  split at h
  · cases h
  · rename_i t st1 h1
    split at h
    · cases h
    · rename_i tl st2 h2
      simp only [Option.some.injEq, Prod.mk.injEq] at h
      obtain ⟨_, e2⟩ := h; subst e2
      exact hiOpt_len hhi _ _ _ _ _ _ h2 (hiOpt_len hhi _ _ _ _ _ _ h1 hs)

theorem hiNodes_len {hi : HI} (hhi : HIlen N hi) (pi : Nat) :
    ∀ (ns : List Node) (st : St) (ns' : List Node) (st' : St), hiNodes hi pi ns st = some (ns', st') →
      LenGe N st.html → LenGe N st'.html := by
  intro ns
  induction ns with
  | nil =>
    intro st ns' st' h hs
    simp only [hiNodes, Option.some.injEq, Prod.mk.injEq] at h
    obtain ⟨_, e2⟩ := h; subst e2; exact hs
  | cons n r ih =>
    intro st ns' st' h hs
    simp only [hiNodes] at h
    split at h
    · cases h
    · rename_i n1 st1 h1
      split at h
      · cases h
      · rename_i r1 st2 h2
        simp only [Option.some.injEq, Prod.mk.injEq] at h
        obtain ⟨_, e2⟩ := h; subst e2
        exact ih _ _ _ h2 (hiNode_len hhi _ _ _ _ _ h1 hs)

theorem elStep_len {hi : HI} (hhi : HIlen N hi) (pi : Nat) (n : Node) (st : St) (n' : Node) (st' : St)
    (h : elStep hi pi n st = some (n', st')) (hs : LenGe N st.html) : LenGe N st'.html := by
  unfold elStep at h
  split at h
  · simp only [Option.some.injEq, Prod.mk.injEq] at h
    obtain ⟨_, e2⟩ := h; subst e2; exact hs
  · split at h
    · cases h
    · rename_i n1 st3 h1
      split at h
      · cases h
      · rename_i kids st4 h2
        simp only [Option.some.injEq, Prod.mk.injEq] at h
        obtain ⟨_, e2⟩ := h; subst e2
        exact hiNodes_len hhi _ _ _ _ _ h2 (hiNode_len hhi _ _ _ _ _ h1 hs)

def APlen (N : Nat) (ap : Nat → Str → Nat → St → Option (Str × Bool × Nat × St)) : Prop :=
  ∀ pi d si st d' m si' st', ap pi d si st = some (d', m, si', st') → LenGe N st.html → LenGe N st'.html

theorem applyPattern_len (cfg : Cfg) {hi : HI} (hhi : HIlen N hi) : APlen N (applyPattern cfg hi) := by
  intro pi data si st d' m si' st' h hs
  rw [applyPattern_eq] at h
  split at h
  · cases h
  · rename_i st1 hf
    simp only [Option.some.injEq, Prod.mk.injEq] at h
    obtain ⟨_, _, _, e⟩ := h; subst e
    exact findMatch_lenGe _ _ _ _ _ _ _ hf hs
  · rename_i f st1 hf
    have hs1 := findMatch_lenGe _ _ _ _ _ _ _ hf hs
    split at h
    · simp only [Option.some.injEq, Prod.mk.injEq] at h
      obtain ⟨_, _, _, e⟩ := h; subst e; exact hs1
    · simp only [stashNode, Option.some.injEq, Prod.mk.injEq] at h
      obtain ⟨_, _, _, e⟩ := h; subst e; exact hs1
    · split at h
      · cases h
      · rename_i n' st2 hr
        simp only [stashNode, Option.some.injEq, Prod.mk.injEq] at h
        obtain ⟨_, _, _, e⟩ := h; subst e
        exact elStep_len hhi _ _ _ n' st2 hr hs1

theorem hiLoop_len {ap : Nat → Str → Nat → St → Option (Str × Bool × Nat × St)} (hap : APlen N ap) :
    ∀ (g : Nat) (data : Str) (pi si : Nat) (st : St) (d' : Str) (st' : St),
      hiLoop ap g data pi si st = some (d', st') → LenGe N st.html → LenGe N st'.html := by
  intro g
  induction g with
  | zero => intro data pi si st d' st' h; simp [hiLoop] at h
  | succ g ih =>
    intro data pi si st d' st' h hs
    simp only [hiLoop] at h
    split at h
    · split at h
      · cases h
      · rename_i d m si1 st1 h1
        exact ih _ _ _ _ _ _ h (hap _ _ _ _ _ _ _ _ h1 hs)
    · simp only [Option.some.injEq, Prod.mk.injEq] at h
      obtain ⟨_, e⟩ := h; subst e; exact hs

theorem handleInline_len (cfg : Cfg) : ∀ (f : Nat), HIlen N (handleInline cfg f) := by
  intro f
  induction f with
  | zero => intro d p st d' st' h; simp [handleInline] at h
  | succ f ih =>
    intro d p st d' st' h hs
    simp only [handleInline] at h
    exact hiLoop_len (applyPattern_len cfg ih) _ _ _ _ _ _ _ h hs

theorem handleInlineTop_len (cfg : Cfg) (data : Str) (st : St) (d' : Str) (st' : St)
    (h : handleInlineTop cfg data st = some (d', st')) (hs : LenGe N st.html) : LenGe N st'.html :=
  handleInline_len cfg _ _ _ _ _ _ h hs

/-- the text step of `visitChild` (as it appears in `visit_textB`) -/
theorem visit_text_len {cfg : Cfg} {child : Node} {st : St} {c1 : Node} {lst : List Node} {st1 : St}
    (h : (if Node.truthy child.text && !child.textAtomic then
            match handleInlineTop cfg (child.text.getD []) st with
            | none => none
            | some (data, st1) =>
              match ppTop st1 data false { child with text := none, textAtomic := false } true with
              | none => none
              | some (lst, c1) => some (c1, lst, st1)
          else some (child, [], st)) = some (c1, lst, st1)) : st.html.length ≤ st1.html.length := by
  split at h
  · split at h
    · cases h
    · next data st2 hh =>
      have hs2 := handleInlineTop_len cfg _ _ _ _ hh (Nat.le_refl _)
      split at h
      · cases h
      · simp only [Option.some.injEq, Prod.mk.injEq] at h
        obtain ⟨_, _, rfl⟩ := h
        exact hs2
  · simp only [Option.some.injEq, Prod.mk.injEq] at h
    obtain ⟨_, _, rfl⟩ := h
    exact Nat.le_refl _

/-- the tail step of `visitChild` (as it appears in `visit_tailB`) -/
theorem visit_tail_len {cfg : Cfg} {c1 : Node} {st1 : St} {c2 : Node} {tr : List Node} {st2 : St}
    (h : (if Node.truthy c1.tail then
            match (if c1.tailAtomic then some (c1.tail.getD [], st1) else handleInlineTop cfg (c1.tail.getD []) st1) with
            | none => none
            | some (data, st2) =>
              match ppTop st2 data c1.tailAtomic (mkEl "d") false with
              | none => none
              | some (tr, dumby) =>
                some ((if Node.truthy dumby.tail then { c1 with tail := dumby.tail, tailAtomic := dumby.tailAtomic }
                       else { c1 with tail := none, tailAtomic := false }), tr, st2)
          else some (c1, [], st1)) = some (c2, tr, st2)) : st1.html.length ≤ st2.html.length := by
  split at h
  · split at h
    · cases h
    · next data st3 hh =>
      have hs3 : st1.html.length ≤ st3.html.length := by
        split at hh
        · simp only [Option.some.injEq, Prod.mk.injEq] at hh
          obtain ⟨_, rfl⟩ := hh
          exact Nat.le_refl _
        · exact handleInlineTop_len cfg _ _ _ _ hh (Nat.le_refl _)
      split at h
      · cases h
      · simp only [Option.some.injEq, Prod.mk.injEq] at h
        obtain ⟨_, _, rfl⟩ := h
        exact hs3
  · simp only [Option.some.injEq, Prod.mk.injEq] at h
    obtain ⟨_, _, rfl⟩ := h
    exact Nat.le_refl _

theorem visitChild_len (cfg : Cfg) (child : Node) (v : Visit) (c : Node) (tr : List Node) (v' : Visit)
    (h : visitChild cfg child v = some (c, tr, v')) (hs : LenGe N v.st.html) : LenGe N v'.st.html := by
  unfold visitChild at h
  simp only [] at h
  split at h
  · cases h
  · rename_i c1 lst st1 hr1
    have q1 : LenGe N st1.html := by
      split at hr1
      · split at hr1
        · cases hr1
        · rename_i data st2 hh
          have hs2 := handleInlineTop_len cfg _ _ _ _ hh hs
          split at hr1
          · cases hr1
          · simp only [Option.some.injEq, Prod.mk.injEq] at hr1
            obtain ⟨_, _, e3⟩ := hr1; subst e3; exact hs2
      · simp only [Option.some.injEq, Prod.mk.injEq] at hr1
        obtain ⟨_, _, e3⟩ := hr1; subst e3; exact hs
    split at h
    · cases h
    · rename_i c2 tr' st2 hr2
      simp only [Option.some.injEq, Prod.mk.injEq] at h
      obtain ⟨_, _, e3⟩ := h; subst e3
      have q2 : LenGe N st2.html := by
        split at hr2
        · split at hr2
          · cases hr2
          · rename_i data st3 hh
            have hs3 : LenGe N st3.html := by
              split at hh
              · simp only [Option.some.injEq, Prod.mk.injEq] at hh
                obtain ⟨_, e⟩ := hh; subst e; exact q1
              · exact handleInlineTop_len cfg _ _ _ _ hh q1
            split at hr2
            · cases hr2
            · simp only [Option.some.injEq, Prod.mk.injEq] at hr2
              obtain ⟨_, _, e3⟩ := hr2; subst e3; exact hs3
        · simp only [Option.some.injEq, Prod.mk.injEq] at hr2
          obtain ⟨_, _, e3⟩ := hr2; subst e3; exact q1
      split <;> exact q2

theorem visitLoop_len (cfg : Cfg) :
    ∀ (g : Nat) (todo : List (Node × Option Nat)) (v v' : Visit), visitLoop cfg g todo v = some v' →
      LenGe N v.st.html → LenGe N v'.st.html := by
  intro g
  induction g with
  | zero => intro todo v v' h; simp [visitLoop] at h
  | succ g ih =>
    intro todo v v' h hs
    cases todo with
    | nil => simp only [visitLoop, Option.some.injEq] at h; subst h; exact hs
    | cons x todo =>
      obtain ⟨child, orig⟩ := x
      simp only [visitLoop] at h
      split at h
      · cases h
      · rename_i c tr v1 hv
        exact ih _ _ _ h (visitChild_len cfg child v c tr v1 hv hs)

theorem runLoop_len (cfg : Cfg) (g2 : Nat) :
    ∀ (g : Nat) (root : Node) (stack : List Path) (st : St) (root' : Node) (st' : St),
      runLoop cfg g2 g root stack st = some (root', st') → LenGe N st.html → LenGe N st'.html := by
  intro g
  induction g with
  | zero => intro root stack st root' st' h; simp [runLoop] at h
  | succ g ih =>
    intro root stack st root' st' h hs
    cases stack with
    | nil =>
      simp only [runLoop, Option.some.injEq, Prod.mk.injEq] at h
      obtain ⟨_, e⟩ := h; subst e; exact hs
    | cons p stack =>
      simp only [runLoop] at h
      split at h
      · exact ih _ _ _ _ _ h hs
      · split at h
        · cases h
        · rename_i v hv
          exact ih _ _ _ _ _ h (visitLoop_len cfg g2 _ { st := st } v hv hs)

/-- **`Inline.run` on ANY tree never shortens the raw-HTML stash it is given** -/
theorem run_hle {cfg : Cfg} {tree t : Node} {html : List Str} {st : St}
    (h : Inline.run cfg tree html = some (t, st)) : html.length ≤ st.html.length := by
  unfold Inline.run at h
  exact runLoop_len cfg _ _ _ _ _ _ _ h (Nat.le_refl _)

end MdVerif.NoCtlF
