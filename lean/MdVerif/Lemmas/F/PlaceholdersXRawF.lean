/-
`RawHtmlPostprocessor` on a string of the generalised token grammar (`Spec/F/NoCtl.lean`): ordinary characters,
footnote tokens (when footnotes is enabled) and LIVE raw-HTML placeholders (`STX wzxhzdk:N ETX`, `N < HtmlBound.h`, with
`HtmlBound.h` at most the length of the stash).  When no stash entry holds STX or ETX,

* one substitution pass replaces every raw-HTML placeholder by its entry (`subPass_fnOut`): what is left are ordinary
  characters and — with footnotes — footnote tokens (`FnOut`);
* such a string is a fixed point of the pass (`fnOut_no_live`, `subPass_id`), so `Post.rawHtml` answers exactly the
  result of the first pass (`rawHtml_fnOut`);
* `FootnotePostprocessor` (when enabled), `AndSubstitutePostprocessor` leave no STX/ETX (`postX_fnOut`).

Core Lean only.
-/
import MdVerif.Lemmas.PlaceholdersPost
import MdVerif.Lemmas.F.PlaceholdersXPost

namespace MdVerif.NoCtlXF
variable [MdVerif.NoCtlF.HtmlBound]
set_option linter.unusedSectionVars false
open Py
open MdVerif.NoCtl (STX ETX NoCtl noCtl_cons noCtl_append noCtl_nil PhDigits phStr phStr_eq subPass_cases pOut phOut
  htmlPhAt_phStr hasLiveHtmlPh liveHtmlPhAt hasLive_cons liveHtmlPhAt_of_ne hasLive_append_noSTX liveHtmlPhAt_some
  subPass_id ampSub_noctl)
open MdVerif.NoCtlF
open MdVerif.NoCtlX (FnWF FnWFb postprocess_noctl_of)

/-- what `RawHtmlPostprocessor` leaves: ordinary characters and, when footnotes is enabled, footnote tokens -/
def FnOut (s : Str) : Prop := if HtmlBound.fn = true then FnWF s else NoCtl s

theorem FnOut.nil : FnOut [] := by
  unfold FnOut; split
  · exact FnWFb.nil
  · exact noCtl_nil

theorem FnOut.plain {c : Char} {s : Str} (h1 : c ≠ STX) (h2 : c ≠ ETX) (h : FnOut s) : FnOut (c :: s) := by
  unfold FnOut at h ⊢; split
  · next hf => rw [if_pos hf] at h; exact FnWFb.plain c s h1 h2 h
  · next hf => rw [if_neg hf] at h; exact noCtl_cons.2 ⟨⟨h1, h2⟩, h⟩

theorem FnOut.of_noCtl {s : Str} (h : NoCtl s) : FnOut s := by
  unfold FnOut; split
  · exact FnWFb.of_noCtl h
  · exact h

theorem FnOut.append {a b : Str} (ha : FnOut a) (hb : FnOut b) : FnOut (a ++ b) := by
  unfold FnOut at ha hb ⊢; split
  · next hf => rw [if_pos hf] at ha hb; exact FnWFb.append ha hb
  · next hf => rw [if_neg hf] at ha hb; exact noCtl_append.2 ⟨ha, hb⟩

theorem backlinkText_frn : FootnotesTree.fnBacklinkText = frnToken "zz1337820767766393qq".toList := rfl
theorem nbsp_frn : FootnotesTree.nbspPlaceholder = frnToken "qq3936677670287331zz".toList := rfl

/-- a footnote token in front -/
theorem FnOut.fnTok {b s : Str} (hf : HtmlBound.fn = true) (hb : fnBody b) (h : FnOut s) : FnOut (frnToken b ++ s) := by
  unfold FnOut at h ⊢
  rw [if_pos hf] at h ⊢
  rcases hb with rfl | rfl
  · rw [← backlinkText_frn]; exact FnWFb.back s rfl h
  · rw [← nbsp_frn]; exact FnWFb.nbsp s h

/-! ### inversion of the grammar at an STX -/

/-- a well-formed string without inline placeholders and escape tokens that starts with STX starts with a foreign token -/
theorem wf_stx_inv {r : Str} (h : WF false 0 (STX :: r)) :
    ∃ b s, frnBody b ∧ STX :: r = frnToken b ++ s ∧ WF false 0 s := by
  generalize he : STX :: r = t at h
  cases h with
  | nil => cases he
  | plain c s h1 _ _ =>
    simp only [List.cons.injEq] at he
    exact absurd he.1.symm h1
  | ph i s hi _ => omega
  | tok v s hE _ _ => cases hE
  | frn b s hb hs => exact ⟨b, s, hb, rfl, hs⟩

/-- two strings cut at the first occurrence of a character agree part by part -/
theorem append_cons_inj {c : Char} : ∀ {a a' s s' : Str}, a ++ c :: s = a' ++ c :: s' → c ∉ a → c ∉ a' →
    a = a' ∧ s = s'
  | [], [], _, _, h, _, _ => by simp only [List.nil_append, List.cons.injEq] at h; exact ⟨rfl, h.2⟩
  | [], y :: a', _, _, h, _, h2 => by
    simp only [List.nil_append, List.cons_append, List.cons.injEq] at h
    exact absurd (by rw [h.1]; exact List.mem_cons_self) h2
  | x :: a, [], _, _, h, h1, _ => by
    simp only [List.nil_append, List.cons_append, List.cons.injEq] at h
    exact absurd (by rw [← h.1]; exact List.mem_cons_self) h1
  | x :: a, y :: a', s, s', h, h1, h2 => by
    simp only [List.cons_append, List.cons.injEq] at h
    obtain ⟨e1, e2⟩ := append_cons_inj h.2 (fun hm => h1 (List.mem_cons_of_mem _ hm))
      (fun hm => h2 (List.mem_cons_of_mem _ hm))
    exact ⟨by rw [h.1, e1], e2⟩

theorem etx_not_mem_digits {ds : Str} (h : ds.all isAsciiDigit = true) : ETX ∉ ds := by
  intro hm
  have := List.all_eq_true.1 h ETX hm
  revert this; decide

/-- a foreign token that is spelt like a raw-HTML placeholder is a live one -/
theorem frnToken_eq_phStr {b s ds rest : Str} (hb : frnBody b) (hds : PhDigits ds)
    (h : frnToken b ++ s = phStr ds ++ rest) : ∃ n, n < HtmlBound.h ∧ ds = natToDec n ∧ s = rest := by
  have e1 : frnToken b ++ s = STX :: (b ++ ETX :: s) := by simp [frnToken]
  have e2 : phStr ds ++ rest = STX :: (("wzxhzdk:".toList ++ ds) ++ ETX :: rest) := by simp [phStr_eq]
  rw [e1, e2, List.cons.injEq] at h
  have hn1 : ETX ∉ b := fun hm => (inner_ne (frnBody_inner hb _ hm)).2 rfl
  have hn2 : ETX ∉ "wzxhzdk:".toList ++ ds := by
    intro hm
    rcases List.mem_append.1 hm with hm | hm
    · revert hm; decide
    · exact etx_not_mem_digits hds.2 hm
  obtain ⟨hbe, hs⟩ := append_cons_inj h.2 hn1 hn2
  rcases hb with ⟨-, hb⟩ | ⟨n, hn, rfl⟩
  · exfalso
    rcases hb with rfl | rfl
    · have := congrArg List.head? hbe
      simp at this
    · have := congrArg List.head? hbe
      simp at this
  · exact ⟨n, hn, (List.append_cancel_left hbe).symm, hs⟩

theorem stashLookup_natToDec (stash : List Str) (n : Nat) : Post.stashLookup stash (natToDec n) = stash[n]? := by
  unfold Post.stashLookup
  simp only [Py.decToNat_natToDec, if_true]

/-! ### one substitution pass -/

theorem head_of_p {c : Char} {s X : Str} (e : c :: s = "<p>".toList ++ X) : c = '<' := by
  change c :: s = '<' :: ('p' :: ('>' :: X)) at e
  rw [List.cons.injEq] at e
  exact e.1

theorem frnToken_htmlBody (m : Nat) : frnToken (htmlBody m) = phStr (natToDec m) := rfl

theorem phStr_len (ds : Str) : (phStr ds).length = 10 + ds.length := MdVerif.NoCtl.phStr_length ds

/-- an ordinary character other than `<` is copied -/
theorem subPass_plain (bl stash : List Str) {c : Char} (h1 : c ≠ STX) (h2 : c ≠ '<') (s : Str) :
    Post.subPass bl stash 0 (c :: s) = c :: Post.subPass bl stash 0 s := by
  rcases subPass_cases bl stash c s with ⟨ds, rest, _, e, _⟩ | ⟨ds, rest, _, e, _⟩ | ⟨_, e⟩
  · exact absurd (head_of_p e) h2
  · rw [phStr_eq, List.cons_append, List.cons.injEq] at e
    exact absurd e.1 h1
  · exact e

theorem subPass_copy (bl stash : List Str) : ∀ {w : Str}, (∀ c ∈ w, c ≠ STX ∧ c ≠ '<') → ∀ (r : Str),
    Post.subPass bl stash 0 (w ++ r) = w ++ Post.subPass bl stash 0 r
  | [], _, _ => rfl
  | c :: w, h, r => by
    rw [List.cons_append, subPass_plain bl stash (h c (by simp)).1 (h c (by simp)).2,
      subPass_copy bl stash (fun d hd => h d (List.mem_cons_of_mem _ hd)) r]
    rfl

theorem fnBody_chars {b : Str} (hb : fnBody b) : ∀ c ∈ b ++ [ETX], c ≠ STX ∧ c ≠ '<' := by
  rcases hb with rfl | rfl <;> decide

/-- a footnote token is copied -/
theorem subPass_fnToken (bl stash : List Str) {b : Str} (hb : fnBody b) (s : Str) :
    Post.subPass bl stash 0 (frnToken b ++ s) = frnToken b ++ Post.subPass bl stash 0 s := by
  have e1 : frnToken b ++ s = STX :: ((b ++ [ETX]) ++ s) := by simp [frnToken]
  rw [e1]
  rcases subPass_cases bl stash STX ((b ++ [ETX]) ++ s) with ⟨ds, rest, _, e, _⟩ | ⟨ds, rest, _, e, _⟩ | ⟨_, e⟩
  · exact absurd (head_of_p e) (by decide)
  · exfalso
    rw [phStr_eq, List.cons_append, List.cons.injEq] at e
    have := congrArg List.head? e.2
    rcases hb with rfl | rfl <;> simp at this
  · rw [e, subPass_copy bl stash (fnBody_chars hb) s]
    simp [frnToken]

private theorem noCtl_p_wrap {html : Str} (h : NoCtl html) : NoCtl ("<p>".toList ++ html ++ "</p>".toList) :=
  noCtl_append.2 ⟨noCtl_append.2 ⟨by decide, h⟩, by decide⟩

/-- **one pass of `RawHtmlPostprocessor` replaces every raw-HTML placeholder of a well-formed string** (all of them
    are live), when the entries are free of STX/ETX: ordinary characters and footnote tokens are left -/
theorem subPass_fnOut {bl stash : List Str} (hh : HtmlBound.h ≤ stash.length) (he : ∀ e ∈ stash, NoCtl e) (n : Nat) :
    ∀ (s : Str), s.length ≤ n → WF false 0 s → FnOut (Post.subPass bl stash 0 s) := by
  induction n with
  | zero =>
    intro s hl _
    have : s = [] := List.length_eq_zero_iff.1 (by omega)
    subst this; exact FnOut.nil
  | succ n ih =>
    intro s hl h
    cases s with
    | nil => exact FnOut.nil
    | cons c s' =>
      have hlookup : ∀ m, m < HtmlBound.h → ∃ html, Post.stashLookup stash (natToDec m) = some html ∧ NoCtl html := by
        intro m hm
        have hlt : m < stash.length := by omega
        exact ⟨stash[m], by rw [stashLookup_natToDec, List.getElem?_eq_getElem hlt], he _ (List.getElem_mem hlt)⟩
      rcases subPass_cases bl stash c s' with ⟨ds, rest, hds, e, hsp⟩ | ⟨ds, rest, hds, e, hsp⟩ | ⟨hnone, hsp⟩
      · -- `<p>` placeholder `</p>`
        rw [hsp]
        rw [e] at h
        have h1 : WF false 0 (phStr ds ++ ("</p>".toList ++ rest)) := wf_of_append_noctl (a := "<p>".toList) (by decide) h
        have e0 : phStr ds ++ ("</p>".toList ++ rest) = STX :: (("wzxhzdk:".toList ++ ds) ++ ETX :: ("</p>".toList ++ rest)) := by
          simp [phStr_eq]
        rw [e0] at h1
        obtain ⟨b, s2, hb, e2, hs2⟩ := wf_stx_inv h1
        rw [← e0] at e2
        obtain ⟨m, hm, rfl, rfl⟩ := frnToken_eq_phStr hb hds e2.symm
        have hrest : WF false 0 rest := wf_of_append_noctl (a := "</p>".toList) (by decide) hs2
        have hlen : rest.length ≤ n := by
          have := congrArg List.length e
          have l3 : "<p>".toList.length = 3 := rfl
          simp only [List.length_cons, List.length_append, phStr_len, l3] at this hl
          omega
        obtain ⟨html, hlk, hhtml⟩ := hlookup m hm
        refine FnOut.append (FnOut.of_noCtl ?_) (ih rest hlen hrest)
        unfold pOut
        rw [hlk]
        simp only
        split
        · exact hhtml
        · exact noCtl_p_wrap hhtml
      · -- a bare placeholder
        rw [hsp]
        have hc : c = STX := by
          rw [phStr_eq, List.cons_append, List.cons.injEq] at e
          exact e.1
        subst hc
        obtain ⟨b, s2, hb, e2, hs2⟩ := wf_stx_inv h
        rw [e] at e2
        obtain ⟨m, hm, rfl, rfl⟩ := frnToken_eq_phStr hb hds e2.symm
        have hlen : s2.length ≤ n := by
          have := congrArg List.length e
          simp only [List.length_cons, List.length_append, phStr_len] at this hl
          omega
        obtain ⟨html, hlk, hhtml⟩ := hlookup m hm
        refine FnOut.append (FnOut.of_noCtl ?_) (ih s2 hlen hs2)
        unfold phOut
        rw [hlk]
        exact hhtml
      · -- an ordinary character, or the STX of a footnote token
        by_cases hc : c = STX
        · subst hc
          obtain ⟨b, s2, hb, e2, hs2⟩ := wf_stx_inv h
          have hlen : s2.length ≤ n := by
            have := congrArg List.length e2
            simp only [List.length_cons, List.length_append, frnToken] at this hl
            omega
          rcases hb with ⟨hf, hb⟩ | ⟨m, hm, rfl⟩
          · rw [e2, subPass_fnToken bl stash hb s2]
            exact FnOut.fnTok hf hb (ih s2 hlen hs2)
          · exfalso
            have hds : PhDigits (natToDec m) := ⟨Py.natToDec_ne_nil m, List.all_eq_true.2 (natToDec_digits m)⟩
            have := hnone rfl
            rw [e2, frnToken_htmlBody, htmlPhAt_phStr hds] at this
            cases this
        · rw [hsp]
          have hs' : WF false 0 s' := wf_tail_of_ne_stx hc h
          have hce : c ≠ ETX := by
            intro hce
            subst hce
            generalize hg : ETX :: s' = t at h
            cases h with
            | nil => cases hg
            | plain d s _ h2 _ =>
              simp only [List.cons.injEq] at hg
              exact h2 hg.1.symm
            | ph i s hi _ => omega
            | tok v s hE _ _ => cases hE
            | frn b s _ _ =>
              have := congrArg List.head? hg
              simp [frnToken] at this
              revert this; decide
          exact FnOut.plain hc hce (ih s' (by simp only [List.length_cons] at hl; omega) hs')

/-! ### the fixed point -/

theorem fnWFb_no_live (stash : List Str) {bl : Bool} {t : Str} (h : FnWFb bl t) : hasLiveHtmlPh stash t = false := by
  have htok : ∀ (b : Str), fnBody b → ∀ s, hasLiveHtmlPh stash s = false →
      hasLiveHtmlPh stash (frnToken b ++ s) = false := by
    intro b hb s hs
    have e1 : frnToken b ++ s = STX :: ((b ++ [ETX]) ++ s) := by simp [frnToken]
    rw [e1, hasLive_cons, hasLive_append_noSTX (fun hm => (fnBody_chars hb _ hm).1 rfl), hs, Bool.or_false]
    cases hl : liveHtmlPhAt stash (STX :: ((b ++ [ETX]) ++ s)) with
    | false => rfl
    | true =>
      exfalso
      obtain ⟨ds, rest, _, e, _⟩ := liveHtmlPhAt_some hl
      rw [phStr_eq, List.cons_append, List.cons.injEq] at e
      have := congrArg List.head? e.2
      rcases hb with rfl | rfl <;> simp at this
  induction h with
  | nil => rfl
  | plain c s h1 _ _ ih => rw [hasLive_cons, liveHtmlPhAt_of_ne h1, ih]; rfl
  | back s _ _ ih => rw [backlinkText_frn]; exact htok _ (.inl rfl) s ih
  | nbsp s _ ih => rw [nbsp_frn]; exact htok _ (.inr rfl) s ih

theorem fnOut_no_live (stash : List Str) {t : Str} (h : FnOut t) : hasLiveHtmlPh stash t = false := by
  unfold FnOut at h
  split at h
  · exact fnWFb_no_live stash h
  · exact fnWFb_no_live stash (FnWFb.of_noCtl (bl := false) h)

/-- a well-formed string is already of the final shape when no raw-HTML placeholder is admitted -/
theorem fnOut_of_wf_zero (hh : HtmlBound.h = 0) {s : Str} (h : WF false 0 s) : FnOut s := by
  induction h with
  | nil => exact FnOut.nil
  | plain c s h1 h2 _ ih => exact FnOut.plain h1 h2 ih
  | ph i s hi _ _ => omega
  | tok v s hE _ _ _ => cases hE
  | frn b s hb _ ih =>
    rcases hb with ⟨hf, hb⟩ | ⟨m, hm, rfl⟩
    · exact FnOut.fnTok hf hb ih
    · omega

/-- **`RawHtmlPostprocessor.run` on a well-formed string**: every raw-HTML placeholder is replaced, ordinary characters
    and footnote tokens are left (the second pass finds nothing) -/
theorem rawHtml_fnOut {bl stash : List Str} (hh : HtmlBound.h ≤ stash.length) (he : ∀ e ∈ stash, NoCtl e) {f : Nat}
    {s out : Str} (hs : WF false 0 s) (h : Post.rawHtml bl stash f s = some out) : FnOut out := by
  cases f with
  | zero => cases h
  | succ f =>
    unfold Post.rawHtml at h
    split at h
    · next hemp =>
      simp only [Option.some.injEq] at h
      subst h
      have : stash = [] := by simpa using hemp
      subst this
      exact fnOut_of_wf_zero (by simpa using hh) hs
    · simp only at h
      have ht := subPass_fnOut (bl := bl) hh he s.length s (Nat.le_refl _) hs
      split at h
      · simp only [Option.some.injEq] at h
        subst h; exact ht
      · cases f with
        | zero => cases h
        | succ f =>
          unfold Post.rawHtml at h
          rw [if_neg (by assumption)] at h
          simp only at h
          rw [subPass_id (fnOut_no_live stash ht), if_pos rfl] at h
          simp only [Option.some.injEq] at h
          subst h; exact ht

/-- **the postprocessors** raw_html 30, footnote 25 (when enabled), amp_substitute 20 on a well-formed string: no
    STX/ETX is left -/
theorem postX_fnOut {x : PipelineX.Exts} (hfn : HtmlBound.fn = x.footnotes) (cfg : Pipeline.Cfg) {stash : List Str}
    (hh : HtmlBound.h ≤ stash.length) (he : ∀ e ∈ stash, NoCtl e) {s o : Str} (hs : WF false 0 s)
    (ho : PipelineX.postX x cfg stash s = some o) : NoCtl o := by
  unfold PipelineX.postX at ho
  simp only [Option.map_eq_some_iff] at ho
  obtain ⟨r, hr, rfl⟩ := ho
  have hout := rawHtml_fnOut hh he hs hr
  unfold FnOut at hout
  apply ampSub_noctl
  cases hx : x.footnotes with
  | true =>
    rw [hfn, hx, if_pos rfl] at hout
    simp only [if_true]
    exact postprocess_noctl_of hout
  | false =>
    rw [hfn, hx] at hout
    simp only [Bool.false_eq_true, if_false] at hout ⊢
    exact hout

end MdVerif.NoCtlXF
