/-
C10 with ALL extensions (tables off) on the domain WITH INLINE LINKS, part 2 (worker cf), block stage 3: fc2's
`Lemmas/F/PlaceholdersXTBlock3.lean` (the admonition processor and the dispatcher on an ordinary block, for the three string
classes) re-proved from the cut-closed class of ordinary blocks (`Dom2C`), TABLES OFF (the table processor cuts a row at
`|`, where `cutOK` fails: g3's `C10XC_table_cell_leaves_class`); the cuts as in g3's `Lemmas/PlaceholdersXCBlock2.lean`.
The loop `BlkXT.parseBlocksXT_pres_of` (fc2) does not depend on the closure and is used as it is.  Core Lean only.
-/
import MdVerif.Lemmas.F.PlaceholdersXCTBlock2
import MdVerif.Lemmas.F.PlaceholdersXTBlock3

namespace MdVerif.NoCtl.BlkXCT
open Py Block Blk BlkB BlkC BlkX BlkXC
open BlkXT (OutT PresT ResT)

/-! ### the admonition processor -/

section adm
variable {p q : Char → Bool} {Bp Tp Rp : Str → Prop}

theorem admonitionP_ct (h : Dom2C p q Bp Tp Rp) {tab : Nat} {pb : PB} (hpb : PresT p q Bp Tp Rp pb)
    {state : List BState}
    {refs : Refs} {parent : Node} {b : Str} {rest : List Str} {hit : BlockExt.AdmHit}
    (hP : TX p q Tp parent) (hA : parent.textAtomic = false) (hR : LogC p Bp refs) (hb : Bp b)
    (hrest : PL Rp rest) (ht : BlockExt.admTest tab parent b = some hit) {r : Node × Refs × List Str}
    (hr : BlockExt.admonitionP tab pb state refs parent b rest hit = some r) : ResT p q Bp Tp Rp r := by
  have hd := h.d
  cases hit with
  | re st en g1 g2 =>
    have hs : BlockExt.admSearch b = some (st, en, g1, g2) := by
      simp only [BlockExt.admTest] at ht
      split at ht
      · next st' en' g1' g2' hs' => cases ht; exact hs'
      · split at ht <;> cases ht
    obtain ⟨hg1, _⟩ := admSearch_groups hs
    obtain ⟨hg2, hpre⟩ := admSearch_cut hs
    obtain ⟨hk, htitle⟩ := admClassTitle_xc h.b hb hg1 hg2
    simp only [BlockExt.admonitionP] at hr
    split at hr
    · cases hr
    · next parent' refs' hcall =>
      have hout : OutT p q Bp Tp (parent', refs') := by
        split at hcall
        · exact hpb _ _ _ _ _ hP hA hR (h.r1 (hd.ofCut hb hpre)) hcall
        · cases hcall; exact ⟨hP, hA, hR⟩
      obtain ⟨h1, h2, h3⟩ := hout
      have hdt := hd.detab tab (hd.drop hb en)
      generalize detab tab (b.drop en) = dt at hr hdt
      obtain ⟨block, theRest⟩ := dt
      generalize BlockExt.admClassTitle g1 g2 = kt at hr hk htitle
      obtain ⟨klass, title⟩ := kt
      simp only [] at hr hk htitle hdt
      -- the `div`
      have hdiv0 : TX p q Tp { Node.el "div" with attrs := [(BlockExt.strClass, BlockExt.strAdmonition ++ ' ' :: klass)] } := by
        refine tx_fresh (txt := none) h.tnil (tagNoCtl_el "div" (by decide)) (by decide)
          (attrsC_one (h.b.litC lit_class) ?_) h.tnil
        refine h.b.litC ?_
        intro c hc
        rw [List.mem_append, List.mem_cons] at hc
        rcases hc with hc | rfl | hc
        · exact lit_admonition c hc
        · decide
        · exact hk c hc
      have hdiv : TX p q Tp (if Node.truthy title = true then
            ({ Node.el "div" with attrs := [(BlockExt.strClass, BlockExt.strAdmonition ++ ' ' :: klass)] } : Node).append
              { mkText "p" (title.getD []) with attrs := [(BlockExt.strClass, "admonition-title".toList)] }
          else { Node.el "div" with attrs := [(BlockExt.strClass, BlockExt.strAdmonition ++ ' ' :: klass)] }) ∧
          (if Node.truthy title = true then
            ({ Node.el "div" with attrs := [(BlockExt.strClass, BlockExt.strAdmonition ++ ' ' :: klass)] } : Node).append
              { mkText "p" (title.getD []) with attrs := [(BlockExt.strClass, "admonition-title".toList)] }
          else { Node.el "div" with attrs := [(BlockExt.strClass, BlockExt.strAdmonition ++ ' ' :: klass)] }).textAtomic
            = false := by
        split
        · refine ⟨hdiv0.append ?_ rfl, rfl⟩
          exact tx_fresh (txt := some (title.getD [])) h.tnil (tagNoCtl_el "p" (by decide)) (by decide)
            (attrsC_one (h.b.litC lit_class) (h.b.litC lit_admTitle)) (h.sub _ htitle)
        · exact ⟨hdiv0, rfl⟩
      split at hr
      · next div' refs'' hq =>
        obtain ⟨o1, o2, o3⟩ := parseChunk_ct h hpb hdiv.1 hdiv.2 h3 hdt.1 hq
        cases hr
        exact ⟨h1.append o1 o2, h2, o3, pl_consIf _ (h.rOf _ hdt.2) hrest⟩
      · cases hr
  | sib steps indent =>
    have hc : BlockExt.admContent tab parent b = some (steps, indent) := by
      simp only [BlockExt.admTest] at ht
      split at ht
      · cases ht
      · split at ht
        · next k ind hc' => cases ht; exact hc'
        · cases ht
    have hna := admContent_na hc hP
    have hS := nodeAt_tx steps hP
    simp only [BlockExt.admonitionP] at hr
    have hdt := hd.detab indent hb
    generalize detab indent b = dt at hr hdt
    obtain ⟨block, theRest⟩ := dt
    simp only [] at hr hdt
    -- the sibling after `if sibling.tag in ('li', 'dd') and sibling.text`
    have hsib : ∀ s : Node, TX p q Tp s → s.textAtomic = false →
        TX p q Tp (if ((s.isTag "li" || s.isTag "dd") && Node.truthy s.text) = true then
          { s with text := some [], textAtomic := false,
                   children := s.children ++ [{ Node.el "p" with text := s.text, textAtomic := s.textAtomic }] }
          else s) ∧
        (if ((s.isTag "li" || s.isTag "dd") && Node.truthy s.text) = true then
          { s with text := some [], textAtomic := false,
                   children := s.children ++ [{ Node.el "p" with text := s.text, textAtomic := s.textAtomic }] }
          else s).textAtomic = false := by
      intro s hs hsa
      split
      · have hb' := hs.nx
        refine ⟨tx_iff.2 ⟨⟨hb'.tag, hb'.attrs, hb'.tailAt, hb'.tail, by simpa using h.tnil, fun h' => (by cases h'),
          fun h' => by have := hb'.codeAtom h'; rw [hsa] at this; cases this⟩, ?_⟩, rfl⟩
        intro c hc
        simp only [List.mem_append, List.mem_singleton] at hc
        rcases hc with hc | rfl
        · exact hs.child hc
        · refine ⟨tx_leaf ⟨tagNoCtl_el "p" (by decide), attrsC_nil, rfl, h.tnil, ?_, ?_,
            fun h' => absurd h' (show Tag.name "p".toList ≠ Tag.name "code".toList by decide)⟩ rfl, ?_⟩
          · simp only [hsa]; simpa using hb'.textP hsa
          · intro h'; simp only [hsa] at h'; cases h'
          · intro h'; simp only [hsa] at h'; cases h'
      · exact ⟨hs, hsa⟩
    obtain ⟨s1, s2⟩ := hsib _ hS hna
    split at hr
    · next div' refs' hq =>
      obtain ⟨o1, o2, o3⟩ := parseChunk_ct h hpb s1 s2 hR hdt.1 hq
      cases hr
      obtain ⟨u1, u2⟩ := updPath_tx (fun _ => div') steps hP ⟨o1, o2.trans hna.symm⟩
      exact ⟨u1, u2.trans hA, o3, pl_consIf _ (h.rOf _ hdt.2) hrest⟩
    · cases hr

end adm

/-! ### the dispatcher on an ordinary block -/

section dispatch
variable {p q : Char → Bool} {Bp Tp Rp : Str → Prop}

theorem tailRef_ct (h : Dom2C p q Bp Tp Rp) {state : List BState} {refs : Refs} {parent : Node} {b : Str}
    {rest : List Str}
    (hP : TX p q Tp parent) (hA : parent.textAtomic = false) (hR : LogC p Bp refs) (hb : Bp b)
    (hrest : PL Rp rest) {r : Node × Refs × List Str}
    (hr : BlockExt.tailRef state refs parent b rest = some r) : ResT p q Bp Tp Rp r := by
  simp only [BlockExt.tailRef] at hr
  split at hr
  · next m hm => cases hr; exact referenceP_ct h hP hA hR hb hrest hm
  · cases hr; exact paraP_ct h hP hA hR hb hrest

theorem tailAbbr_ct (h : Dom2C p q Bp Tp Rp) {cfg : BlockExt.XCfg} {state : List BState} {refs : Refs} {parent : Node}
    {b : Str} {rest : List Str}
    (hP : TX p q Tp parent) (hA : parent.textAtomic = false) (hR : LogC p Bp refs) (hb : Bp b)
    (hrest : PL Rp rest) {r : Node × Refs × List Str}
    (hr : BlockExt.tailAbbr cfg state refs parent b rest = some r) : ResT p q Bp Tp Rp r := by
  simp only [BlockExt.tailAbbr] at hr
  split at hr
  · split at hr
    · next refs' rest' ha =>
      cases hr
      obtain ⟨a1, a2⟩ := abbrP_ct h hR hb hrest ha
      exact ⟨hP, hA, a1, a2⟩
    · cases hr
    · exact tailRef_ct h hP hA hR hb hrest hr
  · exact tailRef_ct h hP hA hR hb hrest hr

theorem tailFootnote_ct (h : Dom2C p q Bp Tp Rp) {cfg : BlockExt.XCfg} {state : List BState} {refs : Refs}
    {parent : Node} {b : Str} {rest : List Str}
    (hP : TX p q Tp parent) (hA : parent.textAtomic = false) (hR : LogC p Bp refs) (hb : Bp b)
    (hrest : PL Rp rest) {r : Node × Refs × List Str}
    (hr : BlockExt.tailFootnote cfg state refs parent b rest = some r) : ResT p q Bp Tp Rp r := by
  simp only [BlockExt.tailFootnote] at hr
  split at hr
  · split at hr
    · next refs' rest' hf =>
      cases hr
      obtain ⟨a1, a2⟩ := footnoteP_ct h hR hb hrest hf
      exact ⟨hP, hA, a1, a2⟩
    · exact tailAbbr_ct h hP hA hR hb hrest hr
  · exact tailAbbr_ct h hP hA hR hb hrest hr

theorem tailQuote_ct (h : Dom2C p q Bp Tp Rp) {cfg : BlockExt.XCfg} {pb : PB} (hpb : PresT p q Bp Tp Rp pb)
    {state : List BState}
    {refs : Refs} {parent : Node} {b : Str} {rest : List Str}
    (hP : TX p q Tp parent) (hA : parent.textAtomic = false) (hR : LogC p Bp refs) (hb : Bp b)
    (hrest : PL Rp rest) {r : Node × Refs × List Str}
    (hr : BlockExt.tailQuote cfg pb state refs parent b rest = some r) : ResT p q Bp Tp Rp r := by
  simp only [BlockExt.tailQuote] at hr
  split at hr
  · next q0 hq => exact quoteP_ct h hpb hP hA hR hb hrest hq hr
  · exact tailFootnote_ct h hP hA hR hb hrest hr

theorem tailDef_ct (h : Dom2C p q Bp Tp Rp) {cfg : BlockExt.XCfg} {tab : Nat} {pb : PB} (hpb : PresT p q Bp Tp Rp pb)
    {state : List BState} {refs : Refs} {parent : Node} {b : Str} {rest : List Str}
    (hP : TX p q Tp parent) (hA : parent.textAtomic = false) (hR : LogC p Bp refs) (hb : Bp b)
    (hrest : PL Rp rest) {r : Node × Refs × List Str}
    (hr : BlockExt.tailDef cfg tab pb state refs parent b rest = some r) : ResT p q Bp Tp Rp r := by
  simp only [BlockExt.tailDef] at hr
  split at hr
  · split at hr
    · next m hm =>
      split at hr
      · next r' hd =>
        subst hr
        exact defListP_ct h hpb hP hA hR hb hrest hm hd
      · exact tailQuote_ct h hpb hP hA hR hb hrest hr
    · exact tailQuote_ct h hpb hP hA hR hb hrest hr
  · exact tailQuote_ct h hpb hP hA hR hb hrest hr

theorem tailList_ct (h : Dom2C p q Bp Tp Rp) {cfg : BlockExt.XCfg} {tab : Nat} {pb : PB} (hpb : PresT p q Bp Tp Rp pb)
    {state : List BState} {refs : Refs} {parent : Node} {b : Str} {rest : List Str}
    (hP : TX p q Tp parent) (hA : parent.textAtomic = false) (hR : LogC p Bp refs) (hb : Bp b)
    (hrest : PL Rp rest) {r : Node × Refs × List Str}
    (hr : BlockExt.tailList cfg tab pb state refs parent b rest = some r) : ResT p q Bp Tp Rp r := by
  simp only [BlockExt.tailList] at hr
  split at hr
  · split at hr
    · exact listPX_ct h _ hpb (by decide) (by decide) hP hA hR hb hrest hr
    · exact listP_ct h hpb (by decide) (by decide) hP hA hR hb hrest hr
  · split at hr
    · split at hr
      · exact listPX_ct h _ hpb (by decide) (by decide) hP hA hR hb hrest hr
      · exact listP_ct h hpb (by decide) (by decide) hP hA hR hb hrest hr
    · exact tailDef_ct h hpb hP hA hR hb hrest hr

theorem tailEmptyT_ct (h : Dom2C p q Bp Tp Rp) {cfg : BlockExt.XCfg} {tab : Nat} {pb : PB}
    (hpb : PresT p q Bp Tp Rp pb) {state : List BState} {refs : Refs} {parent : Node} {b : Str} {rest : List Str}
    (hP : TX p q Tp parent) (hA : parent.textAtomic = false) (hR : LogC p Bp refs) (hb : Bp b)
    (hrest : PL Rp rest) {r : Node × Refs × List Str}
    (hr : BlockExt.tailEmptyT false cfg tab pb state refs parent b rest = some r) : ResT p q Bp Tp Rp r := by
  rw [tailEmptyT_eq] at hr
  split at hr
  · cases hr; exact emptyP_ct h hP hA hR (h.rOf _ (h.d.drop hb 1)) hrest
  · split at hr
    · exact indentP_ct h hpb hP hA hR hb hrest hr
    · split at hr
      · exact indentPX_ct h (fun _ => isListTagD_ne_code) (fun _ => isItemTagD_ne_code) (by decide) hpb hP hA hR hb
          hrest hr
      · split at hr
        · cases hr; exact codeP_ct h hP hA hR hb hrest
        · split at hr
          · next bs hbs => simp at hbs
          · split at hr
            · next m hm => exact hashP_ct h hpb hP hA hR hb hrest hm hr
            · split at hr
              · cases hr; exact setextP_ct h hP hA hR hb hrest
              · split at hr
                · next m hm => exact hrP_ct h hpb hP hA hR hb hrest hm hr
                · exact tailList_ct h hpb hP hA hR hb hrest hr

/-- **one turn of the loop on an ordinary block preserves the invariant** -/
theorem dispatchXT_ct (h : Dom2C p q Bp Tp Rp) {cfg : BlockExt.XCfg} {tab : Nat} {pb : PB}
    (hpb : PresT p q Bp Tp Rp pb) {state : List BState} {refs : Refs} {parent : Node} {b : Str} {rest : List Str}
    (hP : TX p q Tp parent) (hA : parent.textAtomic = false) (hR : LogC p Bp refs) (hb : Bp b)
    (hrest : PL Rp rest) {r : Node × Refs × List Str}
    (hr : BlockExt.dispatchXT false cfg tab pb state refs parent b rest = some r) : ResT p q Bp Tp Rp r := by
  simp only [BlockExt.dispatchXT] at hr
  split at hr
  · next hit ht =>
    split at ht
    · exact admonitionP_ct h hpb hP hA hR hb hrest ht hr
    · cases ht
  · exact tailEmptyT_ct h hpb hP hA hR hb hrest hr

end dispatch

end MdVerif.NoCtl.BlkXCT
