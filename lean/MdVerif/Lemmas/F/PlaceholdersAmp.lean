/-
Helper lemmas for C10 with AMPERSANDS (worker amp), part 1: the character domain `DomA` of `Spec/F/NoCtl.lean` ("no `<`",
and "no `&`" unless the parameter `HtmlBound.amp` admits it), the relation `HtmlOK` between the raw-HTML stash before and
behind a step of the inline stage, the raw-HTML placeholder `STX wzxhzdk:N ETX` that the entity pattern writes as a
string item of the inline stash, and the shape of a match of
`ENTITY_RE = (&(?:\#[0-9]+|\#x[0-9a-fA-F]+|[a-zA-Z0-9]+);)` (`Inline.entityFind`).

Namespace `MdVerif.NoCtlF`.  Core Lean only.
-/
import MdVerif.Lemmas.PlaceholdersBPP
import MdVerif.Lemmas.F.PlaceholdersBBt

namespace MdVerif.NoCtlF
open Py
open Inline hiding STX ETX
open MdVerif.NoCtl (STX ETX NoCtl DomS domChar DomB domCharB SepOK SepOK3 noCtl_iff)

/-! ### a match of the entity pattern -/

/-- an entity as `ENTITY_RE` matches it: `&`, then `#` / ASCII letters and digits, then `;` -/
def EntM (M : Str) : Prop := ∃ b, M = '&' :: (b ++ [';']) ∧ ∀ c ∈ b, c = '#' ∨ isAsciiAlnum c = true

theorem runSemi_specA {p : Char → Bool} {r : Str} {m : Nat} (h : Inline.runSemi p r = some m) :
    ∃ b, r.take m = b ++ [';'] ∧ m = b.length + 1 ∧ ∀ c ∈ b, p c = true := by
  unfold Inline.runSemi at h
  simp only at h
  split at h
  · next hc =>
    simp only [Bool.and_eq_true, decide_eq_true_eq, beq_iff_eq] at hc
    simp only [Option.some.injEq] at h
    subst h
    obtain ⟨hlt, hget⟩ := List.getElem?_eq_some_iff.1 hc.2
    refine ⟨r.take (spanLen p r), ?_, ?_, fun c hm => spanLen_prefix_all p r c hm⟩
    · rw [List.take_succ_eq_append_getElem hlt, hget]
    · rw [List.length_take]; omega
  · cases h

theorem hex_alnum {c : Char} (h : isHexDigit c = true) : isAsciiAlnum c = true := by
  simp only [isHexDigit, isAsciiAlnum, isAsciiAlpha, isAsciiDigit, isAsciiLower, isAsciiUpper, Bool.or_eq_true,
    Bool.and_eq_true, decide_eq_true_eq, Char.le_def, UInt32.le_iff_toNat_le] at h ⊢
  have e1 : ('a' : Char).val.toNat = 97 := by decide
  have e2 : ('f' : Char).val.toNat = 102 := by decide
  have e3 : ('z' : Char).val.toNat = 122 := by decide
  have e4 : ('A' : Char).val.toNat = 65 := by decide
  have e5 : ('F' : Char).val.toNat = 70 := by decide
  have e6 : ('Z' : Char).val.toNat = 90 := by decide
  rw [e1, e2, e4, e5] at h
  rw [e1, e3, e4, e6]
  omega

theorem digit_alnum {c : Char} (h : isAsciiDigit c = true) : isAsciiAlnum c = true := by
  simp only [isAsciiAlnum, Bool.or_eq_true]; exact .inr h

theorem entityBody_specA {r : Str} {n : Nat} (h : Inline.entityBody r = some n) :
    n ≤ r.length ∧ EntM ('&' :: r.take n) := by
  unfold Inline.entityBody at h
  split at h
  · next r1 =>
    split at h
    · next m hm =>
      simp only [Option.some.injEq] at h
      subst h
      obtain ⟨b, e1, e2, hb⟩ := runSemi_specA hm
      have hlen : m ≤ r1.length := by
        have := congrArg List.length e1
        simp only [List.length_take, List.length_append, List.length_cons, List.length_nil] at this
        omega
      refine ⟨by simp only [List.length_cons]; omega, '#' :: b, ?_, ?_⟩
      · rw [List.take_succ_cons, e1]; rfl
      · intro c hc
        rcases List.mem_cons.1 hc with rfl | hc
        · exact .inl rfl
        · exact .inr (digit_alnum (hb c hc))
    · split at h
      · rename_i r2 _
        simp only [Option.map_eq_some_iff] at h
        obtain ⟨m, hm, rfl⟩ := h
        obtain ⟨b, e1, e2, hb⟩ := runSemi_specA hm
        have hlen : m ≤ r2.length := by
          have := congrArg List.length e1
          simp only [List.length_take, List.length_append, List.length_cons, List.length_nil] at this
          omega
        refine ⟨by simp only [List.length_cons]; omega, '#' :: 'x' :: b, ?_, ?_⟩
        · rw [List.take_succ_cons, List.take_succ_cons, e1]; rfl
        · intro c hc
          rcases List.mem_cons.1 hc with rfl | hc
          · exact .inl rfl
          · rcases List.mem_cons.1 hc with rfl | hc
            · exact .inr (by decide)
            · exact .inr (hex_alnum (hb c hc))
      · cases h
  · obtain ⟨b, e1, e2, hb⟩ := runSemi_specA h
    have hlen : n ≤ r.length := by
      have := congrArg List.length e1
      simp only [List.length_take, List.length_append, List.length_cons, List.length_nil] at this
      omega
    exact ⟨hlen, b, by rw [e1], fun c hc => .inr (hb c hc)⟩

theorem entityScan_specA : ∀ (suf : Str) (i s e : Nat), Inline.entityScan suf i = some (s, e) →
    ∃ pre M post, suf = pre ++ M ++ post ∧ s = i + pre.length ∧ e = s + M.length ∧ EntM M := by
  intro suf
  induction suf with
  | nil => intro i s e h; cases h
  | cons c r ih =>
    intro i s e h
    unfold Inline.entityScan at h
    have hrec : Inline.entityScan r (i + 1) = some (s, e) →
        ∃ pre M post, c :: r = pre ++ M ++ post ∧ s = i + pre.length ∧ e = s + M.length ∧ EntM M := by
      intro h'
      obtain ⟨pre, M, post, e1, e2, e3, hM⟩ := ih _ _ _ h'
      exact ⟨c :: pre, M, post, by rw [e1]; rfl, by simp only [List.length_cons]; omega, e3, hM⟩
    split at h
    · next hc =>
      split at h
      · next n hn =>
        simp only [Option.some.injEq, Prod.mk.injEq] at h
        obtain ⟨rfl, rfl⟩ := h
        obtain ⟨hlen, hM⟩ := entityBody_specA hn
        refine ⟨[], '&' :: r.take n, r.drop n, ?_, by simp, ?_, hM⟩
        · rw [hc]; simp
        · simp only [List.length_cons, List.length_take]; omega
      · exact hrec h
    · exact hrec h

theorem entityFind_specA {data : Str} {si s e : Nat} (h : Inline.entityFind data si = some (s, e)) :
    ∃ pre M post, data.drop si = pre ++ M ++ post ∧ s = si + pre.length ∧ e = s + M.length ∧ EntM M := by
  unfold Inline.entityFind at h
  split at h
  · cases h
  · exact entityScan_specA _ _ _ _ h

/-- the characters of an entity: neither STX nor ETX, no markup character -/
theorem EntM.chars {M : Str} (h : EntM M) : ∀ c ∈ M, c = '&' ∨ c = ';' ∨ c = '#' ∨ isAsciiAlnum c = true := by
  obtain ⟨b, rfl, hb⟩ := h
  intro c hc
  simp only [List.mem_cons, List.mem_append, List.not_mem_nil, or_false] at hc
  rcases hc with rfl | hc | rfl
  · exact .inl rfl
  · exact .inr (.inr (hb c hc))
  · exact .inr (.inl rfl)

theorem EntM.ne_nil {M : Str} (h : EntM M) : M ≠ [] := by
  obtain ⟨b, rfl, -⟩ := h; simp

theorem EntM.head {M : Str} (h : EntM M) : M.head? = some '&' := by
  obtain ⟨b, rfl, -⟩ := h; rfl

theorem EntM.last {M : Str} (h : EntM M) : M.getLast? = some ';' := by
  obtain ⟨b, rfl, -⟩ := h
  rw [← List.cons_append, List.getLast?_append]; rfl

theorem alnum_ne {c : Char} (h : isAsciiAlnum c = true) :
    c ≠ STX ∧ c ≠ ETX ∧ c ≠ '`' ∧ c ≠ '\\' ∧ c ≠ '!' ∧ c ≠ '[' ∧ c ≠ ']' ∧ c ≠ '(' ∧ c ≠ ')' ∧ c ≠ '<' ∧ c ≠ '*' ∧
      c ≠ '_' ∧ c ≠ '\n' ∧ c ≠ ' ' := by
  refine ⟨?_, ?_, ?_, ?_, ?_, ?_, ?_, ?_, ?_, ?_, ?_, ?_, ?_, ?_⟩ <;> (rintro rfl; revert h; decide)

theorem EntM.noCtl {M : Str} (h : EntM M) : NoCtl M := by
  rw [noCtl_iff]
  intro c hc
  rcases h.chars c hc with rfl | rfl | rfl | hc
  · decide
  · decide
  · decide
  · exact ⟨(alnum_ne hc).1, (alnum_ne hc).2.1⟩

theorem backslashUnescape_of_no_stx {x : Str} (h : STX ∉ x) : Inline.backslashUnescape 0 x = x := by
  induction x with
  | nil => rfl
  | cons c x ih =>
    have hc : c ≠ Inline.STX := fun e => h (by rw [e]; exact List.mem_cons_self)
    rw [Inline.backslashUnescape, if_neg hc, ih (fun hm => h (List.mem_cons_of_mem _ hm))]

/-! ### the domain without the instance argument -/

/-- the character domain without the instance argument: no `<`; no `&` either unless `amp` -/
def DomAmp (amp : Bool) (s : Str) : Prop := '<' ∉ s ∧ (amp = false → '&' ∉ s)

instance (amp : Bool) (s : Str) : Decidable (DomAmp amp s) := by unfold DomAmp; infer_instance

theorem domAmp_of_domB {amp : Bool} {s : Str} (h : DomB s) : DomAmp amp s := by
  refine ⟨fun hm => ?_, fun _ hm => ?_⟩
  · have := h _ hm; simp [domCharB] at this
  · have := h _ hm; simp [domCharB] at this

variable [MdVerif.NoCtlF.HtmlBound]
set_option linter.unusedSectionVars false

/-! ### `DomA` -/

@[simp] theorem domA_nil : DomA [] := by simp [DomA]

theorem domA_append {a b : Str} : DomA (a ++ b) ↔ DomA a ∧ DomA b := by
  simp only [DomA, List.mem_append]
  constructor
  · intro h; exact ⟨fun c hc => h c (.inl hc), fun c hc => h c (.inr hc)⟩
  · rintro ⟨h1, h2⟩ c (hc | hc)
    · exact h1 c hc
    · exact h2 c hc

theorem DomA.subset {a b : Str} (h : DomA b) (hs : ∀ c ∈ a, c ∈ b) : DomA a := fun c hc => h c (hs c hc)
theorem DomA.take {s : Str} (h : DomA s) (n : Nat) : DomA (s.take n) := h.subset fun _ hc => List.mem_of_mem_take hc
theorem DomA.drop {s : Str} (h : DomA s) (n : Nat) : DomA (s.drop n) := h.subset fun _ hc => List.mem_of_mem_drop hc

/-- the old domain "no `<`, no `&`" lies inside every instance of the new one -/
theorem domCharA_of_domCharB {c : Char} (h : domCharB c = true) : domCharA c = true := by
  simp only [domCharB, Bool.and_eq_true, bne_iff_ne, ne_eq] at h
  simp [domCharA, h.1, h.2]

theorem domA_of_domB {s : Str} (h : DomB s) : DomA s := fun c hc => domCharA_of_domCharB (h c hc)

/-- without ampersands the new domain is the old one -/
theorem domB_of_domA (hamp : HtmlBound.amp = false) {s : Str} (h : DomA s) : DomB s := by
  intro c hc
  have := h c hc
  simp only [domCharA, hamp, Bool.false_or, Bool.and_eq_true, bne_iff_ne, ne_eq] at this
  simp [domCharB, this.1, this.2]

theorem domA_no_amp (hamp : HtmlBound.amp = false) {s : Str} (h : DomA s) : '&' ∉ s := by
  intro hm
  have := domB_of_domA hamp h _ hm
  simp [domCharB] at this

theorem domA_no_lt {s : Str} (h : DomA s) : '<' ∉ s := by
  intro hm
  have := h _ hm
  simp [domCharA] at this

/-- with ampersands the domain is "no `<`" -/
theorem domA_of_no_lt (hamp : HtmlBound.amp = true) {s : Str} (h : '<' ∉ s) : DomA s := by
  intro c hc
  have : c ≠ '<' := fun e => h (e ▸ hc)
  simp [domCharA, hamp, this]

theorem domCharA_of_ne {c : Char} (h1 : c ≠ '<') (h2 : c ≠ '&') : domCharA c = true := by
  simp [domCharA, h1, h2]

theorem domCharA_of_domChar {esc : Bool} {c : Char} (h : domChar esc c = true) : domCharA c = true :=
  domCharA_of_domCharB (MdVerif.NoCtl.domCharB_of_domChar h)

theorem domA_of_domS {esc : Bool} {s : Str} (h : DomS esc s) : DomA s := fun c hc => domCharA_of_domChar (h c hc)

theorem domA_of_domAmp {s : Str} (h : DomAmp HtmlBound.amp s) : DomA s := by
  intro c hc
  have h1 : c ≠ '<' := fun e => h.1 (e ▸ hc)
  cases hamp : HtmlBound.amp with
  | true => simp [domCharA, hamp, h1]
  | false =>
    have h2 : c ≠ '&' := fun e => h.2 hamp (e ▸ hc)
    exact domCharA_of_ne h1 h2

theorem domAmp_of_domA {s : Str} (h : DomA s) : DomAmp HtmlBound.amp s :=
  ⟨domA_no_lt h, fun hamp => domA_no_amp hamp h⟩

/-! ### `HtmlOK` -/

theorem HtmlOK.rfl {a : List Str} : HtmlOK a a := ⟨⟨[], by simp, by simp⟩, fun _ => _root_.rfl⟩

theorem HtmlOK.of_eq {a b : List Str} (h : b = a) : HtmlOK b a := h ▸ HtmlOK.rfl

/-- `c` behind `b` behind `a` (same order of arguments as `Eq.trans` on `st'.html = st.html`) -/
theorem HtmlOK.trans {a b c : List Str} (h2 : HtmlOK c b) (h1 : HtmlOK b a) : HtmlOK c a := by
  obtain ⟨⟨l1, e1, p1⟩, q1⟩ := h1
  obtain ⟨⟨l2, e2, p2⟩, q2⟩ := h2
  refine ⟨⟨l1 ++ l2, by rw [e2, e1, List.append_assoc], ?_⟩, fun ha => (q2 ha).trans (q1 ha)⟩
  intro e he
  rcases List.mem_append.1 he with he | he
  · exact p1 e he
  · exact p2 e he

theorem HtmlOK.length_le {a b : List Str} (h : HtmlOK b a) : a.length ≤ b.length := by
  obtain ⟨⟨l, e, -⟩, -⟩ := h
  rw [e, List.length_append]; omega

/-- one more entry, in a domain with ampersands -/
theorem HtmlOK.push (hamp : HtmlBound.amp = true) (a : List Str) {e : Str} (he : NoCtl e) : HtmlOK (a ++ [e]) a :=
  ⟨⟨[e], _root_.rfl, by simpa using he⟩, fun h => by rw [hamp] at h; cases h⟩

/-- the entries behind the step are free of STX/ETX when those before it are -/
theorem HtmlOK.noCtl {a b : List Str} (h : HtmlOK b a) (ha : ∀ e ∈ a, NoCtl e) : ∀ e ∈ b, NoCtl e := by
  obtain ⟨⟨l, e, p⟩, -⟩ := h
  intro x hx
  rw [e] at hx
  rcases List.mem_append.1 hx with hx | hx
  · exact ha x hx
  · exact p x hx

/-! ### the raw-HTML placeholder as a string item of the inline stash -/

/-- what the entity pattern leaves in the text: `STX wzxhzdk:N ETX` -/
theorem htmlPh_eq (n : Nat) : Inline.htmlPrefix ++ natToDec n ++ [ETX] = frnToken (htmlBody n) := by
  unfold frnToken htmlBody Inline.htmlPrefix
  simp only [List.cons_append, List.append_assoc]

theorem frnBody_html {n : Nat} (h : n < HtmlBound.h) : frnBody (htmlBody n) := .inr ⟨n, h, rfl⟩

theorem wf_htmlToken {esc : Bool} {k n : Nat} (h : n < HtmlBound.h) : WF esc k (frnToken (htmlBody n)) :=
  wf_frnToken (frnBody_html h)

/-- a character of a raw-HTML placeholder (any number) -/
theorem mem_htmlToken {n : Nat} {c : Char} (h : c ∈ frnToken (htmlBody n)) : c = STX ∨ c = ETX ∨ inner c = true := by
  simp only [frnToken, List.mem_cons, List.mem_append, List.not_mem_nil, or_false] at h
  rcases h with (h | h) | h
  · exact .inl h
  · exact .inr (.inr (htmlBody_inner n c h))
  · exact .inr (.inl h)

theorem not_mem_htmlToken {n : Nat} {c : Char} (h1 : c ≠ STX) (h2 : c ≠ ETX) (h3 : inner c = false) :
    c ∉ frnToken (htmlBody n) := by
  intro h
  rcases mem_htmlToken h with e | e | e
  · exact h1 e
  · exact h2 e
  · rw [h3] at e; cases e

theorem domA_htmlToken (n : Nat) : DomA (frnToken (htmlBody n)) := by
  intro c hc
  refine domCharA_of_ne ?_ ?_
  · rintro rfl; exact not_mem_htmlToken (by decide) (by decide) (by decide) hc
  · rintro rfl; exact not_mem_htmlToken (by decide) (by decide) (by decide) hc

theorem sepOK3_htmlToken (n : Nat) : SepOK3 (frnToken (htmlBody n)) :=
  ⟨⟨by simp [frnToken], not_mem_htmlToken (by decide) (by decide) (by decide),
    not_mem_htmlToken (by decide) (by decide) (by decide)⟩,
   not_mem_htmlToken (by decide) (by decide) (by decide), not_mem_htmlToken (by decide) (by decide) (by decide),
   not_mem_htmlToken (by decide) (by decide) (by decide), not_mem_htmlToken (by decide) (by decide) (by decide)⟩

end MdVerif.NoCtlF
