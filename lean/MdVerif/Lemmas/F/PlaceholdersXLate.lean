/-
The generic tail of `PipelineX.convertX` WITH the footnotes extension (generated skeleton of
`MdVerif/Lemmas/PlaceholdersXLate.lean`, rewritten by hand): everything behind `FootnotePostTreeprocessor` — prettify 10,
attr_list 8, abbr 7, toc 5, unescape 0, the serialiser, `finishX` — on a tree of F-`FNodeX` elements (escape tokens and
footnote tokens).  The footnote tokens survive up to the serialised string (`WF false 0`) and are removed by
`FootnotePostprocessor` (`postprocess_noctl_of` of worker p1, through `wf_fnWF`).
-/
import MdVerif.Lemmas.PlaceholdersXLate
import MdVerif.Lemmas.F.PlaceholdersXToc2
import MdVerif.Lemmas.F.PlaceholdersXTree
import MdVerif.Lemmas.F.PlaceholdersXAttr
import MdVerif.Lemmas.F.PlaceholdersXRawF

namespace MdVerif.NoCtlXF
variable [MdVerif.NoCtlF.HtmlBound]
set_option linter.unusedSectionVars false
open Py
open MdVerif.NoCtl hiding Bnd Clean Covered DNode DNode.mono DNode.toW EscOK FMSpec FNode FNodeX FoundOK HIOut HIOut.trans HISpec HIok IsTok ItemOK NestedOK Out Out.set_tail Out.tail PPInv PPInv.cons PPInv.reverse PPSpec RInv RawNode SNode SNode.mono SNode.toW Splice StOK StOK.push StrW StrW.mono TNode Unclean VInv WF WF.append WF.lstrip WF.mono WF.nil WF.of_noCtl WF.ph WF.plain WF.rstrip WF.split WF.split_aux WF.strip WF.tok WFO WNode WNode.children_irrel WNode.clean WNode.mono WNode.set_tail all_clean all_clean_list applyPattern_spec attrsTok backtick_stash_ok bnd_cons_right bnd_nil_left bnd_nil_right bnd_snoc_left brNode_raw brRule_fnode domChar_inner domS_escToken domS_placeholder domS_tok elStep_spec escOK_default escape_stash_ok find_ph_escToken find_ph_wf forall_DNode_mono forall_DNode_toW forall_WNode_mono handleInline_spec hiLoop_spec hiNode_spec hiNodes_spec hiOpt_spec hiSpec_of_fmSpec inner inner_cases inner_digit inner_ne isTok_escToken isTok_placeholder linebreak_stash_ok linkText_spec mapKids_fnode mapTree_fnode noCtl_of_wf not_strong_stash_ok petTail_spec petText_spec pet_both ppLoop_spec ppTop_spec preRule_fnode prettifyETree_fnode prettifyKids_fnode prettify_fnode procKids_spec procNode_spec processPlaceholders_spec runLoop_spec run_spec space_not_inner splice_of_span splice_out strW_append strW_none strW_some strW_zero_of_not_processed tok_append_split tok_split unclean_setAt_outside unescStep_fnode unescapeKids_fnode_some unescapeText_wf unescapeText_wf_some unescapeTree_fnode unescapeTree_fnode_some visitChild_spec visitLoop_spec visit_tail visit_text wf_escToken wf_false_zero_iff wf_placeholder
open MdVerif.NoCtlF
open MdVerif.NoCtlX hiding AbbrSegsOK BlockGood SerX abbrKids_fnode abbrKids_fnodeX abbrNode_fnode abbrNode_fnodeX abbrSlot_spec abbr_run_fnode abbr_run_fnodeX abbr_run_fnodeX_of assignAttrs_tok assignPairs_tok assignStep_tok attrDel_tok attrKids_fnodeX attrList_run_fnodeX attrNode_fnodeX attrsTok_of_noCtl baseAt_wf baseFrom_wf blockApply_str blockApply_tok blockRule_good blockSearch_wf brRule_fnodeX buildDiv_fnodeX buildLi_fnode buildLis_fnode convertX_noctl_generic convertX_noctl_of_front element_wf exLateTree_fnode exTocTree_fnodeX fnodeX_of_fnode fnodeX_of_fnode' forallL_fnodeX_of_fnode forall_fnodeX_of_fnode getA_tok getAttrsAndRemainder_wf handleQuoted_wf handleWord_wf headerSearch_wf heading_eq heading_new_id heading_spec idStep_spec inlineApply_tok inlineMatch_wf kids_tails lateTreeX_fnodeX lateX_noctl late_noctl lazyUntil_wf mapKids_fnodeX mapTree_fnodeX mkAbbr_fnode nameStep_spec not_mem_tok patKeyValue_wf patQuoted_wf patWord_wf preRule_fnodeX prettifyETree_fnodeX prettifyKids_fnodeX prettify_fnodeX renderInner_noctl replKids_fnodeX replNode_fnodeX rmFnKids_serX rmFnNode_serX scanStep_wf scan_wf search_wf segs_wf segs_wf_aux serX_of_fnodeX serX_tail serialize_wf serialize_wf_list serialize_wf_node setA_tok sortAttrs_tok splitEq_wf tailOv_wf tailRes_good textRes_good tocStageX_fnodeX toc_run_fnodeX unescAttrs_tok_some unescStep_fnodeX unescapeKids_fnodeX_some unescapeTree_fnodeX unescapeTree_fnodeX_some walkKids_spec walkNode_spec wf0_cons wf0_cut wf0_cut' wf0_cut_aux wf0_dropWhile_cut wf0_drop_suffix wf0_infix wf0_of_append_right wf0_rstripP wf0_span wf0_stripP wf0_tail wf_bind_tail wf_escAttrHtml wf_escCdata wf_of_append_noctl wf_pass wf_replace_char wf_serAmpSub wf_tail_of_ne_stx writeAttrs_wf

/-- the hypotheses on the raw-HTML stash and the parameters of the grammar: every raw-HTML placeholder that the grammar
    admits is live, footnote tokens are admitted only when `FootnotePostprocessor` runs, no entry holds STX or ETX -/
structure StashOK (x : PipelineX.Exts) (stash : List Str) : Prop where
  h : HtmlBound.h ≤ stash.length
  fn : HtmlBound.fn = x.footnotes
  entries : ∀ e ∈ stash, NoCtl e

/-- the postprocessors (raw_html 30, footnote 25 when enabled, amp_substitute 20): ordinary characters, footnote
    tokens and live raw-HTML placeholders in, no STX/ETX out -/
theorem postX_fwf {x : PipelineX.Exts} (cfg : Pipeline.Cfg) {stash : List Str} (hst : StashOK x stash) :
    PostOK (PipelineX.postX x cfg stash) := by
  intro s hs o ho
  exact postX_fnOut hst.fn cfg hst.h hst.entries hs ho

/-- prettify, attr_list (when enabled) and abbr (when enabled; no abbreviation or title with STX/ETX, no abbreviation
    that is a number or the body of a footnote token) keep `FNodeX` -/
theorem lateTreeX_fnodeX (x : PipelineX.Exts) (bl : List Str) {abbrs : List (Str × Str)}
    (habbr : x.abbr = true →
      (∀ kv ∈ abbrs, NoCtl kv.1 ∧ NoCtl kv.2) ∧ noDigitsAbbr abbrs = true ∧ NoFrnAbbr abbrs)
    {t : Node} (ht : t.Forall FNodeX) : (lateTreeX x bl abbrs t).Forall FNodeX := by
  unfold lateTreeX
  simp only
  have h1 := prettify_fnodeX ht bl
  have h2 : (if x.attrList = true then AttrListTree.run bl (TreeProc.prettify t bl)
      else TreeProc.prettify t bl).Forall FNodeX := by
    split
    · exact attrList_run_fnodeX bl h1
    · exact h1
  split
  · next ha => exact abbr_run_fnodeX h2 (habbr ha).1 (habbr ha).2.1 (habbr ha).2.2
  · exact h2

/-- the toc stage (when enabled) keeps `FNodeX` -/
theorem tocStageX_fnodeX {x : PipelineX.Exts} (cfg : Pipeline.Cfg) {stash : List Str} (hst : StashOK x stash)
    {t t' : Node} (ht : t.Forall FNodeX) (h : tocStageX x cfg stash t = .ok t') : t'.Forall FNodeX := by
  unfold tocStageX at h
  split at h
  · exact toc_run_fnodeX ht h (postX_fwf cfg hst)
  · injection h with h
    subst h; exact ht

theorem find_getElem {pat s : Str} {i : Nat} (h : find pat s = some i) :
    ∀ j, j < pat.length → s[i + j]? = pat[j]? := by
  obtain ⟨pre, post, rfl, rfl, -⟩ := find_some_iff.1 h
  intro j hj
  rw [List.append_assoc, List.getElem?_append_right (by omega)]
  simp only [Nat.add_sub_cancel_left]
  rw [List.getElem?_append_left hj]

theorem rfind_getElem_zero {pat s : Str} {e : Nat} (hp : pat ≠ []) (h : Post.rfind pat s = some e) :
    s[e]? = pat[0]? := by
  unfold Post.rfind at h
  simp only [Option.map_eq_some_iff] at h
  obtain ⟨i, hi, rfl⟩ := h
  obtain ⟨pre, post, hs, rfl, -⟩ := find_some_iff.1 hi
  have hs' : s = post.reverse ++ pat ++ pre.reverse := by
    have := congrArg List.reverse hs
    simpa [List.append_assoc] using this
  have hl : s.length - pre.length - pat.length = post.reverse.length := by
    rw [hs']; simp; omega
  rw [hl, hs', List.append_assoc, List.getElem?_append_right (Nat.le_refl _)]
  simp only [Nat.sub_self]
  cases pat with
  | nil => exact absurd rfl hp
  | cons c r => rfl

/-- the stripping of `<div>` … `</div>` cuts at `>` and `<`: footnote tokens stay whole -/
theorem topLevelStrip_fwf {s out : Str} (h : WF false 0 s) (hr : Post.topLevelStrip s = some out) : WF false 0 out := by
  unfold Post.topLevelStrip at hr
  simp only at hr
  split at hr
  · next i e hi he =>
    simp only [Option.some.injEq] at hr
    subst hr
    unfold Post.topLevelStrip.sl
    have he' : s[e]? = some '<' := rfind_getElem_zero (by simp) he
    have w1 : WF false 0 (s.take e) := (wf_cut_at h he' (by decide) (by decide) (by decide)).1
    have hgt : s[i + 4]? = some '>' := find_getElem hi 4 (by decide)
    have w2 : WF false 0 ((s.take e).drop (i + "div".toList.length + 2)) := by
      show WF false 0 ((s.take e).drop (i + 4 + 1))
      by_cases hlt : i + 4 < e
      · have : (s.take e)[i + 4]? = some '>' := by rw [List.getElem?_take, if_pos hlt]; exact hgt
        exact (wf_cut_at w1 this (by decide) (by decide) (by decide)).2
      · rw [List.drop_eq_nil_of_le (by rw [List.length_take]; omega)]; exact .nil
    exact w2.strip
  · split at hr
    · simp only [Option.some.injEq] at hr
      subst hr; exact .nil
    · cases hr

/-- the end of `convertX` (`<div>` strip, raw_html 30, footnote 25 when enabled, amp_substitute 20, `.strip()`):
    ordinary characters, footnote tokens and live raw-HTML placeholders in, no STX/ETX out -/
theorem finishX_fwf {x : PipelineX.Exts} (cfg : Pipeline.Cfg) {stash : List Str} (hst : StashOK x stash)
    {output out : Str} (h : WF false 0 output) (hf : PipelineX.finishX x cfg stash output = .ok out) : NoCtl out := by
  unfold PipelineX.finishX at hf
  split at hf
  · cases hf
  · next t hs =>
    split at hf
    · cases hf
    · next r hr =>
      simp only [Pipeline.Outcome.ok.injEq] at hf
      subst hf
      exact (postX_fwf cfg hst _ (topLevelStrip_fwf h hs) _ hr).strip

/-- the tail of `treeX` behind `FootnotePostTreeprocessor` on a tree of `FNodeX` elements: the tree handed to the
    serialiser holds STX/ETX only inside foreign tokens, the stash is the same -/
theorem lateX_fwf {x : PipelineX.Exts} (cfg : Pipeline.Cfg) {stash : List Str} (hst : StashOK x stash)
    {abbrs : List (Str × Str)}
    (habbr : x.abbr = true →
      (∀ kv ∈ abbrs, NoCtl kv.1 ∧ NoCtl kv.2) ∧ noDigitsAbbr abbrs = true ∧ NoFrnAbbr abbrs)
    {t : Node} (ht : t.Forall FNodeX) {u : Node} {html : List Str}
    (h : lateX x cfg abbrs t stash = .ok u html) : TreeFWF u ∧ html = stash := by
  unfold lateX at h
  split at h
  · cases h
  · cases h
  · cases h
  · next t4 h4 =>
    split at h
    · cases h
    · next u' hu =>
      injection h with h1 h2
      subst h1 h2
      have h3 := lateTreeX_fnodeX x cfg.blockLevel habbr ht
      exact ⟨unescapeTree_fnodeX (tocStageX_fnodeX cfg hst h3 h4) hu, rfl⟩

/-- **the generic tail**: `t` = the tree after `FootnotePostTreeprocessor` (a tree of `FNodeX` elements: escape tokens
    and foreign tokens, no escape token in `code` text), `stash` the raw-HTML stash; whatever the rest of `convertX`
    answers contains neither STX nor ETX -/
theorem late_noctl_st {x : PipelineX.Exts} (cfg : Pipeline.Cfg) {stash : List Str} (hst : StashOK x stash)
    {abbrs : List (Str × Str)}
    (habbr : x.abbr = true →
      (∀ kv ∈ abbrs, NoCtl kv.1 ∧ NoCtl kv.2) ∧ noDigitsAbbr abbrs = true ∧ NoFrnAbbr abbrs)
    {t : Node} (ht : t.Forall FNodeX) {u : Node} {html : List Str} {out : Str}
    (h : lateX x cfg abbrs t stash = .ok u html)
    (hf : PipelineX.finishX x cfg html (Ser.serialize cfg.fmt u) = .ok out) : NoCtl out := by
  obtain ⟨hu, rfl⟩ := lateX_fwf cfg hst habbr ht h
  exact finishX_fwf cfg hst (serialize_fwf cfg.fmt hu) hf

/-- the generic tail with footnotes on and an empty raw-HTML stash -/
theorem late_noctl_fn {x : PipelineX.Exts} (hfn : x.footnotes = true) (hf : HtmlBound.fn = true) (cfg : Pipeline.Cfg)
    {abbrs : List (Str × Str)}
    (habbr : x.abbr = true →
      (∀ kv ∈ abbrs, NoCtl kv.1 ∧ NoCtl kv.2) ∧ noDigitsAbbr abbrs = true ∧ NoFrnAbbr abbrs)
    {t : Node} (ht : t.Forall FNodeX) {u : Node} {html : List Str} {out : Str}
    (hh : HtmlBound.h = 0) (h : lateX x cfg abbrs t [] = .ok u html)
    (hfin : PipelineX.finishX x cfg html (Ser.serialize cfg.fmt u) = .ok out) : NoCtl out :=
  late_noctl_st cfg ⟨by omega, by rw [hf, hfn], by simp⟩ habbr ht h hfin

end MdVerif.NoCtlXF
