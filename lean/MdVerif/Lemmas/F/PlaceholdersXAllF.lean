/-
The compositions along `PipelineX.convertX` for the generalised token grammar (`Spec/F/NoCtl.lean`), with the parameters
of the grammar (`HtmlBound`: number of raw-HTML stash entries, footnotes flag) instantiated — this file has NO
`variable [HtmlBound]`.

1. fenced_code off (stash empty, `⟨0, x.footnotes⟩`): `convertX_noctl_fn`, `convertX_noctl_all_fn` (worker ff's
   statements, proved through the generic tails `tail_fn`/`tail_nofn` of `Lemmas/F/PlaceholdersXFn.lean`).
2. ALL ELEVEN flags: `convertX_noctl_blk` from the preprocessor facts `PrepOK`, with the block stage on texts with
   raw-HTML placeholders (worker fc2: `XT.block_stage_own`); `prepOK_of`, `fenceOK_of_domain` (worker fc2:
   `XT.fencedRunA_own`), `convertX_noctl_eleven` on the domain.

Core Lean only.
-/
import MdVerif.Lemmas.F.PlaceholdersXFn
import MdVerif.Lemmas.F.PlaceholdersXTBlock5
import MdVerif.Lemmas.F.PlaceholdersXTFence

namespace MdVerif.NoCtlXF
open Py
open Inline hiding STX ETX
open InlineX
open MdVerif.NoCtl hiding Bnd BtInv BtSafe BuildOK BuildOKB Clean CleanB Covered DNode DNode.mono DNode.toW DataB Delim DelimB ENode ENode.toS EscOK FMSpec FMSpecB FNode FNodeX FoundOK FoundOKB GrpOK GrpOK.cut HIOut HIOut.trans HIOutB HISpec HISpecB HIok HIokB HeadOK HeadOK.close IsTok ItemOK ItemOKB ModeOK NestedOK NestedOKB Out Out.set_tail Out.tail OutB OutB.head PPInv PPInv.cons PPInv.reverse PPInvB PPInvB.finish PPOutB PPSpec PPSpecB RInv RInvB RawNode SNode SNode.mono SNode.toW SNodeB SNodeB.mono SNodeB.toW Splice SpliceB StOK StOK.push StOKB StOKB.push StrB StrB.mono StrB.toT StrS StrT StrT.mono StrW StrW.mono SubOK SubOKB TNode Unclean VInv VInvB WF WF.append WF.lstrip WF.mono WF.nil WF.of_noCtl WF.ph WF.plain WF.rstrip WF.split WF.split_aux WF.strip WF.tok WFO WNode WNode.children_irrel WNode.clean WNode.mono WNode.set_tail WNodeB WNodeB.children_irrel WNodeB.clean WNodeB.mono WNodeB.set_tail aNode_snodeB all_clean all_cleanB all_clean_list all_clean_listB applyPatternB_spec applyPattern_spec attrsTok backtick_stash_ok backtick_stash_okB bnd_cons_right bnd_nil_left bnd_nil_right bnd_snoc_left brNode_raw brNode_snodeB brRule_fnode btInv_of_done btInv_succ btSafe_of_no_stx bt_first_match buildB_spec build_spec dataB_of_strB delimB_star delimB_under delim_star delim_under dnode_append dnode_mkEl dnode_setTextOrTail domB_escToken domB_placeholder domChar_inner domS_escToken domS_placeholder domS_tok elStepB_spec elStep_spec emHandleB_spec emHandle_spec emScanB_spec emScan_spec em_stash_ok em_stash_okB enode_append enode_mkEl enode_setTextOrTail escOK_default escape_stash_ok escape_stash_okB find_ph_escToken find_ph_wf fmSpecB fmSpec_of_modeOK forall_DNode_mono forall_DNode_toW forall_SNodeB_mono forall_SNodeB_toW forall_WNode_mono forall_WNode_monoB getD_of_not_truthy grpOK_nil grpOK_strB handleInlineB_spec handleInline_spec hiLoopB_spec hiLoop_spec hiNodeB_spec hiNode_spec hiNodesB_spec hiNodes_spec hiOptB_spec hiOpt_spec hiSpecB hiSpecB_of_fmSpecB hiSpec_false hiSpec_of_fmSpec hiSpec_true inner inner_cases inner_digit inner_ne isTok_escToken isTok_placeholder linebreak_stash_ok linebreak_stash_okB linkHandle_ref_ok linkTextB_spec linkText_spec mapKids_fnode mapTree_fnode modeOK_false modeOK_true noCtl_of_wf noCtl_of_wf_no_stx not_strong_stash_ok not_strong_stash_okB parseSubB_spec parseSub_spec petTailB_spec petTail_spec petTextB_spec petText_code petText_spec pet_both pet_bothB ppLoopB_spec ppLoop_spec ppTopB_spec ppTop_spec preRule_fnode prettifyETree_fnode prettifyKids_fnode prettify_fnode procKidsB_spec procKids_spec procNodeB_spec procNode_spec processPlaceholdersB_spec processPlaceholders_spec rawNode_of_dnode runLoop_spec runLoop_specB run_spec run_specB sepOK3_placeholder sepOK_placeholder seqDecomp_wf seqMatch_spec seqMatch_specB space_not_inner spliceB_of_span spliceB_out splice_of_span splice_out strB_none strB_zero_of_not_processed strS_nil strT_none strT_of_noCtl strW_append strW_none strW_some strW_zero_of_not_processed subLoopB_spec subLoop_spec subTryB_spec subTry_spec tok_append_split tok_split unclean_setAt_outside unescStep_fnode unescapeKids_fnode_some unescapeText_wf unescapeText_wf_some unescapeTree_fnode unescapeTree_fnode_some visitChild_spec visitChild_specB visitLoop_spec visitLoop_specB visit_tail visit_tailB visit_text visit_textB wf_escToken wf_false_zero_iff wf_placeholder
open MdVerif.NoCtlF
open MdVerif.NoCtlX

/-! ## 0. facts that do not depend on the parameters of the grammar, without the instance argument -/

/-- the default escapable characters are ordinary ones that occur in no token -/
theorem escOK_default0 : EscOK Generated.escapedChars :=
  letI : HtmlBound := ⟨0, false⟩
  escOK_default

/-- with footnotes off `AbbrKeysOKF` is (stronger than) `AbbrKeysOK` -/
theorem abbrKeysOK_of_F0 {x : PipelineX.Exts} (hfn : x.footnotes = false) {cfg : Pipeline.Cfg} {src : Str}
    (h : AbbrKeysOKF x cfg src) : AbbrKeysOK x cfg src :=
  letI : HtmlBound := ⟨0, false⟩
  abbrKeysOK_of_F hfn h

/-! ## 1. fenced_code off -/

/-- **end to end with footnotes on** (fenced code off, every other flag arbitrary), on the domain of
    `C10_partial_links` (with wikilinks: no `[` immediately before a blank) -/
theorem convertX_noctl_fn {x : PipelineX.Exts} (hfc : x.fencedCode = false) (hfn : x.footnotes = true)
    {cfg : Pipeline.Cfg} (hcfg : EscOK cfg.esc) {src out : Str} (hd : C10DomainL cfg.tab src)
    (hq : Qw x.wikilinks (Normalize.normalize cfg.tab src)) (habbr : AbbrKeysOKF x cfg src)
    (h : PipelineX.convertX x cfg src = .ok out) : NoCtl out := by
  letI : HtmlBound := ⟨0, true⟩
  haveI : FnOn := ⟨rfl⟩
  rcases convertX_fn_ok hfn h with rfl | ⟨text, stash, root, log, div, log', t, xs, t', u, html, hp, hb, hm, hr, hdp, hl, hf⟩
  · exact noCtl_nil
  · obtain ⟨rfl, rfl⟩ := prepareX_nofence hfc hp
    have hP : PW x.wikilinks (Pipeline.prepare cfg src) :=
      ⟨prepare_domB cfg hd, by rw [prepare_eq_normalize cfg hd]; exact hq⟩
    obtain ⟨hroot, hlog⟩ := BlkX.parseDocumentXT_strs (strDomX_adj3q x.wikilinks) x.tables x.blockCfg cfg.tab _ hP hb
    have hrootQ : root.Forall (FnQ x.wikilinks) := Node.Forall.mono (fun _ hn => fnQ_of_bnodeXP hn) root hroot
    refine tail_fn hfn hcfg ⟨Nat.le_refl _, hfn.symm, by simp⟩ hrootQ hlog hm hr hdp hl hf ?_
    intro hlog' hxa
    have hk := habbr hxa
    rw [hb] at hk
    simp only [fnLog, hfn, if_true, hm] at hk
    exact ⟨abbrs_noctl hlog', hk.1, noFrnAbbr_spec hk.2 (fun _ => rfl) (fun h0 => absurd h0 (Nat.lt_irrefl 0))⟩

/-- **end to end with every extension but fenced_code** -/
theorem convertX_noctl_all_fn {x : PipelineX.Exts} (hfc : x.fencedCode = false)
    {cfg : Pipeline.Cfg} (hcfg : EscOK cfg.esc) {src out : Str}
    (hd : C10DomainL cfg.tab src) (hq : Qw x.wikilinks (Normalize.normalize cfg.tab src))
    (habbr : AbbrKeysOKF x cfg src) (h : PipelineX.convertX x cfg src = .ok out) : NoCtl out := by
  cases hfn : x.footnotes with
  | true => exact convertX_noctl_fn hfc hfn hcfg hd hq habbr h
  | false =>
    letI : HtmlBound := ⟨0, true⟩
    exact convertX_noctl_all hfc hfn (escOK_orig_of_F hcfg) hd hq (abbrKeysOK_of_F hfn habbr) h

/-! ## 2. all eleven flags -/

/-- **what the preprocessors deliver** (normalize_whitespace 30, fenced_code_block 25, html_block 20): in the text
    handed to the block parser every STX/ETX belongs to a live raw-HTML placeholder that is a block of its own
    (`OwnBlock`, worker fc2), the text is of the domain, and no stash entry holds STX or ETX -/
def PrepOK (x : PipelineX.Exts) (cfg : Pipeline.Cfg) (src : Str) : Prop :=
  ∀ text stash, PipelineX.prepareX x cfg src = .ok (text, stash) →
    OwnBlock stash.length text ∧ DomB text ∧ Adj3 text ∧ Qw x.wikilinks text ∧ ∀ e ∈ stash, NoCtl e

/-- the abbreviation table that `AbbrTreeprocessor` works with: the abbreviations of the log of the block stage and
    of `FootnoteTreeprocessor` (`none`: some stage before it does not answer) -/
def abbrsX (x : PipelineX.Exts) (cfg : Pipeline.Cfg) (src : Str) : Option (List (Str × Str)) :=
  match PipelineX.prepareX x cfg src with
  | .ok (text, _) =>
    match BlockExt.parseDocumentXT x.tables x.blockCfg cfg.tab text with
    | some (_, log) => (fnLog x cfg log).map BlockExt.abbrsOf
    | none => none
  | _ => none

/-- the hypothesis on the abbreviations for all eleven flags: no abbreviation of the document — those defined inside
    footnote bodies included — is a number (F-C10-6), with footnotes none is the body of one of the two footnote tokens,
    with fenced_code none can cut a raw-HTML placeholder (`htmlCutKey`: `wzxhzdk`, `wzxhzdk:`, `wzxhzdk:`+digits, `:`,
    `:`+digits); read off the log of the block stage and of `FootnoteTreeprocessor`; decidable -/
def AbbrKeysOKA (x : PipelineX.Exts) (cfg : Pipeline.Cfg) (src : Str) : Prop :=
  x.abbr = true → ∀ abbrs, abbrsX x cfg src = some abbrs →
    noDigitsAbbr abbrs = true ∧ noFrnAbbr x.footnotes x.fencedCode abbrs = true

instance (x : PipelineX.Exts) (cfg : Pipeline.Cfg) (src : Str) : Decidable (AbbrKeysOKA x cfg src) := by
  unfold AbbrKeysOKA
  cases abbrsX x cfg src with
  | none => exact isTrue (by intro _ a ha; cases ha)
  | some a =>
    exact decidable_of_iff
      (x.abbr = true → noDigitsAbbr a = true ∧ noFrnAbbr x.footnotes x.fencedCode a = true)
      ⟨fun H hx b hb => by cases hb; exact H hx, fun H hx => H hx a rfl⟩

/-- without fenced_code the raw-HTML stash is empty -/
theorem stash_pos_fenced {x : PipelineX.Exts} {cfg : Pipeline.Cfg} {src text : Str} {stash : List Str}
    (hp : PipelineX.prepareX x cfg src = .ok (text, stash)) (h : 0 < stash.length) : x.fencedCode = true := by
  cases hfc : x.fencedCode with
  | true => rfl
  | false =>
    obtain ⟨-, rfl⟩ := prepareX_nofence hfc hp
    exact absurd h (Nat.lt_irrefl 0)

/-- no placeholder is admitted: the text holds neither STX nor ETX -/
theorem noCtl_of_ownBlock_zero {s : Str} (h : OwnBlock 0 s) : NoCtl s := by
  constructor
  · intro hm
    obtain ⟨u, w, e⟩ := List.append_of_mem hm
    obtain ⟨n, _, hn, _⟩ := h.1 u w e
    exact absurd hn (Nat.not_lt_zero n)
  · intro hm
    obtain ⟨u, w, e⟩ := List.append_of_mem hm
    obtain ⟨n, _, hn, _⟩ := h.2 u w e
    exact absurd hn (Nat.not_lt_zero n)

theorem allC_pDom_of {s : Str} (hn : NoCtl s) (hd : DomB s) : Blk.AllC pDom s := by
  intro c hc
  have h1 : c ≠ STX := fun e => hn.1 (e ▸ hc)
  have h2 : c ≠ ETX := fun e => hn.2 (e ▸ hc)
  simp only [Bool.and_eq_true]
  exact ⟨by simp [Blk.okc, h1, h2], hd c hc⟩

/-- **the block stage for all flags**: fc2's `block_stage_own` with fenced_code (positive tab length), b1's
    `parseDocumentXT_strs` without (any tab length) -/
theorem block_stage_all [HtmlBound] {x : PipelineX.Exts} {cfg : Pipeline.Cfg}
    (htab : x.fencedCode = true → 0 < cfg.tab) {src text : Str} {stash : List Str}
    (hh : HtmlBound.h = stash.length) (hp : PipelineX.prepareX x cfg src = .ok (text, stash))
    (ho : OwnBlock stash.length text) (hd : DomB text) (ha : Adj3 text) (hq : Qw x.wikilinks text)
    {root : Node} {log : Block.Refs}
    (hb : BlockExt.parseDocumentXT x.tables x.blockCfg cfg.tab text = some (root, log)) :
    root.Forall (FnQ x.wikilinks) ∧ BlkX.LogC pDom (PW x.wikilinks) log := by
  cases hfc : x.fencedCode with
  | true =>
    rw [← hh] at ho
    obtain ⟨hroot, hlog⟩ := XT.block_stage_own x.wikilinks x.tables x.blockCfg (htab hfc) ho hd ha hq hb
    exact ⟨Node.Forall.mono (fun _ hn => hn) root hroot, hlog⟩
  | false =>
    obtain ⟨-, rfl⟩ := prepareX_nofence hfc hp
    have hP : PW x.wikilinks text := ⟨⟨allC_pDom_of (noCtl_of_ownBlock_zero ho) hd, ha⟩, hq⟩
    obtain ⟨hroot, hlog⟩ := BlkX.parseDocumentXT_strs (strDomX_adj3q x.wikilinks) x.tables x.blockCfg cfg.tab _ hP hb
    exact ⟨Node.Forall.mono (fun _ hn => fnQ_of_bnodeXP hn) root hroot, hlog⟩

/-- **end to end, all eleven flags**, from the facts about the preprocessors (`PrepOK`) -/
theorem convertX_noctl_blk {x : PipelineX.Exts} {cfg : Pipeline.Cfg} (hcfg : EscOK cfg.esc)
    (htab : x.fencedCode = true → 0 < cfg.tab)
    {src out : Str} (hprep : PrepOK x cfg src) (habbr : AbbrKeysOKA x cfg src)
    (h : PipelineX.convertX x cfg src = .ok out) : NoCtl out := by
  cases hfn : x.footnotes with
  | true =>
    have hunf := by
      letI : HtmlBound := ⟨0, true⟩
      exact convertX_fn_ok hfn h
    rcases hunf with rfl | ⟨text, stash, root, log, div, log', t, xs, t', u, html, hp, hb, hm, hr, hdp, hl, hf⟩
    · exact noCtl_nil
    · obtain ⟨ho, hd, ha, hq, he⟩ := hprep text stash hp
      letI : HtmlBound := ⟨stash.length, x.footnotes⟩
      haveI : FnOn := ⟨hfn⟩
      obtain ⟨hrootQ, hlog⟩ := block_stage_all htab rfl hp ho hd ha hq hb
      refine tail_fn hfn hcfg ⟨Nat.le_refl _, rfl, he⟩ hrootQ hlog hm hr hdp hl hf ?_
      intro hlog' hxa
      have hk := habbr hxa (BlockExt.abbrsOf log') (by simp only [abbrsX, hp, hb, fnLog, hfn, if_true, hm, Option.map_some])
      exact ⟨abbrs_noctl hlog', hk.1, noFrnAbbr_spec hk.2 (fun _ => hfn) (fun h0 => stash_pos_fenced hp h0)⟩
  | false =>
    rcases convertX_front_ok hfn h with rfl | ⟨text, stash, root, log, t, xs, u, html, hp, hb, hr, hl, hf⟩
    · exact noCtl_nil
    · obtain ⟨ho, hd, ha, hq, he⟩ := hprep text stash hp
      letI : HtmlBound := ⟨stash.length, x.footnotes⟩
      obtain ⟨hrootQ, hlog⟩ := block_stage_all htab rfl hp ho hd ha hq hb
      refine tail_nofn hfn hcfg ⟨Nat.le_refl _, rfl, he⟩ hrootQ hlog hr hl hf ?_
      intro hxa
      have hk := habbr hxa (BlockExt.abbrsOf log)
        (by simp only [abbrsX, hp, hb, fnLog, hfn, Bool.false_eq_true, if_false, Option.map_some])
      refine ⟨abbrs_noctl hlog, hk.1, noFrnAbbr_spec hk.2 (fun h1 => ?_) (fun h0 => stash_pos_fenced hp h0)⟩
      exact h1

/-! ## 3. the preprocessors -/

/-- a text without STX/ETX has every placeholder in a block of its own -/
theorem ownBlock_of_noCtl (h : Nat) {s : Str} (hs : NoCtl s) : OwnBlock h s := by
  refine ⟨fun u w e => ?_, fun u w e => ?_⟩
  · exact absurd (by rw [e]; simp) hs.1
  · exact absurd (by rw [e]; simp) hs.2

/-- **what `FencedBlockPreprocessor` delivers** on a text `t` (worker fc2, `Lemmas/F/PlaceholdersXTFence.lean`) -/
def FenceOK (wl : Bool) (t : Str) : Prop :=
  ∀ t' stash, Fenced.fencedRunA t = .ok t' stash →
    OwnBlock stash.length t' ∧ DomB t' ∧ Adj3 t' ∧ Qw wl t' ∧ ∀ e ∈ stash, NoCtl e

theorem amp_not_mem_of_domB {s : Str} (h : DomB s) : '&' ∉ s := by
  intro hm
  have := h _ hm
  simp [domCharB] at this

/-- the preprocessors on the domain: normalize_whitespace, the fenced_code preprocessor (when enabled), and the
    raw-HTML preprocessor, which is the identity on a text without `&` and `<` -/
theorem prepOK_of {x : PipelineX.Exts} {cfg : Pipeline.Cfg} {src : Str} (hd : C10DomainL cfg.tab src)
    (hq : Qw x.wikilinks (Normalize.normalize cfg.tab src))
    (hf : x.fencedCode = true → FenceOK x.wikilinks (Normalize.normalize cfg.tab src)) : PrepOK x cfg src := by
  intro text stash hp
  cases hfc : x.fencedCode with
  | false =>
    obtain ⟨rfl, rfl⟩ := prepareX_nofence hfc hp
    have h1 := prepare_domB cfg hd
    have h2 := allC_domB h1.1
    refine ⟨ownBlock_of_noCtl _ h2.1, h2.2, h1.2, ?_, by simp⟩
    rw [prepare_eq_normalize cfg hd]; exact hq
  | true =>
    unfold PipelineX.prepareX at hp
    simp only [hfc, if_true] at hp
    split at hp
    · cases hp
    · split at hp
      · cases hp
      · split at hp
        · next t' st hrun =>
          injection hp with hp
          simp only [Prod.mk.injEq] at hp
          obtain ⟨rfl, rfl⟩ := hp
          obtain ⟨h1, h2, h3, h4, h5⟩ := hf hfc t' st hrun
          rw [extract_no_amp (amp_not_mem_of_domB h2)]
          exact ⟨h1, h2, h3, h4, h5⟩
        · cases hp

/-- `FencedBlockPreprocessor` on the normalised text of a source of the domain (fc2's `XT.fencedRunA_own`) -/
theorem fenceOK_of_domain {wl : Bool} {cfg : Pipeline.Cfg} {src : Str} (hd : C10DomainL cfg.tab src)
    (hq : Qw wl (Normalize.normalize cfg.tab src)) : FenceOK wl (Normalize.normalize cfg.tab src) := by
  intro t' stash hrun
  have h1 := prepare_domB cfg hd
  rw [prepare_eq_normalize cfg hd] at h1
  have h2 := allC_domB h1.1
  obtain ⟨⟨o1, o2, o3, o4⟩, o5⟩ := XT.fencedRunA_own wl hrun h2.1 h2.2 h1.2 hq
  exact ⟨o1, o2, o3, o4, o5⟩

/-- **end to end, all eleven flags, on the domain** -/
theorem convertX_noctl_eleven {x : PipelineX.Exts} {cfg : Pipeline.Cfg} (hcfg : EscOK cfg.esc)
    (htab : x.fencedCode = true → 0 < cfg.tab) {src out : Str} (hd : C10DomainL cfg.tab src)
    (hq : Qw x.wikilinks (Normalize.normalize cfg.tab src)) (habbr : AbbrKeysOKA x cfg src)
    (h : PipelineX.convertX x cfg src = .ok out) : NoCtl out :=
  convertX_noctl_blk hcfg htab (prepOK_of hd hq (fun _ => fenceOK_of_domain hd hq)) habbr h

/-- the flags only weaken the hypothesis on the abbreviations -/
theorem noFrnAbbr_mono {fn fc : Bool} {abbrs : List (Str × Str)} (h : noFrnAbbr true fc abbrs = true) :
    noFrnAbbr fn fc abbrs = true := by
  simp only [noFrnAbbr, List.all_eq_true, Bool.and_eq_true, Bool.or_eq_true, Bool.not_eq_eq_eq_not, Bool.not_true,
    decide_eq_false_iff_not] at h ⊢
  intro kv hkv
  obtain ⟨h1, h2⟩ := h kv hkv
  refine ⟨?_, h2⟩
  rcases h1 with h1 | h1
  · cases h1
  · exact .inr h1

/-- without fenced_code the hypothesis of `C10X_partial_footnotes` implies the one for all eleven flags -/
theorem abbrKeysOKA_of_F {x : PipelineX.Exts} (hfc : x.fencedCode = false) {cfg : Pipeline.Cfg} {src : Str}
    (h : AbbrKeysOKF x cfg src) : AbbrKeysOKA x cfg src := by
  intro hxa abbrs hab
  have hk := h hxa
  unfold abbrsX at hab
  split at hab
  · next text st hp =>
    obtain ⟨rfl, rfl⟩ := prepareX_nofence hfc hp
    split at hab
    · next r log hb =>
      rw [hb] at hk
      simp only at hk
      cases hl : fnLog x cfg log with
      | none => rw [hl] at hab; cases hab
      | some log' =>
        rw [hl] at hab hk
        simp only [Option.map_some, Option.some.injEq] at hab
        subst hab
        simp only at hk
        rw [hfc]
        exact ⟨hk.1, noFrnAbbr_mono hk.2⟩
    · cases hab
  · cases hab

end MdVerif.NoCtlXF
