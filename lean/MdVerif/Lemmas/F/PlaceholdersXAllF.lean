/-
The compositions along `PipelineX.convertX` for the generalised token grammar (`Spec/F/NoCtl.lean`), with the parameters
of the grammar (`HtmlBound`: number of raw-HTML stash entries, footnotes flag) instantiated — this file has NO
`variable [HtmlBound]`.

1. ALL ELEVEN flags, with or without ampersands (`amp`): `convertX_noctl_blk` from the preprocessor facts `PrepOK amp`,
   with the block stage on texts with raw-HTML placeholders (worker fc2: `XT.block_stage_own`); the parameters of the
   grammar are `⟨xs.st.html.length, x.footnotes, amp⟩`: the length of the raw-HTML stash BEHIND the inline stage (which
   appends the entities that the entity pattern finds when `amp`), the footnotes flag, the ampersand flag.
2. the preprocessors: `prepOK_of` (normalize_whitespace, fenced_code — worker fc2: `XT.fencedRunA_own` —, and the raw-HTML
   preprocessor `Extract.extract`, which only inserts `;` behind unterminated character references: worker amp,
   `Lemmas/F/PlaceholdersAmpExtract.lean`).
3. on the domains: `convertX_noctl_eleven` ("no `<`, no `&`": the statement of workers fc1/fc2, now the instance
   `amp = false`), `convertX_noctl_eleven_amp` ("no `<`"), and the fenced_code-off corollaries `convertX_noctl_fn`,
   `convertX_noctl_all_fn` (worker ff's statements).

Core Lean only.
-/
import MdVerif.Lemmas.F.PlaceholdersXFn
import MdVerif.Lemmas.F.PlaceholdersXTBlock5
import MdVerif.Lemmas.F.PlaceholdersXTFence
import MdVerif.Lemmas.F.PlaceholdersAmpExtract

namespace MdVerif.NoCtlXF
open Py
open Inline hiding STX ETX
open InlineX
open MdVerif.NoCtl hiding Bnd BtInv BtSafe BuildOK BuildOKB Clean CleanB Covered DNode DNode.mono DNode.toW DataB Delim DelimB ENode ENode.toS EscOK FMSpec FMSpecB FNode FNodeX FoundOK FoundOKB GrpOK GrpOK.cut HIOut HIOut.trans HIOutB HISpec HISpecB HIok HIokB HeadOK HeadOK.close IsTok ItemOK ItemOKB ModeOK NestedOK NestedOKB Out Out.set_tail Out.tail OutB OutB.head PPInv PPInv.cons PPInv.reverse PPInvB PPInvB.finish PPOutB PPSpec PPSpecB RInv RInvB RawNode SNode SNode.mono SNode.toW SNodeB SNodeB.mono SNodeB.toW Splice SpliceB StOK StOK.push StOKB StOKB.push StrB StrB.mono StrB.toT StrS StrT StrT.mono StrW StrW.mono SubOK SubOKB TNode Unclean VInv VInvB WF WF.append WF.lstrip WF.mono WF.nil WF.of_noCtl WF.ph WF.plain WF.rstrip WF.split WF.split_aux WF.strip WF.tok WFO WNode WNode.children_irrel WNode.clean WNode.mono WNode.set_tail WNodeB WNodeB.children_irrel WNodeB.clean WNodeB.mono WNodeB.set_tail aNode_snodeB all_clean all_cleanB all_clean_list all_clean_listB applyPatternB_spec applyPattern_spec attrsTok backtick_stash_ok backtick_stash_okB bnd_cons_right bnd_nil_left bnd_nil_right bnd_snoc_left brNode_raw brNode_snodeB brRule_fnode btInv_of_done btInv_succ btSafe_of_no_stx bt_first_match buildB_spec build_spec dataB_of_strB delimB_star delimB_under delim_star delim_under dnode_append dnode_mkEl dnode_setTextOrTail domB_escToken domB_placeholder domChar_inner domS_escToken domS_placeholder domS_tok elStepB_spec elStep_spec emHandleB_spec emHandle_spec emScanB_spec emScan_spec em_stash_ok em_stash_okB enode_append enode_mkEl enode_setTextOrTail escOK_default escape_stash_ok escape_stash_okB find_ph_escToken find_ph_wf fmSpecB fmSpec_of_modeOK forall_DNode_mono forall_DNode_toW forall_SNodeB_mono forall_SNodeB_toW forall_WNode_mono forall_WNode_monoB getD_of_not_truthy grpOK_nil grpOK_strB handleInlineB_spec handleInline_spec hiLoopB_spec hiLoop_spec hiNodeB_spec hiNode_spec hiNodesB_spec hiNodes_spec hiOptB_spec hiOpt_spec hiSpecB hiSpecB_of_fmSpecB hiSpec_false hiSpec_of_fmSpec hiSpec_true inner inner_cases inner_digit inner_ne isTok_escToken isTok_placeholder linebreak_stash_ok linebreak_stash_okB linkHandle_ref_ok linkTextB_spec linkText_spec mapKids_fnode mapTree_fnode modeOK_false modeOK_true noCtl_of_wf noCtl_of_wf_no_stx not_strong_stash_ok not_strong_stash_okB parseSubB_spec parseSub_spec petTailB_spec petTail_spec petTextB_spec petText_code petText_spec pet_both pet_bothB ppLoopB_spec ppLoop_spec ppTopB_spec ppTop_spec preRule_fnode prettifyETree_fnode prettifyKids_fnode prettify_fnode procKidsB_spec procKids_spec procNodeB_spec procNode_spec processPlaceholdersB_spec processPlaceholders_spec rawNode_of_dnode runLoop_spec runLoop_specB run_spec run_specB sepOK3_placeholder sepOK_placeholder seqDecomp_wf seqMatch_spec seqMatch_specB space_not_inner spliceB_of_span spliceB_out splice_of_span splice_out strB_none strB_zero_of_not_processed strS_nil strT_none strT_of_noCtl strW_append strW_none strW_some strW_zero_of_not_processed subLoopB_spec subLoop_spec subTryB_spec subTry_spec tok_append_split tok_split unclean_setAt_outside unescStep_fnode unescapeKids_fnode_some unescapeText_wf unescapeText_wf_some unescapeTree_fnode unescapeTree_fnode_some visitChild_spec visitChild_specB visitLoop_spec visitLoop_specB visit_tail visit_tailB visit_text visit_textB wf_escToken wf_false_zero_iff wf_placeholder
open MdVerif.NoCtlF
open MdVerif.NoCtlX

/-! ## 0. facts that do not depend on the parameters of the grammar, without the instance argument -/

/-- the default escapable characters are ordinary ones that occur in no token -/
theorem escOK_default0 : EscOK Generated.escapedChars :=
  letI : HtmlBound := ⟨0, false, false⟩
  escOK_default

/-- with footnotes off `AbbrKeysOKF` is (stronger than) `AbbrKeysOK` -/
theorem abbrKeysOK_of_F0 {x : PipelineX.Exts} (hfn : x.footnotes = false) {cfg : Pipeline.Cfg} {src : Str}
    (h : AbbrKeysOKF x cfg src) : AbbrKeysOK x cfg src :=
  letI : HtmlBound := ⟨0, false, false⟩
  abbrKeysOK_of_F hfn h

/-! ## 1. all eleven flags -/

/-- **what the preprocessors deliver** (normalize_whitespace 30, fenced_code_block 25, html_block 20): in the text
    handed to the block parser every STX/ETX belongs to a live raw-HTML placeholder that is a block of its own
    (`OwnBlock`, worker fc2), the text is of the domain (`amp`: with or without ampersands), and no stash entry holds
    STX or ETX -/
def PrepOK (amp : Bool) (x : PipelineX.Exts) (cfg : Pipeline.Cfg) (src : Str) : Prop :=
  ∀ text stash, PipelineX.prepareX x cfg src = .ok (text, stash) →
    OwnBlock stash.length text ∧ DomAmp amp text ∧ Adj3 text ∧ Qw x.wikilinks text ∧ ∀ e ∈ stash, NoCtl e

/-- the abbreviation table that `AbbrTreeprocessor` works with: the abbreviations of the log of the block stage and
    of `FootnoteTreeprocessor` (`none`: some stage before it does not answer) -/
def abbrsX (x : PipelineX.Exts) (cfg : Pipeline.Cfg) (src : Str) : Option (List (Str × Str)) :=
  match PipelineX.prepareX x cfg src with
  | .ok (text, _) =>
    match BlockExt.parseDocumentXT x.tables x.blockCfg cfg.tab text with
    | some (_, log) => (fnLog x cfg log).map BlockExt.abbrsOf
    | none => none
  | _ => none

/-- the hypothesis on the abbreviations with a flag `hc` "the keys that cut a raw-HTML placeholder are excluded": no
    abbreviation of the document — those defined inside footnote bodies included — is a number (F-C10-6), with
    footnotes none is the body of one of the two footnote tokens, with `hc` none can cut a raw-HTML placeholder
    (`htmlCutKey`: `wzxhzdk`, `wzxhzdk:`, `wzxhzdk:`+digits, `:`, `:`+digits); read off the log of the block stage and of
    `FootnoteTreeprocessor`; decidable -/
def AbbrKeysOKH (hc : Bool) (x : PipelineX.Exts) (cfg : Pipeline.Cfg) (src : Str) : Prop :=
  x.abbr = true → ∀ abbrs, abbrsX x cfg src = some abbrs →
    noDigitsAbbr abbrs = true ∧ noFrnAbbr x.footnotes hc abbrs = true

instance (hc : Bool) (x : PipelineX.Exts) (cfg : Pipeline.Cfg) (src : Str) : Decidable (AbbrKeysOKH hc x cfg src) := by
  unfold AbbrKeysOKH
  cases abbrsX x cfg src with
  | none => exact isTrue (by intro _ a ha; cases ha)
  | some a =>
    exact decidable_of_iff
      (x.abbr = true → noDigitsAbbr a = true ∧ noFrnAbbr x.footnotes hc a = true)
      ⟨fun H hx b hb => by cases hb; exact H hx, fun H hx => H hx a rfl⟩

/-- the hypothesis on the abbreviations for a source without `&`: the keys that cut a raw-HTML placeholder are
    excluded when fenced_code is on (no other raw-HTML placeholder exists) -/
abbrev AbbrKeysOKA (x : PipelineX.Exts) (cfg : Pipeline.Cfg) (src : Str) : Prop := AbbrKeysOKH x.fencedCode x cfg src

/-- the hypothesis on the abbreviations for a source with `&`: the keys that cut a raw-HTML placeholder are excluded,
    because the entity pattern writes such placeholders (F-C10-6, second form: `&amp;\n*[0]:T`) -/
abbrev AbbrKeysOKAmp (x : PipelineX.Exts) (cfg : Pipeline.Cfg) (src : Str) : Prop := AbbrKeysOKH true x cfg src

/-- without fenced_code the raw-HTML stash of the preprocessors is empty -/
theorem stash_pos_fenced {x : PipelineX.Exts} {cfg : Pipeline.Cfg} {src text : Str} {stash : List Str}
    (hp : PipelineX.prepareX x cfg src = .ok (text, stash)) (h : 0 < stash.length) : x.fencedCode = true := by
  cases hfc : x.fencedCode with
  | true => rfl
  | false =>
    obtain ⟨-, rfl⟩ := prepareX_nofence hfc hp
    exact absurd h (Nat.lt_irrefl 0)

/-- no placeholder is admitted: the text holds neither STX nor ETX -/
theorem noCtl_of_ownBlock_zero {s : Str} (h : OwnBlock 0 s) : NoCtl s := by
  constructor
  · intro hm
    obtain ⟨u, w, e⟩ := List.append_of_mem hm
    obtain ⟨n, _, hn, _⟩ := h.1 u w e
    exact absurd hn (Nat.not_lt_zero n)
  · intro hm
    obtain ⟨u, w, e⟩ := List.append_of_mem hm
    obtain ⟨n, _, hn, _⟩ := h.2 u w e
    exact absurd hn (Nat.not_lt_zero n)

/-- **the block stage for all flags**: fc2's `block_stage_own` with fenced_code (positive tab length), b1's
    `parseDocumentXT_strs` without (any tab length) -/
theorem block_stage_all [HtmlBound] {x : PipelineX.Exts} {cfg : Pipeline.Cfg}
    (htab : x.fencedCode = true → 0 < cfg.tab) {src text : Str} {stash : List Str}
    (hh : stash.length ≤ HtmlBound.h) (hp : PipelineX.prepareX x cfg src = .ok (text, stash))
    (ho : OwnBlock stash.length text) (hd : DomA text) (ha : Adj3 text) (hq : Qw x.wikilinks text)
    {root : Node} {log : Block.Refs}
    (hb : BlockExt.parseDocumentXT x.tables x.blockCfg cfg.tab text = some (root, log)) :
    root.Forall (FnQ x.wikilinks) ∧ BlkX.LogC pDomA (PW x.wikilinks) log := by
  cases hfc : x.fencedCode with
  | true =>
    obtain ⟨hroot, hlog⟩ := XT.block_stage_own x.wikilinks x.tables x.blockCfg (htab hfc) (XT.ownBlock_mono hh ho)
      hd ha hq hb
    exact ⟨Node.Forall.mono (fun _ hn => hn) root hroot, hlog⟩
  | false =>
    obtain ⟨-, rfl⟩ := prepareX_nofence hfc hp
    have hP : PW x.wikilinks text := ⟨⟨allC_pDomA_of (noCtl_of_ownBlock_zero ho) hd, ha⟩, hq⟩
    obtain ⟨hroot, hlog⟩ := BlkX.parseDocumentXT_strs (strDomX_adj3qA x.wikilinks) x.tables x.blockCfg cfg.tab _ hP hb
    exact ⟨Node.Forall.mono (fun _ hn => fnQ_of_bnodeXP hn) root hroot, hlog⟩

/-- **end to end, all eleven flags, with (`amp = true`) or without ampersands**, from the facts about the preprocessors
    (`PrepOK amp`).  The keys that cut a raw-HTML placeholder must be excluded (`hc = true`) when fenced_code is on and
    when the domain has ampersands: the only two sources of raw-HTML placeholders. -/
theorem convertX_noctl_blk (amp hc : Bool) {x : PipelineX.Exts} {cfg : Pipeline.Cfg} (hcfg : EscOK cfg.esc)
    (htab : x.fencedCode = true → 0 < cfg.tab)
    {src out : Str} (hprep : PrepOK amp x cfg src) (habbr : AbbrKeysOKH hc x cfg src)
    (hhc1 : x.fencedCode = true → hc = true) (hhc2 : amp = true → hc = true)
    (h : PipelineX.convertX x cfg src = .ok out) : NoCtl out := by
  cases hfn : x.footnotes with
  | true =>
    have hunf := by
      letI : HtmlBound := ⟨0, true, false⟩
      exact convertX_fn_ok hfn h
    rcases hunf with rfl | ⟨text, stash, root, log, div, log', t, xs, t', u, html, hp, hb, hm, hr, hdp, hl, hf⟩
    · exact noCtl_nil
    · obtain ⟨ho, hd, ha, hq, he⟩ := hprep text stash hp
      letI : HtmlBound := ⟨xs.st.html.length, x.footnotes, amp⟩
      haveI : FnOn := ⟨hfn⟩
      have hle : stash.length ≤ xs.st.html.length := runX_hle hr
      obtain ⟨hrootQ, hlog⟩ := block_stage_all htab hle hp ho (domA_of_domAmp hd) ha hq hb
      refine tail_fn hfn hcfg rfl he hrootQ hlog hm hr rfl hdp hl hf ?_
      intro hhtml hlog' hxa
      have hk := habbr hxa (BlockExt.abbrsOf log') (by simp only [abbrsX, hp, hb, fnLog, hfn, if_true, hm, Option.map_some])
      refine ⟨abbrs_noctlA hlog', hk.1, noFrnAbbr_spec hk.2 (fun _ => hfn) (fun h0 => ?_)⟩
      cases hamp : amp with
      | true => exact hhc2 hamp
      | false =>
        have e : xs.st.html = stash := hhtml.2 hamp
        have h0' : 0 < xs.st.html.length := h0
        rw [e] at h0'
        exact hhc1 (stash_pos_fenced hp h0')
  | false =>
    rcases convertX_front_ok hfn h with rfl | ⟨text, stash, root, log, t, xs, u, html, hp, hb, hr, hl, hf⟩
    · exact noCtl_nil
    · obtain ⟨ho, hd, ha, hq, he⟩ := hprep text stash hp
      letI : HtmlBound := ⟨xs.st.html.length, x.footnotes, amp⟩
      have hle : stash.length ≤ xs.st.html.length := runX_hle hr
      obtain ⟨hrootQ, hlog⟩ := block_stage_all htab hle hp ho (domA_of_domAmp hd) ha hq hb
      refine tail_nofn hfn hcfg rfl he hrootQ hlog hr rfl hl hf ?_
      intro hhtml hxa
      have hk := habbr hxa (BlockExt.abbrsOf log)
        (by simp only [abbrsX, hp, hb, fnLog, hfn, Bool.false_eq_true, if_false, Option.map_some])
      refine ⟨abbrs_noctlA hlog, hk.1, noFrnAbbr_spec hk.2 (fun h1 => h1) (fun h0 => ?_)⟩
      cases hamp : amp with
      | true => exact hhc2 hamp
      | false =>
        have e : xs.st.html = stash := hhtml.2 hamp
        have h0' : 0 < xs.st.html.length := h0
        rw [e] at h0'
        exact hhc1 (stash_pos_fenced hp h0')

/-! ## 2. the preprocessors -/

/-- a text without STX/ETX has every placeholder in a block of its own -/
theorem ownBlock_of_noCtl (h : Nat) {s : Str} (hs : NoCtl s) : OwnBlock h s := by
  refine ⟨fun u w e => ?_, fun u w e => ?_⟩
  · exact absurd (by rw [e]; simp) hs.1
  · exact absurd (by rw [e]; simp) hs.2

/-- the source domain without its adjacency clauses: no `<`; no `&` either unless `amp` -/
theorem domAmp_normalize {amp : Bool} (tab : Nat) {src : Str} (h : DomAmp amp src) :
    DomAmp amp (Normalize.normalize tab src) := by
  refine ⟨fun hm => ?_, fun hamp hm => ?_⟩
  · rcases (Normalize.mem_normalize hm).1 with e | e | hm'
    · exact absurd e (by decide)
    · exact absurd e (by decide)
    · exact h.1 hm'
  · rcases (Normalize.mem_normalize hm).1 with e | e | hm'
    · exact absurd e (by decide)
    · exact absurd e (by decide)
    · exact h.2 hamp hm'

/-- **the preprocessors on the domain**: normalize_whitespace, the fenced_code preprocessor (when enabled; worker fc2:
    `XT.fencedRunA_own`), and the raw-HTML preprocessor, which only inserts `;` behind unterminated character references
    (`extract_semiIns`; the identity on a text without `&`) -/
theorem prepOK_of {amp : Bool} {x : PipelineX.Exts} {cfg : Pipeline.Cfg} {src : Str} (hd : DomAmp amp src)
    (ha : Adj3 (Normalize.normalize cfg.tab src)) (hq : Qw x.wikilinks (Normalize.normalize cfg.tab src)) :
    PrepOK amp x cfg src := by
  intro text stash hp
  letI : HtmlBound := ⟨0, false, amp⟩
  have hn : NoCtl (Normalize.normalize cfg.tab src) := normalize_noctl cfg.tab src
  have hdn : DomA (Normalize.normalize cfg.tab src) := domA_of_domAmp (domAmp_normalize cfg.tab hd)
  -- behind the raw-HTML preprocessor
  have key : ∀ t' : Str, OwnBlock stash.length t' → DomA t' → Adj3 t' → Qw x.wikilinks t' →
      OwnBlock stash.length (Extract.extract t') ∧ DomAmp amp (Extract.extract t') ∧ Adj3 (Extract.extract t') ∧
        Qw x.wikilinks (Extract.extract t') := by
    intro t' h1 h2 h3 h4
    have hi := extract_semiIns t'
    exact ⟨ownBlock_semiIns hi h1, domAmp_of_domA (domA_semiIns hi h2), adj3_semiIns hi h3, qw_semiIns hi h4⟩
  unfold PipelineX.prepareX at hp
  simp only at hp
  split at hp
  · cases hp
  · split at hp
    · split at hp
      · cases hp
      · split at hp
        · next t' st hrun =>
          injection hp with hp
          simp only [Prod.mk.injEq] at hp
          obtain ⟨rfl, rfl⟩ := hp
          obtain ⟨⟨o1, o2, o3, o4⟩, o5⟩ := XT.fencedRunA_own x.wikilinks hrun hn hdn ha hq
          obtain ⟨k1, k2, k3, k4⟩ := key t' o1 o2 o3 o4
          exact ⟨k1, k2, k3, k4, o5⟩
        · cases hp
    · injection hp with hp
      simp only [Prod.mk.injEq] at hp
      obtain ⟨rfl, rfl⟩ := hp
      obtain ⟨k1, k2, k3, k4⟩ := key _ (ownBlock_of_noCtl _ hn) hdn ha hq
      exact ⟨k1, k2, k3, k4, by simp⟩

/-! ## 3. on the domains -/

/-- **end to end, all eleven flags, on the domain without `<` and `&`** (workers fc1/fc2; now the instance `amp = false`
    of the chain) -/
theorem convertX_noctl_eleven {x : PipelineX.Exts} {cfg : Pipeline.Cfg} (hcfg : EscOK cfg.esc)
    (htab : x.fencedCode = true → 0 < cfg.tab) {src out : Str} (hd : C10DomainL cfg.tab src)
    (hq : Qw x.wikilinks (Normalize.normalize cfg.tab src)) (habbr : AbbrKeysOKA x cfg src)
    (h : PipelineX.convertX x cfg src = .ok out) : NoCtl out :=
  convertX_noctl_blk false x.fencedCode hcfg htab (prepOK_of (domAmp_of_domB hd.1) hd.2 hq) habbr (fun h => h)
    (fun h => by cases h) h

/-- **end to end, all eleven flags, on the domain without `<`** — ampersands, entities and character references
    allowed; the abbreviation keys that cut a raw-HTML placeholder are excluded whether or not fenced_code is on -/
theorem convertX_noctl_eleven_amp {x : PipelineX.Exts} {cfg : Pipeline.Cfg} (hcfg : EscOK cfg.esc)
    (htab : x.fencedCode = true → 0 < cfg.tab) {src out : Str} (hlt : '<' ∉ src)
    (ha : Adj3 (Normalize.normalize cfg.tab src)) (hq : Qw x.wikilinks (Normalize.normalize cfg.tab src))
    (habbr : AbbrKeysOKAmp x cfg src) (h : PipelineX.convertX x cfg src = .ok out) : NoCtl out :=
  convertX_noctl_blk true true hcfg htab (prepOK_of ⟨hlt, fun h => by cases h⟩ ha hq) habbr (fun _ => rfl)
    (fun _ => rfl) h

/-- the flags only weaken the hypothesis on the abbreviations -/
theorem noFrnAbbr_mono {fn fc : Bool} {abbrs : List (Str × Str)} (h : noFrnAbbr true fc abbrs = true) :
    noFrnAbbr fn fc abbrs = true := by
  simp only [noFrnAbbr, List.all_eq_true, Bool.and_eq_true, Bool.or_eq_true, Bool.not_eq_eq_eq_not, Bool.not_true,
    decide_eq_false_iff_not] at h ⊢
  intro kv hkv
  obtain ⟨h1, h2⟩ := h kv hkv
  refine ⟨?_, h2⟩
  rcases h1 with h1 | h1
  · cases h1
  · exact .inr h1

theorem noFrnAbbr_mono_fc {fn fc : Bool} {abbrs : List (Str × Str)} (h : noFrnAbbr fn true abbrs = true) :
    noFrnAbbr fn fc abbrs = true := by
  simp only [noFrnAbbr, List.all_eq_true, Bool.and_eq_true, Bool.or_eq_true, Bool.not_eq_eq_eq_not, Bool.not_true,
    decide_eq_false_iff_not] at h ⊢
  intro kv hkv
  obtain ⟨h1, h2⟩ := h kv hkv
  refine ⟨h1, ?_⟩
  rcases h2 with h2 | h2
  · cases h2
  · exact .inr h2

/-- the hypothesis for sources with `&` implies the one for sources without -/
theorem abbrKeysOKA_of_amp {x : PipelineX.Exts} {cfg : Pipeline.Cfg} {src : Str} (h : AbbrKeysOKAmp x cfg src) :
    AbbrKeysOKA x cfg src :=
  fun hxa abbrs hab => ⟨(h hxa abbrs hab).1, noFrnAbbr_mono_fc (h hxa abbrs hab).2⟩

/-- without fenced_code the hypothesis of `C10X_partial_footnotes` implies the one for all eleven flags -/
theorem abbrKeysOKA_of_F {x : PipelineX.Exts} (hfc : x.fencedCode = false) {cfg : Pipeline.Cfg} {src : Str}
    (h : AbbrKeysOKF x cfg src) : AbbrKeysOKA x cfg src := by
  intro hxa abbrs hab
  have hk := h hxa
  unfold abbrsX at hab
  split at hab
  · next text st hp =>
    obtain ⟨rfl, rfl⟩ := prepareX_nofence hfc hp
    split at hab
    · next r log hb =>
      rw [hb] at hk
      simp only at hk
      cases hl : fnLog x cfg log with
      | none => rw [hl] at hab; cases hab
      | some log' =>
        rw [hl] at hab hk
        simp only [Option.map_some, Option.some.injEq] at hab
        subst hab
        simp only at hk
        rw [hfc]
        exact ⟨hk.1, noFrnAbbr_mono hk.2⟩
    · cases hab
  · cases hab

/-- **end to end with every extension but fenced_code** (worker ff's statement; a corollary of the theorem for all
    eleven flags) -/
theorem convertX_noctl_all_fn {x : PipelineX.Exts} (hfc : x.fencedCode = false)
    {cfg : Pipeline.Cfg} (hcfg : EscOK cfg.esc) {src out : Str}
    (hd : C10DomainL cfg.tab src) (hq : Qw x.wikilinks (Normalize.normalize cfg.tab src))
    (habbr : AbbrKeysOKF x cfg src) (h : PipelineX.convertX x cfg src = .ok out) : NoCtl out :=
  convertX_noctl_eleven hcfg (fun h0 => by rw [hfc] at h0; cases h0) hd hq (abbrKeysOKA_of_F hfc habbr) h

/-- **end to end with footnotes on** (fenced code off, every other flag arbitrary), on the domain of
    `C10_partial_links` (with wikilinks: no `[` immediately before a blank) -/
theorem convertX_noctl_fn {x : PipelineX.Exts} (hfc : x.fencedCode = false) (_hfn : x.footnotes = true)
    {cfg : Pipeline.Cfg} (hcfg : EscOK cfg.esc) {src out : Str} (hd : C10DomainL cfg.tab src)
    (hq : Qw x.wikilinks (Normalize.normalize cfg.tab src)) (habbr : AbbrKeysOKF x cfg src)
    (h : PipelineX.convertX x cfg src = .ok out) : NoCtl out :=
  convertX_noctl_all_fn hfc hcfg hd hq habbr h

end MdVerif.NoCtlXF
