/-
Helper lemmas for C10 with AMPERSANDS (worker amp), part 2: the raw-HTML stash never shrinks during the inline stage —
for EVERY pattern table, tree and state, without any invariant (the chain of worker f1's `findX_ext … runX_html` in
`Lemmas/PlaceholdersXRaw.lean`, which cannot be imported next to the F chain — `BlockVocab`/`BlockRef` clash —, restated
for the lengths).  The contracts of the inline stage for a domain with ampersands (`Lemmas/F/PlaceholdersX{HI,Run}.lean`)
take the bound "the raw-HTML stash of the RESULT has at most `HtmlBound.h` entries" as a hypothesis; these lemmas pass
it down to the intermediate states.

Namespace `MdVerif.NoCtlXF`.  Core Lean only.
-/
import MdVerif.Lemmas.PlaceholdersXRun

namespace MdVerif.NoCtlXF
open Py
open Inline hiding STX ETX
open InlineX
open MdVerif.NoCtlX (applyPatternX_eq elStepX)

/-- the raw-HTML stash of `x'` is at least as long as that of `x` -/
abbrev HLe (x x' : XSt) : Prop := x.st.html.length ≤ x'.st.html.length

/-- `findMatch` leaves the raw-HTML stash alone or (pattern 12) appends one entry; it never touches the inline stash -/
theorem findMatch_html_cases {cfg : Cfg} {pi : Nat} {data : Str} {si : Nat} {st st' : St} {fo : Option Found}
    (h : findMatch cfg pi data si st = some (fo, st')) :
    st'.stash = st.stash ∧ (st'.html = st.html ∨ ∃ raw, st'.html = st.html ++ [raw]) := by
  unfold findMatch at h
  simp only [] at h
  split at h
  · cases h; exact ⟨rfl, Or.inl rfl⟩
  · split at h
    case h_4 =>
      split at h
      · simp only [Option.some.injEq, Prod.mk.injEq] at h
        obtain ⟨_, rfl⟩ := h
        exact ⟨rfl, .inr ⟨_, rfl⟩⟩
      · cases h; exact ⟨rfl, Or.inl rfl⟩
    all_goals (repeat (first | (cases h <;> exact ⟨rfl, Or.inl rfl⟩) | split at h))

theorem findX_hle {xc : XCfg} {k : PatK} {data : Str} {si : Nat} {x x' : XSt} {fo : Option Found}
    (h : findX xc k data si x = some (fo, x')) : HLe x x' := by
  unfold findX at h
  cases k with
  | core i =>
    simp only at h
    split at h
    · cases h
    · next f st hf =>
      simp only [Option.some.injEq, Prod.mk.injEq] at h
      obtain ⟨_, rfl⟩ := h
      rcases (findMatch_html_cases hf).2 with e | ⟨raw, e⟩
      · show x.st.html.length ≤ st.html.length
        rw [e]; exact Nat.le_refl _
      · show x.st.html.length ≤ st.html.length
        rw [e, List.length_append]; omega
  | footnote =>
    simp only at h
    split at h
    · simp only [Option.some.injEq, Prod.mk.injEq] at h; obtain ⟨_, rfl⟩ := h; exact Nat.le_refl _
    · split at h
      · simp only [Option.some.injEq, Prod.mk.injEq] at h; obtain ⟨_, rfl⟩ := h; exact Nat.le_refl _
      · simp only [Option.some.injEq, Prod.mk.injEq] at h; obtain ⟨_, rfl⟩ := h; exact Nat.le_refl _
  | wikilink =>
    simp only at h
    split at h
    · simp only [Option.some.injEq, Prod.mk.injEq] at h; obtain ⟨_, rfl⟩ := h; exact Nat.le_refl _
    · split at h
      · simp only [Option.some.injEq, Prod.mk.injEq] at h; obtain ⟨_, rfl⟩ := h; exact Nat.le_refl _
      · simp only [Option.some.injEq, Prod.mk.injEq] at h; obtain ⟨_, rfl⟩ := h; exact Nat.le_refl _
  | nl =>
    simp only at h
    split at h
    · simp only [Option.some.injEq, Prod.mk.injEq] at h; obtain ⟨_, rfl⟩ := h; exact Nat.le_refl _
    · split at h
      · simp only [Option.some.injEq, Prod.mk.injEq] at h; obtain ⟨_, rfl⟩ := h; exact Nat.le_refl _
      · simp only [Option.some.injEq, Prod.mk.injEq] at h; obtain ⟨_, rfl⟩ := h; exact Nat.le_refl _

def HIhle (hi : HIX) : Prop := ∀ d p x d' x', hi d p x = some (d', x') → HLe x x'

theorem hiOptX_hle {hi : HIX} (hhi : HIhle hi) {t t' : Option Str} {atomic : Bool} {pi : Nat} {x x' : XSt}
    (h : hiOptX hi t atomic pi x = some (t', x')) : HLe x x' := by
  unfold hiOptX at h
  split at h
  · split at h
    · next d x1 hh =>
      simp only [Option.some.injEq, Prod.mk.injEq] at h
      obtain ⟨_, rfl⟩ := h
      exact hhi _ _ _ _ _ hh
    · cases h
  · simp only [Option.some.injEq, Prod.mk.injEq] at h
    obtain ⟨_, rfl⟩ := h
    exact Nat.le_refl _

theorem hiNodeX_hle {hi : HIX} (hhi : HIhle hi) {pi : Nat} {n n' : Node} {x x' : XSt}
    (h : hiNodeX hi pi n x = some (n', x')) : HLe x x' := by
  unfold hiNodeX at h
  split at h
  · cases h
  · next t x1 h1 =>
    split at h
    · cases h
    · next tl x2 h2 =>
      simp only [Option.some.injEq, Prod.mk.injEq] at h
      obtain ⟨_, rfl⟩ := h
      exact Nat.le_trans (hiOptX_hle hhi h1) (hiOptX_hle hhi h2)

theorem hiNodesX_hle {hi : HIX} (hhi : HIhle hi) {pi : Nat} : ∀ (ns : List Node) {x : XSt} {ns' : List Node} {x' : XSt},
    hiNodesX hi pi ns x = some (ns', x') → HLe x x' := by
  intro ns
  induction ns with
  | nil =>
    intro x ns' x' h
    simp only [hiNodesX, Option.some.injEq, Prod.mk.injEq] at h
    obtain ⟨_, rfl⟩ := h
    exact Nat.le_refl _
  | cons n r ih =>
    intro x ns' x' h
    simp only [hiNodesX] at h
    split at h
    · cases h
    · next n1 x1 h1 =>
      split at h
      · cases h
      · next r1 x2 h2 =>
        simp only [Option.some.injEq, Prod.mk.injEq] at h
        obtain ⟨_, rfl⟩ := h
        exact Nat.le_trans (hiNodeX_hle hhi h1) (ih h2)

theorem elStepX_hle {hi : HIX} (hhi : HIhle hi) {pi : Nat} {n n' : Node} {x x' : XSt}
    (h : elStepX hi pi n x = some (n', x')) : HLe x x' := by
  unfold elStepX at h
  split at h
  · simp only [Option.some.injEq, Prod.mk.injEq] at h
    obtain ⟨_, rfl⟩ := h
    exact Nat.le_refl _
  · split at h
    · cases h
    · next n1 x3 h1 =>
      split at h
      · cases h
      · next kids x4 h2 =>
        simp only [Option.some.injEq, Prod.mk.injEq] at h
        obtain ⟨_, rfl⟩ := h
        exact Nat.le_trans (hiNodeX_hle hhi h1) (hiNodesX_hle hhi _ h2)

theorem stashX_html (x : XSt) (it : StashItem) : (stashX x it).2.st.html = x.st.html := rfl

def APhle (ap : Nat → Str → Nat → XSt → Option (Str × Bool × Nat × XSt)) : Prop :=
  ∀ pi d si x d' m si' x', ap pi d si x = some (d', m, si', x') → HLe x x'

theorem applyPatternX_hle (xc : XCfg) {hi : HIX} (hhi : HIhle hi) : APhle (applyPatternX xc hi) := by
  intro pi data si x d' m si' x' h
  rw [applyPatternX_eq] at h
  split at h
  · simp only [Option.some.injEq, Prod.mk.injEq] at h
    obtain ⟨_, _, _, rfl⟩ := h
    exact Nat.le_refl _
  · next k hk =>
    split at h
    · cases h
    · next x1 hf =>
      simp only [Option.some.injEq, Prod.mk.injEq] at h
      obtain ⟨_, _, _, rfl⟩ := h
      exact findX_hle hf
    · next f x1 hf =>
      have hs1 := findX_hle hf
      split at h
      · simp only [Option.some.injEq, Prod.mk.injEq] at h
        obtain ⟨_, _, _, rfl⟩ := h
        exact hs1
      · simp only [Option.some.injEq, Prod.mk.injEq] at h
        obtain ⟨_, _, _, rfl⟩ := h
        exact hs1
      · split at h
        · cases h
        · next n' x2 hr =>
          simp only [Option.some.injEq, Prod.mk.injEq] at h
          obtain ⟨_, _, _, rfl⟩ := h
          exact Nat.le_trans hs1 (show HLe _ x2 from elStepX_hle hhi hr)

theorem hiLoopX_hle {count : Nat} {ap : Nat → Str → Nat → XSt → Option (Str × Bool × Nat × XSt)} (hap : APhle ap) :
    ∀ (g : Nat) (data : Str) (pi si : Nat) (x : XSt) (d' : Str) (x' : XSt),
      hiLoopX count ap g data pi si x = some (d', x') → HLe x x' := by
  intro g
  induction g with
  | zero => intro data pi si x d' x' h; simp [hiLoopX] at h
  | succ g ih =>
    intro data pi si x d' x' h
    simp only [hiLoopX] at h
    split at h
    · split at h
      · cases h
      · next d m si1 x1 h1 => exact Nat.le_trans (hap _ _ _ _ _ _ _ _ h1) (ih _ _ _ _ _ _ h)
    · simp only [Option.some.injEq, Prod.mk.injEq] at h
      obtain ⟨_, rfl⟩ := h
      exact Nat.le_refl _

theorem handleInlineX_hle (xc : XCfg) : ∀ (f : Nat), HIhle (handleInlineX xc f) := by
  intro f
  induction f with
  | zero => intro d p x d' x' h; simp [handleInlineX] at h
  | succ f ih =>
    intro d p x d' x' h
    simp only [handleInlineX] at h
    exact hiLoopX_hle (applyPatternX_hle xc ih) _ _ _ _ _ _ _ h

theorem handleInlineTopX_hle {xc : XCfg} {data : Str} {x : XSt} {d' : Str} {x' : XSt}
    (h : handleInlineTopX xc data x = some (d', x')) : HLe x x' :=
  handleInlineX_hle xc _ _ _ _ _ _ h

/-- the text step of `visitChildX` (as it appears in `visit_textXB`) -/
theorem visit_text_hle {xc : XCfg} {child : Node} {x : XSt} {c1 : Node} {lst : List Node} {x1 : XSt}
    (h : (if Node.truthy child.text && !child.textAtomic then
            match handleInlineTopX xc (child.text.getD []) x with
            | none => none
            | some (data, x1) =>
              match ppTop x1.st data false { child with text := none, textAtomic := false } true with
              | none => none
              | some (lst, c1) => some (c1, lst, x1)
          else some (child, [], x)) = some (c1, lst, x1)) : HLe x x1 := by
  split at h
  · split at h
    · cases h
    · next data x2 hh =>
      have hs2 := handleInlineTopX_hle hh
      split at h
      · cases h
      · simp only [Option.some.injEq, Prod.mk.injEq] at h
        obtain ⟨_, _, rfl⟩ := h
        exact hs2
  · simp only [Option.some.injEq, Prod.mk.injEq] at h
    obtain ⟨_, _, rfl⟩ := h
    exact Nat.le_refl _

/-- the tail step of `visitChildX` (as it appears in `visit_tailXB`) -/
theorem visit_tail_hle {xc : XCfg} {c1 : Node} {x1 : XSt} {c2 : Node} {tr : List Node} {x2 : XSt}
    (h : (if Node.truthy c1.tail then
            match (if c1.tailAtomic then some (c1.tail.getD [], x1) else handleInlineTopX xc (c1.tail.getD []) x1) with
            | none => none
            | some (data, x2) =>
              match ppTop x2.st data c1.tailAtomic (mkEl "d") false with
              | none => none
              | some (tr, dumby) =>
                some ((if Node.truthy dumby.tail then { c1 with tail := dumby.tail, tailAtomic := dumby.tailAtomic }
                       else { c1 with tail := none, tailAtomic := false }), tr, x2)
          else some (c1, [], x1)) = some (c2, tr, x2)) : HLe x1 x2 := by
  split at h
  · split at h
    · cases h
    · next data x3 hh =>
      have hs3 : HLe x1 x3 := by
        split at hh
        · simp only [Option.some.injEq, Prod.mk.injEq] at hh
          obtain ⟨_, rfl⟩ := hh
          exact Nat.le_refl _
        · exact handleInlineTopX_hle hh
      split at h
      · cases h
      · simp only [Option.some.injEq, Prod.mk.injEq] at h
        obtain ⟨_, _, rfl⟩ := h
        exact hs3
  · simp only [Option.some.injEq, Prod.mk.injEq] at h
    obtain ⟨_, _, rfl⟩ := h
    exact Nat.le_refl _

theorem visitChildX_hle {xc : XCfg} {child : Node} {v : VisitX} {c : Node} {tr : List Node} {v' : VisitX}
    (h : visitChildX xc child v = some (c, tr, v')) : HLe v.x v'.x := by
  unfold visitChildX at h
  simp only [] at h
  split at h
  · cases h
  · next c1 lst x1 hr1 =>
    have q1 : HLe v.x x1 := by
      split at hr1
      · split at hr1
        · cases hr1
        · next data x2 hh =>
          have hs2 := handleInlineTopX_hle hh
          split at hr1
          · cases hr1
          · simp only [Option.some.injEq, Prod.mk.injEq] at hr1
            obtain ⟨_, _, rfl⟩ := hr1
            exact hs2
      · simp only [Option.some.injEq, Prod.mk.injEq] at hr1
        obtain ⟨_, _, rfl⟩ := hr1
        exact Nat.le_refl _
    split at h
    · cases h
    · next c2 tr' x2 hr2 =>
      simp only [Option.some.injEq, Prod.mk.injEq] at h
      obtain ⟨_, _, rfl⟩ := h
      have q2 : HLe x1 x2 := by
        split at hr2
        · split at hr2
          · cases hr2
          · next data x3 hh =>
            have hs3 : HLe x1 x3 := by
              split at hh
              · simp only [Option.some.injEq, Prod.mk.injEq] at hh
                obtain ⟨_, rfl⟩ := hh
                exact Nat.le_refl _
              · exact handleInlineTopX_hle hh
            split at hr2
            · cases hr2
            · simp only [Option.some.injEq, Prod.mk.injEq] at hr2
              obtain ⟨_, _, rfl⟩ := hr2
              exact hs3
        · simp only [Option.some.injEq, Prod.mk.injEq] at hr2
          obtain ⟨_, _, rfl⟩ := hr2
          exact Nat.le_refl _
      exact Nat.le_trans q1 q2

theorem visitLoopX_hle (xc : XCfg) : ∀ (g : Nat) (todo : List (Node × Option Nat)) (v v' : VisitX),
    visitLoopX xc g todo v = some v' → HLe v.x v'.x := by
  intro g
  induction g with
  | zero => intro todo v v' h; simp [visitLoopX] at h
  | succ g ih =>
    intro todo v v' h
    cases todo with
    | nil =>
      simp only [visitLoopX, Option.some.injEq] at h
      subst h
      exact Nat.le_refl _
    | cons a todo =>
      obtain ⟨child, orig⟩ := a
      simp only [visitLoopX] at h
      split at h
      · cases h
      · next c tr v1 hv =>
        have h2 := ih _ _ _ h
        exact Nat.le_trans (visitChildX_hle hv) h2

theorem runLoopX_hle (xc : XCfg) (g2 : Nat) : ∀ (g : Nat) (root : Node) (stack : List Path) (x : XSt) (root' : Node)
    (x' : XSt), runLoopX xc g2 g root stack x = some (root', x') → HLe x x' := by
  intro g
  induction g with
  | zero => intro root stack x root' x' h; simp [runLoopX] at h
  | succ g ih =>
    intro root stack x root' x' h
    cases stack with
    | nil =>
      simp only [runLoopX, Option.some.injEq, Prod.mk.injEq] at h
      obtain ⟨_, rfl⟩ := h
      exact Nat.le_refl _
    | cons p stack =>
      simp only [runLoopX] at h
      split at h
      · exact ih _ _ _ _ _ h
      · split at h
        · cases h
        · next v hv =>
          have := visitLoopX_hle xc g2 _ { x := x } v hv
          exact Nat.le_trans this (ih _ _ _ _ _ h)

/-- **`InlineProcessor.run` over ANY pattern table on ANY tree never shortens the raw-HTML stash it is given** -/
theorem runX_hle {xc : XCfg} {tree t : Node} {html : List Str} {xs : XSt}
    (h : runX xc tree html = some (t, xs)) : html.length ≤ xs.st.html.length := by
  unfold runX at h
  exact runLoopX_hle xc _ _ _ _ _ _ _ h

end MdVerif.NoCtlXF
