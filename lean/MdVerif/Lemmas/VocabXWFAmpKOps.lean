/-
C05 on the extension pipeline, removal of the residual hypothesis `hamp` of `C05X_partial`: the string class `SK` of
`Lemmas/VocabXWFAmpKStr.lean` is closed under what happens to the name of a heading in `TocTreeprocessor`.

* the serializer's escaping (`Ser.esc1`): in a text or attribute value with `G.SOkA` no character that may follow an
  STX is escaped, and the closing quote of an attribute ends a truncated continuation; on an arbitrary string of the
  class (`data-toc-label`) an escaped character starts with `&`, which ends a continuation;
* `str.replace(pat, by)` for a pattern that starts with STX and a replacement without STX (`AndSubstitutePostprocessor`,
  the two replacements of `FootnotePostprocessor`);
* `RawHtmlPostprocessor` on a stash without STX (`Post.subPass`, `Post.rawHtml`);
* `strip_tags`: removing a `<…>` or `<!--…-->` span (`SK_cut_gt`, `SKC_of_SK_bang`), collapsing whitespace.

Core Lean only.
-/
import MdVerif.Lemmas.VocabXWFAmpKStr
import MdVerif.Model.Ext.TocTree
import MdVerif.Model.Ext.FootnotesTree

set_option autoImplicit false

namespace MdVerif.VocabXAmp
open Py G Ser

/-! ### the serializer's escaping -/

theorem esc1_cons (q nl : Bool) (c : Char) (r : Str) :
    (esc1 q nl (c :: r) = c :: esc1 q nl r) ∨
    (∃ E, esc1 q nl (c :: r) = '&' :: E ++ esc1 q nl r ∧ G.STX ∉ E ∧
      (c = '&' ∨ c = '<' ∨ c = '>' ∨ (q = true ∧ c = '"') ∨ (nl = true ∧ c = '\n'))) := by
  simp only [esc1]
  split
  · rename_i h
    split
    · exact Or.inl (by rw [h])
    · exact Or.inr ⟨"amp;".toList, rfl, by decide, Or.inl h⟩
  · split
    · rename_i h; exact Or.inr ⟨"lt;".toList, rfl, by decide, Or.inr (Or.inl h)⟩
    · split
      · rename_i h; exact Or.inr ⟨"gt;".toList, rfl, by decide, Or.inr (Or.inr (Or.inl h))⟩
      · split
        · rename_i h
          simp only [Bool.and_eq_true, decide_eq_true_eq] at h
          exact Or.inr ⟨"quot;".toList, rfl, by decide, Or.inr (Or.inr (Or.inr (Or.inl h)))⟩
        · split
          · rename_i h
            simp only [Bool.and_eq_true, decide_eq_true_eq] at h
            exact Or.inr ⟨"#10;".toList, rfl, by decide, Or.inr (Or.inr (Or.inr (Or.inr h)))⟩
          · exact Or.inl rfl

/-- a character that text escaping leaves alone -/
theorem esc1_keep_text {c : Char} (h1 : c ≠ '&') (h2 : c ≠ '<') (h3 : c ≠ '>') (r : Str) :
    esc1 false false (c :: r) = c :: esc1 false false r := by
  rcases esc1_cons false false c r with h | ⟨E, _, _, h⟩
  · exact h
  · rcases h with h | h | h | h | h
    · exact absurd h h1
    · exact absurd h h2
    · exact absurd h h3
    · cases h.1
    · cases h.1

theorem esc1_keep_attr {c : Char} (h1 : c ≠ '&') (h2 : c ≠ '<') (h3 : c ≠ '>') (h4 : c ≠ '"') (r : Str) :
    esc1 true false (c :: r) = c :: esc1 true false r := by
  rcases esc1_cons true false c r with h | ⟨E, _, _, h⟩
  · exact h
  · rcases h with h | h | h | h | h
    · exact absurd h h1
    · exact absurd h h2
    · exact absurd h h3
    · exact absurd h.2 h4
    · cases h.1

theorem gl_keep {c : Char} (h : gl c = true) : c ≠ '&' ∧ c ≠ '<' ∧ c ≠ '>' ∧ c ≠ '"' := by
  rcases gl_iff.1 h with rfl | rfl | rfl | rfl <;> decide

theorem digit_keep {c : Char} (h : isAsciiDigit c = true) : c ≠ '&' ∧ c ≠ '<' ∧ c ≠ '>' ∧ c ≠ '"' := by
  refine ⟨?_, ?_, ?_, ?_⟩ <;> (rintro rfl; revert h; decide)

/-- the first character of an escaped non-empty string: `&` or the character itself -/
theorem esc1_first (q nl : Bool) (c : Char) (r : Str) :
    ∃ x xs, esc1 q nl (c :: r) = x :: xs ∧ (x = '&' ∨ x = c) := by
  rcases esc1_cons q nl c r with h | ⟨E, h, _, _⟩
  · exact ⟨c, _, h, Or.inr rfl⟩
  · exact ⟨'&', _, by rw [h]; rfl, Or.inl rfl⟩

/-- a text or value with the truncation-closed invariant: what follows an STX inside it is not escaped -/
theorem folK_esc_text {r Y : Str} (hA : folA r = true) (h : folK (r ++ Y) = true) :
    folK (esc1 false false r ++ Y) = true := by
  cases r with
  | nil => exact h
  | cons c r =>
    simp only [folA, Bool.or_eq_true, Bool.and_eq_true] at hA
    have hk : esc1 false false (c :: r) = c :: esc1 false false r := by
      rcases hA with hA | hA
      · exact esc1_keep_text (gl_keep hA).1 (gl_keep hA).2.1 (gl_keep hA).2.2.1 r
      · have := digit_keep (isNZ_digit hA.1)
        exact esc1_keep_text this.1 this.2.1 this.2.2.1 r
    have hlt : c ≠ '<' := by
      rcases hA with hA | hA
      · exact gl_ne_lt hA
      · exact digit_ne_lt (isNZ_digit hA.1)
    rw [hk, List.cons_append, folK_cons_ne hlt]
    rw [List.cons_append, folK_cons_ne hlt] at h
    simp only [folK0, Bool.or_eq_true, Bool.and_eq_true] at h ⊢
    rcases hA with hA | hA
    · exact Or.inl (Or.inr hA)
    · refine Or.inr ⟨hA.1, ?_⟩
      have h2 : digit2K (r ++ Y) = true := by
        rcases h with (h | h) | h
        · exact absurd (isNZ_digit hA.1) (by
            intro hd
            have := tm_not_decimal h
            rw [digit_decimal hd] at this; cases this)
        · rw [gl_not_nz h] at hA; cases hA.1
        · exact h.2
      cases r with
      | nil => exact h2
      | cons d r =>
        simp only [digit2A] at hA
        have := digit_keep hA.2
        rw [esc1_keep_text this.1 this.2.1 this.2.2.1 r]
        simp [digit2K, hA.2]

/-- **escaping a text with the invariant in front of a string of the class** -/
theorem SK_esc_text : ∀ (s Y : Str), SOkA s = true → SK (s ++ Y) = true → SK (esc1 false false s ++ Y) = true := by
  intro s
  induction s with
  | nil => intro Y _ h; exact h
  | cons c r ih =>
    intro Y hA h
    simp only [SOkA, Bool.and_eq_true, Bool.or_eq_true, bne_iff_ne, ne_eq] at hA
    simp only [List.cons_append, SK, Bool.and_eq_true, Bool.or_eq_true, bne_iff_ne, ne_eq] at h
    have ihr := ih Y hA.2 h.2
    rcases esc1_cons false false c r with hk | ⟨E, hE, hS, hc⟩
    · rw [hk]
      simp only [List.cons_append, SK, Bool.and_eq_true, Bool.or_eq_true, bne_iff_ne, ne_eq]
      refine ⟨?_, ihr⟩
      by_cases hc : c = G.STX
      · right
        have h1 : folK (r ++ Y) = true := by
          rcases h.1 with h' | h'
          · exact absurd hc h'
          · exact h'
        have h2 : folA r = true := by
          rcases hA.1 with h' | h'
          · exact absurd hc h'
          · exact h'
        exact folK_esc_text h2 h1
      · exact Or.inl hc
    · rw [hE]
      simp only [List.cons_append, List.append_assoc]
      rw [SK_cons_ne (by decide), SK_noSTX_append hS]
      exact ihr

theorem SK_escCdata {s Y : Str} (hs : SOkA s = true) (h : SK (s ++ Y) = true) : SK (escCdata s ++ Y) = true := by
  rw [onepass_cdata']; exact SK_esc_text s Y hs h

/-- on an arbitrary string of the class: an escaped character starts with `&`, which ends a continuation -/
theorem folK_esc_gen {r : Str} (h : folK r = true) : folK (esc1 false false r) = true := by
  have first_tm : ∀ (c : Char) (r : Str), tm c = true → ∃ x xs, esc1 false false (c :: r) = x :: xs ∧ tm x = true := by
    intro c r hc
    obtain ⟨x, xs, e, hx⟩ := esc1_first false false c r
    refine ⟨x, xs, e, ?_⟩
    rcases hx with rfl | rfl
    · decide
    · exact hc
  rcases folK_cases h with h0 | ⟨t, r', rfl, _, _⟩
  · cases r with
    | nil => rfl
    | cons c r =>
      simp only [folK0, Bool.or_eq_true, Bool.and_eq_true] at h0
      rcases h0 with (h0 | h0) | h0
      · obtain ⟨x, xs, e, hx⟩ := first_tm c r h0
        rw [e]; exact folK_of_0 (by simp [folK0, hx])
      · rw [esc1_keep_text (gl_keep h0).1 (gl_keep h0).2.1 (gl_keep h0).2.2.1 r]
        exact folK_of_0 (by simp [folK0, h0])
      · have := digit_keep (isNZ_digit h0.1)
        rw [esc1_keep_text this.1 this.2.1 this.2.2.1 r]
        refine folK_of_0 ?_
        simp only [folK0, Bool.or_eq_true, Bool.and_eq_true]
        refine Or.inr ⟨h0.1, ?_⟩
        cases r with
        | nil => rfl
        | cons d r =>
          simp only [digit2K, Bool.or_eq_true] at h0
          rcases h0.2 with h' | h'
          · have := digit_keep h'
            rw [esc1_keep_text this.1 this.2.1 this.2.2.1 r]
            simp [digit2K, h']
          · obtain ⟨x, xs, e, hx⟩ := first_tm d r h'
            rw [e]; simp [digit2K, hx]
  · rcases esc1_cons false false '<' t with hk | ⟨E, hE, _, _⟩
    · have : esc1 false false ('<' :: t) = "&lt;".toList ++ esc1 false false t := by simp [esc1]
      rw [this]; exact folK_of_0 (by simp [folK0, tm])
    · rw [hE]; exact folK_of_0 (by simp [folK0, tm])

theorem SK_esc_gen : ∀ (s : Str), SK s = true → SK (esc1 false false s) = true := by
  intro s
  induction s with
  | nil => intro _; rfl
  | cons c r ih =>
    intro h
    simp only [SK, Bool.and_eq_true, Bool.or_eq_true] at h
    have ihr := ih h.2
    rcases esc1_cons false false c r with hk | ⟨E, hE, hS, hc⟩
    · rw [hk]
      simp only [SK, Bool.and_eq_true, Bool.or_eq_true]
      refine ⟨?_, ihr⟩
      rcases h.1 with h1 | h1
      · exact Or.inl h1
      · exact Or.inr (folK_esc_gen h1)
    · rw [hE, List.cons_append, SK_cons_ne (by decide), SK_noSTX_append hS]
      exact ihr

theorem SK_escCdata_gen {s : Str} (h : SK s = true) : SK (escCdata s) = true := by
  rw [onepass_cdata']; exact SK_esc_gen s h

theorem folK_esc_attr {r Y : Str} (h : folA r = true) : folK (esc1 true false r ++ '"' :: Y) = true := by
  cases r with
  | nil => exact folK_of_0 (by simp [esc1, folK0, tm])
  | cons c r =>
    simp only [folA, Bool.or_eq_true, Bool.and_eq_true] at h
    have hk : esc1 true false (c :: r) = c :: esc1 true false r := by
      rcases h with h | h
      · exact esc1_keep_attr (gl_keep h).1 (gl_keep h).2.1 (gl_keep h).2.2.1 (gl_keep h).2.2.2 r
      · have := digit_keep (isNZ_digit h.1)
        exact esc1_keep_attr this.1 this.2.1 this.2.2.1 this.2.2.2 r
    rw [hk]
    refine folK_of_0 ?_
    simp only [List.cons_append, folK0, Bool.or_eq_true, Bool.and_eq_true]
    rcases h with h | h
    · exact Or.inl (Or.inr h)
    · refine Or.inr ⟨h.1, ?_⟩
      cases r with
      | nil => simp [esc1, digit2K, tm]
      | cons d r =>
        simp only [digit2A] at h
        have := digit_keep h.2
        rw [esc1_keep_attr this.1 this.2.1 this.2.2.1 this.2.2.2 r]
        simp [digit2K, h.2]

/-- **an attribute value with the truncation-closed invariant, escaped, in front of its closing quote** -/
theorem SK_esc_attr {Y : Str} (hY : SK Y = true) : ∀ (s : Str), SOkA s = true →
    SK (esc1 true false s ++ '"' :: Y) = true := by
  intro s
  induction s with
  | nil => intro _; rw [esc1, List.nil_append, SK_cons_ne (by decide)]; exact hY
  | cons c r ih =>
    intro h
    simp only [SOkA, Bool.and_eq_true, Bool.or_eq_true] at h
    have ihr := ih h.2
    rcases esc1_cons true false c r with hk | ⟨E, hE, hS, hc⟩
    · rw [hk]
      simp only [List.cons_append, SK, Bool.and_eq_true, Bool.or_eq_true]
      refine ⟨?_, ihr⟩
      rcases h.1 with h1 | h1
      · exact Or.inl h1
      · exact Or.inr (folK_esc_attr h1)
    · rw [hE]
      simp only [List.cons_append, List.append_assoc]
      rw [SK_cons_ne (by decide), SK_noSTX_append hS]
      exact ihr

theorem SK_escAttr {Y : Str} (hY : SK Y = true) {s : Str} (hs : SOkA s = true) :
    SK (escAttrHtml s ++ '"' :: Y) = true := by
  rw [onepass_attr']; exact SK_esc_attr hY s hs

/-! ### attribute values after attr_list: `SB` -/

def digit2B : Str → Bool
  | [] => true
  | d :: _ => isAsciiDigit d || d == ' '

/-- what follows an STX in an attribute value: as `G.folA`, or a blank where a truncated continuation ends
    (`attr_list` joins classes: `old + ' ' + new`) -/
def folSB : Str → Bool
  | [] => true
  | c :: r => c == ' ' || gl c || (isNZ c && digit2B r)

/-- the class of attribute values: `G.SOkA` closed under `old + ' ' + new` -/
def SB : Str → Bool
  | [] => true
  | c :: r => (c != G.STX || folSB r) && SB r

theorem SB_of_SOkA {s : Str} (h : SOkA s = true) : SB s = true := by
  induction s with
  | nil => rfl
  | cons c r ih =>
    simp only [SOkA, Bool.and_eq_true, Bool.or_eq_true] at h
    simp only [SB, Bool.and_eq_true, Bool.or_eq_true]
    refine ⟨?_, ih h.2⟩
    rcases h.1 with h1 | h1
    · exact Or.inl h1
    · right
      cases r with
      | nil => rfl
      | cons d r =>
        simp only [folA, Bool.or_eq_true, Bool.and_eq_true] at h1
        simp only [folSB, Bool.or_eq_true, Bool.and_eq_true]
        rcases h1 with h1 | h1
        · exact Or.inl (Or.inr h1)
        · refine Or.inr ⟨h1.1, ?_⟩
          cases r with
          | nil => rfl
          | cons e r => simp only [digit2A] at h1; simp [digit2B, h1.2]

theorem folSB_blank {r : Str} (h : folSB r = true) (b : Str) : folSB (r ++ ' ' :: b) = true := by
  cases r with
  | nil => simp [folSB]
  | cons c r =>
    simp only [folSB, Bool.or_eq_true, Bool.and_eq_true] at h
    simp only [List.cons_append, folSB, Bool.or_eq_true, Bool.and_eq_true]
    rcases h with h | h
    · exact Or.inl h
    · refine Or.inr ⟨h.1, ?_⟩
      cases r with
      | nil => simp [digit2B]
      | cons d r => simpa [digit2B] using h.2

/-- **`old + ' ' + new`** -/
theorem SB_join {a b : Str} (ha : SB a = true) (hb : SB b = true) : SB (a ++ ' ' :: b) = true := by
  induction a with
  | nil =>
    have hne : ((' ' : Char) != G.STX) = true := by decide
    have : SB (' ' :: b) = SB b := by simp only [SB, hne, Bool.true_or, Bool.true_and]
    rw [List.nil_append, this]; exact hb
  | cons c r ih =>
    simp only [SB, Bool.and_eq_true, Bool.or_eq_true] at ha
    simp only [List.cons_append, SB, Bool.and_eq_true, Bool.or_eq_true]
    refine ⟨?_, ih ha.2⟩
    rcases ha.1 with h | h
    · exact Or.inl h
    · exact Or.inr (folSB_blank h b)

theorem folK0_of_SB {r : Str} (h : folSB r = true) : folK0 r = true := by
  cases r with
  | nil => rfl
  | cons c r =>
    simp only [folSB, Bool.or_eq_true, Bool.and_eq_true, beq_iff_eq] at h
    simp only [folK0, Bool.or_eq_true, Bool.and_eq_true]
    rcases h with (h | h) | h
    · exact Or.inl (Or.inl (by rw [h]; decide))
    · exact Or.inl (Or.inr h)
    · refine Or.inr ⟨h.1, ?_⟩
      cases r with
      | nil => rfl
      | cons d r =>
        simp only [digit2B, Bool.or_eq_true, beq_iff_eq] at h
        simp only [digit2K, Bool.or_eq_true]
        rcases h.2 with h' | h'
        · exact Or.inl h'
        · exact Or.inr (by rw [h']; decide)

theorem SK_of_SB {s : Str} (h : SB s = true) : SK s = true := by
  induction s with
  | nil => rfl
  | cons c r ih =>
    simp only [SB, Bool.and_eq_true, Bool.or_eq_true] at h
    simp only [SK, Bool.and_eq_true, Bool.or_eq_true]
    refine ⟨?_, ih h.2⟩
    rcases h.1 with h1 | h1
    · exact Or.inl h1
    · exact Or.inr (folK_of_0 (folK0_of_SB h1))

theorem blank_keep_attr (r : Str) : esc1 true false (' ' :: r) = ' ' :: esc1 true false r :=
  esc1_keep_attr (by decide) (by decide) (by decide) (by decide) r

theorem folK_esc_attrB {r Y : Str} (h : folSB r = true) : folK (esc1 true false r ++ '"' :: Y) = true := by
  cases r with
  | nil => exact folK_of_0 (by simp [esc1, folK0, tm])
  | cons c r =>
    simp only [folSB, Bool.or_eq_true, Bool.and_eq_true, beq_iff_eq] at h
    have hk : esc1 true false (c :: r) = c :: esc1 true false r := by
      rcases h with (h | h) | h
      · rw [h]; exact blank_keep_attr r
      · exact esc1_keep_attr (gl_keep h).1 (gl_keep h).2.1 (gl_keep h).2.2.1 (gl_keep h).2.2.2 r
      · have := digit_keep (isNZ_digit h.1)
        exact esc1_keep_attr this.1 this.2.1 this.2.2.1 this.2.2.2 r
    rw [hk]
    refine folK_of_0 ?_
    simp only [List.cons_append, folK0, Bool.or_eq_true, Bool.and_eq_true]
    rcases h with (h | h) | h
    · exact Or.inl (Or.inl (by rw [h]; decide))
    · exact Or.inl (Or.inr h)
    · refine Or.inr ⟨h.1, ?_⟩
      cases r with
      | nil => simp [esc1, digit2K, tm]
      | cons d r =>
        simp only [digit2B, Bool.or_eq_true, beq_iff_eq] at h
        rcases h.2 with h' | h'
        · have := digit_keep h'
          rw [esc1_keep_attr this.1 this.2.1 this.2.2.1 this.2.2.2 r]
          simp [digit2K, h']
        · rw [h', blank_keep_attr]
          simp [digit2K, tm]

/-- **an attribute value of the class `SB`, escaped, in front of its closing quote** -/
theorem SK_esc_attrB {Y : Str} (hY : SK Y = true) : ∀ (s : Str), SB s = true →
    SK (esc1 true false s ++ '"' :: Y) = true := by
  intro s
  induction s with
  | nil => intro _; rw [esc1, List.nil_append, SK_cons_ne (by decide)]; exact hY
  | cons c r ih =>
    intro h
    simp only [SB, Bool.and_eq_true, Bool.or_eq_true] at h
    have ihr := ih h.2
    rcases esc1_cons true false c r with hk | ⟨E, hE, hS, hc⟩
    · rw [hk]
      simp only [List.cons_append, SK, Bool.and_eq_true, Bool.or_eq_true]
      refine ⟨?_, ihr⟩
      rcases h.1 with h1 | h1
      · exact Or.inl h1
      · exact Or.inr (folK_esc_attrB h1)
    · rw [hE]
      simp only [List.cons_append, List.append_assoc]
      rw [SK_cons_ne (by decide), SK_noSTX_append hS]
      exact ihr

theorem SK_escAttrB {Y : Str} (hY : SK Y = true) {s : Str} (hs : SB s = true) :
    SK (escAttrHtml s ++ '"' :: Y) = true := by
  rw [onepass_attr']; exact SK_esc_attrB hY s hs

/-! ### copying through a clean tag -/

/-- a function on strings that copies every character other than STX and `<` (and more, elsewhere) -/
structure Copies (f : Str → Str) : Prop where
  nil : f [] = []
  copy : ∀ c s, c ≠ G.STX → c ≠ '<' → f (c :: s) = c :: f s

theorem afterSpan_copies {f : Str → Str} (hf : Copies f) {t r' : Str} (ha : afterSpan t = some r') :
    afterSpan (f t) = some (f r') := by
  induction t with
  | nil =>
    simp only [afterSpan, Option.some.injEq] at ha; subst ha
    rw [hf.nil]; rfl
  | cons c t ih =>
    simp only [afterSpan] at ha
    split at ha
    · rename_i hc
      subst hc
      simp only [Option.some.injEq] at ha; subst ha
      rw [hf.copy '>' _ (by decide) (by decide)]
      simp [afterSpan]
    · rename_i hc
      split at ha
      · cases ha
      · rename_i hd
        have h1 : c ≠ G.STX := fun e => hd (Or.inl e)
        have h2 : c ≠ '<' := fun e => hd (Or.inr e)
        rw [hf.copy c _ h1 h2]
        simp only [afterSpan, if_neg hc, if_neg hd]
        exact ih ha

theorem head_copies {f : Str → Str} (hf : Copies f) {t r' : Str} (ha : spanRest t = some r') :
    (f t).head? ≠ some '!' := by
  obtain ⟨hb, ha'⟩ := spanRest_some ha
  cases t with
  | nil => rw [hf.nil]; simp
  | cons c t =>
    have hd : ¬ (c = G.STX ∨ c = '<') := by
      intro hd
      simp only [afterSpan] at ha'
      split at ha'
      · rename_i hc; subst hc; rcases hd with hd | hd <;> exact absurd hd (by decide)
      · first | cases ha' | (rw [if_pos hd] at ha'; cases ha')
    rw [hf.copy c _ (fun e => hd (Or.inl e)) (fun e => hd (Or.inr e))]
    simpa using hb

/-- the continuation behind a clean tag, for a function that copies the tag -/
theorem folK_copies {f : Str → Str} (hf : Copies f) (hlt : ∀ t r', spanRest t = some r' → folK0 r' = true →
      f ('<' :: t) = '<' :: f t)
    (h0 : ∀ r, folK0 r = true → folK0 (f r) = true) {r : Str} (h : folK r = true) : folK (f r) = true := by
  rcases folK_cases h with h' | ⟨t, r', rfl, ha, h'⟩
  · exact folK_of_0 (h0 r h')
  · rw [hlt t r' ha h']
    exact folK_span (spanRest_of (head_copies hf ha) (afterSpan_copies hf (spanRest_some ha).2)) (h0 r' h')

/-- what follows an STX directly, for a function that copies -/
theorem folK0_copies {f : Str → Str} (hf : Copies f) {r : Str} (h : folK0 r = true) : folK0 (f r) = true := by
  cases r with
  | nil => rw [hf.nil]; rfl
  | cons c r =>
    have hc := folK0_first h
    rw [hf.copy c r hc.1 hc.2.1]
    simp only [folK0, Bool.or_eq_true, Bool.and_eq_true] at h ⊢
    rcases h with h | h
    · exact Or.inl h
    · refine Or.inr ⟨h.1, ?_⟩
      cases r with
      | nil => rw [hf.nil]; rfl
      | cons d r =>
        simp only [digit2K, Bool.or_eq_true] at h
        have hd : d ≠ G.STX ∧ d ≠ '<' := by
          rcases h.2 with h' | h'
          · exact ⟨digit_ne_stx h', digit_ne_lt h'⟩
          · exact ⟨tm_ne_stx h', tm_ne_lt h'⟩
        rw [hf.copy d r hd.1 hd.2]
        simpa [digit2K] using h.2

/-! ### `str.replace` of a pattern that starts with STX -/

theorem startsWith_stx_false {c : Char} (hc : c ≠ G.STX) (r p : Str) : startsWith (c :: r) (G.STX :: p) = false := by
  simp [startsWith_cons_cons, hc]

theorem copies_replaceAux (p b : Str) : Copies (replaceAux (G.STX :: p) b 0) where
  nil := replaceAux_nil _ _ _
  copy := fun c s h1 _ => by rw [replaceAux_zero_cons, startsWith_stx_false h1, if_neg (by simp)]

theorem folK_replaceAux {p b : Str} {r : Str} (h : folK r = true) :
    folK (replaceAux (G.STX :: p) b 0 r) = true :=
  folK_copies (copies_replaceAux p b)
    (fun t _ _ _ => by rw [replaceAux_zero_cons, startsWith_stx_false (by decide), if_neg (by simp)])
    (fun _ h' => folK0_copies (copies_replaceAux p b) h') h

theorem SK_replaceAux {p b : Str} (hb : G.STX ∉ b) : ∀ (s : Str) (k : Nat), SK (s.drop k) = true →
    SK (replaceAux (G.STX :: p) b k s) = true := by
  intro s
  induction s with
  | nil => intro k _; rw [replaceAux_nil]; rfl
  | cons c r ih =>
    intro k hs
    cases k with
    | succ k => rw [replaceAux_succ_cons]; exact ih k (by simpa using hs)
    | zero =>
      simp only [List.drop_zero] at hs
      rw [SK_cons, Bool.and_eq_true] at hs
      rw [replaceAux_zero_cons]
      split
      · rw [SK_noSTX_append hb]
        exact ih _ (SK_drop hs.2 _)
      · have ih0 := ih 0 (by simpa using hs.2)
        simp only [SK, Bool.and_eq_true, Bool.or_eq_true]
        refine ⟨?_, ih0⟩
        rcases Bool.or_eq_true_iff.1 hs.1 with h1 | h1
        · exact Or.inl h1
        · exact Or.inr (folK_replaceAux h1)

/-- **`s.replace(pat, by)`** for a pattern that starts with STX and a replacement without STX -/
theorem SK_replace {s p b : Str} (hs : SK s = true) (hb : G.STX ∉ b) : SK (replace s (G.STX :: p) b) = true := by
  unfold replace
  rw [if_neg (by simp)]
  exact SK_replaceAux hb s 0 (by simpa using hs)

theorem SK_ampSub {s : Str} (hs : SK s = true) : SK (Post.ampSub s) = true := by
  unfold Post.ampSub
  exact SK_replace (p := ['a', 'm', 'p', Post.ETX]) hs (by decide)

theorem SK_fnPostprocess {s : Str} (hs : SK s = true) : SK (FootnotesTree.postprocess s) = true := by
  unfold FootnotesTree.postprocess
  exact SK_replace (p := "qq3936677670287331zz".toList ++ [FootnotesTree.ETX])
    (SK_replace (p := "zz1337820767766393qq".toList ++ [FootnotesTree.ETX]) hs (by decide)) (by decide)

/-! ### `RawHtmlPostprocessor` -/

theorem mem_take_spanLen' (p : Char → Bool) : ∀ (s : Str), ∀ c ∈ s.take (spanLen p s), p c = true := by
  intro s
  induction s with
  | nil => intro c hc; simp [spanLen] at hc
  | cons d s ih =>
    intro c hc
    simp only [spanLen] at hc
    split at hc
    · rename_i hd
      simp only [List.take_succ_cons, List.mem_cons] at hc
      rcases hc with rfl | hc
      · exact hd
      · exact ih c hc
    · simp at hc

theorem take_add' (s : Str) (a b : Nat) : s.take (a + b) = s.take a ++ (s.drop a).take b := by
  induction a generalizing s with
  | zero => simp
  | succ a ih =>
    cases s with
    | nil => simp
    | cons c s =>
      have : a + 1 + b = (a + b) + 1 := by omega
      rw [this, List.take_succ_cons, List.take_succ_cons, List.drop_succ_cons, ih]
      rfl

/-- the text of a raw-HTML placeholder: STX, `w`, then no further STX -/
theorem htmlPhAt_chunk {suf digits : Str} {l : Nat} (h : Post.htmlPhAt suf = some (digits, l)) :
    ∃ B, suf.take l = G.STX :: 'w' :: B ∧ G.STX ∉ B := by
  unfold Post.htmlPhAt at h
  split at h
  · rename_i hsw
    simp only at h
    split at h
    · rename_i hc
      simp only [Option.some.injEq, Prod.mk.injEq] at h
      simp only [Bool.and_eq_true, decide_eq_true_eq, beq_iff_eq] at hc
      obtain ⟨rest, hrest⟩ := startsWith_iff_prefix.1 hsw
      have hdrop : suf.drop Post.htmlPrefixLen = rest := by
        rw [hrest]; exact List.drop_left' (by decide)
      rw [hdrop] at hc h
      obtain ⟨_, hl⟩ := h
      have hlt : spanLen isAsciiDigit rest < rest.length := by
        rcases Nat.lt_or_ge (spanLen isAsciiDigit rest) rest.length with h' | h'
        · exact h'
        · rw [List.getElem?_eq_none h'] at hc; cases hc.2
      have e1 : rest.take (spanLen isAsciiDigit rest + 1) = rest.take (spanLen isAsciiDigit rest) ++ [Post.ETX] := by
        rw [List.take_add_one, hc.2]; rfl
      refine ⟨"zxhzdk:".toList ++ rest.take (spanLen isAsciiDigit rest) ++ [Post.ETX], ?_, ?_⟩
      · rw [← hl, hrest]
        have hlen : Post.htmlPrefix.length = 9 := rfl
        have h9 : Post.htmlPrefixLen = 9 := rfl
        have : Post.htmlPrefixLen + spanLen isAsciiDigit rest + 1 =
            Post.htmlPrefix.length + (spanLen isAsciiDigit rest + 1) := by omega
        rw [this, take_add', List.take_left, List.drop_left, e1]
        rfl
      · intro hm
        rcases List.mem_append.1 hm with hm | hm
        · rcases List.mem_append.1 hm with hm | hm
          · revert hm; decide
          · have := mem_take_spanLen' isAsciiDigit rest _ hm
            revert this; decide
        · revert hm; decide
    · cases h
  · cases h

theorem SK_phChunk {B X : Str} (hB : G.STX ∉ B) (hX : SK X = true) : SK (G.STX :: 'w' :: B ++ X) = true := by
  have e : G.STX :: 'w' :: B ++ X = G.STX :: ('w' :: (B ++ X)) := rfl
  rw [e, SK_cons, SK_cons_ne (by decide), SK_noSTX_append hB, hX]
  simp [folK, win, folK0, gl]

theorem subPass_copy (bl : List Str) (stash : List Str) (c : Char) (s : Str) (h1 : c ≠ G.STX) (h2 : c ≠ '<') :
    Post.subPass bl stash 0 (c :: s) = c :: Post.subPass bl stash 0 s := by
  have h1' : c ≠ Post.STX := h1
  simp [Post.subPass, h1', h2]

theorem htmlPhAt_none_of_head {r : Str} (h : r.head? ≠ some G.STX) : Post.htmlPhAt r = none := by
  unfold Post.htmlPhAt
  rw [if_neg]
  intro hsw
  obtain ⟨t, ht⟩ := startsWith_iff_prefix.1 hsw
  rw [ht] at h
  exact h rfl

/-- the `<` of a clean tag behind an STX is copied: the first alternative of the pattern (`<p>` placeholder `</p>`)
    does not match there -/
theorem subPass_copy_lt (bl : List Str) (stash : List Str) {t r' : Str} (ha : spanRest t = some r')
    (h0 : folK0 r' = true) : Post.subPass bl stash 0 ('<' :: t) = '<' :: Post.subPass bl stash 0 t := by
  have hne : ('<' : Char) ≠ Post.STX := by decide
  have hp : startsWith t ['p', '>'] = true → Post.htmlPhAt (t.drop 2) = none := by
    intro hsw
    obtain ⟨rest, hrest⟩ := startsWith_iff_prefix.1 hsw
    have ht : t = 'p' :: '>' :: rest := hrest
    subst ht
    have : r' = rest := by
      have := (spanRest_some ha).2
      have hpd : ¬ (('p' : Char) = G.STX ∨ ('p' : Char) = '<') := by decide
      simp only [afterSpan, if_neg (by decide : ('p' : Char) ≠ '>'), if_neg hpd, if_true,
        Option.some.injEq] at this
      exact this.symm
    subst this
    apply htmlPhAt_none_of_head
    cases r' with
    | nil => simp
    | cons d r' => simpa using (folK0_first h0).1
  rw [Post.subPass]
  cases hsw : startsWith t ['p', '>'] with
  | false => simp [hsw, hne]
  | true => simp [hsw, hne, hp hsw]

theorem copies_subPass (bl : List Str) (stash : List Str) : Copies (Post.subPass bl stash 0) where
  nil := rfl
  copy := fun c s h1 h2 => subPass_copy bl stash c s h1 h2

theorem folK_subPass (bl : List Str) (stash : List Str) {r : Str} (h : folK r = true) :
    folK (Post.subPass bl stash 0 r) = true :=
  folK_copies (copies_subPass bl stash) (fun _ _ ha h0 => subPass_copy_lt bl stash ha h0)
    (fun _ h' => folK0_copies (copies_subPass bl stash) h') h

/-- **one pass of `RawHtmlPostprocessor`** over a string of the class, stash entries without STX -/
theorem SK_subPass (bl : List Str) {stash : List Str} (hst : ∀ h ∈ stash, G.STX ∉ h) :
    ∀ (s : Str) (k : Nat), SK (s.drop k) = true → SK (Post.subPass bl stash k s) = true := by
  have hlook : ∀ digits html, Post.stashLookup stash digits = some html → G.STX ∉ html := by
    intro digits html h
    unfold Post.stashLookup at h
    simp only at h
    split at h
    · exact hst html (List.mem_of_getElem? h)
    · cases h
  intro s
  induction s with
  | nil => intro k _; cases k <;> rfl
  | cons c s ih =>
    intro k hs
    cases k with
    | succ k => rw [Post.subPass]; exact ih k (by simpa using hs)
    | zero =>
      simp only [List.drop_zero] at hs
      rw [SK_cons, Bool.and_eq_true] at hs
      have hrest : ∀ n, SK (Post.subPass bl stash n s) = true := fun n => ih n (SK_drop hs.2 n)
      rw [Post.subPass]
      simp only
      split
      · -- `<p>` placeholder `</p>`
        rename_i out len halt
        split at halt
        · rename_i hp
          simp only [Bool.and_eq_true, decide_eq_true_eq] at hp
          split at halt
          · rename_i digits l hph
            split at halt
            · rename_i hclose
              split at halt
              · rename_i html hl
                split at halt
                · simp only [Option.some.injEq, Prod.mk.injEq] at halt
                  obtain ⟨rfl, rfl⟩ := halt
                  rw [SK_noSTX_append (hlook _ _ hl)]; exact hrest _
                · simp only [Option.some.injEq, Prod.mk.injEq] at halt
                  obtain ⟨rfl, rfl⟩ := halt
                  rw [SK_noSTX_append]
                  · exact hrest _
                  · intro hm
                    rcases List.mem_append.1 hm with hm | hm
                    · rcases List.mem_append.1 hm with hm | hm
                      · revert hm; decide
                      · exact hlook _ _ hl hm
                    · revert hm; decide
              · simp only [Option.some.injEq, Prod.mk.injEq] at halt
                obtain ⟨rfl, rfl⟩ := halt
                -- the text is copied: `<p>`, the placeholder, `</p>`
                obtain ⟨B, hB1, hB2⟩ := htmlPhAt_chunk hph
                obtain ⟨r1, hr1⟩ := startsWith_iff_prefix.1 hp.2
                obtain ⟨r2, hr2⟩ := startsWith_iff_prefix.1 hclose
                have e : (c :: s).take (3 + l + 4) = "<p>".toList ++ (G.STX :: 'w' :: B) ++ "</p>".toList := by
                  rw [take_add', take_add', hB1]
                  congr 1
                  · congr 1
                    rw [hr1]; rfl
                  · rw [hr2]; rfl
                rw [e, List.append_assoc, List.append_assoc, SK_noSTX_append (by decide)]
                have e2 : G.STX :: 'w' :: B ++ ("</p>".toList ++ Post.subPass bl stash (3 + l + 4 - 1) s) =
                    G.STX :: 'w' :: (B ++ "</p>".toList) ++ Post.subPass bl stash (3 + l + 4 - 1) s := by simp
                rw [e2]
                refine SK_phChunk ?_ (hrest _)
                intro hm
                rcases List.mem_append.1 hm with hm | hm
                · exact hB2 hm
                · revert hm; decide
            · cases halt
          · cases halt
        · cases halt
      · split
        · rename_i digits l hph
          have hc : c = Post.STX := by
            split at hph
            · assumption
            · cases hph
          rw [if_pos hc] at hph
          split
          · rename_i html hl
            rw [SK_noSTX_append (hlook _ _ hl)]; exact hrest _
          · obtain ⟨B, hB1, hB2⟩ := htmlPhAt_chunk hph
            rw [hB1]
            exact SK_phChunk hB2 (hrest _)
        · have ih0 := hrest 0
          simp only [SK, Bool.and_eq_true, Bool.or_eq_true]
          refine ⟨?_, ih0⟩
          rcases Bool.or_eq_true_iff.1 hs.1 with h1 | h1
          · exact Or.inl h1
          · exact Or.inr (folK_subPass bl stash h1)

theorem SK_rawHtml (bl : List Str) {stash : List Str} (hst : ∀ h ∈ stash, G.STX ∉ h) :
    ∀ (f : Nat) (t r : Str), SK t = true → Post.rawHtml bl stash f t = some r → SK r = true := by
  intro f
  induction f with
  | zero => intro t r _ h; simp [Post.rawHtml] at h
  | succ f ih =>
    intro t r ht h
    simp only [Post.rawHtml] at h
    split at h
    · simp only [Option.some.injEq] at h; subst h; exact ht
    · have hp := SK_subPass bl hst t 0 (by simpa using ht)
      split at h
      · simp only [Option.some.injEq] at h; subst h; exact hp
      · exact ih _ _ hp h

/-! ### `strip_tags`: removing a span -/

/-- two characters behind an STX that do not start a tag stay where they are when what follows is replaced -/
theorem folK0_swap {r : Str} {X c : Str} (h : folK0 (r ++ '<' :: X) = true) : folK0 (r ++ c) = true ∧ r ≠ [] := by
  cases r with
  | nil => simp [folK0, tm, gl, isNZ] at h
  | cons c1 r =>
    refine ⟨?_, by simp⟩
    simp only [List.cons_append, folK0, Bool.or_eq_true, Bool.and_eq_true] at h ⊢
    rcases h with h | h
    · exact Or.inl h
    · refine Or.inr ⟨h.1, ?_⟩
      cases r with
      | nil =>
        have : isAsciiDigit '<' = false := by decide
        simp [digit2K, tm, this] at h
      | cons d r => simpa [digit2K] using h.2

/-- behind a tag that is followed by another `<`: the tag was closed -/
theorem afterSpan_lt {t X r : Str} (h : afterSpan (t ++ '<' :: X) = some r) :
    ∃ r1, afterSpanT t = some r1 ∧ r = r1 ++ '<' :: X := by
  induction t with
  | nil => simp [afterSpan] at h
  | cons c t ih =>
    simp only [List.cons_append, afterSpan] at h
    simp only [afterSpanT]
    split at h
    · rename_i hc
      rw [if_pos hc]
      simp only [Option.some.injEq] at h
      exact ⟨t, rfl, h.symm⟩
    · rename_i hc
      rw [if_neg hc]
      split at h
      · cases h
      · rename_i hd; rw [if_neg hd]; exact ih h

/-- a span `<` … `>` without `>` inside, behind an STX: either it is the clean tag, or it is not looked at -/
theorem afterSpan_exact {sp c : Str} (h : '>' ∉ sp) :
    afterSpan (sp ++ '>' :: c) = some c ∨ afterSpan (sp ++ '>' :: c) = none := by
  induction sp with
  | nil => left; simp [afterSpan]
  | cons x sp ih =>
    have hx : x ≠ '>' := fun e => h (by rw [e]; exact List.mem_cons_self)
    simp only [List.cons_append, afterSpan, if_neg hx]
    split
    · exact Or.inr rfl
    · exact ih (fun hm => h (List.mem_cons_of_mem _ hm))

theorem folK_cut_gt {r sp c : Str} (hsp : '>' ∉ sp) (h : folK (r ++ '<' :: sp ++ '>' :: c) = true)
    (hc : SK c = true → True) : folK (r ++ c) = true := by
  have _ := hc
  cases r with
  | nil =>
    -- the removed span is the tag behind the STX
    rcases folK_cases h with h0 | ⟨t, r', e, ha, h0⟩
    · simp [folK0, tm, gl, isNZ] at h0
    · have et : t = sp ++ '>' :: c := by
        simp only [List.nil_append, List.cons_append, List.cons.injEq, true_and] at e
        exact e.symm
      subst et
      rcases afterSpan_exact (c := c) hsp with e1 | e1
      · have := (spanRest_some ha).2
        rw [e1] at this
        simp only [Option.some.injEq] at this; subst this
        exact folK_of_0 h0
      · have := (spanRest_some ha).2
        rw [e1] at this; cases this
  | cons c1 r =>
    by_cases hc1 : c1 = '<'
    · -- a tag behind the STX, closed before the removed span
      subst hc1
      rcases folK_cases h with h0 | ⟨t, r', e, ha, h0⟩
      · simp [folK0, tm, gl, isNZ] at h0
      · have et : t = r ++ '<' :: (sp ++ '>' :: c) := by
          simp only [List.cons_append, List.append_assoc, List.cons.injEq, true_and] at e
          rw [← e]
        subst et
        obtain ⟨hb, ha'⟩ := spanRest_some ha
        obtain ⟨r1, hr1, rfl⟩ := afterSpan_lt ha'
        obtain ⟨hsw, hne⟩ := folK0_swap (c := c) h0
        rw [List.cons_append]
        refine folK_span (spanRest_of ?_ (afterSpan_append_T hr1 c)) hsw
        cases r with
        | nil => cases hr1
        | cons d r => simpa using hb
    · rw [List.cons_append, folK_cons_ne hc1]
      have h' : folK0 ((c1 :: r) ++ '<' :: (sp ++ '>' :: c)) = true := by
        have := h
        rw [List.append_assoc, List.cons_append, folK_cons_ne hc1] at this
        simpa using this
      exact (folK0_swap (c := c) h').1

/-- **removing a span `<` … `>`** (without `>` inside) -/
theorem SK_cut_gt {a sp c : Str} (hsp : '>' ∉ sp) (h : SK (a ++ '<' :: sp ++ '>' :: c) = true) :
    SK (a ++ c) = true := by
  have hc : SK c = true := by
    have : a ++ '<' :: sp ++ '>' :: c = (a ++ '<' :: sp ++ ['>']) ++ c := by simp
    rw [this] at h
    exact SK_right h
  induction a with
  | nil => exact hc
  | cons x a ih =>
    simp only [List.cons_append, List.append_assoc, SK, Bool.and_eq_true, Bool.or_eq_true] at h
    simp only [List.cons_append, SK, Bool.and_eq_true, Bool.or_eq_true]
    refine ⟨?_, ih (by simpa [List.append_assoc] using h.2)⟩
    rcases h.1 with h1 | h1
    · exact Or.inl h1
    · right
      have : folK (a ++ '<' :: sp ++ '>' :: c) = true := by simpa [List.append_assoc] using h1
      exact folK_cut_gt hsp this (fun _ => trivial)

/-- in front of `<!` every continuation is complete -/
theorem folC_of_folK_bang {r X : Str} (h : folK (r ++ '<' :: '!' :: X) = true) : folC r = true := by
  cases r with
  | nil =>
    rcases folK_cases h with h0 | ⟨t, r', e, ha, _⟩
    · simp [folK0, tm, gl, isNZ] at h0
    · simp only [List.nil_append, List.cons.injEq, true_and] at e
      subst e
      simp [spanRest] at ha
  | cons c1 r =>
    by_cases hc1 : c1 = '<'
    · subst hc1
      rcases folK_cases h with h0 | ⟨t, r', e, ha, h0⟩
      · simp [folK0, tm, gl, isNZ] at h0
      · have et : t = r ++ '<' :: '!' :: X := by
          simp only [List.cons_append, List.cons.injEq, true_and] at e
          exact e.symm
        subst et
        obtain ⟨hb, ha'⟩ := spanRest_some ha
        obtain ⟨r1, hr1, rfl⟩ := afterSpan_lt ha'
        have hcomp : folC0 r1 = true := by
          cases r1 with
          | nil => simp [folK0, tm, gl, isNZ] at h0
          | cons d r1 =>
            simp only [List.cons_append, folK0, Bool.or_eq_true, Bool.and_eq_true] at h0
            simp only [folC0, Bool.or_eq_true, Bool.and_eq_true]
            rcases h0 with h0 | h0
            · exact Or.inl h0
            · refine Or.inr ⟨h0.1, ?_⟩
              cases r1 with
              | nil =>
                have : isAsciiDigit '<' = false := by decide
                simp [digit2K, tm, this] at h0
              | cons e r1 => simpa [digit2K, digit2C] using h0.2
        have hbr : r.head? ≠ some '!' := by
          cases r with
          | nil => cases hr1
          | cons d r => simpa using hb
        simp only [folC, if_true]
        have : spanRestT r = some r1 := by
          cases r with
          | nil => cases hr1
          | cons d r =>
            have hd : d ≠ '!' := by simpa using hbr
            simp only [spanRestT, if_neg hd]; exact hr1
        rw [this]; exact hcomp
    · have h' : folK0 ((c1 :: r) ++ '<' :: '!' :: X) = true := by
        have := h
        rw [List.cons_append, folK_cons_ne hc1] at this
        simpa using this
      have hcomp : folC0 (c1 :: r) = true := by
        simp only [List.cons_append, folK0, Bool.or_eq_true, Bool.and_eq_true] at h'
        simp only [folC0, Bool.or_eq_true, Bool.and_eq_true]
        rcases h' with h' | h'
        · exact Or.inl h'
        · refine Or.inr ⟨h'.1, ?_⟩
          cases r with
          | nil =>
            have : isAsciiDigit '<' = false := by decide
            simp [digit2K, tm, this] at h'
          | cons e r => simpa [digit2K, digit2C] using h'.2
      simp only [folC, if_neg hc1]; exact hcomp

theorem SKC_of_SK_bang {a X : Str} (h : SK (a ++ '<' :: '!' :: X) = true) : SKC a = true := by
  induction a with
  | nil => rfl
  | cons c r ih =>
    simp only [List.cons_append, SK, Bool.and_eq_true, Bool.or_eq_true] at h
    simp only [SKC, Bool.and_eq_true, Bool.or_eq_true]
    refine ⟨?_, ih h.2⟩
    rcases h.1 with h' | h'
    · exact Or.inl h'
    · exact Or.inr (folC_of_folK_bang h')

theorem find_gt_spec {s : Str} {e : Nat} (h : find ['>'] s = some e) :
    ∃ sp c, s = sp ++ '>' :: c ∧ sp.length = e ∧ '>' ∉ sp := by
  obtain ⟨pre, post, e1, e2, hmin⟩ := find_some_iff.1 h
  refine ⟨pre, post, by rw [e1]; simp, e2, ?_⟩
  intro hm
  obtain ⟨u, v, huv⟩ := List.append_of_mem hm
  have := hmin u (v ++ '>' :: post) (by rw [e1, huv]; simp)
  rw [← e2, huv] at this
  simp at this
  omega

/-- removing the `<…>` spans -/
theorem SK_cutSpans_tag : ∀ (f : Nat) (t : Str), SK t = true → SK (TocTree.cutSpans ['<'] ['>'] f t) = true := by
  intro f
  induction f with
  | zero => intro t h; exact h
  | succ f ih =>
    intro t h
    simp only [TocTree.cutSpans]
    split
    · exact h
    · rename_i s hs
      split
      · exact h
      · rename_i e he
        apply ih
        obtain ⟨pre, post, e1, e2, _⟩ := find_some_iff.1 hs
        have ht : t.take s = pre := by rw [e1, ← e2, List.append_assoc, List.take_left]
        have hd : t.drop s = '<' :: post := by rw [e1, ← e2, List.append_assoc, List.drop_left]; rfl
        rw [hd] at he
        -- the `>` is not the `<` itself
        have he0 : e ≠ 0 := by
          intro e0; subst e0
          have := (find_some_iff_drop.1 he).2.1
          simp at this
        obtain ⟨sp0, c, hc1, hc2, hc3⟩ := find_gt_spec he
        cases sp0 with
        | nil => simp at hc2; exact absurd hc2.symm he0
        | cons x sp =>
          have hx : x = '<' := (List.cons.inj hc1).1.symm
          have hpost : post = sp ++ '>' :: c := (List.cons.inj hc1).2
          subst hx
          have hdrop : t.drop (s + e + 1) = c := by
            rw [e1, ← e2, hpost]
            have : pre.length + e + 1 = (pre ++ ['<'] ++ sp ++ ['>']).length := by
              simp at hc2 ⊢; omega
            rw [this]
            have e3 : pre ++ ['<'] ++ (sp ++ '>' :: c) = (pre ++ ['<'] ++ sp ++ ['>']) ++ c := by simp
            rw [e3, List.drop_left]
          have hlen : (['>'] : Str).length = 1 := rfl
          rw [ht, hlen, hdrop]
          apply SK_cut_gt (sp := sp) (fun hm => hc3 (List.mem_cons_of_mem _ hm))
          rw [e1, hpost] at h
          simpa [List.append_assoc] using h

/-- removing the `<!--…-->` spans -/
theorem SK_cutSpans_comment : ∀ (f : Nat) (t : Str), SK t = true →
    SK (TocTree.cutSpans "<!--".toList "-->".toList f t) = true := by
  intro f
  induction f with
  | zero => intro t h; exact h
  | succ f ih =>
    intro t h
    simp only [TocTree.cutSpans]
    split
    · exact h
    · rename_i s hs
      split
      · exact h
      · rename_i e he
        apply ih
        obtain ⟨pre, post, e1, e2, _⟩ := find_some_iff.1 hs
        have ht : t.take s = pre := by rw [e1, ← e2, List.append_assoc, List.take_left]
        rw [ht]
        have h' : SK (pre ++ '<' :: '!' :: ("--".toList ++ post)) = true := by
          rw [e1] at h; simpa [List.append_assoc] using h
        exact SK_append_of_C (SKC_of_SK_bang h') (SK_drop h _)

/-! ### `strip_tags`: collapsing whitespace -/

theorem collapseWs_space_shape : ∀ (s : Str), TocTree.collapseWs false true s = [] ∨
    ∃ t, TocTree.collapseWs false true s = ' ' :: t := by
  intro s
  induction s with
  | nil => exact Or.inl rfl
  | cons c r ih =>
    simp only [TocTree.collapseWs]
    split
    · exact ih
    · exact Or.inr ⟨_, rfl⟩

theorem gl_not_space {c : Char} (h : gl c = true) : isSpace c = false := by
  cases hs : isSpace c with
  | false => rfl
  | true =>
    have := cutOk_space hs
    rw [cutOk_false_of_gl h] at this; cases this

theorem digit2K_collapse {r : Str} (h : digit2K r = true) : digit2K (TocTree.collapseWs true true r) = true := by
  cases r with
  | nil => rfl
  | cons d r =>
    simp only [digit2K, Bool.or_eq_true] at h
    simp only [TocTree.collapseWs]
    cases hs : isSpace d with
    | true =>
      rw [if_pos rfl]
      rcases collapseWs_space_shape r with e | ⟨t, e⟩
      · rw [e]; rfl
      · rw [e]; simp [digit2K, tm]
    | false =>
      rw [if_neg (by simp)]
      simpa [digit2K] using h

theorem folK0_collapse {r : Str} (h : folK0 r = true) : folK0 (TocTree.collapseWs true true r) = true := by
  cases r with
  | nil => rfl
  | cons c r =>
    simp only [TocTree.collapseWs]
    cases hs : isSpace c with
    | true =>
      rw [if_pos rfl]
      rcases collapseWs_space_shape r with e | ⟨t, e⟩
      · rw [e]; rfl
      · rw [e]; simp [folK0, tm]
    | false =>
      rw [if_neg (by simp)]
      simp only [if_true, folK0, Bool.or_eq_true, Bool.and_eq_true] at h ⊢
      rcases h with h | h
      · exact Or.inl h
      · exact Or.inr ⟨h.1, digit2K_collapse h.2⟩

/-- through a clean tag: the tag stays a clean tag, what follows it is collapsed -/
theorem afterSpan_collapse : ∀ (t : Str) (iw : Bool) (r' : Str), afterSpan t = some r' →
    afterSpan (TocTree.collapseWs iw true t) = some (TocTree.collapseWs true true r') := by
  intro t
  induction t with
  | nil =>
    intro iw r' ha
    simp only [afterSpan, Option.some.injEq] at ha; subst ha
    rfl
  | cons c t ih =>
    intro iw r' ha
    simp only [afterSpan] at ha
    split at ha
    · rename_i hc
      subst hc
      simp only [Option.some.injEq] at ha; subst ha
      have hs : isSpace '>' = false := by decide
      simp only [TocTree.collapseWs, hs, Bool.false_eq_true, if_false]
      cases iw <;> simp [afterSpan] <;> decide
    · rename_i hc
      split at ha
      · cases ha
      · rename_i hd
        simp only [TocTree.collapseWs]
        cases hs : isSpace c with
        | true => rw [if_pos rfl]; exact ih false r' ha
        | false =>
          rw [if_neg (by simp)]
          have h1 := ih true r' ha
          cases iw with
          | true => simp only [if_true, afterSpan, if_neg hc, if_neg hd]; exact h1
          | false =>
            simp only [Bool.false_eq_true, if_false, if_true, afterSpan, if_neg hc, if_neg hd]
            rw [if_neg (by decide), if_neg (by decide)]
            exact h1

theorem head_collapse {t r' : Str} (ha : spanRest t = some r') :
    (TocTree.collapseWs true true t).head? ≠ some '!' := by
  obtain ⟨hb, _⟩ := spanRest_some ha
  cases t with
  | nil => simp [TocTree.collapseWs]
  | cons c t =>
    simp only [TocTree.collapseWs]
    cases hs : isSpace c with
    | true =>
      rw [if_pos rfl]
      rcases collapseWs_space_shape t with e | ⟨u, e⟩
      · rw [e]; simp
      · rw [e]; simp
    | false =>
      rw [if_neg (by simp)]
      simpa using hb

theorem folK_collapse {r : Str} (h : folK r = true) : folK (TocTree.collapseWs true true r) = true := by
  rcases folK_cases h with h0 | ⟨t, r', rfl, ha, h0⟩
  · exact folK_of_0 (folK0_collapse h0)
  · have hs : isSpace '<' = false := by decide
    simp only [TocTree.collapseWs, hs, Bool.false_eq_true, if_false, if_true]
    exact folK_span (spanRest_of (head_collapse ha) (afterSpan_collapse t true r' (spanRest_some ha).2))
      (folK0_collapse h0)

theorem SK_collapseWs : ∀ (s : Str) (a b : Bool), SK s = true → SK (TocTree.collapseWs a b s) = true := by
  intro s
  induction s with
  | nil => intro a b _; rfl
  | cons c r ih =>
    intro a b h
    rw [SK_cons, Bool.and_eq_true] at h
    have hstep : SK (c :: TocTree.collapseWs true true r) = true := by
      simp only [SK, Bool.and_eq_true, Bool.or_eq_true]
      refine ⟨?_, ih true true h.2⟩
      rcases Bool.or_eq_true_iff.1 h.1 with h1 | h1
      · exact Or.inl h1
      · exact Or.inr (folK_collapse h1)
    simp only [TocTree.collapseWs]
    split
    · exact ih _ _ h.2
    · split
      · exact hstep
      · split
        · rw [SK_cons_ne (by decide)]; exact hstep
        · exact hstep

/-- **`strip_tags` keeps the class** -/
theorem SK_stripTags {s : Str} (h : SK s = true) : SK (TocTree.stripTags s) = true := by
  unfold TocTree.stripTags
  exact SK_collapseWs _ _ _ (SK_cutSpans_tag _ _ (SK_cutSpans_comment _ _ h))

end MdVerif.VocabXAmp
