/-
`DeepC c` (no `c` in any text / tail) as an invariant of the parent element through every block processor and
`parseBlocksXT`, on blocks without `c`.  Core Lean only.
-/
import MdVerif.Lemmas.PipelineXInertTree

namespace MdVerif.BlockExt
open Py Block InlineX

variable {c : Char}

/-- the recursive-call callback keeps the parent `c`-free on `c`-free blocks -/
def NSound (c : Char) (pb : PB) : Prop :=
  ∀ st refs p bl, AllOk (NoC c) bl → DeepC c p → ∀ n r, pb st refs p bl = some (n, r) → DeepC c n

def NPair (c : Char) (x : Option (Node × Refs)) : Prop := ∀ n r, x = some (n, r) → DeepC c n
def NRes (c : Char) (r : Option (Node × Refs × List Str)) : Prop := ∀ n refs rest, r = some (n, refs, rest) → DeepC c n

theorem nres_none : NRes c none := by intro n refs rest h; cases h

theorem nres_some {n : Node} {refs : Refs} {rest : List Str} (h : DeepC c n) : NRes c (some (n, refs, rest)) := by
  intro n' refs' rest' e; cases e; exact h

theorem nres_of_pair {x : Option (Node × Refs)} (f : Node → Node) (rest : List Str) (h : NPair c x)
    (hf : ∀ n, DeepC c n → DeepC c (f n)) :
    NRes c (match (generalizing := false) x with | some (n, r) => some (f n, r, rest) | none => none) := by
  cases hx : x with
  | none => exact nres_none
  | some pr =>
    obtain ⟨n, r⟩ := pr
    exact nres_some (hf n (h n r hx))

theorem nres_bind {x : Option (Node × Refs)} (K : Node → Refs → Option (Node × Refs × List Str)) (h : NPair c x)
    (hK : ∀ n r, DeepC c n → NRes c (K n r)) :
    NRes c (match (generalizing := false) x with | none => none | some (n, r) => K n r) := by
  cases hx : x with
  | none => exact nres_none
  | some pr =>
    obtain ⟨n, r⟩ := pr
    exact hK n r (h n r hx)

theorem nres_ite {a b : Option (Node × Refs × List Str)} (p : Prop) [Decidable p] (h1 : p → NRes c a)
    (h2 : ¬p → NRes c b) : NRes c (if p then a else b) := by
  by_cases h : p
  · rw [if_pos h]; exact h1 h
  · rw [if_neg h]; exact h2 h

variable {pb : PB} {tab : Nat} {state : List BState} {refs : Refs} {parent : Node} {b : Str} {rest : List Str}

section
variable (hs : BlockSafeC c)
include hs

theorem hc_of : Closed (NoC c) := closed_noC c hs.nl

theorem NSound.chunk {pb : PB} (hn : NSound c pb) (st : List BState) (refs : Refs) (p : Node)
    {text : Str} (ht : NoC c text) (hp : DeepC c p) : NPair c (parseChunk pb st refs p text) :=
  hn _ _ _ _ (ok_splitS (hc_of hs) ht) hp

theorem hashP_tree (hn : NSound c pb) (hb : NoC c b) (hp : DeepC c parent) (m : Nat × Nat × Nat × Str)
    (hm : hashSearch b = some m) : NRes c (hashP tab pb state refs parent b rest m) := by
  obtain ⟨st, en, lv, header⟩ := m
  have hhd : c ∉ strip header := fun hmem => hb (hashSearch_sub hm _ ((stripP_infix _ _).subset hmem))
  have hnode : ∀ {p : Node}, DeepC c p → DeepC c (p.append { hTag lv with text := some (strip header) }) := by
    intro p hp'
    apply DeepC_append hp'
    unfold DeepC; rw [deepC_eq]
    simp [hTag, optC, deepCs, List.contains_iff_mem, hhd]
  simp only [hashP]
  by_cases he : (b.take st).isEmpty = true
  · simp only [he, if_true]
    exact nres_some (hnode hp)
  · simp only [he, Bool.false_eq_true, if_false]
    have hpp := hn state refs parent [b.take st] (AllOk.single (ok_take (hc_of hs) st hb)) hp
    cases h : pb state refs parent [b.take st] with
    | none => exact nres_none
    | some pr =>
      obtain ⟨n, r⟩ := pr
      exact nres_some (hnode (hpp n r h))

theorem hrP_tree (hn : NSound c pb) (hb : NoC c b) (hp : DeepC c parent) (m : Nat × Nat) :
    NRes c (hrP pb state refs parent b rest m) := by
  obtain ⟨st, en⟩ := m
  simp only [hrP]
  by_cases he : (rstripC '\n' (b.take st)).isEmpty = true
  · simp only [he, if_true]
    exact nres_some (DeepC_append hp (DeepC_el _))
  · simp only [he, Bool.false_eq_true, if_false]
    have hpp := hn state refs parent [rstripC '\n' (b.take st)]
      (AllOk.single (ok_rstripC (hc_of hs) _ (ok_take (hc_of hs) st hb))) hp
    cases h : pb state refs parent [rstripC '\n' (b.take st)] with
    | none => exact nres_none
    | some pr =>
      obtain ⟨n, r⟩ := pr
      exact nres_some (DeepC_append (hpp n r h) (DeepC_el _))

theorem listItems_tree (hn : NSound c pb) (st2 : List BState) :
    ∀ (items : List Str) (refs : Refs) (lst : Node), AllOk (NoC c) items → DeepC c lst →
      NPair c (listItems tab pb st2 refs lst items) := by
  intro items
  induction items with
  | nil =>
    intro refs lst _ hl n r h
    have e1 : listItems tab pb st2 refs lst [] = some (lst, refs) := rfl
    rw [e1] at h; cases h; exact hl
  | cons item items ih =>
    intro refs lst hi hl
    simp only [listItems]
    split
    · split
      · rename_i l hlast
        have hpp := hn st2 refs l [item] (AllOk.single (AllOk.head hi)) (DeepC_last hl hlast)
        cases h : pb st2 refs l [item] with
        | none => intro n r e; cases e
        | some pr =>
          obtain ⟨li, r⟩ := pr
          exact ih r _ (AllOk.tail hi) (DeepC_setLast hl (hpp li r h))
      · exact ih refs lst (AllOk.tail hi) hl
    · have hpp := hn st2 refs (Node.el "li") [item] (AllOk.single (AllOk.head hi)) (DeepC_el _)
      cases h : pb st2 refs (Node.el "li") [item] with
      | none => intro n r e; cases e
      | some pr =>
        obtain ⟨li, r⟩ := pr
        exact ih r _ (AllOk.tail hi) (DeepC_append hl (hpp li r h))

theorem listPX_tree (hn : NSound c pb) (hb : NoC c b) (hp : DeepC c parent) (p : ListParams) (tag : String) :
    NRes c (listPX p tab pb state refs parent b rest tag) := by
  have hitems := ok_getItemsX (hc_of hs) p tab hb
  simp only [listPX]
  split
  · rename_i lst hlst
    have hlstD : DeepC c lst := by
      split at hlst
      · rename_i sib hsib
        split at hlst
        · injection hlst with hlst; exact hlst ▸ DeepC_last hp hsib
        · cases hlst
      · cases hlst
    have hlst' : DeepC c (match lst.last? with
        | some li =>
          lst.setLast (match (textToP li).last? with
            | some lch =>
              if Node.truthy lch.tail = true then
                ((textToP li).setLast { lch with tail := some [], tailAtomic := false }).append
                  (mkText "p" (lstrip (lch.tail.getD [])))
              else textToP li
            | none => textToP li)
        | none => lst) := by
      split
      · rename_i li hli
        have hli' := DeepC_textToP (DeepC_last hlstD hli)
        apply DeepC_setLast hlstD
        split
        · rename_i lch hlch
          have hlchD := DeepC_last hli' hlch
          split
          · apply DeepC_append
            · apply DeepC_setLast hli'
              have h' := (DeepC_iff lch).mp hlchD
              rw [DeepC_iff]
              exact ⟨h'.1, (by intro s hs'; cases hs'; simp), h'.2.2⟩
            · exact DeepC_mkText _ (fun hm => optC_of_DeepC_tail hlchD ((lstripP_infix _ _).subset hm))
          · exact hli'
        · exact hli'
      · exact hlstD
    have hhead : NoC c ((getItemsX p tab b).headD []) := by
      cases h : getItemsX p tab b with
      | nil => simp [NoC]
      | cons a r => rw [h] at hitems; exact AllOk.head hitems
    have hpp := hn (state ++ [.looselist]) refs (Node.el "li") [(getItemsX p tab b).headD []] (AllOk.single hhead)
      (DeepC_el _)
    cases h : pb (state ++ [.looselist]) refs (Node.el "li") [(getItemsX p tab b).headD []] with
    | none => exact nres_none
    | some pr =>
      obtain ⟨newli, r⟩ := pr
      have hdrop : AllOk (NoC c) ((getItemsX p tab b).drop 1) := fun x hx => hitems x (List.mem_of_mem_drop hx)
      exact nres_of_pair (fun l => parent.setLast l) rest
        (listItems_tree hs hn _ _ r _ hdrop (DeepC_append hlst' (hpp newli r h))) (fun n hn' => DeepC_setLast hp hn')
  · split
    · exact nres_of_pair (fun l => l) rest (listItems_tree hs hn _ _ refs _ hitems hp) (fun n hn' => hn')
    · refine nres_of_pair (fun l => parent.append l) rest (listItems_tree hs hn _ _ refs _ hitems ?_)
        (fun n hn' => DeepC_append hp hn')
      split
      · unfold DeepC; rw [deepC_eq]; simp [Node.el, optC, deepCs]
      · exact DeepC_el _

theorem listP_tree (hn : NSound c pb) (hb : NoC c b) (hp : DeepC c parent) (tag : String) :
    NRes c (listP tab pb state refs parent b rest tag) := by
  rw [← listPX_default]
  exact listPX_tree hs hn hb hp _ tag

theorem quoteP_tree (hn : NSound c pb) (hb : NoC c b) (hp : DeepC c parent) (q : Nat) :
    NRes c (quoteP pb state refs parent b rest q) := by
  simp only [quoteP]
  have hpp := hn state refs parent [b.take q] (AllOk.single (ok_take (hc_of hs) q hb)) hp
  cases h : pb state refs parent [b.take q] with
  | none => exact nres_none
  | some pr =>
    obtain ⟨par, r⟩ := pr
    have hpar := hpp par r h
    have hblock : NoC c (joinLines ((lines (b.drop q)).map quoteClean)) :=
      ok_mapLines (hc_of hs) _ quoteClean_infix (ok_drop (hc_of hs) q hb)
    simp only []
    split
    · rename_i sib hsib
      have hsibD : DeepC c sib := by
        split at hsib
        · rename_i sib' hs'
          split at hsib
          · injection hsib with hsib; exact hsib ▸ DeepC_last hpar hs'
          · cases hsib
        · cases hsib
      exact nres_of_pair (fun l => par.setLast l) rest (NSound.chunk hs hn _ r sib hblock hsibD)
        (fun n hn' => DeepC_setLast hpar hn')
    · exact nres_of_pair (fun l => par.append l) rest (NSound.chunk hs hn _ r _ hblock (DeepC_el _))
        (fun n hn' => DeepC_append hpar hn')

theorem indentPX_tree (hn : NSound c pb) (hb : NoC c b) (hp : DeepC c parent) (isL isI : Node → Bool)
    (itemTag : String) : NRes c (indentPX isL isI itemTag tab pb state refs parent b rest) := by
  simp only [indentPX]
  generalize getLevelX isL isI tab state parent b = lv
  obtain ⟨level, steps⟩ := lv
  have hblock : NoC c (looseDetab tab b level) := ok_looseDetab (hc_of hs) _ _ hb
  simp only []
  split
  · split
    · rename_i k hkq
      have hkD : DeepC c k := by
        split at hkq
        · rename_i k' hs'
          split at hkq
          · injection hkq with hkq; exact hkq ▸ DeepC_last hp hs'
          · cases hkq
        · cases hkq
      exact nres_of_pair (fun l => parent.setLast l) rest (hn _ refs k _ (AllOk.single hblock) hkD)
        (fun n hn' => DeepC_setLast hp hn')
    · exact nres_of_pair (fun l => l) rest (hn _ refs parent _ (AllOk.single hblock) hp) (fun n hn' => hn')
  · split
    · exact nres_of_pair (fun l => updPath (fun _ => l) steps parent) rest
        (hn _ refs _ _ (AllOk.single hblock) (DeepC_nodeAt steps hp))
        (fun n hn' => DeepC_updPath _ (fun _ _ => hn') steps hp)
    · split
      · rename_i li hli
        have hliD : DeepC c li := by
          split at hli
          · rename_i k' hs'
            split at hli
            · injection hli with hli; exact hli ▸ DeepC_last (DeepC_nodeAt steps hp) hs'
            · cases hli
          · cases hli
        exact nres_of_pair (fun l => updPath (fun s => s.setLast l) steps parent) rest
          (NSound.chunk hs hn _ refs _ hblock (DeepC_textToP hliD))
          (fun n hn' => DeepC_updPath _ (fun s hs' => DeepC_setLast hs' hn') steps hp)
      · exact nres_of_pair (fun l => updPath (fun s => s.append l) steps parent) rest
          (hn _ refs _ _ (AllOk.single hblock) (DeepC_el _))
          (fun n hn' => DeepC_updPath _ (fun s hs' => DeepC_append hs' hn') steps hp)

theorem indentP_tree (hn : NSound c pb) (hb : NoC c b) (hp : DeepC c parent) :
    NRes c (indentP tab pb state refs parent b rest) := by
  rw [← indentPX_core]
  exact indentPX_tree hs hn hb hp _ _ "li"

theorem admonitionP_tree (hn : NSound c pb) (hb : NoC c b) (hp : DeepC c parent) (hit : AdmHit)
    (hhit : ∀ st en g1 g2, hit = .re st en g1 g2 → admSearch b = some (st, en, g1, g2)) :
    NRes c (admonitionP tab pb state refs parent b rest hit) := by
  cases hit with
  | re st en g1 g2 =>
    obtain ⟨hg1, hg2⟩ := admSearch_groups (hhit st en g1 g2 rfl)
    simp only [admonitionP]
    have hblock : NoC c (detab tab (b.drop en)).1 := ok_detab_fst (hc_of hs) tab (ok_drop (hc_of hs) en hb)
    have htitle : ∀ t, (admClassTitle g1 g2).2 = some t → c ∉ t := by
      intro t ht
      simp only [admClassTitle] at ht
      split at ht
      · simp only [Option.some.injEq] at ht
        rw [← ht]
        apply capitalize_notin hs
        intro hm
        have h1 := collapseSp_sub _ _ ((List.takeWhile_prefix _).subset hm)
        exact lower_notin hs (fun h' => hb (hg1.subset h')) h1
      · cases ht
      · rename_i t' _
        simp only [Option.some.injEq] at ht
        exact ht ▸ fun hm => hb ((hg2 _ rfl).subset hm)
    have hdivD : DeepC c (if Node.truthy (admClassTitle g1 g2).2 = true then
          ({ Node.el "div" with attrs := [(strClass, strAdmonition ++ ' ' :: (admClassTitle g1 g2).1)] } : Node).append
            { mkText "p" ((admClassTitle g1 g2).2.getD []) with attrs := [(strClass, "admonition-title".toList)] }
        else { Node.el "div" with attrs := [(strClass, strAdmonition ++ ' ' :: (admClassTitle g1 g2).1)] }) := by
      have h1 : DeepC c ({ Node.el "div" with attrs := [(strClass, strAdmonition ++ ' ' :: (admClassTitle g1 g2).1)] } : Node) := by
        unfold DeepC; rw [deepC_eq]; simp [Node.el, optC, deepCs]
      split
      · apply DeepC_append h1
        have : c ∉ (admClassTitle g1 g2).2.getD [] := by
          cases ht : (admClassTitle g1 g2).2 with
          | none => simp
          | some t => simpa using htitle t ht
        unfold DeepC; rw [deepC_eq]
        simp [mkText, Node.el, optC, deepCs, List.contains_iff_mem, this]
      · exact h1
    refine nres_bind _ ?_ ?_
    · by_cases hst : st > 0
      · rw [if_pos hst]
        exact hn state refs parent [b.take st] (AllOk.single (ok_take (hc_of hs) st hb)) hp
      · rw [if_neg hst]
        intro n r e; cases e; exact hp
    · intro par r hpar
      exact nres_of_pair (fun l => par.append l) _ (NSound.chunk hs hn _ r _ hblock hdivD)
        (fun n hn' => DeepC_append hpar hn')
  | sib steps indent =>
    simp only [admonitionP]
    have hblock : NoC c (detab indent b).1 := ok_detab_fst (hc_of hs) indent hb
    have hsib := DeepC_nodeAt (c := c) steps hp
    refine nres_of_pair (fun l => updPath (fun _ => l) steps parent) _ (NSound.chunk hs hn _ refs _ hblock ?_)
      (fun n hn' => DeepC_updPath _ (fun _ _ => hn') steps hp)
    split
    · have h' := (DeepC_iff _).mp hsib
      rw [DeepC_iff]
      refine ⟨(by intro s hs'; cases hs'; simp), h'.2.1, ?_⟩
      intro k hk
      simp only [List.mem_append, List.mem_singleton] at hk
      rcases hk with hk | hk
      · exact h'.2.2 k hk
      · rw [hk, DeepC_iff]
        exact ⟨h'.1, (by intro s hs'; simp [Node.el] at hs'), (by intro k' hk'; simp [Node.el] at hk')⟩
    · exact hsib

omit hs in
theorem DeepC_addTerms {dl : Node} (terms : List Str) (h : DeepC c dl) (ht : ∀ t ∈ terms, c ∉ t) :
    DeepC c (addTerms dl terms) := by
  apply DeepC_children _ h
  intro k hk
  simp only [List.mem_append, List.mem_map] at hk
  rcases hk with hk | ⟨t, htm, hk⟩
  · exact DeepC_kids h k hk
  · exact hk ▸ DeepC_mkText _ (ht t htm)

theorem defListP_tree (hn : NSound c pb) (hb : NoC c b) (hp : DeepC c parent) (m : Nat × Nat × Str)
    (hm : defSearch b = some m) :
    ∀ x, defListP tab pb state refs parent b rest m = some x → NRes c x := by
  obtain ⟨st, en, g2⟩ := m
  have hg2 : NoC c g2 := (hc_of hs).sub (defSearch_infix hm) hb
  simp only [defListP]
  generalize hdt' : (if defNoIndent (b.drop en) = true then (b.drop en, ([] : Str)) else detab tab (b.drop en)) = dt
  obtain ⟨d0, theRest⟩ := dt
  have hd0 : NoC c d0 := by
    split at hdt'
    · injection hdt' with h1 h2
      exact h1 ▸ ok_drop (hc_of hs) en hb
    · have h1 := ok_detab_fst (hc_of hs) tab (ok_drop (hc_of hs) en hb)
      rw [hdt'] at h1
      exact h1
  have hd : NoC c (if d0.isEmpty = true then g2 else g2 ++ '\n' :: d0) := by
    split
    · exact hg2
    · exact (hc_of hs).joinNl hg2 hd0
  have hterms : ∀ t ∈ ((lines (b.take st)).map strip).filter (fun t => !t.isEmpty), c ∉ t := by
    intro t ht
    obtain ⟨l, hl, rfl⟩ := List.mem_map.mp (List.mem_filter.mp ht).1
    exact fun hmem => hb ((List.take_prefix _ _).subset ((mem_lines_infix hl).subset ((stripP_infix _ _).subset hmem)))
  simp only []
  intro x hx
  split at hx
  · split at hx
    · cases hx
    · injection hx with hx
      rw [← hx]
      exact nres_of_pair (fun dd => parent.append ((addTerms (Node.el "dl") _).append dd)) _
        (hn _ refs _ _ (AllOk.single hd) (DeepC_el _))
        (fun n hn' => DeepC_append hp (DeepC_append (DeepC_addTerms _ (DeepC_el _) hterms) hn'))
  · rename_i sibling hsib
    injection hx with hx
    rw [← hx]
    have hsibD := DeepC_last hp hsib
    have hterms2 : ∀ t ∈ (if (((lines (b.take st)).map strip).filter (fun t => !t.isEmpty)).isEmpty && sibling.isTag "p"
        then lines (sibling.text.getD []) else ((lines (b.take st)).map strip).filter (fun t => !t.isEmpty)), c ∉ t := by
      intro t ht
      split at ht
      · exact fun hmem => optC_of_DeepC_text hsibD ((mem_lines_infix ht).subset hmem)
      · exact hterms t ht
    have hpar : DeepC c (if (((lines (b.take st)).map strip).filter (fun t => !t.isEmpty)).isEmpty && sibling.isTag "p"
        then dropLastChild parent else parent) := by
      split
      · apply DeepC_children _ hp
        intro k hk
        exact DeepC_kids hp k ((List.dropLast_prefix _).subset hk)
      · exact hp
    split
    · rename_i dl hdl'
      have hdlD : DeepC c dl := by
        split at hdl'
        · rename_i s' hs'
          split at hdl'
          · injection hdl' with hdl'; exact hdl' ▸ DeepC_last hpar hs'
          · cases hdl'
        · cases hdl'
      exact nres_of_pair (fun dd => Node.setLast _ ((addTerms dl _).append dd)) _
        (hn _ refs _ _ (AllOk.single hd) (DeepC_el _))
        (fun n hn' => DeepC_setLast hpar (DeepC_append (DeepC_addTerms _ hdlD hterms2) hn'))
    · exact nres_of_pair (fun dd => Node.append _ ((addTerms (Node.el "dl") _).append dd)) _
        (hn _ refs _ _ (AllOk.single hd) (DeepC_el _))
        (fun n hn' => DeepC_append hpar (DeepC_append (DeepC_addTerms _ (DeepC_el _) hterms2) hn'))

end

end MdVerif.BlockExt
