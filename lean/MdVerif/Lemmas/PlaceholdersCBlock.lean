/-
Helper lemmas for C10c (block stage): `Lemmas/PlaceholdersBBlock.lean` with a WEAKER closure condition on the string
property `P`.  `BlkB.StrDom` asks for closure under arbitrary infixes; here (`StrDomC`) `P` only has to be closed under
dropping a prefix, cutting off an end `v` with `cutOK v = true` (`v` has neither `)` nor `]` before its first line
feed), and newline-joins.  The block parser only cuts at such places: at line ends, before trailing white space,
before the closing `#`s of a heading, after a line feed (and then strips the line feed).  Hence `P` of the source text
gives `P` of every tail and every non-atomic text of the block tree (`parseDocument_strs`).

`Cut t s`: `s = u ++ t ++ v` with `cutOK v` — a preorder (`Cut.trans`), one `*_cut` lemma per string primitive and
recogniser of the block parser.

Instance: "in the domain of C10b, no backslash–backtick, and every `](` / `![` is followed by a simple region that is
closed on the same line" (`strDomC_adjC`).

Core Lean only.
-/
import MdVerif.Lemmas.PlaceholdersBBlock
import MdVerif.Spec.NoCtlC
import MdVerif.Lemmas.PlaceholdersCAdj

namespace MdVerif.NoCtl.BlkC
open Py Block Blk BlkB

/-- `P`: a property of ordinary strings closed under dropping a prefix, cutting off an end that has no `)`/`]` before
    its first line feed, and newline-joins, that implies `AllC p` -/
structure StrDomC (p q : Char → Bool) (P : Str → Prop) : Prop where
  chars : Blk.CharDom p q
  allc : ∀ s, P s → Blk.AllC p s
  nil : P []
  cut : ∀ u t v, P (u ++ t ++ v) → cutOK v = true → P t
  joinNl : ∀ a b, P a → P b → P (a ++ '\n' :: b)

/-! ### `cutOK` -/

theorem cutOK_nil : cutOK [] = true := rfl

theorem cutOK_nl (r : Str) : cutOK ('\n' :: r) = true := by simp [cutOK]

theorem cutOK_cons {c : Char} {r : Str} (h1 : c ≠ ')') (h2 : c ≠ ']') (h : cutOK r = true) : cutOK (c :: r) = true := by
  simp only [cutOK]
  split
  · rfl
  · simp [h1, h2, h]

theorem cutOK_append : ∀ {a b : Str}, cutOK a = true → cutOK b = true → cutOK (a ++ b) = true
  | [], _, _, hb => hb
  | c :: r, b, ha, hb => by
    simp only [cutOK, List.cons_append] at ha ⊢
    split
    · rfl
    · next hc =>
      rw [if_neg hc] at ha
      split
      · next h2 => rw [if_pos h2] at ha; cases ha
      · next h2 => rw [if_neg h2] at ha; exact cutOK_append ha hb

/-- a string without `)` and `]` -/
theorem cutOK_of_forall : ∀ {a : Str}, (∀ c ∈ a, c ≠ ')' ∧ c ≠ ']') → cutOK a = true
  | [], _ => rfl
  | c :: r, h =>
    cutOK_cons (h c (by simp)).1 (h c (by simp)).2 (cutOK_of_forall (fun d hd => h d (by simp [hd])))

theorem cutOK_of_all {f : Char → Bool} (hf : f ')' = false ∧ f ']' = false) {a : Str} (h : a.all f = true) :
    cutOK a = true := by
  apply cutOK_of_forall
  intro c hc
  have := List.all_eq_true.1 h c hc
  constructor
  · rintro rfl; rw [hf.1] at this; cases this
  · rintro rfl; rw [hf.2] at this; cases this

theorem cutOK_dropWhile_notNl (s : Str) : cutOK (s.dropWhile notNl) = true := by
  induction s with
  | nil => rfl
  | cons c s ih =>
    simp only [List.dropWhile_cons]
    split
    · exact ih
    · next h =>
      have : c = '\n' := by simpa [notNl] using h
      subst this; exact cutOK_nl _

/-! ### `Cut` -/

/-- `t` is `s` without a prefix and without an end that may be cut off -/
def Cut (t s : Str) : Prop := ∃ u v, s = u ++ t ++ v ∧ cutOK v = true

theorem Cut.refl (s : Str) : Cut s s := ⟨[], [], by simp, rfl⟩

theorem Cut.trans {a b c : Str} (h1 : Cut a b) (h2 : Cut b c) : Cut a c := by
  obtain ⟨u, v, rfl, hv⟩ := h1
  obtain ⟨u', v', rfl, hv'⟩ := h2
  exact ⟨u' ++ u, v ++ v', by simp, cutOK_append hv hv'⟩

theorem cut_nil (s : Str) : Cut [] s := ⟨s, [], by simp, rfl⟩

theorem cut_suffix {t s : Str} (h : t <:+ s) : Cut t s := by
  obtain ⟨u, rfl⟩ := h
  exact ⟨u, [], by simp, rfl⟩

theorem cut_prefix {t v : Str} (hv : cutOK v = true) : Cut t (t ++ v) := ⟨[], v, by simp, hv⟩

theorem cut_drop (s : Str) (n : Nat) : Cut (s.drop n) s := cut_suffix (List.drop_suffix n s)

theorem cut_cons (c : Char) {t s : Str} (h : Cut t s) : Cut t (c :: s) := h.trans (cut_suffix (List.suffix_cons _ _))

theorem cut_takeWhile_notNl (s : Str) : Cut (s.takeWhile notNl) s := by
  have := cut_prefix (t := s.takeWhile notNl) (cutOK_dropWhile_notNl s)
  rwa [List.takeWhile_append_dropWhile] at this

theorem cut_take {s : Str} {n : Nat} (h : cutOK (s.drop n) = true) : Cut (s.take n) s := by
  have := cut_prefix (t := s.take n) h
  rwa [List.take_append_drop] at this

theorem cut_lstripP (f : Char → Bool) (s : Str) : Cut (lstripP f s) s := cut_suffix (lstripP_suffix f s)

theorem cut_rstripP {f : Char → Bool} (hf : f ')' = false ∧ f ']' = false) (s : Str) : Cut (rstripP f s) s := by
  obtain ⟨w, e, hw⟩ := rstripP_decomp f s
  have := cut_prefix (t := rstripP f s) (cutOK_of_all hf hw)
  rwa [← e] at this

theorem isSpace_paren : isSpace ')' = false ∧ isSpace ']' = false := by decide

theorem cut_strip (s : Str) : Cut (strip s) s :=
  (cut_rstripP isSpace_paren _).trans (cut_lstripP _ s)

theorem cut_rstripC {ch : Char} (h1 : ch ≠ ')') (h2 : ch ≠ ']') (s : Str) : Cut (rstripC ch s) s :=
  cut_rstripP (f := (· = ch)) ⟨by simpa using Ne.symm h1, by simpa using Ne.symm h2⟩ s

/-- a prefix that ends behind a line feed, without its final line feeds -/
theorem cut_rstripNl_take {s x : Str} {n : Nat} (h : s.take n = x ++ ['\n']) : Cut (rstripC '\n' (s.take n)) s := by
  have e : s = x ++ '\n' :: s.drop n := by
    conv => lhs; rw [← List.take_append_drop n s, h]
    simp
  have h1 : rstripC '\n' (s.take n) = rstripC '\n' x := by
    rw [h]; exact rstripP_append_of_all (by simp) x
  rw [h1]
  refine (cut_rstripC (by decide) (by decide) x).trans ?_
  have := cut_prefix (t := x) (cutOK_nl (s.drop n))
  rwa [← e] at this

/-- `n` is 0 or the position behind a line feed -/
def LineStart (s : Str) (n : Nat) : Prop := s.take n = [] ∨ ∃ x, s.take n = x ++ ['\n']

theorem cut_rstripNl_lineStart {s : Str} {n : Nat} (h : LineStart s n) : Cut (rstripC '\n' (s.take n)) s := by
  rcases h with h | ⟨x, h⟩
  · rw [h]; exact cut_nil s
  · exact cut_rstripNl_take h

theorem cut_join_of_mem {sep s : Str} (hsep : sep.head? = some '\n') : ∀ {l : List Str}, s ∈ l → Cut s (join sep l)
  | [a], hs => by simp at hs; subst hs; exact Cut.refl _
  | a :: b :: r, hs => by
    rw [join_cons_cons]
    rcases List.mem_cons.1 hs with rfl | hs
    · refine ⟨[], sep ++ join sep (b :: r), by simp, ?_⟩
      cases sep with
      | nil => cases hsep
      | cons c t => simp at hsep; subst hsep; exact cutOK_nl _
    · obtain ⟨x, y, e, hy⟩ := cut_join_of_mem (sep := sep) hsep hs
      exact ⟨a ++ sep ++ x, y, by rw [e]; simp, hy⟩

theorem lines_cut {s l : Str} (hl : l ∈ lines s) : Cut l s := by
  have := cut_join_of_mem (sep := ['\n']) rfl hl
  have e := lines_joinLines s
  simp only [Py.joinLines] at e
  rwa [e] at this

theorem splitS_cut {sep s x : Str} (hsep : sep.head? = some '\n') (hx : x ∈ splitS sep s) : Cut x s := by
  have := cut_join_of_mem (sep := sep) hsep hx
  rwa [join_splitS (by rintro rfl; cases hsep)] at this

/-! ### `P` and the string primitives -/

section strings
variable {p q : Char → Bool} {P : Str → Prop}

theorem StrDomC.ofCut (h : StrDomC p q P) {s t : Str} (hs : P s) (ht : Cut t s) : P t := by
  obtain ⟨u, v, rfl, hv⟩ := ht
  exact h.cut u t v hs hv

theorem StrDomC.allL (h : StrDomC p q P) {l : List Str} (hl : PL P l) : AllL p l := fun s hs => h.allc s (hl s hs)

theorem StrDomC.drop (h : StrDomC p q P) {s : Str} (hs : P s) (n : Nat) : P (s.drop n) := h.ofCut hs (cut_drop s n)
theorem StrDomC.lstripP (h : StrDomC p q P) {s : Str} (hs : P s) (f : Char → Bool) : P (lstripP f s) :=
  h.ofCut hs (cut_lstripP f s)
theorem StrDomC.rstripP (h : StrDomC p q P) {s : Str} (hs : P s) {f : Char → Bool}
    (hf : f ')' = false ∧ f ']' = false) : P (rstripP f s) := h.ofCut hs (cut_rstripP hf s)
theorem StrDomC.strip (h : StrDomC p q P) {s : Str} (hs : P s) : P (strip s) := h.ofCut hs (cut_strip s)
theorem StrDomC.lstrip (h : StrDomC p q P) {s : Str} (hs : P s) : P (lstrip s) := h.lstripP hs _
theorem StrDomC.lstripC (h : StrDomC p q P) {s : Str} (hs : P s) (ch : Char) : P (lstripC ch s) := h.lstripP hs _
/-- `take` at a place where the rest may be cut off (at a line feed, at the end) -/
theorem StrDomC.take_nl (h : StrDomC p q P) {s : Str} (hs : P s) {n : Nat} (hn : cutOK (s.drop n) = true) :
    P (s.take n) := h.ofCut hs (cut_take hn)
/-- `take` behind a line feed, final line feeds stripped -/
theorem StrDomC.take_lineStart (h : StrDomC p q P) {s : Str} (hs : P s) {n : Nat} (hn : LineStart s n) :
    P (rstripC '\n' (s.take n)) := h.ofCut hs (cut_rstripNl_lineStart hn)

theorem StrDomC.joinLines (h : StrDomC p q P) : ∀ {l : List Str}, PL P l → P (joinLines l)
  | [], _ => h.nil
  | [a], hl => hl a (by simp)
  | a :: b :: r, hl => by
    have h1 := pl_cons.1 hl
    have ih := h.joinLines h1.2
    simp only [Py.joinLines] at ih ⊢
    rw [join_cons_cons]
    simpa using h.joinNl _ _ h1.1 ih

theorem StrDomC.lines (h : StrDomC p q P) {s : Str} (hs : P s) : PL P (lines s) :=
  fun _ hl => h.ofCut hs (lines_cut hl)

theorem StrDomC.splitS (h : StrDomC p q P) {s : Str} (hs : P s) {sep : Str} (hsep : sep.head? = some '\n') :
    PL P (splitS sep s) :=
  fun _ hl => h.ofCut hs (splitS_cut hsep hl)

theorem StrDomC.getD (h : StrDomC p q P) {l : List Str} (hl : PL P l) (i : Nat) : P (l.getD i []) := by
  rw [List.getD_eq_getElem?_getD]
  cases hx : l[i]? with
  | none => exact h.nil
  | some s => exact hl s (List.mem_of_getElem? hx)

theorem StrDomC.headD (h : StrDomC p q P) {l : List Str} (hl : PL P l) : P (l.headD []) := by
  cases l with
  | nil => exact h.nil
  | cons a r => exact hl a (by simp)

theorem StrDomC.detabLines (h : StrDomC p q P) (n : Nat) : ∀ {l : List Str}, PL P l →
    PL P (detabLines n l).1 ∧ PL P (detabLines n l).2
  | [], _ => by simp [Block.detabLines, pl_nil]
  | line :: r, hl => by
    have h1 := pl_cons.1 hl
    have ih := h.detabLines n h1.2
    simp only [Block.detabLines]
    split
    · exact ⟨pl_cons.2 ⟨h.drop h1.1 _, ih.1⟩, ih.2⟩
    · split
      · exact ⟨pl_cons.2 ⟨h.nil, ih.1⟩, ih.2⟩
      · exact ⟨pl_nil, hl⟩

theorem StrDomC.detab (h : StrDomC p q P) (n : Nat) {s : Str} (hs : P s) : P (detab n s).1 ∧ P (detab n s).2 := by
  have := h.detabLines n (h.lines hs)
  simp only [Block.detab]
  exact ⟨h.joinLines this.1, h.joinLines this.2⟩

theorem StrDomC.looseDetab (h : StrDomC p q P) (tab : Nat) {s : Str} (hs : P s) (level : Nat) :
    P (looseDetab tab s level) := by
  simp only [Block.looseDetab]
  apply h.joinLines
  apply pl_map (h.lines hs)
  intro l hl
  split
  · exact h.drop hl _
  · exact hl

end strings

/-! ### recognisers: what they return is a `Cut` of the block -/

section recognisers
variable {p q : Char → Bool} {P : Str → Prop}

theorem cutOK_of_countPrefix {ch : Char} (h1 : ch ≠ ')') (h2 : ch ≠ ']') (lim : Option Nat) {s : Str}
    (h : cutOK (s.drop (countPrefix ch lim s)) = true) : cutOK s = true := by
  have : cutOK (s.take (countPrefix ch lim s) ++ s.drop (countPrefix ch lim s)) = true := by
    rw [countPrefix_prefix]
    refine cutOK_append (cutOK_of_forall ?_) h
    intro c hc
    rw [List.eq_of_mem_replicate hc]; exact ⟨h1, h2⟩
  rwa [List.take_append_drop] at this

/-- `#*(?:\n|$)`: the closing `#`s of a heading may be cut off -/
theorem hashClose_cutOK {s : Str} {k : Nat} (h : hashClose s = some k) : cutOK s = true := by
  simp only [hashClose] at h
  apply cutOK_of_countPrefix (ch := '#') (by decide) (by decide) none
  split at h
  · next e => rw [e]; rfl
  · next c r e =>
    rw [e]
    split at h
    · next hc => subst hc; exact cutOK_nl _
    · cases h

theorem hashHeader_cut : ∀ (f : Nat) {s h : Str} {n : Nat}, hashHeader f s = some (h, n) →
    ∃ v, s = h ++ v ∧ cutOK v = true
  | 0, _, _, _, hh => by simp [hashHeader] at hh
  | f + 1, s, h, n, hh => by
    simp only [hashHeader] at hh
    split at hh
    · next k hk => cases hh; exact ⟨s, rfl, hashClose_cutOK hk⟩
    · split at hh
      · cases hh
      · next c r =>
        split at hh
        · split at hh
          · next d r' =>
            split at hh
            · cases hh
            · split at hh
              · next h' n' hr =>
                cases hh
                obtain ⟨v, e, hv⟩ := hashHeader_cut f hr
                exact ⟨v, by rw [e]; rfl, hv⟩
              · cases hh
          · cases hh
        · split at hh
          · next h' n' hr =>
            cases hh
            obtain ⟨v, e, hv⟩ := hashHeader_cut f hr
            exact ⟨v, by rw [e]; rfl, hv⟩
          · cases hh

theorem hashAt_cut {s : Str} {lv n : Nat} {hd : Str} (h : hashAt s = some (lv, hd, n)) : Cut hd s := by
  obtain ⟨x, _, _, h3⟩ := firstDown_some h
  split at h3
  · next hd' n' hh =>
    cases h3
    obtain ⟨v, e, hv⟩ := hashHeader_cut _ hh
    refine Cut.trans ?_ (cut_drop s lv)
    rw [e]; exact cut_prefix hv
  · cases h3

theorem hashSearchNl_cut {i : Nat} {s : Str} {st en lv : Nat} {hd : Str}
    (h : hashSearchNl i s = some (st, en, lv, hd)) : Cut hd s ∧ i ≤ st ∧ cutOK (s.drop (st - i)) = true := by
  induction s generalizing i with
  | nil => simp [hashSearchNl] at h
  | cons c s ih =>
    have step : hashSearchNl (i + 1) s = some (st, en, lv, hd) →
        Cut hd (c :: s) ∧ i ≤ st ∧ cutOK ((c :: s).drop (st - i)) = true := by
      intro h'
      obtain ⟨h1, h2, h3⟩ := ih h'
      refine ⟨cut_cons c h1, by omega, ?_⟩
      have e : st - i = (st - (i + 1)) + 1 := by omega
      rw [e, List.drop_succ_cons]; exact h3
    simp only [hashSearchNl] at h
    split at h
    · next hc =>
      split at h
      · next hh =>
        cases h
        refine ⟨cut_cons c (hashAt_cut hh), Nat.le_refl _, ?_⟩
        rw [Nat.sub_self, List.drop_zero, hc]; exact cutOK_nl _
      · exact step h
    · exact step h

/-- the header group, and the text before the match, are cuts of the block -/
theorem hashSearch_cut {b : Str} {st en lv : Nat} {hd : Str} (h : hashSearch b = some (st, en, lv, hd)) :
    Cut hd b ∧ Cut (b.take st) b := by
  simp only [hashSearch] at h
  split at h
  · next hh => cases h; exact ⟨hashAt_cut hh, cut_nil b⟩
  · obtain ⟨h1, _, h3⟩ := hashSearchNl_cut h
    exact ⟨h1, cut_take (by simpa using h3)⟩

theorem quoteSearchNl_cut {i : Nat} {s : Str} {q : Nat} (h : quoteSearchNl i s = some q) :
    i ≤ q ∧ cutOK (s.drop (q - i)) = true := by
  induction s generalizing i with
  | nil => simp [quoteSearchNl] at h
  | cons c s ih =>
    simp only [quoteSearchNl] at h
    split at h
    · next hc =>
      cases h
      simp only [Bool.and_eq_true, decide_eq_true_eq] at hc
      refine ⟨Nat.le_refl _, ?_⟩
      rw [Nat.sub_self, List.drop_zero, hc.1]; exact cutOK_nl _
    · obtain ⟨h2, h3⟩ := ih h
      refine ⟨by omega, ?_⟩
      have e : q - i = (q - (i + 1)) + 1 := by omega
      rw [e, List.drop_succ_cons]; exact h3

/-- the text before the quote is a cut of the block -/
theorem quoteSearch_cut {b : Str} {q : Nat} (h : quoteSearch b = some q) : Cut (b.take q) b := by
  simp only [quoteSearch] at h
  split at h
  · cases h; exact cut_nil b
  · obtain ⟨_, h3⟩ := quoteSearchNl_cut h
    exact cut_take (by simpa using h3)

theorem lineStart_zero (s : Str) : LineStart s 0 := Or.inl rfl

/-- a horizontal rule starts at a line start -/
theorem hrSearchLines_lineStart : ∀ {ls : List Str} {pos st en : Nat}, hrSearchLines pos ls = some (st, en) →
    pos ≤ st ∧ LineStart (Py.joinLines ls) (st - pos)
  | [], _, _, _, h => by simp [hrSearchLines] at h
  | line :: r, pos, st, en, h => by
    simp only [hrSearchLines] at h
    split at h
    · cases h
      exact ⟨Nat.le_refl _, by rw [Nat.sub_self]; exact lineStart_zero _⟩
    · obtain ⟨h1, h2⟩ := hrSearchLines_lineStart h
      refine ⟨by omega, ?_⟩
      cases r with
      | nil => simp [hrSearchLines] at h
      | cons b r' =>
        have e : st - pos = line.length + ((st - (pos + line.length + 1)) + 1) := by omega
        have e2 : (Py.joinLines (line :: b :: r')).take (st - pos) =
            line ++ '\n' :: (Py.joinLines (b :: r')).take (st - (pos + line.length + 1)) := by
          simp only [Py.joinLines, join_cons_cons]
          rw [e, List.append_assoc, List.take_length_add_append]
          rfl
        right
        rcases h2 with h2 | ⟨x, h2⟩
        · exact ⟨line, by rw [e2, h2]⟩
        · exact ⟨line ++ '\n' :: x, by rw [e2, h2]; simp⟩

theorem hrSearch_lineStart {b : Str} {st en : Nat} (h : hrSearch b = some (st, en)) : LineStart b st := by
  have := (hrSearchLines_lineStart h).2
  simpa using this

theorem lineStartsFrom_lineStart : ∀ {s : Str} {i p0 : Nat}, p0 ∈ lineStartsFrom i s →
    i < p0 ∧ ∃ x, s.take (p0 - i) = x ++ ['\n']
  | [], _, _, h => by simp [lineStartsFrom] at h
  | c :: r, i, p0, h => by
    have step : p0 ∈ lineStartsFrom (i + 1) r → i < p0 ∧ ∃ x, (c :: r).take (p0 - i) = x ++ ['\n'] := by
      intro h'
      obtain ⟨h1, x, h2⟩ := lineStartsFrom_lineStart h'
      refine ⟨by omega, c :: x, ?_⟩
      have e : p0 - i = (p0 - (i + 1)) + 1 := by omega
      rw [e, List.take_succ_cons, h2]; rfl
    simp only [lineStartsFrom] at h
    split at h
    · next hc =>
      rcases List.mem_cons.1 h with rfl | h
      · refine ⟨by omega, [], ?_⟩
        have e : i + 1 - i = 1 := by omega
        rw [e, hc]; rfl
      · exact step h
    · exact step h

/-- a reference definition starts at a line start -/
theorem refSearch_lineStart {s : Str} {st en : Nat} {ident url : Str} {t5 t6 : Option Str}
    (h : refSearch s = some (st, en, ident, url, t5, t6)) : LineStart s st := by
  simp only [refSearch] at h
  obtain ⟨p0, hp, hf⟩ := List.exists_of_findSome?_eq_some h
  split at hf
  · cases hf
    rcases List.mem_cons.1 hp with rfl | hp
    · exact lineStart_zero s
    · obtain ⟨_, x, hx⟩ := lineStartsFrom_lineStart hp
      exact Or.inr ⟨x, by simpa using hx⟩
  · cases hf

theorem listItemMatch_cut {tab : Nat} {ol ul : Bool} {s m c : Str} (h : listItemMatch tab ol ul s = some (m, c)) :
    Cut c s := by
  rw [listItemMatch_eq] at h
  split at h
  · cases h
  · next marker r hm =>
    have hr : r <:+ s := by
      have h0 : afterSp (some (tab - 1)) s <:+ s := List.drop_suffix _ _
      split at hm
      · next m' hm' =>
        cases hm
        split at hm'
        · exact (olMarker_suffix hm').trans h0
        · cases hm'
      · split at hm
        · exact (ulMarker_suffix hm).trans h0
        · cases hm
    split at h
    · cases h
    · cases h
      exact (cut_takeWhile_notNl _).trans (cut_suffix ((List.drop_suffix _ _).trans hr))

theorem quoteLine_cut {s g : Str} (h : quoteLine s = some g) : Cut g s := by
  rw [quoteLine_eq] at h
  have h0 : afterSp (some 3) s <:+ s := List.drop_suffix _ _
  split at h
  · next c r hr =>
    rw [hr] at h0
    split at h
    · cases h
      have hr' : r <:+ s := (List.suffix_cons _ _).trans h0
      split
      · next d r' =>
        split
        · exact (cut_takeWhile_notNl _).trans (cut_suffix ((List.suffix_cons _ _).trans hr'))
        · exact (cut_takeWhile_notNl _).trans (cut_suffix hr')
      · exact (cut_takeWhile_notNl _).trans (cut_suffix hr')
    · cases h
  · cases h

theorem quoteClean_cut (l : Str) : Cut (quoteClean l) l := by
  simp only [quoteClean]
  split
  · exact cut_nil l
  · simp only [quoteMatch]
    split
    · next g hg =>
      split at hg
      · next g' hg' => cases hg; exact quoteLine_cut hg'
      · split at hg
        · split at hg
          · exact cut_cons _ (quoteLine_cut hg)
          · cases hg
        · cases hg
    · exact Cut.refl l

theorem pl_getItemsStep (h : StrDomC p q P) (tab : Nat) {items : List Str} {line : Str} (hi : PL P items)
    (hl : P line) : PL P (getItemsStep tab items line) := by
  have hone : ∀ x : Str, P x → PL P (items ++ [x]) := fun x hx => pl_append.2 ⟨hi, pl_one hx⟩
  have hmod : PL P (modifyLast (fun l => l ++ '\n' :: line) items) :=
    pl_modifyLast hi (fun s hs => h.joinNl _ _ hs hl)
  simp only [getItemsStep]
  split
  · next m content hm => exact hone _ (h.ofCut hl (listItemMatch_cut hm))
  · split
    · split
      · split
        · exact hmod
        · exact hone _ hl
      · exact hone _ hl
    · exact hmod

theorem pl_foldl_getItemsStep (h : StrDomC p q P) (tab : Nat) : ∀ (ls : List Str) {items : List Str},
    PL P ls → PL P items → PL P (ls.foldl (getItemsStep tab) items)
  | [], _, _, hi => hi
  | l :: t, items, hls, hi => by
    have h1 := pl_cons.1 hls
    exact pl_foldl_getItemsStep h tab t h1.2 (pl_getItemsStep h tab hi h1.1)

theorem StrDomC.getItems (h : StrDomC p q P) (tab : Nat) {b : Str} (hb : P b) : PL P (getItems tab b) :=
  pl_foldl_getItemsStep h tab _ (h.lines hb) pl_nil

theorem StrDomC.quoteBlock (h : StrDomC p q P) {s : Str} (hs : P s) :
    P (Py.joinLines ((Py.lines s).map quoteClean)) :=
  h.joinLines (pl_map (h.lines hs) (fun l hl => h.ofCut hl (quoteClean_cut l)))

end recognisers

/-! ### the processors -/

section processors
variable {p q : Char → Bool} {P : Str → Prop}

theorem call (h : StrDomC p q P) {pb : PB} (hpb : PresP p q P pb) {state : List BState} {refs : Refs}
    {parent : Node} {blocks : List Str} {r : Node × Refs} (hP : TInv p q parent) (hA : parent.textAtomic = false)
    (hR : RefsC p refs) (hT : TP P parent) (hB : PL P blocks) (hc : pb state refs parent blocks = some r) :
    Blk.Out p q refs r ∧ TP P r.1 :=
  ⟨hpb.1 _ _ _ _ _ hP hA hR (h.allL hB) hc, hpb.2 _ _ _ _ _ hP hA hR hT hB hc⟩

theorem emptyP_strs (h : StrDomC p q P) {refs : Refs} {parent : Node} {b : Str} {rest : List Str}
    (hT : TP P parent) (hb : P b) (hrest : PL P rest) :
    TP P (emptyP refs parent b rest).1 ∧ PL P (emptyP refs parent b rest).2.2 := by
  have key : PL P (if (b.drop 1).isEmpty then rest else b.drop 1 :: rest) := by
    split
    · exact hrest
    · exact pl_cons.2 ⟨h.drop hb 1, hrest⟩
  simp only [emptyP]
  split
  · next sib hl =>
    split
    · next code hc => exact ⟨setCodeText_tp hT hl hc, key⟩
    · exact ⟨hT, key⟩
  · exact ⟨hT, key⟩

theorem codeP_strs (h : StrDomC p q P) {tab : Nat} {refs : Refs} {parent : Node} {b : Str} {rest : List Str}
    (hT : TP P parent) (hb : P b) (hrest : PL P rest) :
    TP P (codeP tab refs parent b rest).1 ∧ PL P (codeP tab refs parent b rest).2.2 := by
  have key : PL P (if (detab tab b).2.isEmpty then rest else (detab tab b).2 :: rest) := by
    split
    · exact hrest
    · exact pl_cons.2 ⟨(h.detab tab hb).2, hrest⟩
  simp only [codeP]
  split
  · next sib hl =>
    split
    · next code hc => exact ⟨setCodeText_tp hT hl hc, key⟩
    · exact ⟨hT.append (tp_pre h.nil), key⟩
  · exact ⟨hT.append (tp_pre h.nil), key⟩

theorem hashP_strs (h : StrDomC p q P) {tab : Nat} {pb : PB} (hpb : PresP p q P pb) {state : List BState}
    {refs : Refs} {parent : Node} {b : Str} {rest : List Str} {m : Nat × Nat × Nat × Str}
    (hP : TInv p q parent) (hA : parent.textAtomic = false) (hR : RefsC p refs) (hT : TP P parent) (hb : P b)
    (hrest : PL P rest) (hm : hashSearch b = some m) {r : Node × Refs × List Str}
    (hr : hashP tab pb state refs parent b rest m = some r) : TP P r.1 ∧ PL P r.2.2 := by
  obtain ⟨st, en, lv, header⟩ := m
  have hhd : P header := h.ofCut hb (hashSearch_cut hm).1
  simp only [hashP] at hr
  split at hr
  · cases hr
  · next parent' refs' hcall =>
    have h1 := optCall_strs hpb hP hA hR hT (h.ofCut hb (hashSearch_cut hm).2) hcall
    cases hr
    refine ⟨h1.append (tp_text h.nil (txt := some (strip header)) (h.strip hhd)), ?_⟩
    show PL P (if _ then _ else _)
    split
    · exact hrest
    · refine pl_cons.2 ⟨?_, hrest⟩
      split
      · exact h.looseDetab tab (h.drop hb en) 1
      · exact h.drop hb en

theorem setextP_strs (h : StrDomC p q P) {refs : Refs} {parent : Node} {b : Str} {rest : List Str}
    (hT : TP P parent) (hb : P b) (hrest : PL P rest) :
    TP P (setextP refs parent b rest).1 ∧ PL P (setextP refs parent b rest).2.2 := by
  simp only [setextP]
  refine ⟨hT.append (tp_text h.nil (txt := some (strip ((lines b).getD 0 [])))
    (h.strip (h.getD (h.lines hb) 0))), ?_⟩
  show PL P (if _ then _ else _)
  split
  · exact pl_cons.2 ⟨h.joinLines ((h.lines hb).mono (List.drop_subset _ _)), hrest⟩
  · exact hrest

theorem hrP_strs (h : StrDomC p q P) {pb : PB} (hpb : PresP p q P pb) {state : List BState}
    {refs : Refs} {parent : Node} {b : Str} {rest : List Str} {m : Nat × Nat}
    (hP : TInv p q parent) (hA : parent.textAtomic = false) (hR : RefsC p refs) (hT : TP P parent) (hb : P b)
    (hrest : PL P rest) (hm : hrSearch b = some m) {r : Node × Refs × List Str}
    (hr : hrP pb state refs parent b rest m = some r) : TP P r.1 ∧ PL P r.2.2 := by
  obtain ⟨st, en⟩ := m
  simp only [hrP] at hr
  split at hr
  · cases hr
  · next parent' refs' hcall =>
    have h1 := optCall_strs hpb hP hA hR hT (h.take_lineStart hb (hrSearch_lineStart hm)) hcall
    cases hr
    refine ⟨h1.append (tp_el h.nil "hr"), ?_⟩
    show PL P (if _ then _ else _)
    split
    · exact hrest
    · exact pl_cons.2 ⟨h.lstripC (h.drop hb en) '\n', hrest⟩

theorem referenceP_strs (h : StrDomC p q P) {refs : Refs} {parent : Node} {b : Str} {rest : List Str}
    {m : Nat × Nat × Str × Str × Option Str × Option Str}
    (hT : TP P parent) (hb : P b) (hrest : PL P rest) (hm : refSearch b = some m) :
    TP P (referenceP refs parent b rest m).1 ∧ PL P (referenceP refs parent b rest m).2.2 := by
  obtain ⟨st, en, ident, link, t5, t6⟩ := m
  simp only [referenceP]
  refine ⟨hT, ?_⟩
  show PL P (if _ then _ else _)
  have h1 : PL P (if isBlank (b.drop en) then rest else lstripC '\n' (b.drop en) :: rest) := by
    split
    · exact hrest
    · exact pl_cons.2 ⟨h.lstripC (h.drop hb en) '\n', hrest⟩
  split
  · exact h1
  · exact pl_cons.2 ⟨h.take_lineStart hb (refSearch_lineStart hm), h1⟩

theorem paraP_strs (h : StrDomC p q P) {state : List BState} {refs : Refs} {parent : Node} {b : Str}
    {rest : List Str} (hA : parent.textAtomic = false) (hT : TP P parent) (hb : P b) (hrest : PL P rest) :
    TP P (paraP state refs parent b rest).1 ∧ PL P (paraP state refs parent b rest).2.2 := by
  simp only [paraP]
  split
  · exact ⟨hT, hrest⟩
  · split
    · split
      · next sib hl =>
        have hs := hT.last hl
        refine ⟨hT.setLast (hs.congr rfl ⟨?_, hs.pnode.2⟩), hrest⟩
        show P (if _ then _ else _)
        split
        · next ht => rw [fmtOpt_truthy ht]; exact h.joinNl _ _ hs.pnode.1 hb
        · exact h.joinNl [] _ h.nil hb
      · refine ⟨hT.congr rfl ⟨hT.pnode.1, fun _ => ?_⟩, hrest⟩
        show P (if _ then _ else _)
        split
        · next ht => rw [fmtOpt_truthy ht]; exact h.joinNl _ _ (hT.pnode.2 hA) hb
        · exact h.lstrip hb
    · exact ⟨hT.append (tp_mkText h.nil "p" (h.lstrip hb)), hrest⟩

/-! lists, block quotes, list indentation -/

theorem tailFix_tp (h : StrDomC p q P) {li : Node} (hL : TP P li) : TP P (tailFix li) := by
  unfold tailFix
  split
  · next lch hl =>
    split
    · have hc := hL.last hl
      have hlch : TP P { lch with tail := some [], tailAtomic := false } := hc.congr rfl ⟨h.nil, hc.pnode.2⟩
      exact (hL.setLast hlch).append (tp_mkText h.nil "p" (h.lstrip hc.pnode.1))
    · exact hL
  · exact hL

theorem fixLast_tp (h : StrDomC p q P) {lst : Node} (hL : TP P lst) : TP P (fixLast lst) := by
  unfold fixLast
  split
  · next li hl => exact hL.setLast (tailFix_tp h (textToP_tp h.nil (hL.last hl)))
  · exact hL

theorem listItems_strs (h : StrDomC p q P) {tab : Nat} {pb : PB} (hpb : PresP p q P pb) {st2 : List BState} :
    ∀ (items : List Str) (refs : Refs) (lst : Node) (r : Node × Refs), TInv p q lst → lst.tag ≠ preTag →
      RefsC p refs → TP P lst → PL P items → listItems tab pb st2 refs lst items = some r → TP P r.1
  | [], refs, lst, r, _, _, _, hT, _, hr => by
    simp only [listItems] at hr
    cases hr
    exact hT
  | item :: items, refs, lst, r, hL, ht, hR, hT, hI, hr => by
    have hI' := pl_cons.1 hI
    simp only [listItems] at hr
    split at hr
    · split at hr
      · next l hl =>
        split at hr
        · next li refs' hcall =>
          have hc := hL.last hl
          have hna : l.textAtomic = false := by
            cases hx : l.textAtomic with
            | false => rfl
            | true => exact absurd (hc.2 hx) ht
          obtain ⟨⟨o1, o2, o3, _⟩, t1⟩ := call h hpb hc.1 hna hR (hT.last hl) (pl_one hI'.1) hcall
          exact listItems_strs h hpb items refs' (lst.setLast li) r
            (hL.setLast o1 (fun ha => by rw [o2] at ha; cases ha)) ht o3 (hT.setLast t1) hI'.2 hr
        · cases hr
      · exact listItems_strs h hpb items refs lst r hL ht hR hT hI'.2 hr
    · split at hr
      · next li refs' hcall =>
        obtain ⟨⟨o1, o2, o3, _⟩, t1⟩ := call h hpb (tinv_el "li" (by decide)) rfl hR (tp_el h.nil "li")
          (pl_one hI'.1) hcall
        exact listItems_strs h hpb items refs' (lst.append li) r (hL.append o1 o2) ht o3 (hT.append t1) hI'.2 hr
      · cases hr

theorem listP_strs (h : StrDomC p q P) {tab : Nat} {pb : PB} (hpb : PresP p q P pb) {state : List BState}
    {refs : Refs} {parent : Node} {b : Str} {rest : List Str} {tag : String}
    (htag : NoCtl tag.toList ∧ Tag.name tag.toList ≠ .name "code".toList)
    (htag' : Tag.name tag.toList ≠ preTag)
    (hP : TInv p q parent) (hR : RefsC p refs) (hT : TP P parent) (hb : P b)
    (hrest : PL P rest) {r : Node × Refs × List Str}
    (hr : listP tab pb state refs parent b rest tag = some r) : TP P r.1 ∧ PL P r.2.2 := by
  have hitems := h.getItems tab hb
  rw [listP_eq] at hr
  split at hr
  · next lst hs =>
    obtain ⟨hl, hlt⟩ := sibList_some hs
    have hc := hP.last hl
    obtain ⟨f1, _, f3⟩ := fixLast_tinv hc.1 (isListTag_notPre hlt)
    have g1 := fixLast_tp h (hT.last hl)
    split at hr
    · cases hr
    · next newli refs' hcall =>
      obtain ⟨⟨o1, o2, o3, _⟩, t1⟩ := call h hpb (tinv_el "li" (by decide)) rfl hR (tp_el h.nil "li")
        (pl_one (h.headD hitems)) hcall
      split at hr
      · next lst' refs'' hli =>
        have i1 := listItems_strs h hpb _ _ _ _ (f1.append o1 o2)
          (by rw [append_tag, f3]; exact isListTag_notPre hlt) o3 (g1.append t1)
          (hitems.mono (List.drop_subset _ _)) hli
        cases hr
        exact ⟨hT.setLast i1, hrest⟩
      · cases hr
  · split at hr
    · next hlt =>
      split at hr
      · next lst' refs'' hli =>
        have i1 := listItems_strs h hpb _ _ _ _ hP (isListTag_notPre hlt) hR hT hitems hli
        cases hr
        exact ⟨i1, hrest⟩
      · cases hr
    · split at hr
      · next lst' refs'' hli =>
        have i1 := listItems_strs h hpb _ _ _ _ (tinv_el tag htag) htag' hR (tp_el h.nil tag) hitems hli
        cases hr
        exact ⟨hT.append i1, hrest⟩
      · cases hr

theorem parseChunk_strs (h : StrDomC p q P) {pb : PB} (hpb : PresP p q P pb) {state : List BState} {refs : Refs}
    {parent : Node} {text : Str} (hP : TInv p q parent) (hA : parent.textAtomic = false) (hR : RefsC p refs)
    (hT : TP P parent) (ht : P text) {r : Node × Refs} (hr : parseChunk pb state refs parent text = some r) :
    Blk.Out p q refs r ∧ TP P r.1 :=
  call h hpb hP hA hR hT (h.splitS ht rfl) hr

theorem quoteP_strs (h : StrDomC p q P) {pb : PB} (hpb : PresP p q P pb) {state : List BState}
    {refs : Refs} {parent : Node} {b : Str} {rest : List Str} {q0 : Nat}
    (hP : TInv p q parent) (hA : parent.textAtomic = false) (hR : RefsC p refs) (hT : TP P parent) (hb : P b)
    (hrest : PL P rest) (hq : quoteSearch b = some q0) {r : Node × Refs × List Str}
    (hr : quoteP pb state refs parent b rest q0 = some r) : TP P r.1 ∧ PL P r.2.2 := by
  have hblock := h.quoteBlock (h.drop hb q0)
  simp only [quoteP] at hr
  split at hr
  · cases hr
  · next parent' refs' hcall =>
    obtain ⟨⟨h1, _, h3, _⟩, t1⟩ := call h hpb hP hA hR hT (pl_one (h.ofCut hb (quoteSearch_cut hq))) hcall
    split at hr
    · next sib hs =>
      have hsib : parent'.last? = some sib ∧ sib.isTag "blockquote" = true := by
        split at hs
        · next s hl =>
          split at hs
          · next ht => cases hs; exact ⟨hl, ht⟩
          · cases hs
        · cases hs
      have hc := h1.last hsib.1
      have hna : sib.textAtomic = false := by
        apply hc.1.bnode.notAtomic
        rw [isTag_iff.1 hsib.2]; decide
      split at hr
      · next quote refs'' hq =>
        obtain ⟨_, t2⟩ := parseChunk_strs h hpb hc.1 hna h3 (t1.last hsib.1) hblock hq
        cases hr
        exact ⟨t1.setLast t2, hrest⟩
      · cases hr
    · split at hr
      · next quote refs'' hq =>
        obtain ⟨_, t2⟩ := parseChunk_strs h hpb (tinv_el "blockquote" (by decide)) rfl h3
          (tp_el h.nil "blockquote") hblock hq
        cases hr
        exact ⟨t1.append t2, hrest⟩
      · cases hr

theorem indentP_strs (h : StrDomC p q P) {tab : Nat} {pb : PB} (hpb : PresP p q P pb) {state : List BState}
    {refs : Refs} {parent : Node} {b : Str} {rest : List Str}
    (hP : TInv p q parent) (hA : parent.textAtomic = false) (hR : RefsC p refs) (hT : TP P parent) (hb : P b)
    (hrest : PL P rest) {r : Node × Refs × List Str}
    (hr : indentP tab pb state refs parent b rest = some r) : TP P r.1 ∧ PL P r.2.2 := by
  unfold indentP at hr
  generalize getLevel tab state parent b = ls at hr
  obtain ⟨level, steps⟩ := ls
  simp only [] at hr
  have hblock := h.looseDetab tab hb level
  have hS := nodeAt_tinv steps hP
  have hST := nodeAt_tp steps hT
  split at hr
  · split at hr
    · next c hs =>
      have hc : parent.last? = some c ∧ isListTag c = true := by
        split at hs
        · next s hl =>
          split at hs
          · next ht => cases hs; exact ⟨hl, ht⟩
          · cases hs
        · cases hs
      have hl := hP.last hc.1
      split at hr
      · next sub refs' hq =>
        obtain ⟨_, t1⟩ := call h hpb hl.1 (isListTag_notAtomic hl.1.bnode hc.2) hR (hT.last hc.1)
          (pl_one hblock) hq
        cases hr
        exact ⟨hT.setLast t1, hrest⟩
      · cases hr
    · split at hr
      · next par' refs' hq =>
        obtain ⟨_, t1⟩ := call h hpb hP hA hR hT (pl_one hblock) hq
        cases hr
        exact ⟨t1, hrest⟩
      · cases hr
  · split at hr
    · next hit =>
      split at hr
      · next sub refs' hq =>
        obtain ⟨_, t1⟩ := call h hpb hS (isItemTag_notAtomic hS.bnode hit) hR hST (pl_one hblock) hq
        cases hr
        exact ⟨updPath_tp (fun _ => sub) steps hT t1, hrest⟩
      · cases hr
    · split at hr
      · next li hs =>
        have hc : (nodeAt steps parent).last? = some li ∧ isItemTag li = true := by
          split at hs
          · next s hl =>
            split at hs
            · next ht => cases hs; exact ⟨hl, ht⟩
            · cases hs
          · cases hs
        have hl := hS.last hc.1
        obtain ⟨t1, t2, _⟩ := textToP_tinv hl.1 (isItemTag_notAtomic hl.1.bnode hc.2)
        split at hr
        · next li' refs' hq =>
          obtain ⟨_, u1⟩ := parseChunk_strs h hpb t1 t2 hR (textToP_tp h.nil (hST.last hc.1)) hblock hq
          cases hr
          exact ⟨updPath_tp (fun s => s.setLast li') steps hT (hST.setLast u1), hrest⟩
        · cases hr
      · split at hr
        · next li' refs' hq =>
          obtain ⟨_, u1⟩ := call h hpb (tinv_el "li" (by decide)) rfl hR (tp_el h.nil "li") (pl_one hblock) hq
          cases hr
          exact ⟨updPath_tp (fun s => s.append li') steps hT (hST.append u1), hrest⟩
        · cases hr

/-- **one turn of the loop preserves the `P` invariant** -/
theorem dispatch_strs (h : StrDomC p q P) {tab : Nat} {pb : PB} (hpb : PresP p q P pb) {state : List BState}
    {refs : Refs} {parent : Node} {b : Str} {rest : List Str}
    (hP : TInv p q parent) (hA : parent.textAtomic = false) (hR : RefsC p refs) (hT : TP P parent) (hb : P b)
    (hrest : PL P rest) {r : Node × Refs × List Str}
    (hr : dispatch tab pb state refs parent b rest = some r) : TP P r.1 ∧ PL P r.2.2 := by
  rw [dispatch_eq] at hr
  split at hr
  · cases hr; exact emptyP_strs h hT hb hrest
  · split at hr
    · exact indentP_strs h hpb hP hA hR hT hb hrest hr
    · split at hr
      · cases hr; exact codeP_strs h hT hb hrest
      · split at hr
        · next m hm => exact hashP_strs h hpb hP hA hR hT hb hrest hm hr
        · split at hr
          · cases hr; exact setextP_strs h hT hb hrest
          · split at hr
            · next m hm => exact hrP_strs h hpb hP hA hR hT hb hrest hm hr
            · split at hr
              · exact listP_strs h hpb (by decide) (by decide) hP hR hT hb hrest hr
              · split at hr
                · exact listP_strs h hpb (by decide) (by decide) hP hR hT hb hrest hr
                · split at hr
                  · next q0 hq => exact quoteP_strs h hpb hP hA hR hT hb hrest hq hr
                  · split at hr
                    · next m hm => cases hr; exact referenceP_strs h hT hb hrest hm
                    · cases hr; exact paraP_strs h hA hT hb hrest

theorem parseBlocks_presP (h : StrDomC p q P) (tab : Nat) : ∀ f : Nat, PresP p q P (parseBlocks tab f)
  | 0 => by
    refine ⟨parseBlocks_pres h.chars tab 0, ?_⟩
    intro state refs parent blocks r hP hA hR hT hB hr
    cases blocks with
    | nil => simp only [parseBlocks] at hr; cases hr; exact hT
    | cons b rest => simp [parseBlocks] at hr
  | f + 1 => by
    refine ⟨parseBlocks_pres h.chars tab (f + 1), ?_⟩
    intro state refs parent blocks r hP hA hR hT hB hr
    cases blocks with
    | nil => simp only [parseBlocks] at hr; cases hr; exact hT
    | cons b rest =>
      have ih := parseBlocks_presP h tab f
      have hB' := pl_cons.1 hB
      simp only [parseBlocks] at hr
      split at hr
      · next parent' refs' blocks' hd =>
        obtain ⟨d1, d2, d3, _, _⟩ := dispatch_chars h.chars ih.1 hP hA hR (h.allc _ hB'.1) (h.allL hB'.2) hd
        obtain ⟨t1, t2⟩ := dispatch_strs h ih hP hA hR hT hB'.1 hB'.2 hd
        exact ih.2 _ _ _ _ _ d1 d2 d3 t1 t2 hr
      · cases hr

end processors

/-! ### the statements -/

/-- `parseBlocks` preserves the `P` invariant, from any tree that satisfies `Blk.BInv` and `PNode` everywhere -/
theorem parseBlocks_strs {p q : Char → Bool} {P : Str → Prop} (h : StrDomC p q P) (tab f : Nat) :
    ∀ state refs parent blocks r, parent.Forall (BInv p q) → parent.textAtomic = false → RefsC p refs →
      parent.Forall (PNode P) → (∀ b ∈ blocks, P b) → parseBlocks tab f state refs parent blocks = some r →
      r.1.Forall (PNode P) :=
  (parseBlocks_presP h tab f).2

/-- **the block stage keeps every ordinary string inside a class of strings closed under dropping a prefix,
    cutting off an end without `)`/`]` before its first line feed, and newline-joins** -/
theorem parseDocument_strs {p q : Char → Bool} {P : Str → Prop} (h : StrDomC p q P) (tab : Nat) (text : Str)
    (hp : P text) {root : Node} {refs : Refs} (hr : parseDocument tab text = some (root, refs)) :
    root.Forall (BNodeP p q P) ∧ Blk.RefsC p refs ∧ (p '[' = false → refs = []) := by
  obtain ⟨h1, _, h3, h4⟩ := parseDocument_inv h.chars tab text (h.allc _ hp) hr
  have hT : TP P root := (parseBlocks_presP h tab _).2 _ _ _ _ _ (tinv_el "div" (by decide)) rfl refsC_nil
    (tp_el h.nil "div") (h.splitS hp rfl) hr
  refine ⟨?_, h3, h4⟩
  exact forall_mono (fun _ hn => ⟨hn.1, hn.2.1, hn.2.2⟩) root
    (forall_and root (forall_mono (fun _ hn => hn.1) root h1) hT)

/-! ### instance: in the domain, no backslash–backtick, simple closed regions behind `](` and `![` -/

/-- the class of C10c: characters of the domain of C10b, `AdjC false` -/
theorem strDomC_adjC : StrDomC (fun c => Blk.okc c && domCharB c) Blk.okc
    (fun s => Blk.AllC (fun c => Blk.okc c && domCharB c) s ∧ AdjC false s) where
  chars := charDom_domB
  allc := fun _ hs => hs.1
  nil := ⟨allC_nil, by decide⟩
  cut := fun u t v hs hv =>
    have hi : t <:+: u ++ t ++ v := ⟨u, v, rfl⟩
    ⟨hs.1.mono hi.subset, noAdj_infix hs.2.1 hi, regionsOK_cut hs.2.2 hv⟩
  joinNl := fun _ _ ha hb =>
    ⟨allC_append.2 ⟨ha.1, allC_cons.2 ⟨by decide, hb.1⟩⟩, noAdj_joinNl ha.2.1 hb.2.1, regionsOK_joinNl ha.2.2 hb.2.2⟩

/-- a non-trivial text of the class -/
example : (fun s => Blk.AllC (fun c => Blk.okc c && domCharB c) s ∧ AdjC false s)
    "# [a](b \"t\") ##\n\n* x ![i](j) \\*\n\n> q [k](l 'm' )\n\n    code ) ] \\ `".toList := by
  refine ⟨by unfold Blk.AllC; decide, by decide⟩

/-- the class is not closed under infixes: cutting inside a destination leaves it -/
example : AdjC false "[a](b)".toList ∧ ¬ AdjC false "[a](b".toList := by decide

end MdVerif.NoCtl.BlkC
