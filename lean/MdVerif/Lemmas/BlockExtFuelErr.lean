/-
Helper lemmas for C02 on the extension pipeline: the `err` answers of `treeX` / `convertX` (the implementation raises)
and where they can come from.  Core Lean only.

* the stages before the inline processor have no `err` answer at all;
* `TocTree.run = err` only through `UnescapeTreeprocessor.unescape` (`chr()` out of range): the other `err` of the model,
  a serialised heading without `>` or `<`, cannot occur;
* `lateStageX = err`: `FootnotePostTreeprocessor` (`duplicates`), toc, or `UnescapeTreeprocessor`;
* `convertX = err`: those, or the `<div>` strip.
-/
import MdVerif.Lemmas.BlockExtFuelPipe

namespace MdVerif.TreeProc
open Py

theorem spanLen_spec (p : Char → Bool) : ∀ (s : Str) (i : Nat), i < spanLen p s → ∃ c, s[i]? = some c ∧ p c = true := by
  intro s
  induction s with
  | nil => intro i h; simp [spanLen] at h
  | cons x s ih =>
    intro i h
    simp only [spanLen] at h
    split at h
    · next hx =>
      cases i with
      | zero => exact ⟨x, by simp, hx⟩
      | succ i => simpa using ih i (by omega)
    · omega

/-- a character that is neither STX, ETX nor a decimal digit survives `unescape` -/
theorem unescapeText_mem {c : Char} (h1 : c ≠ STX) (h2 : c ≠ ETX) (h3 : isDecimal c = false) :
    ∀ (s : Str) (k : Nat) (r : Str), unescapeText k s = some r → (∀ c' ∈ s.take k, c' ≠ c) → c ∈ s → c ∈ r := by
  intro s
  induction s with
  | nil => intro k r _ _ hc; cases hc
  | cons x s ih =>
    intro k r h hk hc
    cases k with
    | succ k =>
      simp only [unescapeText] at h
      have hx : x ≠ c := hk x (by simp)
      have hcs : c ∈ s := by
        rcases List.mem_cons.1 hc with rfl | h'
        · exact absurd rfl hx
        · exact h'
      exact ih k r h (fun c' hc' => hk c' (by simp [hc'])) hcs
    | zero =>
      simp only [unescapeText] at h
      split at h
      · next hx =>
        have hcs : c ∈ s := by
          rcases List.mem_cons.1 hc with rfl | h'
          · exact absurd hx h1
          · exact h'
        split at h
        · next hd =>
          simp only [Bool.and_eq_true, decide_eq_true_eq, beq_iff_eq] at hd
          split at h
          · cases hr : unescapeText (spanLen isDecimal s + 1) s with
            | none => simp [hr] at h
            | some r' =>
              simp only [hr, Option.map_some, Option.some.injEq] at h
              subst h
              apply List.mem_cons_of_mem
              apply ih _ _ hr _ hcs
              intro c' hc'
              obtain ⟨i, hget⟩ := List.mem_iff_getElem?.1 hc'
              rw [List.getElem?_take] at hget
              split at hget
              · next hlt =>
                by_cases hlt' : i < spanLen isDecimal s
                · obtain ⟨c'', e1, e2⟩ := spanLen_spec isDecimal s i hlt'
                  rw [e1] at hget
                  cases hget
                  intro hcc; rw [hcc] at e2; rw [e2] at h3; cases h3
                · have : i = spanLen isDecimal s := by omega
                  subst this
                  rw [hd.2] at hget
                  cases hget
                  exact fun hcc => h2 hcc.symm
              · cases hget
          · cases h
        · cases hr : unescapeText 0 s with
          | none => simp [hr] at h
          | some r' =>
            simp only [hr, Option.map_some, Option.some.injEq] at h
            subst h
            exact List.mem_cons_of_mem _ (ih 0 r' hr (by simp) hcs)
      · cases hr : unescapeText 0 s with
        | none => simp [hr] at h
        | some r' =>
          simp only [hr, Option.map_some, Option.some.injEq] at h
          subst h
          rcases List.mem_cons.1 hc with rfl | h'
          · exact List.mem_cons_self
          · exact List.mem_cons_of_mem _ (ih 0 r' hr (by simp) h')

end MdVerif.TreeProc

namespace MdVerif.Ser
open Py

/-- the serialisation of an element with a literal tag name contains `<` and `>` -/
theorem serialize_name_mem (fmt : Fmt) (n : Node) (t : Str) (h : n.tag = .name t) :
    '<' ∈ serialize fmt n ∧ '>' ∈ serialize fmt n := by
  obtain ⟨tag, attrs, text, ta, children, tail, tla⟩ := n
  simp only at h
  subst h
  simp only [serialize, element]
  split <;> simp

end MdVerif.Ser

namespace MdVerif.TocTree
open Py

theorem mem_find_ne_none {c : Char} {s : Str} (h : c ∈ s) : find [c] s ≠ none := by
  intro hn
  obtain ⟨pre, post, e⟩ := List.append_of_mem h
  exact (find_none_iff.1 hn) pre post (by simp [e])

theorem mem_rfind_ne_none {c : Char} {s : Str} (h : c ∈ s) : Post.rfind [c] s ≠ none := by
  intro hn
  simp only [Post.rfind, List.reverse_cons, List.reverse_nil, List.nil_append, Option.map_eq_none_iff] at hn
  exact mem_find_ne_none (List.mem_reverse.2 h) hn

theorem rmFnNode_tag (n : Node) : (rmFnNode n).tag = n.tag := by
  obtain ⟨tag, attrs, text, ta, children, tail, tla⟩ := n
  simp only [rmFnNode]
  split <;> rfl

theorem isHeaderTag_name {tag : Tag} (h : isHeaderTag tag = true) : ∃ t, tag = .name t := by
  cases tag with
  | name t => exact ⟨t, rfl⟩
  | _ => simp [isHeaderTag] at h

/-- `render_inner_html` of an element with a literal tag name raises only in `unescape` -/
theorem renderInner_err {env : Env} {el : Node} {t : Str} (ht : el.tag = .name t) (h : renderInner env el = .err) :
    TreeProc.unescapeText 0 (Ser.serialize env.fmt el) = none := by
  simp only [renderInner] at h
  split at h
  · assumption
  · next text hu =>
    exfalso
    obtain ⟨m1, m2⟩ := Ser.serialize_name_mem env.fmt el t ht
    have k1 : '>' ∈ text := TreeProc.unescapeText_mem (by decide) (by decide) (by decide) _ 0 text hu (by simp) m2
    have k2 : '<' ∈ text := TreeProc.unescapeText_mem (by decide) (by decide) (by decide) _ 0 text hu (by simp) m1
    split at h
    · split at h <;> cases h
    · next hne =>
      cases hf : find ['>'] text with
      | none => exact mem_find_ne_none k1 hf
      | some s =>
        cases hr : Post.rfind ['<'] text with
        | none => exact mem_rfind_ne_none k2 hr
        | some e => exact hne s e hf hr

theorem heading_err {env : Env} {el : Node} {st : St} (hh : isHeaderTag el.tag = true) (h : heading env el st = .err) :
    ∃ s, TreeProc.unescapeText 0 s = none := by
  obtain ⟨t, ht⟩ := isHeaderTag_name hh
  simp only [heading] at h
  split at h
  · cases h
  · next hr => exact ⟨_, renderInner_err (t := t) (by rw [rmFnNode_tag, ht]) hr⟩
  · cases h
  · next inner hr =>
    split at h
    · cases h
    · next hidr =>
      exfalso
      split at hidr
      · cases hidr
      · split at hidr
        · cases hidr
        · split at hidr <;> cases hidr
    · cases h
    · next attrs used hidr =>
      split at h
      · cases h
      · next hnr =>
        split at hnr
        · cases hnr
        · split at hnr
          · next hu => exact ⟨_, hu⟩
          · split at hnr <;> cases hnr
      · cases h
      · split at h
        · next hu => exact ⟨_, hu⟩
        · cases h

mutual
theorem walkNode_err (env : Env) : ∀ (n : Node) (st : St), walkNode env n st = .err →
    ∃ s, TreeProc.unescapeText 0 s = none
  | ⟨tag, attrs, text, ta, children, tail, tla⟩, st => by
    intro h
    simp only [walkNode] at h
    split at h
    · cases h
    · next hhr =>
      split at hhr
      · next hh => exact heading_err hh hhr
      · cases hhr
    · cases h
    · next attrs' st1 hhr =>
      split at h
      · cases h
      · next hk => exact walkKids_err env children st1 hk
      · cases h
      · cases h
theorem walkKids_err (env : Env) : ∀ (l : List Node) (st : St), walkKids env l st = .err →
    ∃ s, TreeProc.unescapeText 0 s = none
  | [], st => by intro h; simp [walkKids] at h
  | c :: r, st => by
    intro h
    simp only [walkKids] at h
    split at h
    · cases h
    · next hc => exact walkNode_err env c st hc
    · cases h
    · next c' st1 hc =>
      split at h
      · cases h
      · next hr => exact walkKids_err env r st1 hr
      · cases h
      · cases h
end

theorem usedIds_none : ∀ {l : List Str}, usedIds l = none → ∃ s, TreeProc.unescapeText 0 s = none
  | [], h => by simp [usedIds] at h
  | i :: r, h => by
    simp only [usedIds] at h
    cases hi : TreeProc.unescapeText 0 i with
    | none => exact ⟨i, hi⟩
    | some u =>
      cases hr : usedIds r with
      | none => exact usedIds_none hr
      | some r' => simp [hi, hr] at h

/-- **`TocTreeprocessor.run` raises only through `UnescapeTreeprocessor.unescape`** (`chr()` of a number `≥ 0x110000`
    in the serialised heading, in a `data-toc-label` or in an `id`) -/
theorem run_err {env : Env} {bl : List Str} {root : Node} (h : run env bl root = .err) :
    ∃ s, TreeProc.unescapeText 0 s = none := by
  simp only [run] at h
  split at h
  · next hu => exact usedIds_none hu
  · split at h
    · cases h
    · next hw => exact walkNode_err env root _ hw
    · cases h
    · cases h

end MdVerif.TocTree

namespace MdVerif.PipelineX
open Py Pipeline

/-- where `lateStageX` (the tree processors after the inline stage) raises -/
theorem lateStageX_err {x : Exts} {cfg : Cfg} {log : Block.Refs} {t : Node} {xs : InlineX.XSt}
    (h : lateStageX x cfg log t xs = .err) :
    (x.footnotes = true ∧ FootnotesTree.duplicates xs.fn t = none) ∨
    (∃ t', midStageX x cfg log t xs.fn = some t' ∧ x.toc = true ∧
      TocTree.run { fmt := cfg.fmt, post := postX x cfg xs.st.html } cfg.blockLevel t' = .err ∧
      ∃ s, TreeProc.unescapeText 0 s = none) ∨
    (∃ t' t'', midStageX x cfg log t xs.fn = some t' ∧ tocStageX x cfg xs.st.html t' = .ok t'' ∧
      TreeProc.unescapeTree t'' = none) := by
  simp only [lateStageX] at h
  split at h
  · next hm =>
    left
    simp only [midStageX] at hm
    split at hm
    · next hd =>
      split at hd
      · next hx => exact ⟨hx, hd⟩
      · cases hd
    · cases hm
  · next t' hm =>
    right
    split at h
    · cases h
    · next htoc =>
      left
      simp only [tocStageX] at htoc
      split at htoc
      · next hx => exact ⟨t', hm, hx, htoc, TocTree.run_err htoc⟩
      · cases htoc
    · cases h
    · next t'' htoc =>
      right
      split at h
      · next hu => exact ⟨t', t'', hm, htoc, hu⟩
      · cases h

theorem treeX_err {x : Exts} {cfg : Cfg} {src : Str} (h : treeX x cfg src = .err) :
    ∃ root log stash t xs, blockStageX x cfg src = .ok (root, log, stash) ∧
      InlineX.runX (inlineCfgX x cfg log) root stash = some (t, xs) ∧ lateStageX x cfg log t xs = .err := by
  rw [treeX_eq] at h
  cases hb : blockStageX x cfg src with
  | oof => rw [hb] at h; cases h
  | ood => rw [hb] at h; cases h
  | ok r =>
    obtain ⟨root, log, stash⟩ := r
    rw [hb] at h
    simp only at h
    cases hr : InlineX.runX (inlineCfgX x cfg log) root stash with
    | none => rw [hr] at h; cases h
    | some txs =>
      obtain ⟨t, xs⟩ := txs
      rw [hr] at h
      exact ⟨root, log, stash, t, xs, rfl, hr, h⟩

theorem convertX_err {x : Exts} {cfg : Cfg} {src : Str} (h : convertX x cfg src = .err) :
    treeX x cfg src = .err ∨
    ∃ u html, treeX x cfg src = .ok u html ∧ Post.topLevelStrip (Ser.serialize cfg.fmt u) = none := by
  simp only [convertX] at h
  split at h
  · cases h
  · split at h
    · cases h
    · split at h
      · cases h
      · split at h
        · cases h
        · next ht => exact Or.inl ht
        · cases h
        · next u html ht =>
          right
          simp only [finishX] at h
          split at h
          · next hs => exact ⟨u, html, ht, hs⟩
          · split at h <;> cases h

end MdVerif.PipelineX
