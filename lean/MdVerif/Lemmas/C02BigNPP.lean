/-
GENERATED (work/portN.py) COPY of `MdVerif/Lemmas/InlineFuelPP.lean` in the namespace `MdVerif.InlineN`, where the weight `isTrigC` of a
character (hence `phiC`, `nuW`, `ownW`, the weights of the stash entries and the potential of a tree) ALSO COUNTS THE
LINE FEED AND `^`: with nl2br the pattern `\n` turns every line feed of a text into a `br` element, which costs one unit
of potential; the footnote pattern `[^id]` makes two elements (`sup`, `a`), paid by `[` and `^`.
Everything that does not depend on the weight is used from `MdVerif.Inline`.  Needed for `Props/C02Big.lean`, section 6
(termination of `InlineX.runX` for the pattern tables of the extensions).  Core Lean only.
-/
import MdVerif.Lemmas.C02BigNHI
import MdVerif.Lemmas.InlineFuelPP

namespace MdVerif.InlineN
open MdVerif.Inline
open Py
open NoCtl hiding STX ETX

/-! ### the weight of an entry -/

theorem wts_get {stash : List StashItem} {i : Nat} {it : StashItem} (h : stash[i]? = some it) :
    (wts stash)[i]? = some (itemW (wts (stash.take i)) it) := by
  have hi : i < stash.length := by
    rcases Nat.lt_or_ge i stash.length with h' | h'
    · exact h'
    · rw [List.getElem?_eq_none h'] at h; cases h
  have hsplit : stash = (stash.take i ++ [it]) ++ stash.drop (i + 1) := by
    have h1 : stash.drop i = it :: stash.drop (i + 1) := by
      rw [List.drop_eq_getElem_cons hi]
      congr 1
      rw [List.getElem?_eq_getElem hi] at h; exact Option.some.inj h
    conv => lhs; rw [← List.take_append_drop i stash, h1]
    simp
  have hp : wts (stash.take i ++ [it]) <+: wts stash := wts_prefix (by
    conv => rhs; rw [hsplit]
    exact List.prefix_append _ _)
  obtain ⟨t, ht⟩ := hp
  rw [← ht, wts_snoc]
  have hl : (wts (stash.take i)).length = i := by rw [wts_length, List.length_take]; omega
  rw [List.getElem?_append_left (by simp [hl]), List.getElem?_append_right (by omega), hl, Nat.sub_self]
  rfl

theorem W_frame {acc acc' : List Nat} (hp : acc <+: acc') {n : Node} (h : Deep (IdsLt acc.length) n) :
    W acc' n = W acc n := by
  apply npot_congr
  apply Node.Forall.mono _ n h
  intro m hm
  have h1 := nuW_frame hp (optQ_getD (IdsLt.nil _) hm.1)
  have h2 := nuW_frame hp (optQ_getD (IdsLt.nil _) hm.2)
  simp only [ownW, h1, h2]

/-- the weight the stash gives to the id of one of its entries -/
theorem idWt_entry {stash : List StashItem} (hs : SOK stash) {id : Str} {it : StashItem}
    (h : stashGet stash id = some it) :
    idWt (wts stash) id = match it with | .str x => phiC x | .node n => W (wts stash) n := by
  obtain ⟨hc, hi⟩ := stashGet_some h
  have hlt : decToNat id < stash.length := by
    rcases Nat.lt_or_ge (decToNat id) stash.length with h' | h'
    · exact h'
    · rw [List.getElem?_eq_none h'] at hi; cases hi
  simp only [idWt, hc, if_true, wts_get hi, Option.getD_some]
  cases it with
  | str x => simp only [itemW]; exact nuW_inert _ (hs.2 _ x hi)
  | node n =>
    simp only [itemW]
    have hp : wts (stash.take (decToNat id)) <+: wts stash := wts_prefix (List.take_prefix _ _)
    have hl : (wts (stash.take (decToNat id))).length = decToNat id := by
      rw [wts_length, List.length_take]; omega
    exact (W_frame hp (by rw [hl]; exact (hs.1 _ n hi).1)).symm

/-! ### the placeholder `findPh` finds lies in the text it skips -/

theorem findPhScan_occ (acc : List Nat) : ∀ {suf : Str} {i : Nat} {id : Str} {e : Nat},
    findPhScan suf i = some (id, e) →
    idWt acc id ≤ idW acc (suf.take (e - i)) ∧ i + phPrefixLen < e ∧ e ≤ i + suf.length := by
  intro suf
  induction suf with
  | nil => intro i id e h; simp [findPhScan] at h
  | cons c r ih =>
    intro i id e h
    rw [findPhScan_cons] at h
    cases hh : phHere (c :: r) with
    | none =>
      simp only [hh] at h
      obtain ⟨h1, h2, h3⟩ := ih h
      refine ⟨?_, by omega, by simp only [List.length_cons]; omega⟩
      have : (c :: r).take (e - i) = c :: r.take (e - (i + 1)) := by
        rw [show e - i = (e - (i + 1)) + 1 by omega, List.take_succ_cons]
      rw [this, idW_cons]
      omega
    | some p =>
      obtain ⟨id', l⟩ := p
      simp only [hh, Option.some.injEq, Prod.mk.injEq] at h
      obtain ⟨rfl, rfl⟩ := h
      obtain ⟨d1, d2, d3, d4⟩ := phHere_decomp hh
      have hlen : phPrefixLen + l ≤ (c :: r).length := by
        have := congrArg List.length d1
        simp only [List.length_append, List.length_cons, List.length_drop] at this
        have hp : phPrefix.length = phPrefixLen := rfl
        simp only [List.length_cons]; omega
      refine ⟨?_, by omega, by omega⟩
      rw [show i + phPrefixLen + l - i = phPrefixLen + l by omega]
      have htk : phHere ((c :: r).take (phPrefixLen + l)) = some (id', l) :=
        phHere_of_take hh (by rw [List.take_take, Nat.min_self]) (by rw [List.length_take]; omega)
      have hne : (c :: r).take (phPrefixLen + l) = c :: r.take (phPrefixLen + l - 1) := by
        rw [show phPrefixLen + l = (phPrefixLen + l - 1) + 1 by simp only [phPrefixLen]; omega, List.take_succ_cons]
        simp
      rw [hne] at htk ⊢
      rw [idW_cons, htk]
      simp only; omega

theorem findPh_occ (acc : List Nat) {data : Str} {index : Nat} {id : Str} {e : Nat}
    (h : findPh data index = (some id, e)) :
    idWt acc id ≤ idW acc (slice data index e) ∧ index + phPrefixLen < e ∧ e ≤ data.length := by
  unfold findPh at h
  split at h
  · next id' e' hm =>
    simp only [Prod.mk.injEq, Option.some.injEq] at h
    obtain ⟨rfl, rfl⟩ := h
    split at hm
    · cases hm
    · next hle =>
      obtain ⟨h1, h2, h3⟩ := findPhScan_occ acc hm
      rw [slice_eq_drop_take]
      simp only [List.length_drop] at h3
      exact ⟨h1, h2, by omega⟩
  · simp at h

/-! ### `linkText` appends to the receiving string -/

/-- the string of the parent that receives text -/
def slot (isText : Bool) (p : Node) : Str := (if isText then p.text else p.tail).getD []

/-- the string that currently receives text: the tail of the last element, or the parent's -/
def curS (isText : Bool) (R : List Node) (P : Node) : Str :=
  match R with
  | [] => slot isText P
  | l :: _ => l.tail.getD []

/-- the potential of everything but the receiving string -/
def restW (acc : List Nat) (isText : Bool) (R : List Node) (P : Node) : Nat :=
  match R with
  | [] => 0
  | l :: r => lpot (ownW acc) r + (1 + nuW acc (l.text.getD []) + lpot (ownW acc) l.children) + nuW acc (slot isText P)

theorem total_le (acc : List Nat) (isText : Bool) (R : List Node) (P : Node) :
    lpot (ownW acc) R + nuW acc (slot isText P) = restW acc isText R P + nuW acc (curS isText R P) := by
  cases R with
  | nil => simp [restW, curS]
  | cons l r =>
    simp only [restW, curS, lpot_cons, npot_def, ownW]
    omega

/-- what `linkText` changes -/
theorem linkText_spec (text : Str) (atomic isText : Bool) (R : List Node) (P : Node) :
    curS isText (linkText text atomic isText R P).1 (linkText text atomic isText R P).2 = curS isText R P ++ text ∧
    (∀ acc, restW acc isText (linkText text atomic isText R P).1 (linkText text atomic isText R P).2 =
      restW acc isText R P) ∧
    (match R with
     | [] => (linkText text atomic isText R P).1 = []
     | l :: r => ∃ l', (linkText text atomic isText R P).1 = l' :: r ∧ l'.text = l.text ∧ l'.children = l.children ∧
         (linkText text atomic isText R P).2 = P) := by
  unfold linkText
  split
  · next he =>
    have : text = [] := by simpa using he
    subst this
    refine ⟨by simp, fun _ => rfl, ?_⟩
    cases R with
    | nil => rfl
    | cons l r => exact ⟨l, rfl, rfl, rfl, rfl⟩
  · cases R with
    | nil =>
      simp only
      split
      · next hnt =>
        have hf : isText = false := by simpa using hnt
        subst hf
        split
        · next ht =>
          refine ⟨?_, fun _ => rfl, rfl⟩
          cases htl : P.tail with
          | none => simp [Node.truthy, htl] at ht
          | some x => simp [curS, slot, htl]
        · next ht =>
          refine ⟨?_, fun _ => rfl, rfl⟩
          cases htl : P.tail with
          | none => simp [curS, slot, htl]
          | some x =>
            cases x with
            | nil => simp [curS, slot, htl]
            | cons c r => simp [Node.truthy, htl] at ht
      · next hnt =>
        have hf : isText = true := by simpa using hnt
        subst hf
        split
        · next ht =>
          refine ⟨?_, fun _ => rfl, rfl⟩
          cases htl : P.text with
          | none => simp [Node.truthy, htl] at ht
          | some x => simp [curS, slot, htl]
        · next ht =>
          refine ⟨?_, fun _ => rfl, rfl⟩
          cases htl : P.text with
          | none => simp [curS, slot, htl]
          | some x =>
            cases x with
            | nil => simp [curS, slot, htl]
            | cons c r => simp [Node.truthy, htl] at ht
    | cons l r =>
      simp only
      split
      · next ht =>
        refine ⟨?_, fun _ => by simp [restW], ⟨_, rfl, rfl, rfl, rfl⟩⟩
        cases htl : l.tail with
        | none => simp [Node.truthy, htl] at ht
        | some x => simp [curS, *]
      · next ht =>
        refine ⟨?_, fun _ => by simp [restW], ⟨_, rfl, rfl, rfl, rfl⟩⟩
        cases htl : l.tail with
        | none => simp [curS, *]
        | some x =>
          cases x with
          | nil => simp [curS, *]
          | cons c r => simp [Node.truthy, htl] at ht

/-! ### the loop of `__processPlaceholders` -/

/-- invariant of the loop: the receiving string with the rest of the text appended is no heavier than the text
    (minus what the finished elements weigh) and only holds ids of existing entries -/
structure PInv (acc : List Nat) (L : Nat) (data : Str) (isText : Bool) (P0 : Node) (start : Nat)
    (R : List Node) (P : Node) : Prop where
  pot : restW acc isText R P + nuW acc (curS isText R P ++ data.drop start) ≤ nuW acc data
  ids : IdsLt L (curS isText R P ++ data.drop start)
  heads : ∀ l ∈ R, IdsLt L (l.text.getD []) ∧ ∀ c ∈ l.children, Deep (IdsLt L) c
  tails : ∀ l ∈ R.drop 1, IdsLt L (l.tail.getD [])
  par : R ≠ [] → IdsLt L (slot isText P)
  side : SameSide isText P0 P

theorem PInv.link {acc : List Nat} {L : Nat} {data : Str} {isText : Bool} {P0 : Node} {start start' : Nat}
    {R : List Node} {P : Node} (h : PInv acc L data isText P0 start R P) (t : Str) (atomic : Bool)
    (ht : data.drop start = t ++ data.drop start') :
    PInv acc L data isText P0 start' (linkText t atomic isText R P).1 (linkText t atomic isText R P).2 := by
  obtain ⟨s1, s2, s3⟩ := linkText_spec t atomic isText R P
  have hstr : curS isText (linkText t atomic isText R P).1 (linkText t atomic isText R P).2 ++ data.drop start' =
      curS isText R P ++ data.drop start := by rw [s1, ht, List.append_assoc]
  refine ⟨by rw [hstr, s2]; exact h.pot, by rw [hstr]; exact h.ids, ?_, ?_, ?_, h.side.linkText _ _ _⟩
  · cases R with
    | nil => simp only at s3; rw [s3]; intro l hl; cases hl
    | cons l r =>
      obtain ⟨l', e1, e2, e3, _⟩ := s3
      rw [e1]
      intro x hx
      rcases List.mem_cons.1 hx with rfl | hx
      · rw [e2, e3]; exact h.heads l (List.mem_cons_self ..)
      · exact h.heads x (List.mem_cons_of_mem _ hx)
  · cases R with
    | nil => simp only at s3; rw [s3]; intro l hl; simp at hl
    | cons l r =>
      obtain ⟨l', e1, _, _, _⟩ := s3
      rw [e1]
      simpa using h.tails
  · cases R with
    | nil => simp only at s3; rw [s3]; intro hne; exact absurd rfl hne
    | cons l r =>
      obtain ⟨l', _, _, _, e4⟩ := s3
      intro _
      rw [e4]; exact h.par (by simp)

theorem drop_split (data : Str) {a b : Nat} (h : a ≤ b) : data.drop a = slice data a b ++ data.drop b := by
  have : data.drop b = (data.drop a).drop (b - a) := by rw [List.drop_drop]; congr 1; omega
  rw [this, slice_eq_drop_take, List.take_append_drop]

/-- what comes out of the loop -/
def PPOut (acc : List Nat) (L : Nat) (data : Str) (isText : Bool) (P0 : Node) (res : List Node) (p' : Node) : Prop :=
  lpot (ownW acc) res + nuW acc (slot isText p') ≤ nuW acc data ∧ (∀ n ∈ res, Deep (IdsLt L) n) ∧
    IdsLt L (slot isText p') ∧ SameSide isText P0 p'

theorem PPOut.of_final {acc : List Nat} {L : Nat} {data : Str} {isText : Bool} {P0 : Node} {R : List Node}
    {P : Node} (h : PInv acc L data isText P0 data.length R P) : PPOut acc L data isText P0 R.reverse P := by
  have hpot := h.pot
  have hids := h.ids
  simp only [List.drop_length, List.append_nil] at hpot hids
  refine ⟨?_, ?_, ?_, h.side⟩
  · rw [lpot_reverse, total_le]; exact hpot
  · intro n hn
    rw [List.mem_reverse] at hn
    cases R with
    | nil => cases hn
    | cons l r =>
      rcases List.mem_cons.1 hn with rfl | hn
      · have := h.heads n (List.mem_cons_self ..)
        rw [deep_iff]
        refine ⟨⟨?_, ?_⟩, this.2⟩
        · intro s hs; have := this.1; rw [hs] at this; exact this
        · intro s hs; simp only [curS, hs, Option.getD_some] at hids; exact hids
      · have h1 := h.heads n (List.mem_cons_of_mem _ hn)
        have h2 := h.tails n (by simpa using hn)
        rw [deep_iff]
        refine ⟨⟨?_, ?_⟩, h1.2⟩
        · intro s hs; have := h1.1; rw [hs] at this; exact this
        · intro s hs; rw [hs] at h2; exact h2
  · cases R with
    | nil => simpa [curS] using hids
    | cons l r => exact h.par (by simp)

theorem ppLoop_acc {stash : List StashItem} (hs : SOK stash) {nested : Node → Option Node} {data : Str}
    {atomic isText : Bool} {P0 : Node}
    (hn : ∀ id n n', stashGet stash id = some (StashItem.node n) → nested n = some n' →
      Deep (IdsLt stash.length) n' ∧ W (wts stash) n' ≤ W (wts stash) n ∧ n'.tail = none) :
    ∀ (g start : Nat) (R : List Node) (P : Node) (res : List Node) (p' : Node),
      PInv (wts stash) stash.length data isText P0 start R P →
      ppLoop stash nested data atomic isText g start R P = some (res, p') →
      PPOut (wts stash) stash.length data isText P0 res p' := by
  intro g
  induction g with
  | zero => intro start R P res p' _ h; simp [ppLoop] at h
  | succ g ih =>
    intro start R P res p' hinv h
    unfold ppLoop at h
    split at h
    · next off hfind =>
      have hstart : ¬ start > data.length := by
        intro h'; rw [if_pos h'] at hfind; cases hfind
      rw [if_neg hstart] at hfind
      have hle := find_le_length hfind
      simp only [List.length_drop] at hle
      have hpl : phPrefix.length = phPrefixLen := rfl
      simp only at h
      cases hfp : findPh data (start + off) with
      | mk idopt phEnd =>
        rw [hfp] at h
        simp only at h
        cases hget : idopt.bind (stashGet stash) with
        | none =>
          rw [hget] at h
          simp only at h
          -- the placeholder prefix is kept as text; the scan goes on behind it
          have hl := hinv.link (start' := start + off + phPrefixLen)
            (slice data start (start + off + phPrefixLen)) false (drop_split data (by omega))
          revert h hl
          generalize linkText (slice data start (start + off + phPrefixLen)) false isText R P = RP
          obtain ⟨R1, P1⟩ := RP
          simp only
          intro h hl
          exact ih _ _ _ _ _ hl h
        | some item =>
          rw [hget] at h
          simp only at h
          cases idopt with
          | none => simp at hget
          | some id =>
            simp only [Option.bind_some] at hget
            obtain ⟨hocc, hend, hendle⟩ := findPh_occ (wts stash) hfp
            have hwt := idWt_entry hs hget
            -- the text before the placeholder
            have hpiece : PInv (wts stash) stash.length data isText P0 (start + off)
                (if start + off > 0 then linkText (slice data start (start + off)) false isText R P else (R, P)).1
                (if start + off > 0 then linkText (slice data start (start + off)) false isText R P else (R, P)).2 := by
              split
              · exact hinv.link _ _ (drop_split data (by omega))
              · next h0 =>
                have h00 : off = 0 ∧ start = 0 := by omega
                obtain ⟨rfl, rfl⟩ := h00
                exact hinv
            revert h hpiece
            generalize (if start + off > 0 then linkText (slice data start (start + off)) false isText R P else (R, P)) = RP1
            obtain ⟨R1, P1⟩ := RP1
            simp only
            intro h hpiece
            -- the text from the prefix on: the skipped part with the placeholder, and the rest
            have hsplit := drop_split data (show start + off ≤ phEnd by omega)
            have hreg : idWt (wts stash) id ≤ nuW (wts stash) (slice data (start + off) phEnd) := by
              simp only [nuW]; omega
            have hpot := hpiece.pot
            have hids := hpiece.ids
            rw [hsplit] at hpot hids
            have hsup1 := nuW_append_ge (wts stash) (curS isText R1 P1) (slice data (start + off) phEnd ++ data.drop phEnd)
            have hsup2 := nuW_append_ge (wts stash) (slice data (start + off) phEnd) (data.drop phEnd)
            have hidsrem : IdsLt stash.length (data.drop phEnd) :=
              hids.infix ⟨curS isText R1 P1 ++ slice data (start + off) phEnd, [], by simp⟩
            have hidscur : IdsLt stash.length (curS isText R1 P1) :=
              hids.infix ⟨[], slice data (start + off) phEnd ++ data.drop phEnd, by simp⟩
            cases item with
            | node n =>
              simp only at h hwt
              cases hnn : nested n with
              | none => rw [hnn] at h; cases h
              | some n' =>
                rw [hnn] at h
                simp only at h
                obtain ⟨k1, k2, k3⟩ := hn id n n' hget hnn
                apply ih _ _ _ _ _ ?_ h
                have hk1 := (deep_iff _ _).1 k1
                refine ⟨?_, ?_, ?_, ?_, ?_, hpiece.side⟩
                · have ht := total_le (wts stash) isText R1 P1
                  simp only [restW, curS, k3, Option.getD_none, List.nil_append]
                  simp only [W, npot_def, ownW, k3, Option.getD_none, nuW_nil] at k2
                  simp only [W, npot_def, ownW] at hwt
                  omega
                · simpa [curS, k3] using hidsrem
                · intro l hl
                  rcases List.mem_cons.1 hl with rfl | hl
                  · exact ⟨optQ_getD (IdsLt.nil _) hk1.1.1, hk1.2⟩
                  · exact hpiece.heads l hl
                · intro l hl
                  simp only [List.drop_succ_cons, List.drop_zero] at hl
                  cases R1 with
                  | nil => cases hl
                  | cons l1 r1 =>
                    rcases List.mem_cons.1 hl with rfl | hl
                    · simpa [curS] using hidscur
                    · exact hpiece.tails l (by simpa using hl)
                · intro _
                  cases R1 with
                  | nil => simpa [curS] using hidscur
                  | cons l1 r1 => exact hpiece.par (by simp)
            | str x =>
              simp only at h hwt
              have hx : Inert x := hs.2 _ x (stashGet_some hget).2
              obtain ⟨s1, s2, s3⟩ := linkText_spec x false isText R1 P1
              have hl : PInv (wts stash) stash.length data isText P0 phEnd
                  (linkText x false isText R1 P1).1 (linkText x false isText R1 P1).2 := by
                refine ⟨?_, ?_, ?_, ?_, ?_, hpiece.side.linkText _ _ _⟩
                · rw [s1, s2, List.append_assoc, nuW_paste_inert _ hx]
                  omega
                · rw [s1, List.append_assoc]
                  intro id' hid' hc'
                  rw [idsOf_inert hx] at hid'
                  rcases List.mem_append.1 hid' with hm | hm
                  · exact hidscur id' hm hc'
                  · exact hidsrem id' hm hc'
                · cases R1 with
                  | nil => simp only at s3; rw [s3]; intro l hl; cases hl
                  | cons l r =>
                    obtain ⟨l', e1, e2, e3, _⟩ := s3
                    rw [e1]
                    intro y hy
                    rcases List.mem_cons.1 hy with rfl | hy
                    · rw [e2, e3]; exact hpiece.heads l (List.mem_cons_self ..)
                    · exact hpiece.heads y (List.mem_cons_of_mem _ hy)
                · cases R1 with
                  | nil => simp only at s3; rw [s3]; intro l hl; simp at hl
                  | cons l r =>
                    obtain ⟨l', e1, _, _, _⟩ := s3
                    rw [e1]
                    simpa using hpiece.tails
                · cases R1 with
                  | nil => simp only at s3; rw [s3]; intro hne; exact absurd rfl hne
                  | cons l r =>
                    obtain ⟨l', _, _, _, e4⟩ := s3
                    intro _
                    rw [e4]; exact hpiece.par (by simp)
              revert h hl
              generalize linkText x false isText R1 P1 = RP
              obtain ⟨R2, P2⟩ := RP
              simp only
              intro h hl
              exact ih _ _ _ _ _ hl h
    · -- no placeholder prefix left
      have hfin := hinv.link (start' := data.length) (data.drop start) atomic (by simp)
      revert h hfin
      generalize linkText (data.drop start) atomic isText R P = RP
      obtain ⟨Rf, Pf⟩ := RP
      simp only [Option.some.injEq, Prod.mk.injEq]
      rintro ⟨rfl, rfl⟩ hfin
      exact PPOut.of_final hfin

/-! ### `__processElementText` and the recursion through the stash -/

/-- partial correctness of a `processPlaceholders`-like function on texts that only hold ids of existing entries,
    for a parent whose receiving string is empty -/
def PPSpec (acc : List Nat) (L : Nat) (pp : PP) : Prop :=
  ∀ s atomic parent isText res p', pp s atomic parent isText = some (res, p') → IdsLt L s →
    slot isText parent = [] → PPOut acc L s isText parent res p'

theorem petTail_acc {acc : List Nat} {L : Nat} {pp : PP} (hpp : PPSpec acc L pp) {c c' : Node} {res : List Node}
    (h : petTail pp c = some (c', res)) (hc : IdsLt L (c.tail.getD [])) :
    c'.text = c.text ∧ c'.children = c.children ∧
      lpot (ownW acc) res + nuW acc (c'.tail.getD []) ≤ nuW acc (c.tail.getD []) ∧
      (∀ n ∈ res, Deep (IdsLt L) n) ∧ IdsLt L (c'.tail.getD []) := by
  unfold petTail at h
  split at h
  · split at h
    · next res' c'' hx =>
      cases h
      obtain ⟨o1, o2, o3, o4⟩ := hpp _ _ _ _ _ _ hx hc (by simp [slot])
      exact ⟨o4.1 rfl, o4.2.2, by simpa [slot] using o1, o2, by simpa [slot] using o3⟩
    · cases h
  · cases h
    exact ⟨rfl, rfl, by simp, (by intro n hn; cases hn), hc⟩

theorem petText_acc {acc : List Nat} {L : Nat} {pp : PP} (hpp : PPSpec acc L pp) {c c' : Node}
    (h : petText pp c = some c') (hc : IdsLt L (c.text.getD [])) :
    c'.tail = c.tail ∧ ∃ res, c'.children = res ++ c.children ∧
      lpot (ownW acc) res + nuW acc (c'.text.getD []) ≤ nuW acc (c.text.getD []) ∧
      (∀ n ∈ res, Deep (IdsLt L) n) ∧ IdsLt L (c'.text.getD []) := by
  unfold petText at h
  split at h
  · split at h
    · next res' c'' hx =>
      cases h
      obtain ⟨o1, o2, o3, o4⟩ := hpp _ _ _ _ _ _ hx hc (by simp [slot])
      refine ⟨o4.2.1 rfl, res', by simp [o4.2.2], by simpa [slot] using o1, o2, by simpa [slot] using o3⟩
    · cases h
  · cases h
    exact ⟨rfl, [], by simp, by simp, (by intro n hn; cases hn), hc⟩

theorem procKids_acc {acc : List Nat} {L : Nat} {pp : PP} (hpp : PPSpec acc L pp) :
    ∀ (kids : List Node) {r : List Node}, procKids pp kids = some r → (∀ c ∈ kids, Deep (IdsLt L) c) →
      lpot (ownW acc) r ≤ lpot (ownW acc) kids ∧ ∀ c ∈ r, Deep (IdsLt L) c := by
  intro kids
  induction kids with
  | nil => intro r h _; simp only [procKids, Option.some.injEq] at h; subst h; exact ⟨Nat.le_refl _, by intro c hc; cases hc⟩
  | cons c rest ih =>
    intro r h hk
    unfold procKids at h
    split at h
    · cases h
    · next c1 res1 h1 =>
      split at h
      · cases h
      · next c2 h2 =>
        split at h
        · cases h
        · next r' h3 =>
          cases h
          have hdc := (deep_iff _ _).1 (hk c (List.mem_cons_self ..))
          obtain ⟨a1, a2, a3, a4, a5⟩ := petTail_acc hpp h1 (optQ_getD (IdsLt.nil _) hdc.1.2)
          obtain ⟨b1, res2, b2, b3, b4, b5⟩ := petText_acc hpp h2 (by rw [a1]; exact optQ_getD (IdsLt.nil _) hdc.1.1)
          obtain ⟨i1, i2⟩ := ih h3 (fun d hd => hk d (List.mem_cons_of_mem _ hd))
          constructor
          · simp only [lpot_cons, lpot_append]
            rw [npot_def (ownW acc) c2, npot_def (ownW acc) c, b2, lpot_append, a2]
            simp only [ownW, b1]
            rw [a1] at b3
            omega
          · intro d hd
            rcases List.mem_cons.1 hd with rfl | hd
            · rw [deep_iff]
              refine ⟨⟨?_, ?_⟩, ?_⟩
              · intro s hs; rw [hs] at b5; exact b5
              · intro s hs; rw [b1] at hs; rw [hs] at a5; exact a5
              · rw [b2, a2]
                intro x hx
                rcases List.mem_append.1 hx with hx | hx
                · exact b4 x hx
                · exact hdc.2 x hx
            · rcases List.mem_append.1 hd with hd | hd
              · exact a4 d hd
              · exact i2 d hd

/-- an element taken out of the stash: what `__processPlaceholders` makes of it weighs no more -/
theorem procNode_acc {acc : List Nat} {L : Nat} {pp : PP} (hpp : PPSpec acc L pp) {n n' : Node}
    (h : procNode pp n = some n') (hd : Deep (IdsLt L) n) (htl : n.tail = none) :
    Deep (IdsLt L) n' ∧ W acc n' ≤ W acc n ∧ n'.tail = none := by
  have hdn := (deep_iff _ _).1 hd
  unfold procNode at h
  simp only at h
  split at h
  · cases h
  · next n1 tailRes h1 =>
    have hcond : ¬ (Node.truthy ({ n with children := [] } : Node).tail &&
        !blankOpt ({ n with children := [] } : Node).tail) = true := by simp [htl, Node.truthy]
    unfold petTail at h1
    rw [if_neg hcond] at h1
    cases h1
    split at h
    · cases h
    · next n2 h2 =>
      split at h
      · cases h
      · next kids h3 =>
        cases h
        obtain ⟨b1, res2, b2, b3, b4, b5⟩ := petText_acc hpp h2 (optQ_getD (IdsLt.nil _) hdn.1.1)
        obtain ⟨i1, i2⟩ := procKids_acc hpp n.children h3 hdn.2
        simp only [List.append_nil] at b2
        refine ⟨?_, ?_, by simpa [htl] using b1⟩
        · rw [deep_iff]
          refine ⟨⟨?_, ?_⟩, ?_⟩
          · intro s hs; simp only at hs; rw [hs] at b5; exact b5
          · intro s hs; simp only [b1, htl] at hs; cases hs
          · simp only [b2, List.append_nil]
            intro x hx
            rcases List.mem_append.1 hx with hx | hx
            · exact b4 x hx
            · exact i2 x hx
        · simp only [W, npot_def, b2, List.append_nil, lpot_append]
          simp only [ownW, b1, htl] at b3 ⊢
          omega

/-- **`__processPlaceholders` does not increase the potential** (partial correctness, any fuel) -/
theorem processPlaceholders_acc {stash : List StashItem} (hs : SOK stash) :
    ∀ f, PPSpec (wts stash) stash.length (processPlaceholders stash f) := by
  intro f
  induction f with
  | zero => intro s atomic parent isText res p' h; simp [processPlaceholders] at h
  | succ f ih =>
    intro s atomic parent isText res p' h hids hslot
    unfold processPlaceholders at h
    split at h
    · next he =>
      simp only [Option.some.injEq, Prod.mk.injEq] at h
      obtain ⟨rfl, rfl⟩ := h
      have : s = [] := by simpa using he
      subst this
      exact ⟨by simp [hslot], (by intro n hn; cases hn), (by rw [hslot]; exact IdsLt.nil _), SameSide.refl _ _⟩
    · apply ppLoop_acc hs (nested := procNode (fun d a p t => processPlaceholders stash f d a p t))
        ?_ _ 0 [] parent res p' ?_ h
      · intro id n n' hget hnn
        obtain ⟨_, hi⟩ := stashGet_some hget
        have hlt : decToNat id < stash.length := by
          rcases Nat.lt_or_ge (decToNat id) stash.length with h' | h'
          · exact h'
          · rw [List.getElem?_eq_none h'] at hi; cases hi
        have hsn := hs.1 _ n hi
        exact procNode_acc ih hnn (deep_mono (Nat.le_of_lt hlt) hsn.1) hsn.2
      · exact ⟨by simp [restW, curS, hslot], by simpa [curS, hslot] using hids, (by intro l hl; cases hl),
          (by intro l hl; simp at hl), (by intro hne; exact absurd rfl hne), SameSide.refl _ _⟩

theorem ppTop_acc (st : St) (hs : SOK st.stash) {data : Str} {atomic : Bool} {parent : Node} {isText : Bool}
    {res : List Node} {p' : Node} (h : ppTop st data atomic parent isText = some (res, p'))
    (hids : IdsLt st.stash.length data) (hslot : slot isText parent = []) :
    PPOut (wts st.stash) st.stash.length data isText parent res p' :=
  processPlaceholders_acc hs _ _ _ _ _ _ _ h hids hslot

end MdVerif.InlineN
