/-
Helper lemmas for the trigger theorems of C16 (`Props/C16Triggers.lean`): what the "where may the pattern start"
combinators of `Model/Ext/Triggers.lean` give back, and the link between `Py.contains` and "occurs as a substring".
Core Lean only.
-/
import MdVerif.Model.Ext.Triggers

namespace MdVerif.Ext.Trig
open MdVerif.Py

/-- `trig` occurs in `s` as a contiguous substring -/
def Occurs (trig s : Str) : Prop := ∃ pre post, s = pre ++ trig ++ post

/-! ### `startsWith`, `contains` -/

theorem startsWith_iff (s p : Str) : startsWith s p = true ↔ ∃ post, s = p ++ post := by
  induction p generalizing s with
  | nil => cases s <;> simp [startsWith]
  | cons a p ih =>
    cases s with
    | nil => simp [startsWith]
    | cons c s =>
      simp only [startsWith, Bool.and_eq_true, decide_eq_true_eq, ih, List.cons_append, List.cons.injEq]
      constructor
      · rintro ⟨h, post, hp⟩; exact ⟨post, h, hp⟩
      · rintro ⟨post, h, hp⟩; exact ⟨h, post, hp⟩

theorem Occurs.of_startsWith {trig t : Str} (h : startsWith t trig = true) : Occurs trig t := by
  obtain ⟨post, hp⟩ := (startsWith_iff t trig).1 h
  exact ⟨[], post, by simpa using hp⟩

theorem Occurs.of_suffix {trig s t : Str} (pre : Str) (hs : s = pre ++ t) (h : Occurs trig t) : Occurs trig s := by
  obtain ⟨a, b, hab⟩ := h
  exact ⟨pre ++ a, b, by simp [hs, hab]⟩

theorem Occurs.cons {trig s : Str} (c : Char) (h : Occurs trig s) : Occurs trig (c :: s) :=
  Occurs.of_suffix [c] rfl h

theorem occurs_nil_iff (trig : Str) : Occurs trig [] ↔ trig = [] := by
  constructor
  · rintro ⟨a, b, h⟩
    have := congrArg List.length h
    simp at this
    exact List.eq_nil_of_length_eq_zero (by omega)
  · rintro rfl; exact ⟨[], [], rfl⟩

theorem occurs_cons_iff (trig : Str) (c : Char) (s : Str) :
    Occurs trig (c :: s) ↔ startsWith (c :: s) trig = true ∨ Occurs trig s := by
  constructor
  · rintro ⟨a, b, h⟩
    cases a with
    | nil => exact Or.inl ((startsWith_iff _ _).2 ⟨b, by simpa using h⟩)
    | cons x a =>
      simp only [List.cons_append, List.cons.injEq] at h
      exact Or.inr ⟨a, b, h.2⟩
  · rintro (h | h)
    · exact Occurs.of_startsWith h
    · exact h.cons c

theorem find_isSome_iff (pat s : Str) : (find pat s).isSome = true ↔ Occurs pat s := by
  induction s with
  | nil =>
    rw [occurs_nil_iff]
    cases pat <;> simp [find]
  | cons c s ih =>
    rw [occurs_cons_iff, ← ih]
    simp only [find]
    split <;> simp_all

/-- `Py.contains s trig` (the model of Python's `trig in s`) says exactly that `trig` occurs in `s` -/
theorem contains_iff (s trig : Str) : Py.contains s trig = true ↔ Occurs trig s := find_isSome_iff trig s

theorem contains_of_occurs {s trig : Str} (h : Occurs trig s) : Py.contains s trig = true := (contains_iff s trig).2 h

theorem list_contains_occurs {c : Char} {s : Str} (h : s.contains c = true) : Occurs [c] s := by
  obtain ⟨a, b, hab⟩ := List.append_of_mem (List.contains_iff_mem.1 h)
  exact ⟨a, b, by simp [hab]⟩

/-! ### the combinators -/

theorem anySuffix_elim {f : Str → Bool} {s : Str} (h : anySuffix f s = true) :
    ∃ pre t, s = pre ++ t ∧ f t = true := by
  induction s with
  | nil => exact ⟨[], [], rfl, by simpa [anySuffix] using h⟩
  | cons c s ih =>
    simp only [anySuffix, Bool.or_eq_true] at h
    rcases h with h | h
    · exact ⟨[], c :: s, rfl, h⟩
    · obtain ⟨pre, t, hs, ht⟩ := ih h
      exact ⟨c :: pre, t, by simp [hs], ht⟩

theorem anySuffix_intro {f : Str → Bool} (pre t : Str) (h : f t = true) : anySuffix f (pre ++ t) = true := by
  induction pre with
  | nil => cases t <;> simp_all [anySuffix]
  | cons c pre ih => simp [anySuffix, ih]

theorem afterNl_elim {f : Str → Bool} {s : Str} (h : afterNl f s = true) :
    ∃ pre t, s = pre ++ '\n' :: t ∧ f t = true := by
  induction s with
  | nil => simp [afterNl] at h
  | cons c s ih =>
    simp only [afterNl, Bool.or_eq_true, Bool.and_eq_true, decide_eq_true_eq] at h
    rcases h with ⟨hc, h⟩ | h
    · exact ⟨[], s, by simp [hc], h⟩
    · obtain ⟨pre, t, hs, ht⟩ := ih h
      exact ⟨c :: pre, t, by simp [hs], ht⟩

theorem afterNl_intro {f : Str → Bool} (pre t : Str) (h : f t = true) : afterNl f (pre ++ '\n' :: t) = true := by
  induction pre with
  | nil => simp [afterNl, h]
  | cons c pre ih => simp [afterNl, ih]

/-- a line-start match is at position 0 or right after a `\n` -/
theorem anyLineStart_elim {f : Str → Bool} {s : Str} (h : anyLineStart f s = true) :
    ∃ pre t, s = pre ++ t ∧ f t = true ∧ (pre = [] ∨ ∃ pre', pre = pre' ++ ['\n']) := by
  simp only [anyLineStart, Bool.or_eq_true] at h
  rcases h with h | h
  · exact ⟨[], s, rfl, h, Or.inl rfl⟩
  · obtain ⟨pre, t, hs, ht⟩ := afterNl_elim h
    exact ⟨pre ++ ['\n'], t, by simp [hs], ht, Or.inr ⟨pre, rfl⟩⟩

theorem anyLineStart_intro_head {f : Str → Bool} (s : Str) (h : f s = true) : anyLineStart f s = true := by
  simp [anyLineStart, h]

theorem anyLineStart_intro_nl {f : Str → Bool} (pre t : Str) (h : f t = true) :
    anyLineStart f (pre ++ '\n' :: t) = true := by
  simp [anyLineStart, afterNl_intro pre t h]

theorem optSpaces_elim {f : Str → Bool} {n : Nat} {t : Str} (h : optSpaces f n t = true) :
    ∃ k r, k ≤ n ∧ t = List.replicate k ' ' ++ r ∧ f r = true := by
  induction n generalizing t with
  | zero => exact ⟨0, t, Nat.le_refl _, rfl, by simpa [optSpaces] using h⟩
  | succ n ih =>
    simp only [optSpaces, Bool.or_eq_true] at h
    rcases h with h | h
    · exact ⟨0, t, Nat.zero_le _, rfl, h⟩
    · split at h
      · obtain ⟨k, r, hk, ht, hr⟩ := ih h
        exact ⟨k + 1, r, by omega, by simp [ht, List.replicate_succ], hr⟩
      · simp at h

/-- generic shape of a trigger lemma for a `search`ed pattern: if `f` only accepts strings that begin with `trig`… -/
theorem occurs_of_anySuffix {f : Str → Bool} {trig s : Str} (hf : ∀ t, f t = true → Occurs trig t)
    (h : anySuffix f s = true) : Occurs trig s := by
  obtain ⟨pre, t, hs, ht⟩ := anySuffix_elim h
  exact Occurs.of_suffix pre hs (hf t ht)

theorem occurs_of_anyLineStart {f : Str → Bool} {trig s : Str} (hf : ∀ t, f t = true → Occurs trig t)
    (h : anyLineStart f s = true) : Occurs trig s := by
  obtain ⟨pre, t, hs, ht, _⟩ := anyLineStart_elim h
  exact Occurs.of_suffix pre hs (hf t ht)

theorem occurs_of_optSpaces {f : Str → Bool} {trig t : Str} {n : Nat} (hf : ∀ r, f r = true → Occurs trig r)
    (h : optSpaces f n t = true) : Occurs trig t := by
  obtain ⟨k, r, _, ht, hr⟩ := optSpaces_elim h
  exact Occurs.of_suffix _ ht (hf r hr)

/-! ### the per-pattern heads -/

theorem admonitionAt_head {t : Str} (h : admonitionAt t = true) : ∃ r, t = '!' :: '!' :: '!' :: r := by
  unfold admonitionAt at h
  split at h
  · exact ⟨_, rfl⟩
  · simp at h

theorem footnoteLabelAt_head {f : Str → Bool} {t : Str} (h : footnoteLabelAt f t = true) : ∃ r, t = '[' :: '^' :: r := by
  unfold footnoteLabelAt at h
  split at h
  · exact ⟨_, rfl⟩
  · simp at h

theorem abbrAt_head {t : Str} (h : abbrAt t = true) : ∃ r, t = '*' :: '[' :: r := by
  unfold abbrAt at h
  split at h
  · exact ⟨_, rfl⟩
  · simp at h

theorem wikilinkAt_head {t : Str} (h : wikilinkAt t = true) : ∃ r, t = '[' :: '[' :: r := by
  unfold wikilinkAt at h
  split at h
  · exact ⟨_, rfl⟩
  · simp at h

theorem attrBaseAtWith_head {tail : Str → Bool} {t : Str} (h : attrBaseAtWith tail t = true) : ∃ r, t = '{' :: r := by
  unfold attrBaseAtWith at h
  split at h
  · exact ⟨_, rfl⟩
  · simp at h

theorem metaKey_colon {seen : Bool} {t : Str} (h : metaKey seen t = true) : Occurs [':'] t := by
  induction t generalizing seen with
  | nil => simp [metaKey] at h
  | cons c r ih =>
    simp only [metaKey] at h
    split at h
    · exact (ih h).cons c
    · simp only [Bool.and_eq_true, decide_eq_true_eq] at h
      exact ⟨[], r, by simp [h.2]⟩

theorem lines_cons_occurs_nl {s a b : Str} {rest : List Str} (h : lines s = a :: b :: rest) : Occurs ['\n'] s := by
  induction s generalizing a b rest with
  | nil => simp [lines, splitC] at h
  | cons c s ih =>
    simp only [lines, splitC] at h
    split at h
    · simp at h
    · rename_i p ps hp
      split at h
      · rename_i hc
        exact ⟨[], s, by simp [hc]⟩
      · simp only [List.cons.injEq] at h
        cases ps with
        | nil => simp at h
        | cons q qs => exact (ih (a := p) (b := q) (rest := qs) (by simpa [lines] using hp)).cons c

/-- the first piece of `lines s` is a prefix of `s` -/
theorem lines_head_prefix {s a : Str} {rest : List Str} (h : lines s = a :: rest) : ∃ post, s = a ++ post := by
  induction s generalizing a rest with
  | nil =>
    simp [lines, splitC] at h
    exact ⟨[], by simp [h.1]⟩
  | cons c s ih =>
    simp only [lines, splitC] at h
    split at h
    · simp at h
      exact ⟨c :: s, by simp [← h.1]⟩
    · rename_i p ps hp
      split at h
      · simp only [List.cons.injEq] at h
        exact ⟨c :: s, by simp [← h.1]⟩
      · simp only [List.cons.injEq] at h
        obtain ⟨post, hpost⟩ := ih (a := p) (rest := ps) (by simpa [lines] using hp)
        exact ⟨post, by rw [← h.1, hpost]; simp⟩

theorem lstripP_suffix (p : Char → Bool) (r : Str) : ∃ pre, r = pre ++ lstripP p r := by
  induction r with
  | nil => exact ⟨[], rfl⟩
  | cons c r ih =>
    simp only [lstripP]
    split
    · obtain ⟨pre, hpre⟩ := ih
      exact ⟨c :: pre, by simp [← hpre]⟩
    · exact ⟨[], rfl⟩

theorem lstripC_occurs {ch x : Char} {r r' : Str} (h : lstripC ch r = x :: r') : Occurs [x] r := by
  obtain ⟨pre, hpre⟩ := lstripP_suffix (· = ch) r
  unfold lstripC at h
  exact ⟨pre, r', by rw [h] at hpre; simpa using hpre⟩

/-! ### statement vocabulary and generic shapes used by `Props/C16Triggers.lean` -/

/-- `pre` ends where a line starts: it is empty or ends with `\n` -/
def LineStart (pre : Str) : Prop := pre = [] ∨ ∃ pre', pre = pre' ++ ['\n']

theorem lineStart_trigger {f : Str → Bool} {trig s : Str} (hf : ∀ t, f t = true → ∃ r, t = trig ++ r)
    (h : anyLineStart f s = true) : ∃ pre post, s = pre ++ trig ++ post ∧ LineStart pre := by
  obtain ⟨pre, t, hs, ht, hl⟩ := anyLineStart_elim h
  obtain ⟨r, rfl⟩ := hf t ht
  exact ⟨pre, r, by simp [hs], hl⟩

theorem indented_lineStart_trigger {f : Str → Bool} {trig s : Str} {n : Nat} (hf : ∀ t, f t = true → ∃ r, t = trig ++ r)
    (h : anyLineStart (optSpaces f n) s = true) :
    ∃ pre k post, s = pre ++ List.replicate k ' ' ++ trig ++ post ∧ k ≤ n ∧ LineStart pre := by
  obtain ⟨pre, t, hs, ht, hl⟩ := anyLineStart_elim h
  obtain ⟨k, r, hk, rfl, hr⟩ := optSpaces_elim ht
  obtain ⟨r', rfl⟩ := hf r hr
  exact ⟨pre, k, r', by simp [hs], hk, hl⟩

theorem occurs_of_prefix {trig t : Str} (h : ∃ r, t = trig ++ r) : Occurs trig t := by
  obtain ⟨r, rfl⟩ := h
  exact ⟨[], r, rfl⟩

/-- contraposition on Booleans: "match ⇒ trigger" gives "no trigger ⇒ no match" -/
theorem false_of_needs {a b : Bool} (h : a = true → b = true) (hb : b = false) : a = false := by
  cases a <;> simp_all

theorem startsWith_of_prefix {l doc p : Str} (hl : ∃ post, doc = l ++ post) (h : startsWith l p = true) :
    startsWith doc p = true := by
  obtain ⟨post, rfl⟩ := hl
  obtain ⟨q, rfl⟩ := (startsWith_iff l p).1 h
  exact (startsWith_iff _ _).2 ⟨q ++ post, by simp⟩

theorem occurs_of_occurs_prefix {l doc trig : Str} (hl : ∃ post, doc = l ++ post) (h : Occurs trig l) : Occurs trig doc := by
  obtain ⟨post, rfl⟩ := hl
  obtain ⟨a, b, rfl⟩ := h
  exact ⟨a, b ++ post, by simp⟩

end MdVerif.Ext.Trig
