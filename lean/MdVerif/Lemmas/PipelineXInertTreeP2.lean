/-
`DeepP Ok` (every text / tail is `Ok`) as an invariant of the parent element through every block processor, on `Ok`
blocks, for a `BSep` predicate.  Generalises `Lemmas/PipelineXInertTree2.lean`.  Core Lean only.
-/
import MdVerif.Lemmas.PipelineXInertTreeP
import MdVerif.Lemmas.PipelineXInertTree2

namespace MdVerif.BlockExt
open Py Block InlineX

variable {Ok : Str → Prop} {N : Char → Prop}

/-- the recursive-call callback keeps the parent `c`-free on `c`-free blocks -/
def PSound (Ok : Str → Prop) (pb : PB) : Prop :=
  ∀ st refs p bl, AllOk (Ok) bl → DeepP Ok p → ∀ n r, pb st refs p bl = some (n, r) → DeepP Ok n

def PPair (Ok : Str → Prop) (x : Option (Node × Refs)) : Prop := ∀ n r, x = some (n, r) → DeepP Ok n
def PRes (Ok : Str → Prop) (r : Option (Node × Refs × List Str)) : Prop := ∀ n refs rest, r = some (n, refs, rest) → DeepP Ok n

theorem pres_none : PRes Ok none := by intro n refs rest h; cases h

theorem pres_some {n : Node} {refs : Refs} {rest : List Str} (h : DeepP Ok n) : PRes Ok (some (n, refs, rest)) := by
  intro n' refs' rest' e; cases e; exact h

theorem pres_of_pair {x : Option (Node × Refs)} (f : Node → Node) (rest : List Str) (h : PPair Ok x)
    (hf : ∀ n, DeepP Ok n → DeepP Ok (f n)) :
    PRes Ok (match (generalizing := false) x with | some (n, r) => some (f n, r, rest) | none => none) := by
  cases hx : x with
  | none => exact pres_none
  | some pr =>
    obtain ⟨n, r⟩ := pr
    exact pres_some (hf n (h n r hx))

theorem pres_bind {x : Option (Node × Refs)} (K : Node → Refs → Option (Node × Refs × List Str)) (h : PPair Ok x)
    (hK : ∀ n r, DeepP Ok n → PRes Ok (K n r)) :
    PRes Ok (match (generalizing := false) x with | none => none | some (n, r) => K n r) := by
  cases hx : x with
  | none => exact pres_none
  | some pr =>
    obtain ⟨n, r⟩ := pr
    exact hK n r (h n r hx)

theorem pres_ite {a b : Option (Node × Refs × List Str)} (p : Prop) [Decidable p] (h1 : p → PRes Ok a)
    (h2 : ¬p → PRes Ok b) : PRes Ok (if p then a else b) := by
  by_cases h : p
  · rw [if_pos h]; exact h1 h
  · rw [if_neg h]; exact h2 h

variable {pb : PB} {tab : Nat} {state : List BState} {refs : Refs} {parent : Node} {b : Str} {rest : List Str}

section
variable (hs : BSep Ok N)
include hs

theorem PSound.chunk {pb : PB} (hn : PSound Ok pb) (st : List BState) (refs : Refs) (p : Node)
    {text : Str} (ht : Ok text) (hp : DeepP Ok p) : PPair Ok (parseChunk pb st refs p text) :=
  hn _ _ _ _ (ok_splitS hs.closed ht) hp

theorem hashP_treeP (hn : PSound Ok pb) (hb : Ok b) (hp : DeepP Ok parent) (m : Nat × Nat × Nat × Str)
    (hm : hashSearch b = some m) : PRes Ok (hashP tab pb state refs parent b rest m) := by
  obtain ⟨st, en, lv, header⟩ := m
  have hhd : Ok (strip header) := hs.closed.sub ((stripP_infix _ _).trans (hashSearch_infix hm)) hb
  have hnode : ∀ {p : Node}, DeepP Ok p → DeepP Ok (p.append { hTag lv with text := some (strip header) }) := by
    intro p hp'
    apply DeepP_append hp'
    exact DeepP_leaf rfl (by intro s hs'; cases hs'; exact hhd) rfl
  simp only [hashP]
  by_cases he : (b.take st).isEmpty = true
  · simp only [he, if_true]
    exact pres_some (hnode hp)
  · simp only [he, Bool.false_eq_true, if_false]
    have hpp := hn state refs parent [b.take st] (AllOk.single (ok_take hs.closed st hb)) hp
    cases h : pb state refs parent [b.take st] with
    | none => exact pres_none
    | some pr =>
      obtain ⟨n, r⟩ := pr
      exact pres_some (hnode (hpp n r h))

theorem hrP_treeP (hn : PSound Ok pb) (hb : Ok b) (hp : DeepP Ok parent) (m : Nat × Nat) :
    PRes Ok (hrP pb state refs parent b rest m) := by
  obtain ⟨st, en⟩ := m
  simp only [hrP]
  by_cases he : (rstripC '\n' (b.take st)).isEmpty = true
  · simp only [he, if_true]
    exact pres_some (DeepP_append hp (DeepP_el _))
  · simp only [he, Bool.false_eq_true, if_false]
    have hpp := hn state refs parent [rstripC '\n' (b.take st)]
      (AllOk.single (ok_rstripC hs.closed _ (ok_take hs.closed st hb))) hp
    cases h : pb state refs parent [rstripC '\n' (b.take st)] with
    | none => exact pres_none
    | some pr =>
      obtain ⟨n, r⟩ := pr
      exact pres_some (DeepP_append (hpp n r h) (DeepP_el _))

theorem listItems_treeP (hn : PSound Ok pb) (st2 : List BState) :
    ∀ (items : List Str) (refs : Refs) (lst : Node), AllOk (Ok) items → DeepP Ok lst →
      PPair Ok (listItems tab pb st2 refs lst items) := by
  intro items
  induction items with
  | nil =>
    intro refs lst _ hl n r h
    have e1 : listItems tab pb st2 refs lst [] = some (lst, refs) := rfl
    rw [e1] at h; cases h; exact hl
  | cons item items ih =>
    intro refs lst hi hl
    simp only [listItems]
    split
    · split
      · rename_i l hlast
        have hpp := hn st2 refs l [item] (AllOk.single (AllOk.head hi)) (DeepP_last hl hlast)
        cases h : pb st2 refs l [item] with
        | none => intro n r e; cases e
        | some pr =>
          obtain ⟨li, r⟩ := pr
          exact ih r _ (AllOk.tail hi) (DeepP_setLast hl (hpp li r h))
      · exact ih refs lst (AllOk.tail hi) hl
    · have hpp := hn st2 refs (Node.el "li") [item] (AllOk.single (AllOk.head hi)) (DeepP_el _)
      cases h : pb st2 refs (Node.el "li") [item] with
      | none => intro n r e; cases e
      | some pr =>
        obtain ⟨li, r⟩ := pr
        exact ih r _ (AllOk.tail hi) (DeepP_append hl (hpp li r h))

theorem listPX_treeP (hn : PSound Ok pb) (hb : Ok b) (hp : DeepP Ok parent) (p : ListParams) (tag : String) :
    PRes Ok (listPX p tab pb state refs parent b rest tag) := by
  have hitems := ok_getItemsX hs.closed p tab hb
  simp only [listPX]
  split
  · rename_i lst hlst
    have hlstD : DeepP Ok lst := by
      split at hlst
      · rename_i sib hsib
        split at hlst
        · injection hlst with hlst; exact hlst ▸ DeepP_last hp hsib
        · cases hlst
      · cases hlst
    have hlst' : DeepP Ok (match lst.last? with
        | some li =>
          lst.setLast (match (textToP li).last? with
            | some lch =>
              if Node.truthy lch.tail = true then
                ((textToP li).setLast { lch with tail := some [], tailAtomic := false }).append
                  (mkText "p" (lstrip (lch.tail.getD [])))
              else textToP li
            | none => textToP li)
        | none => lst) := by
      split
      · rename_i li hli
        have hli' := DeepP_textToP hs.sep.nil (DeepP_last hlstD hli)
        apply DeepP_setLast hlstD
        split
        · rename_i lch hlch
          have hlchD := DeepP_last hli' hlch
          split
          · apply DeepP_append
            · apply DeepP_setLast hli'
              have h' := (DeepP_iff lch).mp hlchD
              rw [DeepP_iff]
              exact ⟨h'.1, (by intro s hs'; cases hs'; exact hs.sep.nil), h'.2.2⟩
            · exact DeepP_mkText _ (hs.closed.sub (lstripP_infix _ _) (okP_tail hs.sep hlchD))
          · exact hli'
        · exact hli'
      · exact hlstD
    have hhead : Ok ((getItemsX p tab b).headD []) := by
      cases h : getItemsX p tab b with
      | nil => exact hs.sep.nil
      | cons a r => rw [h] at hitems; exact AllOk.head hitems
    have hpp := hn (state ++ [.looselist]) refs (Node.el "li") [(getItemsX p tab b).headD []] (AllOk.single hhead)
      (DeepP_el _)
    cases h : pb (state ++ [.looselist]) refs (Node.el "li") [(getItemsX p tab b).headD []] with
    | none => exact pres_none
    | some pr =>
      obtain ⟨newli, r⟩ := pr
      have hdrop : AllOk (Ok) ((getItemsX p tab b).drop 1) := fun x hx => hitems x (List.mem_of_mem_drop hx)
      exact pres_of_pair (fun l => parent.setLast l) rest
        (listItems_treeP hs hn _ _ r _ hdrop (DeepP_append hlst' (hpp newli r h))) (fun n hn' => DeepP_setLast hp hn')
  · split
    · exact pres_of_pair (fun l => l) rest (listItems_treeP hs hn _ _ refs _ hitems hp) (fun n hn' => hn')
    · refine pres_of_pair (fun l => parent.append l) rest (listItems_treeP hs hn _ _ refs _ hitems ?_)
        (fun n hn' => DeepP_append hp hn')
      split
      · exact DeepP_leaf rfl (by intro s hs'; simp [Node.el] at hs') rfl
      · exact DeepP_el _

theorem listP_treeP (hn : PSound Ok pb) (hb : Ok b) (hp : DeepP Ok parent) (tag : String) :
    PRes Ok (listP tab pb state refs parent b rest tag) := by
  rw [← listPX_default]
  exact listPX_treeP hs hn hb hp _ tag

theorem quoteP_treeP (hn : PSound Ok pb) (hb : Ok b) (hp : DeepP Ok parent) (q : Nat) :
    PRes Ok (quoteP pb state refs parent b rest q) := by
  simp only [quoteP]
  have hpp := hn state refs parent [b.take q] (AllOk.single (ok_take hs.closed q hb)) hp
  cases h : pb state refs parent [b.take q] with
  | none => exact pres_none
  | some pr =>
    obtain ⟨par, r⟩ := pr
    have hpar := hpp par r h
    have hblock : Ok (joinLines ((lines (b.drop q)).map quoteClean)) :=
      ok_mapLines hs.closed _ quoteClean_infix (ok_drop hs.closed q hb)
    simp only []
    split
    · rename_i sib hsib
      have hsibD : DeepP Ok sib := by
        split at hsib
        · rename_i sib' hs'
          split at hsib
          · injection hsib with hsib; exact hsib ▸ DeepP_last hpar hs'
          · cases hsib
        · cases hsib
      exact pres_of_pair (fun l => par.setLast l) rest (PSound.chunk hs hn _ r sib hblock hsibD)
        (fun n hn' => DeepP_setLast hpar hn')
    · exact pres_of_pair (fun l => par.append l) rest (PSound.chunk hs hn _ r _ hblock (DeepP_el _))
        (fun n hn' => DeepP_append hpar hn')

theorem indentPX_treeP (hn : PSound Ok pb) (hb : Ok b) (hp : DeepP Ok parent) (isL isI : Node → Bool)
    (itemTag : String) : PRes Ok (indentPX isL isI itemTag tab pb state refs parent b rest) := by
  simp only [indentPX]
  generalize getLevelX isL isI tab state parent b = lv
  obtain ⟨level, steps⟩ := lv
  have hblock : Ok (looseDetab tab b level) := ok_looseDetab hs.closed _ _ hb
  simp only []
  split
  · split
    · rename_i k hkq
      have hkD : DeepP Ok k := by
        split at hkq
        · rename_i k' hs'
          split at hkq
          · injection hkq with hkq; exact hkq ▸ DeepP_last hp hs'
          · cases hkq
        · cases hkq
      exact pres_of_pair (fun l => parent.setLast l) rest (hn _ refs k _ (AllOk.single hblock) hkD)
        (fun n hn' => DeepP_setLast hp hn')
    · exact pres_of_pair (fun l => l) rest (hn _ refs parent _ (AllOk.single hblock) hp) (fun n hn' => hn')
  · split
    · exact pres_of_pair (fun l => updPath (fun _ => l) steps parent) rest
        (hn _ refs _ _ (AllOk.single hblock) (DeepP_nodeAt steps hp))
        (fun n hn' => DeepP_updPath _ (fun _ _ => hn') steps hp)
    · split
      · rename_i li hli
        have hliD : DeepP Ok li := by
          split at hli
          · rename_i k' hs'
            split at hli
            · injection hli with hli; exact hli ▸ DeepP_last (DeepP_nodeAt steps hp) hs'
            · cases hli
          · cases hli
        exact pres_of_pair (fun l => updPath (fun s => s.setLast l) steps parent) rest
          (PSound.chunk hs hn _ refs _ hblock (DeepP_textToP hs.sep.nil hliD))
          (fun n hn' => DeepP_updPath _ (fun s hs' => DeepP_setLast hs' hn') steps hp)
      · exact pres_of_pair (fun l => updPath (fun s => s.append l) steps parent) rest
          (hn _ refs _ _ (AllOk.single hblock) (DeepP_el _))
          (fun n hn' => DeepP_updPath _ (fun s hs' => DeepP_append hs' hn') steps hp)

theorem indentP_treeP (hn : PSound Ok pb) (hb : Ok b) (hp : DeepP Ok parent) :
    PRes Ok (indentP tab pb state refs parent b rest) := by
  rw [← indentPX_core]
  exact indentPX_treeP hs hn hb hp _ _ "li"

theorem admonitionP_treeP (hn : PSound Ok pb) (hb : Ok b) (hp : DeepP Ok parent) (hit : AdmHit)
    (hhit : ∀ st en g1 g2, hit = .re st en g1 g2 → admSearch b = some (st, en, g1, g2)) :
    PRes Ok (admonitionP tab pb state refs parent b rest hit) := by
  cases hit with
  | re st en g1 g2 =>
    obtain ⟨hg1, hg2⟩ := admSearch_groups (hhit st en g1 g2 rfl)
    simp only [admonitionP]
    have hblock : Ok (detab tab (b.drop en)).1 := ok_detab_fst hs.closed tab (ok_drop hs.closed en hb)
    have htitle : ∀ t, (admClassTitle g1 g2).2 = some t → Ok t := by
      intro t ht
      simp only [admClassTitle] at ht
      split at ht
      · simp only [Option.some.injEq] at ht
        rw [← ht]
        apply hs.capOk
        exact hs.closed.sub (List.takeWhile_prefix _).isInfix (hs.collapseOk (hs.lowerOk (hs.closed.sub hg1 hb)))
      · cases ht
      · rename_i t' _
        simp only [Option.some.injEq] at ht
        exact ht ▸ hs.closed.sub (hg2 _ rfl) hb
    have hdivD : DeepP Ok (if Node.truthy (admClassTitle g1 g2).2 = true then
          ({ Node.el "div" with attrs := [(strClass, strAdmonition ++ ' ' :: (admClassTitle g1 g2).1)] } : Node).append
            { mkText "p" ((admClassTitle g1 g2).2.getD []) with attrs := [(strClass, "admonition-title".toList)] }
        else { Node.el "div" with attrs := [(strClass, strAdmonition ++ ' ' :: (admClassTitle g1 g2).1)] }) := by
      have h1 : DeepP Ok ({ Node.el "div" with attrs := [(strClass, strAdmonition ++ ' ' :: (admClassTitle g1 g2).1)] } : Node) := by
        exact DeepP_leaf rfl (by intro s hs'; simp [Node.el] at hs') rfl
      split
      · apply DeepP_append h1
        have : Ok ((admClassTitle g1 g2).2.getD []) := by
          cases ht : (admClassTitle g1 g2).2 with
          | none => exact hs.sep.nil
          | some t => exact htitle t ht
        exact DeepP_leaf rfl (by intro s hs'; simp only [mkText] at hs'; cases hs'; exact this) rfl
      · exact h1
    refine pres_bind _ ?_ ?_
    · by_cases hst : st > 0
      · rw [if_pos hst]
        exact hn state refs parent [b.take st] (AllOk.single (ok_take hs.closed st hb)) hp
      · rw [if_neg hst]
        intro n r e; cases e; exact hp
    · intro par r hpar
      exact pres_of_pair (fun l => par.append l) _ (PSound.chunk hs hn _ r _ hblock hdivD)
        (fun n hn' => DeepP_append hpar hn')
  | sib steps indent =>
    simp only [admonitionP]
    have hblock : Ok (detab indent b).1 := ok_detab_fst hs.closed indent hb
    have hsib := DeepP_nodeAt (Ok := Ok) steps hp
    refine pres_of_pair (fun l => updPath (fun _ => l) steps parent) _ (PSound.chunk hs hn _ refs _ hblock ?_)
      (fun n hn' => DeepP_updPath _ (fun _ _ => hn') steps hp)
    split
    · have h' := (DeepP_iff _).mp hsib
      rw [DeepP_iff]
      refine ⟨(by intro s hs'; cases hs'; exact hs.sep.nil), h'.2.1, ?_⟩
      intro k hk
      simp only [List.mem_append, List.mem_singleton] at hk
      rcases hk with hk | hk
      · exact h'.2.2 k hk
      · rw [hk, DeepP_iff]
        exact ⟨h'.1, (by intro s hs'; simp [Node.el] at hs'), (by intro k' hk'; simp [Node.el] at hk')⟩
    · exact hsib

omit hs in
theorem DeepP_addTerms {dl : Node} (terms : List Str) (h : DeepP Ok dl) (ht : ∀ t ∈ terms, Ok t) :
    DeepP Ok (addTerms dl terms) := by
  apply DeepP_children _ h
  intro k hk
  simp only [List.mem_append, List.mem_map] at hk
  rcases hk with hk | ⟨t, htm, hk⟩
  · exact DeepP_kids h k hk
  · exact hk ▸ DeepP_mkText _ (ht t htm)

theorem defListP_treeP (hn : PSound Ok pb) (hb : Ok b) (hp : DeepP Ok parent) (m : Nat × Nat × Str)
    (hm : defSearch b = some m) :
    ∀ x, defListP tab pb state refs parent b rest m = some x → PRes Ok x := by
  obtain ⟨st, en, g2⟩ := m
  have hg2 : Ok g2 := hs.closed.sub (defSearch_infix hm) hb
  simp only [defListP]
  generalize hdt' : (if defNoIndent (b.drop en) = true then (b.drop en, ([] : Str)) else detab tab (b.drop en)) = dt
  obtain ⟨d0, theRest⟩ := dt
  have hd0 : Ok d0 := by
    split at hdt'
    · injection hdt' with h1 h2
      exact h1 ▸ ok_drop hs.closed en hb
    · have h1 := ok_detab_fst hs.closed tab (ok_drop hs.closed en hb)
      rw [hdt'] at h1
      exact h1
  have hd : Ok (if d0.isEmpty = true then g2 else g2 ++ '\n' :: d0) := by
    split
    · exact hg2
    · exact hs.closed.joinNl hg2 hd0
  have hterms : ∀ t ∈ ((lines (b.take st)).map strip).filter (fun t => !t.isEmpty), Ok t := by
    intro t ht
    obtain ⟨l, hl, rfl⟩ := List.mem_map.mp (List.mem_filter.mp ht).1
    exact hs.closed.sub ((stripP_infix _ _).trans ((mem_lines_infix hl).trans (List.take_prefix _ _).isInfix)) hb
  simp only []
  intro x hx
  split at hx
  · split at hx
    · cases hx
    · injection hx with hx
      rw [← hx]
      exact pres_of_pair (fun dd => parent.append ((addTerms (Node.el "dl") _).append dd)) _
        (hn _ refs _ _ (AllOk.single hd) (DeepP_el _))
        (fun n hn' => DeepP_append hp (DeepP_append (DeepP_addTerms _ (DeepP_el _) hterms) hn'))
  · rename_i sibling hsib
    injection hx with hx
    rw [← hx]
    have hsibD := DeepP_last hp hsib
    have hterms2 : ∀ t ∈ (if (((lines (b.take st)).map strip).filter (fun t => !t.isEmpty)).isEmpty && sibling.isTag "p"
        then lines (sibling.text.getD []) else ((lines (b.take st)).map strip).filter (fun t => !t.isEmpty)), Ok t := by
      intro t ht
      split at ht
      · exact hs.closed.sub (mem_lines_infix ht) (okP_text hs.sep hsibD)
      · exact hterms t ht
    have hpar : DeepP Ok (if (((lines (b.take st)).map strip).filter (fun t => !t.isEmpty)).isEmpty && sibling.isTag "p"
        then dropLastChild parent else parent) := by
      split
      · apply DeepP_children _ hp
        intro k hk
        exact DeepP_kids hp k ((List.dropLast_prefix _).subset hk)
      · exact hp
    split
    · rename_i dl hdl'
      have hdlD : DeepP Ok dl := by
        split at hdl'
        · rename_i s' hs'
          split at hdl'
          · injection hdl' with hdl'; exact hdl' ▸ DeepP_last hpar hs'
          · cases hdl'
        · cases hdl'
      exact pres_of_pair (fun dd => Node.setLast _ ((addTerms dl _).append dd)) _
        (hn _ refs _ _ (AllOk.single hd) (DeepP_el _))
        (fun n hn' => DeepP_setLast hpar (DeepP_append (DeepP_addTerms _ hdlD hterms2) hn'))
    · exact pres_of_pair (fun dd => Node.append _ ((addTerms (Node.el "dl") _).append dd)) _
        (hn _ refs _ _ (AllOk.single hd) (DeepP_el _))
        (fun n hn' => DeepP_append hpar (DeepP_append (DeepP_addTerms _ (DeepP_el _) hterms2) hn'))

end

end MdVerif.BlockExt
