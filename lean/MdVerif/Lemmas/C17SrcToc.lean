/-
Helper lemmas for `Props/C17Src.lean`, part 5: from the tree handed to the serializer to the output that is read back,
for EVERY source — when the raw-HTML stash is empty and the tree is well formed, has a plain `div` root and holds no
STX/ETX, `convertX`'s output is accepted by the strict reader and the elements read are, in document order, those of
the tree (`elsL_of_tree`); consequence: every heading element of the output of a conversion with toc has an `id`.

Core Lean only.
-/
import MdVerif.Lemmas.C17SrcObs
import MdVerif.Lemmas.C14XRead
import MdVerif.Lemmas.TocTreeDoc

namespace MdVerif.C17Src
open Py Ser PipelineX MdVerif.TocTreeDoc
open BlockExt (NI)

/-! ### the output is the content of the trimmed root, read back -/

theorem read_of_tree (x : Exts) (cfg : Pipeline.Cfg) (src out : Str) (u : Node)
    (ht : treeX x cfg src = .ok u []) (hroot : C14X.rootDiv u = true) (hwf : WFTree u = true) (hc : NoCtl.TreeNoCtl u)
    (ho : convertX x cfg src = .ok out) :
    out = [] ∨ (readForest cfg.fmt out = some (Vocab2.innerForest (Vocab2.trimRoot u))) := by
  unfold convertX at ho
  split at ho
  · cases ho
  · split at ho
    · cases ho
    · split at ho
      · injection ho with e; exact .inl e.symm
      · right
        rw [ht] at ho
        simp only at ho
        rw [C14X.finishX_plain x _ cfg.fmt u hroot (C14X.inner_no_stx cfg.fmt u hroot hc)] at ho
        injection ho with e; subst e
        have hk := C14X.wfList_children hwf
        have hn := C14X.namedL_of_NI (C14X.qtX_named x) (VocabX.treeX_NI x _ src u [] ht)
        obtain ⟨a1, w1⟩ := C14X.strip_inner' cfg.fmt u hk hn
        rw [a1]
        exact C14X.inner_reads' cfg.fmt _ w1

/-! ### the elements read are those of the tree -/

def tagName : Tag → Str
  | .name t => t
  | _ => []

/-- an element of the tree as the reader returns it -/
def conv (p : Tag × List (Str × Str)) : El := (tagName p.1, canonAttrs (sortAttrs p.2))

def namedT (tag : Tag) (_ : List (Str × Str)) : Bool := match tag with | .name _ => true | _ => false

mutual
theorem els_canonItems : (n : Node) → NI namedT n → WFTree n = true →
    (elsL (canonItems n)).map (·.1) = (shape n).map conv
  | ⟨tag, attrs, text, ta, children, tail, tla⟩, hn, hwf => by
    rw [BlockExt.NI_iff] at hn
    obtain ⟨hq, hkids⟩ := hn
    simp only [WFTree, Bool.and_eq_true] at hwf
    obtain ⟨htag, hch⟩ := hwf
    cases tag with
    | comment => simp [namedT] at hq
    | pi => simp [namedT] at hq
    | none => simp [namedT] at hq
    | qname q => simp [namedT] at hq
    | name t =>
      have ih := els_canonList children hkids hch
      simp only [Bool.and_eq_true] at htag
      obtain ⟨-, hshape⟩ := htag
      simp only [canonItems, shape, List.map_cons, conv, tagName]
      by_cases h1 : isEmptyTag t = true
      · simp only [h1, if_true, Bool.and_eq_true, Bool.not_eq_true', List.isEmpty_iff] at hshape
        obtain ⟨-, hc⟩ := hshape
        subst hc
        simp [h1, elsL_textItem, elsL, els, shapeKids, canonAttrs]
      · have h1' : isEmptyTag t = false := by simpa using h1
        by_cases h2 : isRawTextTag t = true
        · simp only [h1', Bool.false_eq_true, if_false, h2, if_true, Bool.and_eq_true, List.isEmpty_iff] at hshape
          obtain ⟨hc, -⟩ := hshape
          subst hc
          simp only [h1', h2, Bool.false_eq_true, if_false, if_true, elsL_append, elsL_textItem, List.append_nil, elsL,
            els, shapeKids, List.map_nil, List.map_cons, canonAttrs]
          split <;> simp [elsL, els]
        · have h2' : isRawTextTag t = false := by simpa using h2
          simp only [h1', h2', Bool.false_eq_true, if_false, elsL_append, elsL_textItem, List.append_nil, elsL, els,
            elsL_mergeTexts, List.nil_append, List.map_cons, ih, canonAttrs]
theorem els_canonList : (l : List Node) → (∀ c ∈ l, NI namedT c) → WFList l = true →
    (elsL (canonList l)).map (·.1) = (shapeKids l).map conv
  | [], _, _ => rfl
  | c :: r, hn, hwf => by
    simp only [WFList, Bool.and_eq_true] at hwf
    have h1 := els_canonItems c (hn c List.mem_cons_self) hwf.1
    have h2 := els_canonList r (fun x hx => hn x (List.mem_cons_of_mem _ hx)) hwf.2
    simp only [canonList, elsL_append, List.map_append, h1, h2, shapeKids]
end

/-! ### trimming the root does not change the elements -/

theorem elsL_canonItems_tail (n : Node) (tl : Option Str) :
    elsL (canonItems { n with tail := tl }) = elsL (canonItems n) := by
  obtain ⟨tag, attrs, text, ta, children, tail, tla⟩ := n
  simp only [canonItems, elsL_append, elsL_textItem, List.append_nil]

theorem elsL_rstripLast : ∀ (l : List Node), elsL (canonList (Vocab2.rstripLast l)) = elsL (canonList l)
  | [] => rfl
  | [n] => by
    simp only [Vocab2.rstripLast, canonList, elsL_append, elsL_canonItems_tail]
  | n :: m :: r => by
    have ih := elsL_rstripLast (m :: r)
    simp only [Vocab2.rstripLast, canonList, elsL_append] at ih ⊢
    rw [ih]

theorem elsL_innerForest_trimRoot (u : Node) :
    elsL (Vocab2.innerForest (Vocab2.trimRoot u)) = elsL (canonList u.children) := by
  unfold Vocab2.innerForest Vocab2.trimRoot
  rw [elsL_mergeTexts, elsL_append, elsL_textItem, List.nil_append]
  cases hc : u.children with
  | nil => simp
  | cons c cs => simp only [elsL_rstripLast]

mutual
theorem allNodes_mono' {q1 q2 : Tag → List (Str × Str) → Bool} (h : ∀ tag attrs, q1 tag attrs = true → q2 tag attrs = true) :
    (n : Node) → BlockExt.allNodes q1 n = true → BlockExt.allNodes q2 n = true
  | ⟨tag, attrs, text, ta, children, tail, tla⟩, hn => by
    simp only [BlockExt.allNodes, Bool.and_eq_true] at hn ⊢
    exact ⟨h _ _ hn.1, allKids_mono' h children hn.2⟩
theorem allKids_mono' {q1 q2 : Tag → List (Str × Str) → Bool} (h : ∀ tag attrs, q1 tag attrs = true → q2 tag attrs = true) :
    (l : List Node) → BlockExt.allKids q1 l = true → BlockExt.allKids q2 l = true
  | [], _ => rfl
  | c :: r, hl => by
    simp only [BlockExt.allKids, Bool.and_eq_true] at hl ⊢
    exact ⟨allNodes_mono' h c hl.1, allKids_mono' h r hl.2⟩
end

theorem ni_mono {q1 q2 : Tag → List (Str × Str) → Bool} (h : ∀ tag attrs, q1 tag attrs = true → q2 tag attrs = true)
    (n : Node) (hn : NI q1 n) : NI q2 n := allNodes_mono' h n hn

/-- **the elements of the output read back are those of the tree**, in document order, for every source: empty
    raw-HTML stash, well-formed tree under a plain `div`, no STX/ETX in the tree -/
theorem elsL_of_tree (x : Exts) (cfg : Pipeline.Cfg) (src out : Str) (u : Node)
    (ht : treeX x cfg src = .ok u []) (hroot : C14X.rootDiv u = true) (hwf : WFTree u = true) (hc : NoCtl.TreeNoCtl u)
    (ho : convertX x cfg src = .ok out) :
    out = [] ∨ ∃ F, readForest cfg.fmt out = some F ∧ (elsL F).map (·.1) = (shapeKids u.children).map conv := by
  rcases read_of_tree x cfg src out u ht hroot hwf hc ho with h | h
  · exact .inl h
  · refine .inr ⟨_, h, ?_⟩
    rw [elsL_innerForest_trimRoot]
    have hni := VocabX.treeX_NI x _ src u [] ht
    have hn2 : NI namedT u := ni_mono (fun tag as hq => by
      obtain ⟨t, rfl⟩ := C14X.qtX_named x tag as hq
      rfl) u hni
    rw [BlockExt.NI_iff] at hn2
    exact els_canonList u.children hn2.2 (C14X.wfList_children hwf)

/-! ### headings and their ids -/

theorem mem_insAttr_self (kv : Str × Str) : ∀ (l : List (Str × Str)), kv ∈ insAttr kv l
  | [] => by simp [insAttr]
  | x :: xs => by
    unfold insAttr
    split
    · exact List.mem_cons_self
    · exact List.mem_cons_of_mem _ (mem_insAttr_self kv xs)

theorem mem_insAttr_of_mem (kv : Str × Str) : ∀ (l : List (Str × Str)), ∀ y ∈ l, y ∈ insAttr kv l
  | [], y, hy => by cases hy
  | x :: xs, y, hy => by
    unfold insAttr
    split
    · exact List.mem_cons_of_mem _ hy
    · rcases List.mem_cons.1 hy with rfl | hy
      · exact List.mem_cons_self
      · exact List.mem_cons_of_mem _ (mem_insAttr_of_mem kv xs y hy)

theorem mem_sortAttrs_of_mem : ∀ (l : List (Str × Str)), ∀ y ∈ l, y ∈ sortAttrs l
  | [], y, hy => by cases hy
  | x :: xs, y, hy => by
    have e : sortAttrs (x :: xs) = insAttr x (sortAttrs xs) := rfl
    rw [e]
    rcases List.mem_cons.1 hy with rfl | hy
    · exact mem_insAttr_self _ _
    · exact mem_insAttr_of_mem _ _ _ (mem_sortAttrs_of_mem xs y hy)

/-- an element of the tree that has an `id` attribute has one when read back -/
theorem attrS_id_isSome (p : Tag × List (Str × Str)) (h : (idOf p.2).isSome = true) :
    (attrS "id" (conv p)).isSome = true := by
  unfold idOf at h
  rw [Option.isSome_map, List.find?_isSome] at h
  obtain ⟨kv, hkv, hk⟩ := h
  unfold attrS conv canonAttrs
  rw [Option.isSome_map, List.find?_isSome]
  refine ⟨(kv.1, lenient attr 0 kv.2), List.mem_map.2 ⟨kv, mem_sortAttrs_of_mem _ _ hkv, rfl⟩, ?_⟩
  have hk' := of_decide_eq_true hk
  simpa [TocTree.idKey] using hk'

theorem isHeading_conv (p : Tag × List (Str × Str)) (h : isHeading (conv p) = true) : TocTree.isHeaderTag p.1 = true := by
  obtain ⟨tag, attrs⟩ := p
  cases tag with
  | name t =>
    unfold isHeading conv tagName at h
    unfold TocTree.isHeaderTag
    cases t with
    | nil => simp at h
    | cons a r =>
      cases r with
      | nil => simp at h
      | cons b r' => simpa using h
  | comment => simp [isHeading, conv, tagName] at h
  | pi => simp [isHeading, conv, tagName] at h
  | none => simp [isHeading, conv, tagName] at h
  | qname q => simp [isHeading, conv, tagName] at h

/-- every heading among the elements of a tree all of whose headings have ids has an id when read back -/
theorem headings_have_ids (u : Node) (F : List RNode) (hall : ∀ o ∈ hdIds u, o.isSome = true)
    (hF : (elsL F).map (·.1) = (shapeKids u.children).map conv) : ∀ p ∈ headings F, p.2.isSome = true := by
  intro p hp
  unfold headings at hp
  rw [hF] at hp
  obtain ⟨e, he, rfl⟩ := List.mem_map.1 hp
  obtain ⟨he1, he2⟩ := List.mem_filter.1 he
  obtain ⟨q, hq, rfl⟩ := List.mem_map.1 he1
  apply attrS_id_isSome
  apply hall
  rw [hdIds_shape, shape_eq, hdIdsS]
  refine List.mem_flatMap.2 ⟨q, List.mem_cons_of_mem _ hq, ?_⟩
  simp [isHeading_conv q he2]

end MdVerif.C17Src
