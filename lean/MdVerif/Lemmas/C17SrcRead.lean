/-
Helper lemmas for `Props/C17Src.lean`, part 2: what the strict reader `Ser.readForest` returns for the output of
`convertX` on the footnote documents of `C16_footnotes_anywhere`.

* `elsL F`: every element of a forest that was read, in document order, as `(tag, attributes)` together with the list of
  the elements below it — all the C17 observations are functions of this list;
* `readForest_serializeList`: the C14 round trip for a forest of well-formed trees;
* `elsL_outForest`: the elements of the output forest `outForest` (`Lemmas/C17SrcTree.lean`), explicitly.

Core Lean only.
-/
import MdVerif.Lemmas.C17SrcTree

namespace MdVerif.C17Src
open Py Ser MdVerif.RenderX MdVerif.RenderG
open MdVerif.Footnotes.Spec (refName)

/-! ### the elements of a forest that was read -/

/-- an element as the reader returns it: tag and attributes (values as token lists) -/
abbrev El := Str × List (Str × List Tok)

mutual
/-- every element of the item, in document order, with the elements below it (document order) -/
def els : RNode → List (El × List El)
  | .elem t as kids => ((t, as), (elsL kids).map (·.1)) :: elsL kids
  | .text _ => []
  | .comment _ => []
  | .pi _ => []
  | .raw _ => []
def elsL : List RNode → List (El × List El)
  | [] => []
  | n :: r => els n ++ elsL r
end

theorem elsL_append (a b : List RNode) : elsL (a ++ b) = elsL a ++ elsL b := by
  induction a with
  | nil => simp [elsL]
  | cons n r ih => simp [elsL, ih, List.append_assoc]

theorem elsL_text (a : List Tok) (r : List RNode) : elsL (.text a :: r) = elsL r := by simp [elsL, els]

theorem elsL_mergeTexts (l : List RNode) : elsL (mergeTexts l) = elsL l := by
  induction l with
  | nil => rfl
  | cons n r ih =>
    cases n with
    | text a =>
      rw [elsL_text, ← ih]
      simp only [mergeTexts]
      split
      · rename_i b r' hm
        rw [hm, elsL_text, elsL_text]
      · split
        · rfl
        · rw [elsL_text]
    | elem t as kids => simp [mergeTexts, elsL, ih]
    | comment s => simp [mergeTexts, elsL, ih]
    | pi s => simp [mergeTexts, elsL, ih]
    | raw s => simp [mergeTexts, elsL, ih]

theorem elsL_textItem (t : Option Str) : elsL (textItem t) = [] := by
  unfold textItem
  split <;> simp [elsL, els]

/-! ### the round trip for a forest -/

theorem readForest_serializeList (fmt : Fmt) (ns : List Node) (h : WFList ns = true) :
    readForest fmt (serializeList fmt ns) = some (mergeTexts (canonList ns)) := by
  have h1 := reads_list fmt ns h [] [] (reads_nil fmt)
  have h2 := h1 [] [] [] ((serializeList fmt ns).length + 1) noLt_nil transp_nil_nil (Or.inl rfl) (by simp)
  simp only [List.append_nil, List.nil_append] at h2
  simp only [readForest, h2, mergeTexts_nil_text]

/-- the elements of an ordinary element (neither void nor raw text) as read back -/
theorem elsL_canon_el (t : Str) (attrs : List (Str × Str)) (text : Option Str) (ta : Bool) (kids : List Node)
    (tail : Option Str) (tla : Bool) (h1 : isEmptyTag t = false) (h2 : isRawTextTag t = false) :
    elsL (canonItems ⟨.name t, attrs, text, ta, kids, tail, tla⟩) =
      ((t, canonAttrs (sortAttrs attrs)), (elsL (canonList kids)).map (·.1)) :: elsL (canonList kids) := by
  simp only [canonItems, h1, h2, Bool.false_eq_true, if_false, elsL_append, elsL_textItem, List.append_nil, elsL, els,
    elsL_mergeTexts, List.nil_append, canonAttrs]

theorem elsL_canonList_cons (n : Node) (r : List Node) :
    elsL (canonList (n :: r)) = elsL (canonItems n) ++ elsL (canonList r) := by
  simp only [canonList, elsL_append]

/-! ### the elements of the output -/

def eP : El := ("p".toList, [])
def eHr : El := ("hr".toList, [])
def eOl : El := ("ol".toList, [])
def eDiv : El := ("div".toList, canonAttrs [("class".toList, "footnote".toList)])
def eLi (id : Str) : El := ("li".toList, canonAttrs [("id".toList, Footnotes.footnoteId id)])
def eSup (refId : Str) : El := ("sup".toList, canonAttrs [("id".toList, refId)])
def eRef (id : Str) : El :=
  ("a".toList, canonAttrs [("class".toList, "footnote-ref".toList), ("href".toList, '#' :: Footnotes.footnoteId id)])
def eBack (index : Nat) (href : Str) : El :=
  ("a".toList, canonAttrs [("class".toList, "footnote-backref".toList), ("href".toList, href),
    ("title".toList, titleOf index)])

theorem elsL_backO (index : Nat) (href : Str) : elsL (canonItems (backO index href)) = [(eBack index href, [])] := by
  unfold backO
  rw [elsL_canon_el _ _ _ _ _ _ _ et_a.1 et_a.2]
  simp [canonList, elsL, eBack, sortAttrs, insAttr, strLt]

theorem elsL_backsO (index : Nat) (hs : List Str) :
    elsL (canonList (hs.map (backO index))) = hs.map (fun h => (eBack index h, [])) := by
  induction hs with
  | nil => rfl
  | cons h r ih => rw [List.map_cons, elsL_canonList_cons, elsL_backO, ih]; rfl

/-- the elements of a footnote: the `li`, its paragraph, the back-links -/
def liEls (id : Str) (index c : Nat) : List (El × List El) :=
  (eLi id, eP :: (backHrefs id c).map (eBack index)) :: (eP, (backHrefs id c).map (eBack index)) ::
    (backHrefs id c).map (fun h => (eBack index h, []))

theorem elsL_liO (id note : Str) (index c : Nat) : elsL (canonItems (liO id note index c)) = liEls id index c := by
  unfold liO liPO
  rw [elsL_canon_el _ _ _ _ _ _ _ et_li.1 et_li.2, elsL_canonList_cons, elsL_canon_el _ _ _ _ _ _ _ et_p.1 et_p.2,
    elsL_backsO]
  simp [canonList, elsL, liEls, eLi, eP, sortAttrs, insAttr, Function.comp_def, canonAttrs]

def lisEls (cnt : Str → Nat) : List (Str × Str) → Nat → List (El × List El)
  | [], _ => []
  | d :: r, i => liEls d.1 i (cnt d.1) ++ lisEls cnt r (i + 1)

theorem elsL_lisO (cnt : Str → Nat) : ∀ (defs : List (Str × Str)) (i : Nat),
    elsL (canonList (lisO cnt defs i)) = lisEls cnt defs i := by
  intro defs
  induction defs with
  | nil => intro i; rfl
  | cons d r ih => intro i; rw [lisO, elsL_canonList_cons, elsL_liO, ih]; rfl

/-- the elements of a reference: the `sup` and its link -/
def supEls (refId id : Str) : List (El × List El) := [(eSup refId, [eRef id]), (eRef id, [])]

theorem elsL_sup (refId id num u : Str) : elsL (canonItems (withTail (supG refId id num) u)) = supEls refId id := by
  have key : ∀ (tail : Option Str) (tla : Bool),
      elsL (canonItems (⟨.name "sup".toList, [("id".toList, refId)], none, false,
        [⟨.name "a".toList, [("href".toList, '#' :: Footnotes.footnoteId id), ("class".toList, "footnote-ref".toList)],
          some num, false, [], none, false⟩], tail, tla⟩ : Node)) = supEls refId id := by
    intro tail tla
    rw [elsL_canon_el _ _ _ _ _ _ _ et_sup.1 et_sup.2, elsL_canonList_cons, elsL_canon_el _ _ _ _ _ _ _ et_a.1 et_a.2]
    simp [canonList, elsL, supEls, eSup, eRef, sortAttrs, insAttr, strLt]
  unfold withTail
  split
  · exact key none false
  · exact key (some u) false

def supsEls (keys : List Str) : List (Str × Str) → List Str → List (El × List El)
  | [], _ => []
  | s :: r, hist => supEls (refName s.1 (hist.count s.1)) s.1 ++ supsEls keys r (s.1 :: hist)

theorem elsL_supsO (keys : List Str) : ∀ (segs : List (Str × Str)) (hist : List Str),
    elsL (canonList (supsO keys segs hist)) = supsEls keys segs hist := by
  intro segs
  induction segs with
  | nil => intro hist; rfl
  | cons s r ih =>
    intro hist
    have := ih (s.1 :: hist)
    unfold supsO at this ⊢
    simp only [refItemsE, supKids, List.map_cons] at this ⊢
    rw [elsL_canonList_cons, elsL_sup, this]
    rfl

/-- the elements of the whole output, in document order -/
def outEls (segs defs : List (Str × Str)) : List (El × List El) :=
  (eP, (supsEls (defs.map (·.1)) segs []).map (·.1)) :: supsEls (defs.map (·.1)) segs [] ++
    (eDiv, eHr :: eOl :: (lisEls (refCount segs) defs 1).map (·.1)) :: (eHr, []) ::
      (eOl, (lisEls (refCount segs) defs 1).map (·.1)) :: lisEls (refCount segs) defs 1

theorem et_hr : isEmptyTag "hr".toList = true := by decide +kernel

theorem elsL_hrO : elsL (canonItems hrO) = [(eHr, [])] := by
  unfold hrO
  simp only [canonItems, et_hr, if_true, elsL_append, elsL_textItem, List.append_nil, elsL, els, sortAttrs, eHr,
    List.map_nil, List.foldr_nil]

theorem elsL_outForest (t : Str) (segs defs : List (Str × Str)) :
    elsL (mergeTexts (canonList (outForest t segs defs))) = outEls segs defs := by
  rw [elsL_mergeTexts]
  unfold outForest paraO divO olO
  rw [elsL_canonList_cons, elsL_canon_el _ _ _ _ _ _ _ et_p.1 et_p.2, elsL_supsO, elsL_canonList_cons,
    elsL_canon_el _ _ _ _ _ _ _ et_div.1 et_div.2, elsL_canonList_cons, elsL_canonList_cons,
    elsL_canon_el _ _ _ _ _ _ _ et_ol.1 et_ol.2, elsL_lisO, elsL_hrO]
  simp [canonList, elsL, outEls, eP, eDiv, eOl, sortAttrs, insAttr, canonAttrs]

/-! ### the output forest is well formed -/

theorem wf_el (t : Str) (attrs : List (Str × Str)) (text : Option Str) (ta : Bool) (kids : List Node)
    (tail : Option Str) (tla : Bool) (hn : isName t = true) (hk : attrs.all (fun kv => isName kv.1) = true)
    (hnd : keysNodup attrs = true) (h1 : isEmptyTag t = false) (h2 : isRawTextTag t = false)
    (hkids : WFList kids = true) : WFTree ⟨.name t, attrs, text, ta, kids, tail, tla⟩ = true := by
  simp [WFTree, hn, hk, hnd, h1, h2, hkids]

theorem nm_a : isName "a".toList = true := by decide +kernel
theorem nm_p : isName "p".toList = true := by decide +kernel
theorem nm_li : isName "li".toList = true := by decide +kernel
theorem nm_ol : isName "ol".toList = true := by decide +kernel
theorem nm_div : isName "div".toList = true := by decide +kernel
theorem nm_sup : isName "sup".toList = true := by decide +kernel
theorem nm_id : isName "id".toList = true := by decide +kernel
theorem nm_href : isName "href".toList = true := by decide +kernel
theorem nm_class : isName "class".toList = true := by decide +kernel
theorem nm_title : isName "title".toList = true := by decide +kernel
theorem wf_hrO : WFTree hrO = true := by decide +kernel

theorem wf_backO (index : Nat) (href : Str) : WFTree (backO index href) = true :=
  wf_el _ _ _ _ _ _ _ nm_a (by simp only [List.all_cons, List.all_nil, nm_href, nm_class, nm_title, Bool.and_self])
    (by simp [keysNodup]) et_a.1 et_a.2 rfl

theorem wf_backsO (index : Nat) (hs : List Str) : WFList (hs.map (backO index)) = true := by
  induction hs with
  | nil => rfl
  | cons h r ih => simp only [List.map_cons, WFList, wf_backO, ih, Bool.and_self]

theorem wf_liO (id note : Str) (index c : Nat) : WFTree (liO id note index c) = true :=
  wf_el _ _ _ _ _ _ _ nm_li (by simp only [List.all_cons, List.all_nil, nm_id, Bool.and_self]) (by simp [keysNodup])
    et_li.1 et_li.2
    (by
      simp only [WFList, Bool.and_true]
      exact wf_el _ _ _ _ _ _ _ nm_p rfl rfl et_p.1 et_p.2 (wf_backsO index _))

theorem wf_lisO (cnt : Str → Nat) : ∀ (defs : List (Str × Str)) (i : Nat), WFList (lisO cnt defs i) = true := by
  intro defs
  induction defs with
  | nil => intro i; rfl
  | cons d r ih => intro i; simp only [lisO, WFList, wf_liO, ih, Bool.and_self]

theorem wf_sup (refId id num u : Str) : WFTree (withTail (supG refId id num) u) = true := by
  have key : ∀ (tail : Option Str) (tla : Bool),
      WFTree (⟨.name "sup".toList, [("id".toList, refId)], none, false,
        [⟨.name "a".toList, [("href".toList, '#' :: Footnotes.footnoteId id), ("class".toList, "footnote-ref".toList)],
          some num, false, [], none, false⟩], tail, tla⟩ : Node) = true := by
    intro tail tla
    refine wf_el _ _ _ _ _ _ _ nm_sup (by simp only [List.all_cons, List.all_nil, nm_id, Bool.and_self])
      (by simp [keysNodup]) et_sup.1 et_sup.2 ?_
    simp only [WFList, Bool.and_true]
    exact wf_el _ _ _ _ _ _ _ nm_a (by simp only [List.all_cons, List.all_nil, nm_href, nm_class, Bool.and_self])
      (by simp [keysNodup]) et_a.1 et_a.2 rfl
  unfold withTail
  split
  · exact key none false
  · exact key (some u) false

theorem wf_supsO (keys : List Str) : ∀ (segs : List (Str × Str)) (hist : List Str),
    WFList (supsO keys segs hist) = true := by
  intro segs
  induction segs with
  | nil => intro hist; rfl
  | cons s r ih =>
    intro hist
    have := ih (s.1 :: hist)
    unfold supsO at this ⊢
    simp only [refItemsE, supKids, List.map_cons] at this ⊢
    simp only [WFList, wf_sup, this, Bool.and_self]

theorem wf_outForest (t : Str) (segs defs : List (Str × Str)) : WFList (outForest t segs defs) = true := by
  unfold outForest paraO divO olO
  simp only [WFList, Bool.and_true, Bool.and_eq_true]
  refine ⟨wf_el _ _ _ _ _ _ _ nm_p rfl rfl et_p.1 et_p.2 (wf_supsO _ _ _), ?_⟩
  refine wf_el _ _ _ _ _ _ _ nm_div (by simp only [List.all_cons, List.all_nil, nm_class, Bool.and_self])
    (by simp [keysNodup]) et_div.1 et_div.2 ?_
  simp only [WFList, wf_hrO, Bool.and_true, Bool.true_and]
  exact wf_el _ _ _ _ _ _ _ nm_ol rfl rfl et_ol.1 et_ol.2 (wf_lisO _ _ _)

/-- **what the reader returns for the output**: a forest whose elements are `outEls` -/
theorem read_fnRender (fmt : Fmt) (t : Str) (segs defs : List (Str × Str)) (ht : PlainFacts t) (hs : SegsOK segs)
    (hd : DefsOK defs) :
    ∃ F, readForest fmt (fnRender fmt t segs defs) = some F ∧ elsL F = outEls segs defs := by
  refine ⟨_, ?_, elsL_outForest t segs defs⟩
  rw [← serialize_outForest fmt t segs defs ht hs hd]
  exact readForest_serializeList fmt _ (wf_outForest t segs defs)

end MdVerif.C17Src
