/-
Helper lemmas for C08, inline half (inline tree processor, tree processors, serialisation, postprocessors).
The development is split into modules under `Lemmas/InlineLocal/`:

* `Sh`, `PW`       the renaming relation on texts (`Sh ok ρ s s'`) and its pointwise shadow
* `Recog`, `StrOps`, `FindMatch`   the inline patterns on related texts
* `Rel`            related trees (`NRel`), stash entries, states (`StRel`)
* `HI`             `applyPattern`, the pattern loop, `handleInline`
* `PP`             `processPlaceholders`
* `Visit`          `visitChild`, `visitLoop`
* `Run`            the stack-of-paths machinery of `runLoop` (abstract in the simulation `VisitSim`)
* `Post`           prettify / unescape / serialize / finish decompose child-wise
* `Main`, `Shape`   the instance, the composition, shapes of top-level children
* `Em`, `EmBuild`   the emphasis patterns
* `Final`           the class of texts `okI`
-/
import MdVerif.Lemmas.InlineLocal.Final
