/-
Helper lemmas for `Props/C02Fn.lean`: `AttrListTreeprocessor.run` and the STX-token invariant `TokH.NodeS` / the names
invariant `C02Names.NamesOk`.

FINDING.  `attrRun_S : t.Forall TokH.NodeS → (run bl t).Forall TokH.NodeS` is FALSE: `assign_attrs` appends a class behind a
blank to the EXISTING `class` value, and `NodeS` allows that value to end in a truncated token (`SOkA`); `cex` below is the
witness (`class="\x024"`, tail `{: .foo }` gives `class="\x024 foo"`).  What holds:

* every attribute VALUE the scanner produces is not only a piece of the scanned string but a piece that ENDS at the end of
  the string or in front of a blank, `=`, `}` or the closing quote (`CutIn`, `scan_vals`): with the group `SOk` the values
  are COMPLETE (`SOk`), not only `SOkA`;
* so the walk keeps every node invariant `SOk text ∧ SOk tail ∧ ∀ kv ∈ attrs, P kv` in which `P (k, v)` follows from
  `SOk v` and `P kv` gives `SOk kv.2` for the key `class` (`ValClass P`, `attrRun_P`).  Instances:
  - `NodeSC n := NodeS n ∧ the value of the key class is SOk` (`attrRun_SC`, and `attrRun_S_of_SC` with the conclusion
    `NodeS`),
  - `NodeS' n :=` every value is `SOk` (`attrRun_S'`);
* the new text of a block-level element is a prefix of the old one that ends in front of the blank / line feed of the
  pattern, `#`-stripped and stripped (`blockApply_sok`); the new tail of an inline element is a suffix of the old tail
  followed by a suffix of the group, which is `SOk` because the group ends in front of `}` (`inlineApply_P`);
* names: `id`, `class` or `sanitize_name(key)` hold no STX (`attrRun_names`).
The walk is proved once, for an abstract class of tags, strings and attribute lists (`attrNode_G`).
The structural lemmas about the scanner and the regular expressions are those of `Lemmas/C02BigAttr.lean`.
Part 1 (`cex`, strings, scanner, `assign_attrs`, placement, names) is `Lemmas/C02FnHAttr2.lean`; this file has the walk and
the main theorems.  Core Lean only.
-/
import MdVerif.Lemmas.C02FnHAttr2

namespace MdVerif.C02FnHAttr
open Py AttrList AttrListTree TokH
open MdVerif.NoCtlX (lazyUntil_decomp splitEq_decomp lastBrace_decomp headerSearch_decomp blockSearch_decomp blockRule_eq
  tailRes textRes attrNode_eq attrBody selTail)
open MdVerif.C02BigNB (takeDrop patQuoted_split patKeyValue_split patWord_split splitEq_snd_suffix scanStep_pieces
  scan_pieces getAttrsAndRemainder_pieces baseAt_pieces)

/-! ### the walk, for an abstract class of tags, strings and attribute lists -/

/-- what the walk needs: `blockApply` and `inlineApply` keep the class of attribute lists `A` on strings of the class `S`
    and produce strings of the class `S` -/
structure WalkClass (S : Str → Prop) (A : Attrs → Prop) : Prop where
  nil : S []
  block : ∀ (header hashes : Bool) (a : Attrs) (text : Str), A a → S text →
    A (blockApply header hashes a text).1 ∧ S (blockApply header hashes a text).2
  inline : ∀ (a : Attrs) (tail : Str), A a → S tail → A (inlineApply a tail).1 ∧ S (inlineApply a tail).2

/-- the node invariant of the class -/
def NodeG (T : Tag → Prop) (S : Str → Prop) (A : Attrs → Prop) (n : Node) : Prop :=
  T n.tag ∧ S (n.text.getD []) ∧ S (n.tail.getD []) ∧ A n.attrs

section walk
variable {T : Tag → Prop} {S : Str → Prop} {A : Attrs → Prop}

def BlockGoodG (S : Str → Prop) (A : Attrs → Prop) (r : Attrs × Option Str × Option (Nat × Str)) : Prop :=
  A r.1 ∧ (∀ t, r.2.1 = some t → S t) ∧ (∀ i t, r.2.2 = some (i, t) → S t)

theorem tailRes_goodG (hW : WalkClass S A) (header hashes : Bool) {attrs : Attrs} (ha : A attrs) (i : Nat)
    {tl : Str} (ht : S tl) : BlockGoodG S A (tailRes header hashes attrs i tl) := by
  obtain ⟨b1, b2⟩ := hW.block header hashes attrs tl ha ht
  unfold tailRes
  split
  · exact ⟨b1, fun t e => (by cases e), fun i t e => (by cases e)⟩
  · refine ⟨b1, fun t e => (by cases e), ?_⟩
    intro j t e
    simp only [Option.some.injEq, Prod.mk.injEq] at e
    rw [← e.2]; exact b2

theorem textRes_goodG (hW : WalkClass S A) (header hashes : Bool) {attrs : Attrs} (ha : A attrs) {text : Option Str}
    (ht : S (text.getD [])) : BlockGoodG S A (textRes header hashes attrs text) := by
  obtain ⟨b1, b2⟩ := hW.block header hashes attrs _ ha ht
  unfold textRes
  split
  · split
    · exact ⟨b1, fun t e => (by cases e), fun i t e => (by cases e)⟩
    · refine ⟨b1, ?_, fun i t e => (by cases e)⟩
      intro t e
      simp only [Option.some.injEq] at e
      rw [← e]
      exact b2
  · exact ⟨ha, fun t e => (by cases e), fun i t e => (by cases e)⟩

theorem bind_tail_G (hW : WalkClass S A) {children : List Node} (hk : ∀ c ∈ children, S (c.tail.getD []))
    {o : Option Node} (ho : ∀ c, o = some c → c ∈ children) : S ((o.bind (·.tail)).getD []) := by
  cases o with
  | none => exact hW.nil
  | some c => exact hk c (ho c rfl)

theorem blockRule_goodG (hW : WalkClass S A) (tag : Tag) {attrs : Attrs} (ha : A attrs) {text : Option Str}
    (ht : S (text.getD [])) {children : List Node} (hk : ∀ c ∈ children, S (c.tail.getD [])) :
    BlockGoodG S A (blockRule tag attrs text children) := by
  have hlast : S ((children.getLast?.bind (·.tail)).getD []) :=
    bind_tail_G hW hk (fun c hc => List.mem_of_getLast? hc)
  have hprev : ∀ pos : Nat, S (((children[pos - 1]?).bind (·.tail)).getD []) :=
    fun pos => bind_tail_G hW hk (fun c hc => List.mem_of_getElem? hc)
  rw [blockRule_eq]
  split
  · split
    · split
      · exact tailRes_goodG hW _ _ ha _ hlast
      · exact textRes_goodG hW _ _ ha ht
    · split
      · exact tailRes_goodG hW _ _ ha _ (hprev _)
      · exact textRes_goodG hW _ _ ha ht
  · split
    · exact tailRes_goodG hW _ _ ha _ hlast
    · exact textRes_goodG hW _ _ ha ht

theorem kids_tailsG {l : List Node} (h : Node.ForallL (NodeG T S A) l) : ∀ c ∈ l, S (c.tail.getD []) := by
  intro c hc
  exact (((Node.forall_iff _ _).1 ((Node.forallL_iff _ _).1 h c hc)).1).2.2.1

theorem selTail_G {tailOv tail0 : Option Str} (h3 : S (tail0.getD [])) (hov : ∀ t, tailOv = some t → S t) :
    S ((selTail tailOv tail0).getD []) := by
  cases tailOv with
  | none => exact h3
  | some t => exact hov t rfl

mutual
theorem attrNode_G (hW : WalkClass S A) (bl : List Str) : ∀ (n : Node) (tailOv : Option Str),
    n.Forall (NodeG T S A) → (∀ t, tailOv = some t → S t) → (attrNode bl tailOv n).Forall (NodeG T S A)
  | ⟨tag, attrs, text, ta, children, tail0, tla0⟩, tailOv, h, hov => by
    simp only [Node.Forall] at h
    obtain ⟨⟨h0, h1, h2, h3⟩, hk⟩ := h
    simp only at h0 h1 h2 h3
    have htail := selTail_G h2 hov
    rw [attrNode_eq]
    generalize selTail tailOv tail0 = tail at htail
    generalize (match tailOv with | some _ => false | none => tla0) = tla
    unfold attrBody
    split
    · obtain ⟨g1, g2, g3⟩ := blockRule_goodG hW tag h3 h1 (kids_tailsG hk)
      simp only [Node.Forall]
      refine ⟨⟨h0, ?_, htail, g1⟩, attrKids_G hW bl _ 0 children hk (fun j t e => g3 j t e)⟩
      show S ((match (blockRule tag attrs text children).2.1 with | some t => some t | none => text).getD [])
      cases hr : (blockRule tag attrs text children).2.1 with
      | none => exact h1
      | some t => exact g2 t hr
    · split
      · split
        · obtain ⟨v1, v2⟩ := hW.inline attrs _ h3 htail
          simp only [Node.Forall]
          exact ⟨⟨h0, h1, v2, v1⟩, attrKids_G hW bl none 0 children hk (fun j t e => by cases e)⟩
        · simp only [Node.Forall]
          exact ⟨⟨h0, h1, htail, h3⟩, attrKids_G hW bl none 0 children hk (fun j t e => by cases e)⟩
      · simp only [Node.Forall]
        exact ⟨⟨h0, h1, htail, h3⟩, attrKids_G hW bl none 0 children hk (fun j t e => by cases e)⟩
theorem attrKids_G (hW : WalkClass S A) (bl : List Str) (ov : Option (Nat × Str)) : ∀ (i : Nat) (l : List Node),
    Node.ForallL (NodeG T S A) l → (∀ j t, ov = some (j, t) → S t) →
    Node.ForallL (NodeG T S A) (attrKids bl ov i l)
  | _, [], _, _ => by simp [attrKids, Node.ForallL]
  | i, c :: r, h, hov => by
    simp only [Node.ForallL] at h
    unfold attrKids
    simp only [Node.ForallL]
    refine ⟨attrNode_G hW bl c _ h.1 ?_, attrKids_G hW bl ov (i + 1) r h.2 hov⟩
    intro t e
    cases ov with
    | none => cases e
    | some jt =>
      obtain ⟨j, t'⟩ := jt
      simp only at e
      split at e
      · simp only [Option.some.injEq] at e
        subst e; exact hov j t' rfl
      · cases e
end

/-- the walk keeps the node invariant of every class that `blockApply` and `inlineApply` keep -/
theorem attrRun_G (hW : WalkClass S A) (bl : List Str) {t : Node} (h : t.Forall (NodeG T S A)) :
    (AttrListTree.run bl t).Forall (NodeG T S A) :=
  attrNode_G hW bl t none h (fun _ e => by cases e)

end walk

/-! ### (A) the STX-token invariant -/

/-- the node invariant for a class `P` of attribute items: texts and tails complete, the items in the class -/
def NodeP (P : Str × Str → Prop) (n : Node) : Prop :=
  SOk (n.text.getD []) = true ∧ SOk (n.tail.getD []) = true ∧ ∀ kv ∈ n.attrs, P kv

theorem walkClass_P {P : Str × Str → Prop} (hP : ValClass P) :
    WalkClass (fun s => SOk s = true) (fun a => ∀ kv ∈ a, P kv) where
  nil := rfl
  block := fun header hashes a _ ha ht => ⟨blockApply_P hP header hashes ha ht, blockApply_sok header hashes a ht⟩
  inline := fun _ _ ha ht => inlineApply_P hP ha ht

theorem nodeP_iff (P : Str × Str → Prop) (n : Node) :
    NodeP P n ↔ NodeG (fun _ => True) (fun s => SOk s = true) (fun a => ∀ kv ∈ a, P kv) n := by
  simp [NodeP, NodeG]

/-- **`AttrListTreeprocessor.run` keeps the token invariant**, for every class of attribute items that holds the items
    with a complete value and in which the value of `class` is complete -/
theorem attrRun_P {P : Str × Str → Prop} (hP : ValClass P) (bl : List Str) {t : Node} (h : t.Forall (NodeP P)) :
    (AttrListTree.run bl t).Forall (NodeP P) :=
  Node.Forall.mono (fun n => (nodeP_iff P n).2) _
    (attrRun_G (walkClass_P hP) bl (Node.Forall.mono (fun n => (nodeP_iff P n).1) _ h))

/-- `TokH.NodeS`, and the value of the key `class` is complete (not truncated) -/
def NodeSC (n : Node) : Prop := NodeS n ∧ ∀ kv ∈ n.attrs, kv.1 = classKey → SOk kv.2 = true

/-- texts, tails and ALL attribute values complete -/
def NodeS' (n : Node) : Prop :=
  SOk (n.text.getD []) = true ∧ SOk (n.tail.getD []) = true ∧ ∀ kv ∈ n.attrs, SOk kv.2 = true

/-- an item of `NodeSC` -/
def PSC (kv : Str × Str) : Prop := SOkA kv.2 = true ∧ (kv.1 = classKey → SOk kv.2 = true)

theorem valClass_SC : ValClass PSC where
  new := fun _ _ hv => ⟨SOkA_of_SOk hv, fun _ => hv⟩
  cls := fun _ h e => h.2 e

theorem valClass_S' : ValClass (fun kv => SOk kv.2 = true) where
  new := fun _ _ hv => hv
  cls := fun _ h _ => h

theorem nodeSC_iff (n : Node) : NodeSC n ↔ NodeP PSC n := by
  constructor
  · rintro ⟨⟨h1, h2, h3⟩, h4⟩
    exact ⟨h1, h2, fun kv hkv => ⟨h3 kv hkv, h4 kv hkv⟩⟩
  · rintro ⟨h1, h2, h3⟩
    exact ⟨⟨h1, h2, fun kv hkv => (h3 kv hkv).1⟩, fun kv hkv => (h3 kv hkv).2⟩

theorem nodeS_of_SC {n : Node} (h : NodeSC n) : NodeS n := h.1

theorem nodeSC_of_S' {n : Node} (h : NodeS' n) : NodeSC n :=
  ⟨⟨h.1, h.2.1, fun kv hkv => SOkA_of_SOk (h.2.2 kv hkv)⟩, fun kv hkv _ => h.2.2 kv hkv⟩

/-- a tree without `class` attributes: `NodeS` is `NodeSC` -/
theorem nodeSC_of_S_noClass {n : Node} (h : NodeS n) (hc : ∀ kv ∈ n.attrs, kv.1 ≠ classKey) : NodeSC n :=
  ⟨h, fun kv hkv e => absurd e (hc kv hkv)⟩

/-- **(A)** `AttrListTreeprocessor.run` keeps `NodeS` + "the `class` values are complete" -/
theorem attrRun_SC (bl : List Str) {t : Node} (h : t.Forall NodeSC) : (AttrListTree.run bl t).Forall NodeSC :=
  Node.Forall.mono (fun n => (nodeSC_iff n).2) _
    (attrRun_P valClass_SC bl (Node.Forall.mono (fun n => (nodeSC_iff n).1) _ h))

/-- **(A)**, the conclusion asked for: the result satisfies `TokH.NodeS` -/
theorem attrRun_S_of_SC (bl : List Str) {t : Node} (h : t.Forall NodeSC) : (AttrListTree.run bl t).Forall NodeS :=
  Node.Forall.mono (fun _ => nodeS_of_SC) _ (attrRun_SC bl h)

/-- **(A)** for the stronger invariant "every attribute value is complete" -/
theorem attrRun_S' (bl : List Str) {t : Node} (h : t.Forall NodeS') : (AttrListTree.run bl t).Forall NodeS' :=
  attrRun_P valClass_S' bl h

/-! ### (B) names -/

theorem walkClass_keys : WalkClass (fun _ => True) KeysOk where
  nil := trivial
  block := fun header hashes _ text ha _ => ⟨blockApply_keys header hashes ha text, trivial⟩
  inline := fun _ tail ha _ => ⟨inlineApply_keys ha tail, trivial⟩

theorem namesOk_iff (n : Node) : C02Names.NamesOk n ↔ NodeG NoCtl.tagNoCtl (fun _ => True) KeysOk n := by
  simp [C02Names.NamesOk, NodeG, KeysOk]

/-- **(B)** `AttrListTreeprocessor.run` keeps the tags and writes attribute names without STX -/
theorem attrRun_names (bl : List Str) {t : Node} (h : t.Forall C02Names.NamesOk) :
    (AttrListTree.run bl t).Forall C02Names.NamesOk :=
  Node.Forall.mono (fun n => (namesOk_iff n).2) _
    (attrRun_G walkClass_keys bl (Node.Forall.mono (fun n => (namesOk_iff n).1) _ h))

end MdVerif.C02FnHAttr
