/-
Helper lemmas for `Props/C16RenderG.lean`, part 9: the footnote postprocessor (the two `str.replace` calls) on the
serialised document with any number of footnotes and back-links, and the end of `convertX`.

Core Lean only.
-/
import MdVerif.Lemmas.RenderGHtml

namespace MdVerif.RenderG
open Py Block BlockExt MdVerif.RenderX Inline InlineX
open MdVerif.Footnotes.Spec (refName)

/-! ### text without STX -/

theorem stx_lA1 : Post.STX ∉ lA1 := by decide +kernel
theorem stx_lA2 : Post.STX ∉ lA2 := by decide +kernel
theorem stx_lA3 : Post.STX ∉ lA3 := by decide +kernel
theorem stx_lA4 : Post.STX ∉ lA4 := by decide +kernel
theorem stx_lL1 : Post.STX ∉ lL1 := by decide +kernel
theorem stx_lL2 : Post.STX ∉ lL2 := by decide +kernel
theorem stx_lL3 : Post.STX ∉ lL3 := by decide +kernel
theorem stx_lD1 : Post.STX ∉ lD1 := by decide +kernel
theorem stx_lD2 : Post.STX ∉ lD2 := by decide +kernel
theorem stx_lD3 : Post.STX ∉ lD3 := by decide +kernel
theorem stx_lD4 : Post.STX ∉ lD4 := by decide +kernel
theorem stx_lit12 : Post.STX ∉ "<sup id=\"".toList := by decide +kernel
theorem stx_lit13 : Post.STX ∉ "\"><a class=\"footnote-ref\" href=\"#fn:".toList := by decide +kernel
theorem stx_lit6 : Post.STX ∉ "\">".toList := by decide +kernel
theorem stx_lit14 : Post.STX ∉ "</a></sup>".toList := by decide +kernel
theorem stx_ent1 : Post.STX ∉ "&#8617;".toList := by decide +kernel
theorem stx_ent2 : Post.STX ∉ "&#160;".toList := by decide +kernel
theorem stx_hr (fmt : Ser.Fmt) : Post.STX ∉ hrTag fmt := by cases fmt <;> decide +kernel

theorem stx_app {a b : Str} (ha : Post.STX ∉ a) (hb : Post.STX ∉ b) : Post.STX ∉ a ++ b := by
  intro hm
  rcases List.mem_append.1 hm with h | h
  · exact ha h
  · exact hb h

theorem stx_attr {s : Str} (h : ∀ c ∈ s, AttrCh c) : Post.STX ∉ s := noStx_of_attrCh h

theorem stx_supHtmlG (refId id num : Str) (h1 : ∀ c ∈ refId, AttrCh c) (h2 : ∀ c ∈ id, AttrCh c)
    (h3 : ∀ c ∈ num, AttrCh c) : Post.STX ∉ supHtmlG refId id num := by
  unfold supHtmlG
  exact stx_app (stx_app (stx_app (stx_app (stx_app (stx_app stx_lit12 (stx_attr h1)) stx_lit13) (stx_attr h2)) stx_lit6)
    (stx_attr h3)) stx_lit14

theorem stx_refsHtml (keys : List Str) : ∀ (segs : List (Str × Str)) (hist : List Str), SegsOK segs →
    Post.STX ∉ refsHtml keys segs hist := by
  intro segs
  induction segs with
  | nil => intro hist _ hm; simp [refsHtml] at hm
  | cons s r ih =>
    intro hist hs
    have hid := hs.ids s List.mem_cons_self
    unfold refsHtml
    exact stx_app (stx_app (stx_supHtmlG _ _ _ (attrCh_refName s.1 hid _) (attrCh_word hid) (attrCh_digits _))
      (stx_attr (fun c hc => Or.inl (hs.tails s List.mem_cons_self c hc)))) (ih _ hs.tail)

theorem stx_backPre (index : Nat) (h : Str) (hh : ∀ c ∈ h, AttrCh c) : Post.STX ∉ backPre index h := by
  unfold backPre
  exact stx_app (stx_app (stx_app (stx_app stx_lA1 (stx_attr hh)) stx_lA2) (stx_attr (attrCh_title index))) stx_lA3

theorem stx_liPre (id note : Str) (hid : WordFacts id) (hn : PlainFacts note) : Post.STX ∉ liPre id note := by
  unfold liPre
  exact stx_app (stx_app (stx_app stx_lL1 (stx_attr (attrCh_word hid))) stx_lL2) hn.noStx

theorem stx_docPre (fmt : Ser.Fmt) (t refs : Str) (ht : Post.STX ∉ t) (hr : Post.STX ∉ refs) :
    Post.STX ∉ docPre fmt t refs := by
  unfold docPre
  exact stx_app (stx_app (stx_app (stx_app (stx_app stx_lD1 ht) hr) stx_lD2) (stx_hr fmt)) stx_lD3

/-! ### `str.replace` over the list items -/

/-- what is needed of a replacement `f = replace · pat new` on the pieces of the list items -/
structure Repl (f : Str → Str) (nb bl nb' bl' : Str) : Prop where
  clean : ∀ A Y, Post.STX ∉ A → f (A ++ Y) = A ++ f Y
  nb : ∀ Y, f (nb ++ Y) = nb' ++ f Y
  bl : ∀ Y, f (bl ++ Y) = bl' ++ f Y

theorem repl_backs {f : Str → Str} {nb bl nb' bl' : Str} (R : Repl f nb bl nb' bl') (index : Nat) :
    ∀ (hs : List Str) (Y : Str), (∀ h ∈ hs, ∀ c ∈ h, AttrCh c) →
      f (backsHtml index bl hs ++ Y) = backsHtml index bl' hs ++ f Y := by
  intro hs
  induction hs with
  | nil => intro Y _; rfl
  | cons h r ih =>
    intro Y hh
    have e : ∀ (b : Str) (Z : Str), backsHtml index b (h :: r) ++ Z =
        backPre index h ++ (b ++ (lA4 ++ (backsHtml index b r ++ Z))) := by
      intro b Z
      simp only [backsHtml, backHtml, List.append_assoc]
    rw [e, e, R.clean _ _ (stx_backPre index h (hh h List.mem_cons_self)), R.bl, R.clean _ _ stx_lA4,
      ih Y (fun x hx => hh x (List.mem_cons_of_mem _ hx))]

theorem repl_lis {f : Str → Str} {nb bl nb' bl' : Str} (R : Repl f nb bl nb' bl') (cnt : Str → Nat) :
    ∀ (defs : List (Str × Str)) (i : Nat) (Y : Str), DefsOK defs →
      f (lisHtml cnt nb bl defs i ++ Y) = lisHtml cnt nb' bl' defs i ++ f Y := by
  intro defs
  induction defs with
  | nil => intro i Y _; rfl
  | cons d r ih =>
    intro i Y hd
    have hid := hd.ids d List.mem_cons_self
    have hn := hd.notes d List.mem_cons_self
    have e : ∀ (n b : Str) (Z : Str), lisHtml cnt n b (d :: r) i ++ Z =
        liPre d.1 d.2 ++ (n ++ (backsHtml i b (backHrefs d.1 (cnt d.1)) ++ (lL3 ++ (lisHtml cnt n b r (i + 1) ++ Z)))) := by
      intro n b Z
      simp only [lisHtml, liHtml, List.append_assoc]
    rw [e, e, R.clean _ _ (stx_liPre d.1 d.2 hid hn), R.nb,
      repl_backs R i _ _ (attrCh_backHrefs d.1 hid (cnt d.1)), R.clean _ _ stx_lL3, ih (i + 1) Y hd.tail]

theorem repl_doc {f : Str → Str} {nb bl nb' bl' : Str} (R : Repl f nb bl nb' bl') (hnil : f [] = [])
    (fmt : Ser.Fmt) (t refs : Str) (cnt : Str → Nat)
    (defs : List (Str × Str)) (ht : Post.STX ∉ t) (hr : Post.STX ∉ refs) (hd : DefsOK defs) :
    f (fnOutG fmt t refs (lisHtml cnt nb bl defs 1)) = fnOutG fmt t refs (lisHtml cnt nb' bl' defs 1) := by
  have e : ∀ L, fnOutG fmt t refs L = docPre fmt t refs ++ (L ++ (lD4 ++ [])) := by
    intro L
    simp only [fnOutG, List.append_assoc, List.append_nil]
  rw [e, e, R.clean _ _ (stx_docPre fmt t refs ht hr), repl_lis R cnt defs 1 _ hd, R.clean _ _ stx_lD4, hnil]

/-! ### the two replacements -/

theorem free_stx (X : Str) (hX : Post.STX ∉ X) (pat : Str) (hp : pat.head? = some Post.STX) :
    ∀ c ∈ X, some c ≠ pat.head? := by
  intro c hc e
  rw [hp] at e
  exact hX ((Option.some.inj e) ▸ hc)

theorem bl_head : FootnotesTree.fnBacklinkText.head? = some Post.STX := by decide +kernel
theorem nb_head : FootnotesTree.nbspPlaceholder.head? = some Post.STX := by decide +kernel
theorem bl_ne : FootnotesTree.fnBacklinkText ≠ [] := by decide +kernel
theorem nb_ne : FootnotesTree.nbspPlaceholder ≠ [] := by decide +kernel

def entBl : Str := "&#8617;".toList
def entNb : Str := "&#160;".toList
theorem stx_entBl : Post.STX ∉ entBl := by decide +kernel

theorem nb_split : ∃ r, FootnotesTree.nbspPlaceholder = Post.STX :: 'q' :: r ∧ Post.STX ∉ 'q' :: r :=
  ⟨"q3936677670287331zz".toList ++ [FootnotesTree.ETX], by decide +kernel, by decide +kernel⟩

theorem bl_split : ∃ r, FootnotesTree.fnBacklinkText = Post.STX :: 'z' :: r :=
  ⟨"z1337820767766393qq".toList ++ [FootnotesTree.ETX], by decide +kernel⟩

/-- the back-link text is replaced, the no-break-space placeholder is passed over -/
theorem repl_first : Repl (fun X => replace X FootnotesTree.fnBacklinkText entBl)
    FootnotesTree.nbspPlaceholder FootnotesTree.fnBacklinkText FootnotesTree.nbspPlaceholder entBl := by
  refine ⟨?_, ?_, ?_⟩
  · intro A Y hA
    exact replace_skip _ _ _ _ (free_stx A hA _ bl_head)
  · intro Y
    obtain ⟨nr, hnr, hnrs⟩ := nb_split
    obtain ⟨br, hbr⟩ := bl_split
    have h0 : startsWith (Post.STX :: 'q' :: nr ++ Y) (Post.STX :: 'z' :: br) = false := by
      simp [startsWith]
    show replace (FootnotesTree.nbspPlaceholder ++ Y) FootnotesTree.fnBacklinkText entBl =
      FootnotesTree.nbspPlaceholder ++ replace Y FootnotesTree.fnBacklinkText entBl
    have hsk := replace_skip ('q' :: nr) Y FootnotesTree.fnBacklinkText entBl (free_stx _ hnrs _ bl_head)
    rw [hnr]
    rw [hbr] at hsk ⊢
    rw [show Post.STX :: 'q' :: nr ++ Y = Post.STX :: ('q' :: nr ++ Y) from rfl,
      replace_cons_of_not_startsWith (by simpa using h0), hsk]
    rfl
  · intro Y
    exact replace_at _ _ _ bl_ne

/-- then the no-break-space placeholder is replaced; the back-link text is the entity by now -/
theorem repl_second : Repl (fun X => replace X FootnotesTree.nbspPlaceholder entNb)
    FootnotesTree.nbspPlaceholder entBl entNb entBl := by
  refine ⟨?_, ?_, ?_⟩
  · intro A Y hA
    exact replace_skip _ _ _ _ (free_stx A hA _ nb_head)
  · intro Y
    exact replace_at _ _ _ nb_ne
  · intro Y
    exact replace_skip _ _ _ _ (free_stx _ stx_entBl _ nb_head)

theorem replace_nil (pat new : Str) : replace [] pat new = [] := by
  unfold replace
  split <;> rfl

/-- `FootnotePostprocessor.run` on the serialised document -/
theorem postprocess_fnG (fmt : Ser.Fmt) (t refs : Str) (cnt : Str → Nat) (defs : List (Str × Str))
    (ht : Post.STX ∉ t) (hr : Post.STX ∉ refs) (hd : DefsOK defs) :
    FootnotesTree.postprocess
        (fnOutG fmt t refs (lisHtml cnt FootnotesTree.nbspPlaceholder FootnotesTree.fnBacklinkText defs 1)) =
      fnOutG fmt t refs (lisHtml cnt entNb entBl defs 1) := by
  have h1 : replace (fnOutG fmt t refs (lisHtml cnt FootnotesTree.nbspPlaceholder FootnotesTree.fnBacklinkText defs 1))
      FootnotesTree.fnBacklinkText entBl = fnOutG fmt t refs (lisHtml cnt FootnotesTree.nbspPlaceholder entBl defs 1) :=
    repl_doc repl_first (replace_nil _ _) fmt t refs cnt defs ht hr hd
  have h2 : replace (fnOutG fmt t refs (lisHtml cnt FootnotesTree.nbspPlaceholder entBl defs 1))
      FootnotesTree.nbspPlaceholder entNb = fnOutG fmt t refs (lisHtml cnt entNb entBl defs 1) :=
    repl_doc repl_second (replace_nil _ _) fmt t refs cnt defs ht hr hd
  show replace (replace _ FootnotesTree.fnBacklinkText entBl) FootnotesTree.nbspPlaceholder entNb = _
  rw [h1, h2]

/-! ### the end of `convertX` -/

theorem stx_backs (index : Nat) : ∀ (hs : List Str), (∀ h ∈ hs, ∀ c ∈ h, AttrCh c) →
    Post.STX ∉ backsHtml index entBl hs := by
  intro hs
  induction hs with
  | nil => intro _ hm; simp [backsHtml] at hm
  | cons h r ih =>
    intro hh
    unfold backsHtml backHtml
    exact stx_app (stx_app (stx_app (stx_backPre index h (hh h List.mem_cons_self)) stx_entBl) stx_lA4)
      (ih (fun x hx => hh x (List.mem_cons_of_mem _ hx)))

theorem stx_lis (cnt : Str → Nat) : ∀ (defs : List (Str × Str)) (i : Nat), DefsOK defs →
    Post.STX ∉ lisHtml cnt entNb entBl defs i := by
  intro defs
  induction defs with
  | nil => intro i _ hm; simp [lisHtml] at hm
  | cons d r ih =>
    intro i hd
    have hid := hd.ids d List.mem_cons_self
    have hn := hd.notes d List.mem_cons_self
    unfold lisHtml liHtml
    exact stx_app (stx_app (stx_app (stx_app (stx_liPre d.1 d.2 hid hn) (by decide +kernel))
      (stx_backs i _ (attrCh_backHrefs d.1 hid (cnt d.1)))) stx_lL3) (ih (i + 1) hd.tail)

theorem stx_fnOutG (fmt : Ser.Fmt) (t refs lis : Str) (ht : Post.STX ∉ t) (hr : Post.STX ∉ refs) (hl : Post.STX ∉ lis) :
    Post.STX ∉ fnOutG fmt t refs lis := by
  unfold fnOutG
  exact stx_app (stx_app (stx_docPre fmt t refs ht hr) hl) stx_lD4

theorem fnOutG_ends (fmt : Ser.Fmt) (t refs lis : Str) :
    (fnOutG fmt t refs lis).head? = some '<' ∧ (fnOutG fmt t refs lis).getLast? = some '>' := by
  have h1 : ∃ r, lD1 = '<' :: r := ⟨"p>".toList, by decide +kernel⟩
  have h2 : ∃ r, lD4 = r ++ ['>'] := ⟨"</ol>\n</div".toList, by decide +kernel⟩
  obtain ⟨r1, e1⟩ := h1
  obtain ⟨r2, e2⟩ := h2
  unfold fnOutG docPre
  rw [e1, e2]
  constructor
  · simp
  · rw [← List.append_assoc, List.getLast?_append]; simp

/-- the end of `convertX` when the serialised document is `<div>\nJ0\n</div>\n` -/
theorem finishX_gen (x : PipelineX.Exts) (hfo : x.footnotes = true) (cfg : Pipeline.Cfg) (J0 J1 : Str)
    (h1 : strip ('\n' :: J0 ++ ['\n']) = J0) (h2 : FootnotesTree.postprocess J0 = J1) (h3 : Post.ampSub J1 = J1)
    (h4 : strip J1 = J1) :
    PipelineX.finishX x cfg [] ("<div>".toList ++ ('\n' :: J0 ++ ['\n']) ++ "</div>\n".toList) = .ok J1 := by
  simp only [PipelineX.finishX, Escape.topLevelStrip_div, h1, PipelineX.postX, Post.rawHtmlFuel, List.length_nil,
    Post.rawHtml, List.isEmpty_nil, if_true, Option.map_some, hfo, h2, h3, h4]

/-- the end of `convertX` with footnotes on the serialised document -/
theorem finishX_fnG (x : PipelineX.Exts) (hfo : x.footnotes = true) (cfg : Pipeline.Cfg) (t refs : Str) (cnt : Str → Nat)
    (defs : List (Str × Str)) (ht : Post.STX ∉ t) (hr : Post.STX ∉ refs) (hd : DefsOK defs) :
    PipelineX.finishX x cfg []
      ("<div>".toList ++
        ('\n' :: fnOutG cfg.fmt t refs (lisHtml cnt FootnotesTree.nbspPlaceholder FootnotesTree.fnBacklinkText defs 1) ++ ['\n']) ++
        "</div>\n".toList) = .ok (fnOutG cfg.fmt t refs (lisHtml cnt entNb entBl defs 1)) := by
  have visible : ∀ (L : Str), strip (fnOutG cfg.fmt t refs L) = fnOutG cfg.fmt t refs L := by
    intro L
    obtain ⟨e1, e2⟩ := fnOutG_ends cfg.fmt t refs L
    apply strip_eq_self
    · intro c hc
      rw [e1] at hc
      cases hc; decide
    · intro c hc
      rw [e2] at hc
      cases hc; decide
  have hs2 : ∀ L, strip ('\n' :: fnOutG cfg.fmt t refs L ++ ['\n']) = fnOutG cfg.fmt t refs L := by
    intro L
    have := strip_append_of_blank (a := ['\n']) (b := ['\n']) (by decide) (by decide) (fnOutG cfg.fmt t refs L)
    have e : '\n' :: fnOutG cfg.fmt t refs L ++ ['\n'] = ['\n'] ++ fnOutG cfg.fmt t refs L ++ ['\n'] := by simp
    rw [e, this, visible]
  have hfin := stx_fnOutG cfg.fmt t refs _ ht hr (stx_lis cnt defs 1 hd)
  exact finishX_gen x hfo cfg _ _ (hs2 _) (postprocess_fnG cfg.fmt t refs cnt defs ht hr hd)
    (Escape.ampSub_id _ hfin) (visible _)

end MdVerif.RenderG
