/-
Helper lemmas for C03 with extensions enabled (`Props/C03X.lean`), continued: ANY document made of one-line
paragraphs and indented code blocks (no two code blocks adjacent — they would be one block), through
`PipelineX.convertX x` for every flag set `x`.  Core Lean only.

W. vocabulary (`CItem`, `codeDocSource`, `codeDocHtml`, `alternating`); the text after a code block (`restTextY`)
X. the text: `NormalizeWhitespace`, references, fences, characters (`ws_docText`, `refsClosed_docText`, …)
Y. the blocks and the block parser (`splitS_docText`, `parse_items`, `parseDocumentXT_items`)
-/
import MdVerif.Lemmas.CodeXAbbr

namespace MdVerif.CodeX
open Py Block BlockExt CodeLaw Pipeline PipelineX

/-! ### W. vocabulary -/

/-- an item of the document: a one-line paragraph or an indented code block (runs of lines) -/
inductive CItem
  | para (p : Str)
  | code (first : List Str) (more : List (Nat × List Str))

/-- the item as typed -/
def CItem.src (tab : Nat) : CItem → Str
  | .para p => p
  | .code first more => codeSource tab first more

/-- the HTML the property lets the item become -/
def CItem.html : CItem → Str
  | .para p => "<p>".toList ++ p ++ "</p>".toList
  | .code first more => "<pre><code>".toList ++ Code.codeEscape (trimSpec first more) ++ "\n</code></pre>".toList

/-- the domain: a paragraph is letters and spaces starting with a letter; a code block is as in `C03_block_top` -/
def CItem.ok : CItem → Bool
  | .para p => FencedPipe.isParaLine p
  | .code first more => isCodeRun first && more.all (fun er => isCodeRun er.2)

/-- no two code blocks are adjacent -/
def alternating : List CItem → Bool
  | [] => true
  | .para _ :: r => alternating r
  | .code _ _ :: r =>
    (match r with
     | .code _ _ :: _ => false
     | _ => true) && alternating r

/-- the document: the items separated by blank lines -/
def codeDocSource (tab : Nat) (items : List CItem) : Str := join ['\n', '\n'] (items.map (CItem.src tab))

/-- the expected output: the items' HTML, one per line -/
def codeDocHtml (items : List CItem) : Str := join ['\n'] (items.map CItem.html)

/-- the text handed to the block parser: every item followed by a blank line -/
def docText (tab : Nat) : List CItem → Str
  | [] => []
  | it :: r => it.src tab ++ '\n' :: '\n' :: docText tab r

theorem docText_eq (tab : Nat) (items : List CItem) : docText tab items = FencedPipe.paras (items.map (CItem.src tab)) := by
  induction items with
  | nil => rfl
  | cons it r ih => simp [docText, FencedPipe.paras, ih]

theorem codeDocSource_nl2 (tab : Nat) (items : List CItem) (hne : items ≠ []) :
    codeDocSource tab items ++ ['\n', '\n'] = docText tab items := by
  rw [docText_eq, codeDocSource, FencedPipe.join_nl2 _ (by simpa using hne)]

/-- the text after the first run of a code block when `y` follows the block -/
def restTextY (tab : Nat) : List (Nat × List Str) → Str → Str
  | [], y => y
  | er :: more, y => nls er.1 ++ indentRun tab er.2 ++ '\n' :: '\n' :: restTextY tab more y

theorem codeSourceY (tab : Nat) (first : List Str) (more : List (Nat × List Str)) (y : Str) :
    codeSource tab first more ++ '\n' :: '\n' :: y = indentRun tab first ++ '\n' :: '\n' :: restTextY tab more y := by
  have e : ∀ more : List (Nat × List Str),
      more.flatMap (fun er => nls (er.1 + 2) ++ joinLines (indentLines tab er.2)) ++ '\n' :: '\n' :: y =
        '\n' :: '\n' :: restTextY tab more y := by
    intro more
    induction more with
    | nil => rfl
    | cons er more ih =>
      simp only [List.flatMap_cons, List.append_assoc, ih, restTextY, indentRun]
      simp [nls, List.replicate_succ]
  simp only [codeSource, runsText, List.append_assoc, e, indentRun]

/-- the blocks of the further runs of a code block -/
def gapsBlocks (tab : Nat) (more : List (Nat × List Str)) : List Str :=
  more.flatMap (fun er => gapBlocks tab er.1 er.2)

theorem restBlocks_eq (tab : Nat) (more : List (Nat × List Str)) : restBlocks tab more = gapsBlocks tab more ++ [[]] := by
  induction more with
  | nil => rfl
  | cons er more ih => simp only [restBlocks, gapsBlocks, List.flatMap_cons, List.append_assoc] at ih ⊢; rw [ih]

/-! ### X. the text -/

structure CItem.Facts (it : CItem) : Prop where
  para : ∀ p, it = .para p → FencedPipe.isParaLine p = true
  code : ∀ f m, it = .code f m → (RunInk f ∧ RunRefs f ∧ ∀ l ∈ f, ∀ c ∈ l, isCodeChar c = true) ∧
    ∀ er ∈ m, RunInk er.2 ∧ RunRefs er.2 ∧ ∀ l ∈ er.2, ∀ c ∈ l, isCodeChar c = true

theorem CItem.facts {it : CItem} (h : it.ok = true) : it.Facts := by
  cases it with
  | para p =>
    refine ⟨fun q e => ?_, fun f m e => ?_⟩
    · cases e; exact h
    · cases e
  | code f m =>
    simp only [CItem.ok, Bool.and_eq_true, List.all_eq_true] at h
    refine ⟨fun q e => ?_, fun f' m' e => ?_⟩
    · cases e
    · cases e
      exact ⟨isCodeRun_spec h.1, fun er her => isCodeRun_spec (h.2 er her)⟩

open Normalize in
theorem ws_restTextY (tab : Nat) (more : List (Nat × List Str)) (h : ∀ er ∈ more, RunInk er.2) (y : Str) :
    wsLinesAux (some 0) (restTextY tab more y) = restTextY tab more (wsLinesAux (some 0) y) := by
  induction more with
  | nil => rfl
  | cons er more ih =>
    simp only [restTextY, List.append_assoc]
    rw [ws_nls, ws_run tab _ (Or.inr rfl) _ (h er List.mem_cons_self), wsLinesAux_nl,
      ih (fun x hx => h x (List.mem_cons_of_mem _ hx))]

open Normalize FencedPipe in
/-- `NormalizeWhitespace`'s line scanner leaves the text of the document alone -/
theorem ws_docText (tab : Nat) (items : List CItem) (h : ∀ it ∈ items, it.ok = true) :
    wsLinesAux (some 0) (docText tab items) = docText tab items := by
  induction items with
  | nil => rfl
  | cons it r ih =>
    have ih' := ih (fun x hx => h x (List.mem_cons_of_mem _ hx))
    have hf := CItem.facts (h it List.mem_cons_self)
    cases it with
    | para p =>
      obtain ⟨c0, r0, rfl, hc0, hw⟩ := isParaLine_spec (hf.para p rfl)
      have hnl : '\n' ∉ c0 :: r0 := fun hm => wordSp_ne (hw _ hm) (by decide) rfl
      simp only [docText, CItem.src]
      rw [ws_some_line_of_head c0 r0 _ hnl (alpha_not_space hc0), wsLinesAux_nl, ih']
    | code f m =>
      obtain ⟨⟨i1, _, _⟩, hm⟩ := hf.code f m rfl
      simp only [docText, CItem.src]
      rw [codeSourceY, ws_run tab (some 0) (Or.inr rfl) f i1, wsLinesAux_nl,
        ws_restTextY tab m (fun er her => (hm er her).1), ih']

theorem refsClosed_restTextY (tab : Nat) (more : List (Nat × List Str)) (h : ∀ er ∈ more, RunRefs er.2) (y : Str)
    (hy : refsClosed y = true) : refsClosed (restTextY tab more y) = true := by
  induction more with
  | nil => exact hy
  | cons er more ih =>
    simp only [restTextY, List.append_assoc]
    apply refsClosed_nls
    apply refsClosed_indentRun_nl tab _ (h er List.mem_cons_self)
    exact refsClosed_cons_of_ne (by decide) (ih (fun x hx => h x (List.mem_cons_of_mem _ hx)))

open FencedPipe in
/-- every numeric character reference of the text has its `;` -/
theorem refsClosed_docText (tab : Nat) (items : List CItem) (h : ∀ it ∈ items, it.ok = true) :
    refsClosed (docText tab items) = true := by
  induction items with
  | nil => rfl
  | cons it r ih =>
    have ih' := ih (fun x hx => h x (List.mem_cons_of_mem _ hx))
    have hf := CItem.facts (h it List.mem_cons_self)
    cases it with
    | para p =>
      obtain ⟨c0, r0, rfl, hc0, hw⟩ := isParaLine_spec (hf.para p rfl)
      simp only [docText, CItem.src]
      apply refsClosed_append _ '\n' _ (by decide)
        (refsClosed_of_no_amp _ (fun hm' => wordSp_ne (hw _ hm') (by decide) rfl))
      exact refsClosed_cons_of_ne (by decide) (refsClosed_cons_of_ne (by decide) ih')
    | code f m =>
      obtain ⟨⟨_, r1, _⟩, hm⟩ := hf.code f m rfl
      simp only [docText, CItem.src]
      rw [codeSourceY]
      apply refsClosed_indentRun_nl tab _ r1
      exact refsClosed_cons_of_ne (by decide) (refsClosed_restTextY tab m (fun er her => (hm er her).2.1) _ ih')

theorem lineHeads_restTextY (bad : Char → Bool) (hbad : bad '\n' = false) (hsp : bad ' ' = false) (tab : Nat)
    (htab : 0 < tab) (more : List (Nat × List Str)) (h : ∀ er ∈ more, RunOk er.2) (y : Str) :
    lineHeads bad true (restTextY tab more y) = lineHeads bad true y := by
  induction more with
  | nil => rfl
  | cons er more ih =>
    simp only [restTextY, List.append_assoc]
    rw [lineHeads_nls bad hbad, lineHeads_append_nl bad hbad, lineHeads_nl bad hbad,
      lineHeads_indentRun bad hbad hsp tab htab (h er List.mem_cons_self),
      ih (fun x hx => h x (List.mem_cons_of_mem _ hx))]
    rfl

open FencedPipe in
/-- no line of the text starts with a character of the kind `bad` when no letter and no space is of that kind -/
theorem lineHeads_docText (bad : Char → Bool) (hbad : bad '\n' = false) (hsp : bad ' ' = false)
    (hal : ∀ c, isAsciiAlpha c = true → bad c = false) (tab : Nat) (htab : 0 < tab) (items : List CItem)
    (h : ∀ it ∈ items, it.ok = true) : lineHeads bad true (docText tab items) = true := by
  induction items with
  | nil => rfl
  | cons it r ih =>
    have ih' := ih (fun x hx => h x (List.mem_cons_of_mem _ hx))
    have hf := CItem.facts (h it List.mem_cons_self)
    cases it with
    | para p =>
      obtain ⟨c0, r0, rfl, hc0, hw⟩ := isParaLine_spec (hf.para p rfl)
      have hnl : '\n' ∉ c0 :: r0 := fun hm => wordSp_ne (hw _ hm) (by decide) rfl
      simp only [docText, CItem.src]
      rw [lineHeads_append_nl bad hbad, lineHeads_nl bad hbad, ih',
        lineHeads_line bad _ hnl (fun d hd => by
          simp only [List.head?_cons, Option.some.injEq] at hd
          subst hd; exact hal _ hc0)]
      rfl
    | code f m =>
      obtain ⟨⟨i1, _, _⟩, hm⟩ := hf.code f m rfl
      simp only [docText, CItem.src]
      rw [codeSourceY, lineHeads_append_nl bad hbad, lineHeads_nl bad hbad,
        lineHeads_restTextY bad hbad hsp tab htab m (fun er her => (hm er her).1.ok), ih',
        lineHeads_indentRun bad hbad hsp tab htab i1.ok]
      rfl

open FencedPipe in
/-- the characters of the document -/
theorem mem_codeDocSource (tab : Nat) (items : List CItem) (h : ∀ it ∈ items, it.ok = true) (c : Char)
    (hc : c ∈ codeDocSource tab items) :
    c ≠ '<' ∧ c ≠ '\r' ∧ c ≠ '\t' ∧ c ≠ Char.ofNat 2 ∧ c ≠ Char.ofNat 3 := by
  have hc' : c = '\n' ∨ ∃ s ∈ items.map (CItem.src tab), c ∈ s := by
    unfold codeDocSource at hc
    generalize items.map (CItem.src tab) = l at hc
    induction l with
    | nil => simp [join] at hc
    | cons a r ih =>
      cases r with
      | nil => exact Or.inr ⟨a, List.mem_cons_self, by simpa [join] using hc⟩
      | cons b r =>
        rw [Py.join_cons_cons] at hc
        simp only [List.mem_append, List.mem_cons, List.not_mem_nil, or_false] at hc
        rcases hc with (hc | hc | hc) | hc
        · exact Or.inr ⟨a, List.mem_cons_self, hc⟩
        · exact Or.inl hc
        · exact Or.inl hc
        · rcases ih hc with h1 | ⟨s, hs, hcs⟩
          · exact Or.inl h1
          · exact Or.inr ⟨s, List.mem_cons_of_mem _ hs, hcs⟩
  rcases hc' with rfl | ⟨s, hs, hcs⟩
  · decide
  · obtain ⟨it, hit, rfl⟩ := List.mem_map.1 hs
    have hf := CItem.facts (h it hit)
    cases it with
    | para p =>
      obtain ⟨c0, r0, rfl, hc0, hw⟩ := isParaLine_spec (hf.para p rfl)
      have := hw c hcs
      exact ⟨wordSp_ne this (by decide), wordSp_ne this (by decide), wordSp_ne this (by decide),
        wordSp_ne this (by decide), wordSp_ne this (by decide)⟩
    | code f m =>
      obtain ⟨⟨_, _, c1⟩, hm⟩ := hf.code f m rfl
      rcases mem_codeSource hcs with rfl | rfl | ⟨l, hl, hcl⟩ | ⟨er, her, l, hl, hcl⟩
      · decide
      · decide
      · obtain ⟨a1, _, a3, a4, a5, a6⟩ := isCodeChar_spec (c1 l hl c hcl); exact ⟨a1, a3, a4, a5, a6⟩
      · obtain ⟨a1, _, a3, a4, a5, a6⟩ := isCodeChar_spec ((hm er her).2.2 l hl c hcl); exact ⟨a1, a3, a4, a5, a6⟩

/-! ### Y. the blocks and the block parser -/

/-- the blocks of the document (without the final empty one) -/
def docBlocks (tab : Nat) : List CItem → List Str
  | [] => []
  | .para p :: r => p :: docBlocks tab r
  | .code f m :: r => indentRun tab f :: (gapsBlocks tab m ++ docBlocks tab r)

open Escape in
theorem splitAux_restTextY (tab : Nat) (more : List (Nat × List Str)) (h : ∀ er ∈ more, RunOk er.2) (y : Str) :
    splitAux ['\n', '\n'] 0 (restTextY tab more y) = gapsBlocks tab more ++ splitAux ['\n', '\n'] 0 y := by
  induction more with
  | nil => rfl
  | cons er more ih =>
    simp only [restTextY, gapsBlocks, List.flatMap_cons, List.append_assoc]
    have := splitAux_gap tab er.2 (h er List.mem_cons_self) (restTextY tab more y) er.1
    simp only [List.append_assoc] at this
    rw [this, ih (fun x hx => h x (List.mem_cons_of_mem _ hx))]
    rfl

open Escape FencedPipe in
/-- `text.split("\n\n")` on the text of the document -/
theorem splitS_docText (tab : Nat) (items : List CItem) (h : ∀ it ∈ items, it.ok = true) :
    splitS ['\n', '\n'] (docText tab items) = docBlocks tab items ++ [[]] := by
  simp only [splitS]
  induction items with
  | nil => rfl
  | cons it r ih =>
    have ih' := ih (fun x hx => h x (List.mem_cons_of_mem _ hx))
    have hf := CItem.facts (h it List.mem_cons_self)
    cases it with
    | para p =>
      obtain ⟨c0, r0, rfl, hc0, hw⟩ := isParaLine_spec (hf.para p rfl)
      have hnl : '\n' ∉ c0 :: r0 := fun hm => wordSp_ne (hw _ hm) (by decide) rfl
      simp only [docText, CItem.src, docBlocks]
      rw [splitAux_tight true _ (noEmptyLine_of_no_nl c0 r0 hnl), ih']
      rfl
    | code f m =>
      obtain ⟨⟨i1, _, _⟩, hm⟩ := hf.code f m rfl
      simp only [docText, CItem.src, docBlocks]
      rw [codeSourceY, splitAux_tight true _ (tight_indentRun tab i1.ok),
        splitAux_restTextY tab m (fun er her => (hm er her).1.ok), ih']
      simp

/-- the children the block parser gives the root: a `p` per paragraph, a `pre` > `code` per code block; the final
    empty block adds `"\n\n"` to the text of a code block that ends the document -/
def docKids : List CItem → List Node
  | [] => []
  | .para p :: r => mkText "p" p :: docKids r
  | .code f m :: r => codePre (codeAccum f m ++ (if r.isEmpty then ['\n', '\n'] else [])) :: docKids r

def appendKids (parent : Node) (l : List Node) : Node := { parent with children := parent.children ++ l }

theorem appendKids_nil (parent : Node) : appendKids parent [] = parent := by
  cases parent; simp [appendKids]

theorem appendKids_cons (parent c : Node) (l : List Node) :
    appendKids (parent.append c) l = appendKids parent (c :: l) := by
  cases parent; simp [appendKids, Node.append]

open FencedPipe in
/-- all the further runs of a code block when other blocks follow -/
theorem parse_restXY (tables : Bool) (cfg : XCfg) (tab : Nat) (htab : 0 < tab) (state : List BState) (refs : Refs)
    (parent : Node) (hp : ParentOk parent) (more : List (Nat × List Str)) (h : ∀ er ∈ more, RunOk er.2)
    (bs : List Str) : ∀ (t : Str) (f : Nat), ∃ k,
      parseBlocksXT tables cfg tab (f + k) state refs (parent.append (codePre t)) (gapsBlocks tab more ++ bs) =
        parseBlocksXT tables cfg tab f state refs
          (parent.append (codePre (t ++ more.flatMap (fun er => nls (er.1 + 1) ++ runText er.2)))) bs := by
  induction more with
  | nil => intro t f; exact ⟨0, by simp [gapsBlocks]⟩
  | cons er more ih =>
    intro t f
    obtain ⟨k1, hk1⟩ := ih (fun x hx => h x (List.mem_cons_of_mem _ hx)) (t ++ nls (er.1 + 1) ++ runText er.2) f
    obtain ⟨k2, hk2⟩ := parse_gapX tables cfg tab htab state refs parent hp er.2 (h er List.mem_cons_self)
      (gapsBlocks tab more ++ bs) er.1 t (f + k1)
    refine ⟨k1 + k2, ?_⟩
    have e : gapsBlocks tab (er :: more) ++ bs = gapBlocks tab er.1 er.2 ++ (gapsBlocks tab more ++ bs) := by
      simp [gapsBlocks]
    rw [e, ← Nat.add_assoc, hk2, hk1]
    simp [List.append_assoc]

theorem alternating_tail {it : CItem} {r : List CItem} (h : alternating (it :: r) = true) : alternating r = true := by
  cases it with
  | para p => exact h
  | code f m => simp only [alternating, Bool.and_eq_true] at h; exact h.2

open FencedPipe Escape in
/-- **the extended block parser on the blocks of the document**, below any suitable parent -/
theorem parse_items (tables : Bool) (cfg : XCfg) (tab : Nat) (htab : 0 < tab) (refs : Refs) :
    ∀ (items : List CItem) (parent : Node), (∀ it ∈ items, it.ok = true) → alternating items = true →
      ParentOk parent →
      ((items = [] ∨ ∃ f m r, items = .code f m :: r) → ∀ sib, parent.last? = some sib → preCode sib = none) →
      ∃ fuel, parseBlocksXT tables cfg tab fuel [] refs parent (docBlocks tab items ++ [[]]) =
        some (appendKids parent (docKids items), refs) := by
  intro items
  induction items with
  | nil =>
    intro parent _ _ hp hl
    refine ⟨1, ?_⟩
    simp only [docBlocks, List.nil_append]
    rw [parseBlocksXT_step, dispatchXT_nil tables cfg tab _ [] refs parent _ hp,
      emptyP_plain _ _ _ _ (hl (Or.inl rfl))]
    simp [parseBlocksXT, appendKids_nil, docKids]
  | cons it r ih =>
    intro parent hok halt hp hl
    have hokr : ∀ x ∈ r, x.ok = true := fun x hx => hok x (List.mem_cons_of_mem _ hx)
    have haltr := alternating_tail halt
    have hf := CItem.facts (hok it List.mem_cons_self)
    cases it with
    | para p =>
      obtain ⟨c0, r0, rfl, hc0, hw⟩ := isParaLine_spec (hf.para p rfl)
      have hnl : '\n' ∉ c0 :: r0 := fun hm => wordSp_ne (hw _ hm) (by decide) rfl
      have hhead := headOk_of c0 (Or.inl hc0)
      have hv : startsVisible (c0 :: r0) = true := by simpa [startsVisible] using hhead.sp
      obtain ⟨f, hf'⟩ := ih (parent.append (mkText "p" (c0 :: r0))) hokr haltr (hp.para _)
        (fun _ sib hs => by rw [last_append] at hs; cases hs; exact preCode_p _)
      refine ⟨f + 1, ?_⟩
      simp only [docBlocks, List.cons_append, docKids]
      rw [parseBlocksXT_step,
        dispatchXT_head tables cfg tab htab _ refs parent c0 r0 _ hnl hhead (fun sib hs => (hp.last sib hs).2.2),
        paraP_visible _ _ _ _ hv]
      simp only
      rw [hf', appendKids_cons]
    | code fm mm =>
      obtain ⟨⟨i1, _, _⟩, hm⟩ := hf.code fm mm rfl
      have hmore : ∀ er ∈ mm, RunOk er.2 := fun er her => (hm er her).1.ok
      have hlast := hl (Or.inr ⟨fm, mm, r, rfl⟩)
      cases r with
      | nil =>
        obtain ⟨f, hf'⟩ := parse_codeBlockX tables cfg tab htab refs parent hp hlast fm mm i1.ok hmore
        refine ⟨f, ?_⟩
        simp only [docBlocks, List.append_nil, List.cons_append, docKids, List.isEmpty_nil, if_true]
        rw [← restBlocks_eq, hf', ← appendKids_cons, appendKids_nil]
      | cons it2 r' =>
        have hpara : ∃ p, it2 = .para p := by
          cases it2 with
          | para p => exact ⟨p, rfl⟩
          | code f2 m2 => simp [alternating] at halt
        obtain ⟨p, rfl⟩ := hpara
        obtain ⟨f0, hf0⟩ := ih (parent.append (codePre (codeAccum fm mm))) hokr haltr (hp.code _)
          (fun hc => by rcases hc with hc | ⟨_, _, _, hc⟩ <;> cases hc)
        obtain ⟨k, hk⟩ := parse_restXY tables cfg tab htab [] refs parent hp mm hmore
          (docBlocks tab (.para p :: r') ++ [[]]) (runText fm) f0
        refine ⟨f0 + k + 1, ?_⟩
        have e : docBlocks tab (.code fm mm :: .para p :: r') ++ [[]] =
            indentRun tab fm :: (gapsBlocks tab mm ++ (docBlocks tab (.para p :: r') ++ [[]])) := by
          simp [docBlocks]
        rw [e, parseBlocksXT_step, dispatchXT_run tables cfg tab htab _ [] refs _ fm _ i1.ok hp]
        unfold indentRun
        rw [codeP_fresh tab refs _ _ _ i1.ok.1 i1.ok.nl hlast]
        simp only
        rw [hk]
        have e2 : runText fm ++ mm.flatMap (fun er => nls (er.1 + 1) ++ runText er.2) = codeAccum fm mm := rfl
        rw [e2, hf0, appendKids_cons]
        simp [docKids]

open Fuel in
/-- **the extended block parser on the document**, whatever block-level extensions are enabled: a `p` per paragraph,
    a `pre` > `code` with the atomic code text per code block, nothing written to the log -/
theorem parseDocumentXT_items (tables : Bool) (cfg : XCfg) (tab : Nat) (htab : 0 < tab) (items : List CItem)
    (h : ∀ it ∈ items, it.ok = true) (halt : alternating items = true) :
    parseDocumentXT tables cfg tab (docText tab items) = some (appendKids (Node.el "div") (docKids items), []) := by
  obtain ⟨f, hf⟩ := parse_items tables cfg tab htab [] items (Node.el "div") h halt parentOk_div
    (fun _ sib hs => by simp [Node.last?, Node.el] at hs)
  have key : parseBlocksXT tables cfg tab f [] [] (Node.el "div") (splitS ['\n', '\n'] (docText tab items)) =
      some (appendKids (Node.el "div") (docKids items), []) := by
    rw [splitS_docText tab items h]; exact hf
  obtain ⟨res, hr⟩ := Option.isSome_iff_exists.1 (parseDocumentXT_total tables cfg tab (fun _ => htab) (docText tab items))
  rw [hr]
  simp only [parseDocumentXT, parseChunk] at hr
  have a1 := parseBlocksXT_fuel_mono (fuelForX (docText tab items).length) key
  have a2 := parseBlocksXT_fuel_mono f hr
  rw [Nat.add_comm] at a2
  rw [a2] at a1
  exact a1

end MdVerif.CodeX
