/-
Helper lemmas for C03 with extensions enabled (`Props/C03X.lean`), continued: the stages after the block parser on the
tree of an indented code block, and `PipelineX.convertX` on the document.  Core Lean only.

D. the inline processor over the extended pattern table on a code tree (`runX_codeTree`)
E. the tree processors of the extensions on a code tree (`duplicates_codeTree`, `attrList_codeTreeP`,
   `toc_codeTreeP`, `treeStages_codeTree`)
F. the preprocessors with `fenced_code` (`fencedRunA_noFence`, `fencedHasConfig_noFence`, `noFenceLine_codeSource`)
G. `convertX_codeBlock`
-/
import MdVerif.Lemmas.CodeX

namespace MdVerif.CodeX
open Py Block BlockExt CodeLaw Pipeline PipelineX

/-! ### D. the inline processor over the extended pattern table -/

open InlineX Inline in
theorem visitChildX_inert (xc : InlineX.XCfg) (child : Node) (v : VisitX) (h : inertNode child = true) :
    visitChildX xc child v =
      some (child, [], { v with pushes := if child.children.isEmpty then v.pushes else [v.done.length] :: v.pushes }) := by
  simp only [inertNode, Bool.and_eq_true, Bool.not_eq_true'] at h
  simp only [visitChildX, h.1, h.2, Bool.false_eq_true, if_false, List.length_nil, List.range_zero, List.map_nil,
    List.reverse_nil, List.nil_append]
  cases child
  simp

open InlineX Inline in
/-- **the inline processor, whatever patterns the extensions add, has nothing to do on a code block**: the text
    of the `code` element is an `AtomicString` -/
theorem runX_codeTree (xc : InlineX.XCfg) (t : Str) (html : List Str) :
    runX xc ((Node.el "div").append (codePre t)) html =
      some ((Node.el "div").append (codePre t), { st := { html := html } }) := by
  unfold runX
  generalize hf : Inline.runFuel ((Node.el "div").append (codePre t)) = f
  obtain ⟨g, rfl⟩ : ∃ g, f = g + 3 := ⟨f - 3, by simp [Inline.runFuel] at hf; omega⟩
  simp [runLoopX, Inline.getAt, visitLoopX, Inline.withIdx, Node.append, Node.el, codePre,
    visitChildX_inert, inertNode, Node.truthy, Inline.setAt]

/-! ### E. the tree processors of the extensions -/

theorem duplicates_codeTree (fn : Footnotes.State) (t : Str) :
    FootnotesTree.duplicates fn ((Node.el "div").append (codePre t)) = some ((Node.el "div").append (codePre t)) := by
  simp [FootnotesTree.duplicates, FootnotesTree.duplicatesKids, Node.append, Node.el, codePre]

theorem codeTreeP_eq (t : Str) :
    codeTreeP t = ⟨.name ['d', 'i', 'v'], [], some ['\n'], false,
      [⟨.name ['p', 'r', 'e'], [], none, false,
        [⟨.name ['c', 'o', 'd', 'e'], [], some t, true, [], none, false⟩], some ['\n'], false⟩],
      some ['\n'], false⟩ := rfl

open FencedPipe in
/-- `attr_list` finds no attribute list: the only strings it reads are the `"\n"` tail of `pre` (for the root) — the
    text of `code` is never read (`code` is not block-level and has no tail, `pre` has no text) -/
theorem attrList_codeTreeP (t : Str) :
    AttrListTree.run TreeProc.defaultBlockLevel (codeTreeP t) = codeTreeP t := by
  have hbs : AttrList.blockSearch ['\n'] = none := by decide
  have hba := blockApply_none [] ['\n'] hbs
  have hbl : TreeProc.isBlockLevel TreeProc.defaultBlockLevel (.name ['d', 'i', 'v']) = true := CodeLaw.bl_div
  have hbl2 : TreeProc.isBlockLevel TreeProc.defaultBlockLevel (.name ['p', 'r', 'e']) = true := CodeLaw.bl_pre
  have hbl3 : TreeProc.isBlockLevel TreeProc.defaultBlockLevel (.name ['c', 'o', 'd', 'e']) = false := CodeLaw.bl_code
  have hh : AttrListTree.isCellTag (.name ['d', 'i', 'v']) = false := by decide
  have hh2 : AttrListTree.isHeaderTag (.name ['d', 'i', 'v']) = false := by decide
  have hli : (Tag.name ['d', 'i', 'v'] == Tag.name "li".toList) = false := by decide
  have hh' : AttrListTree.isCellTag (.name ['p', 'r', 'e']) = false := by decide
  have hh2' : AttrListTree.isHeaderTag (.name ['p', 'r', 'e']) = false := by decide
  have hli' : (Tag.name ['p', 'r', 'e'] == Tag.name "li".toList) = false := by decide
  rw [codeTreeP_eq]
  unfold AttrListTree.run
  simp only [AttrListTree.attrNode, AttrListTree.attrKids, hbl, hbl2, hbl3, if_true, AttrListTree.blockRule,
    List.isEmpty_cons, Bool.not_false, Bool.true_and, Node.truthy, hh, hh2, hli, hh', hh2', hli', Bool.or_self, hba,
    Bool.false_eq_true, if_false, Option.getD_some, List.getLast?_singleton, Option.bind_some,
    List.length_cons, List.length_nil, Bool.and_false]

/-- `toc` finds no heading and no marker: `pre` and `code` are never looked into -/
theorem toc_codeTreeP (env : TocTree.Env) (t : Str) :
    TocTree.run env TreeProc.defaultBlockLevel (codeTreeP t) = .ok (codeTreeP t) := by
  unfold TocTree.run
  have hids : TocTree.usedIds (TocTree.idsOf (codeTreeP t)) = some [] := by
    rw [codeTreeP_eq]
    simp [TocTree.idsOf, TocTree.idsOfKids, TocTree.usedIds]
  have h1 : ∀ st, TocTree.walkNode env (codeTreeP t) st = .ok (codeTreeP t, st) := by
    intro st
    rw [codeTreeP_eq]
    simp [TocTree.walkNode, TocTree.walkKids, TocTree.isHeaderTag]
  rw [hids]
  simp only
  rw [h1]
  simp only
  rw [codeTreeP_eq]
  simp [TocTree.replNode, TocTree.replKids, TocTree.isHeaderTag]

/-- the tree processors between the inline stage and the serializer, extensions included, on a code block -/
theorem treeStages_codeTree (x : Exts) (tab : Nat) (fmt : Ser.Fmt) (t : Str) (stash : List Str) :
    (let u := TreeProc.prettify ((Node.el "div").append (codePre t)) ({ tab := tab, fmt := fmt } : Pipeline.Cfg).blockLevel
     let u := if x.attrList then AttrListTree.run ({ tab := tab, fmt := fmt } : Pipeline.Cfg).blockLevel u else u
     let u := if x.abbr then AbbrTree.run (BlockExt.abbrsOf []) u else u
     let tocStage : TocTree.R Node :=
       if x.toc then
         TocTree.run { fmt := ({ tab := tab, fmt := fmt } : Pipeline.Cfg).fmt, post := postX x { tab := tab, fmt := fmt } stash }
           ({ tab := tab, fmt := fmt } : Pipeline.Cfg).blockLevel u
       else .ok u
     tocStage) = .ok (codeTreeP (rstrip t ++ ['\n'])) := by
  have h1 : TreeProc.prettify ((Node.el "div").append (codePre t)) ({ tab := tab, fmt := fmt } : Pipeline.Cfg).blockLevel =
      codeTreeP (rstrip t ++ ['\n']) := prettify_codeTree t
  have h2 : AttrListTree.run ({ tab := tab, fmt := fmt } : Pipeline.Cfg).blockLevel (codeTreeP (rstrip t ++ ['\n'])) =
      codeTreeP (rstrip t ++ ['\n']) := attrList_codeTreeP _
  have h3 : AbbrTree.run (BlockExt.abbrsOf []) (codeTreeP (rstrip t ++ ['\n'])) = codeTreeP (rstrip t ++ ['\n']) := rfl
  have h4 : ∀ env, TocTree.run env ({ tab := tab, fmt := fmt } : Pipeline.Cfg).blockLevel (codeTreeP (rstrip t ++ ['\n'])) =
      .ok (codeTreeP (rstrip t ++ ['\n'])) := fun env => toc_codeTreeP env _
  simp only [h1]
  cases x.attrList <;> cases x.abbr <;> cases x.toc <;>
    simp only [Bool.false_eq_true, if_false, if_true, h2, h3, h4]

/-! ### F. the preprocessors: `fenced_code` finds no fence -/

/-- a character a fence starts with -/
def isFenceCh (c : Char) : Bool := c == '`' || c == '~'

theorem plainLine_of_head (l : Str) (h : ∀ c, l.head? = some c → isFenceCh c = false) : Fenced.plainLine l = true := by
  cases l with
  | nil => rfl
  | cons c r =>
    have := h c rfl
    simp only [isFenceCh, Bool.or_eq_false_iff, beq_eq_false_iff_ne] at this
    simp [Fenced.plainLine, startsWith, this.1, this.2]

theorem noFenceLine_of_heads (s : Str) (h : lineHeads isFenceCh true s = true) : Fenced.noFenceLine s = true := by
  rw [Fenced.noFenceLine_eq, List.all_eq_true]
  intro l hl
  exact plainLine_of_head l (lines_heads isFenceCh s true h l (by simpa using hl))

theorem fenceFindFrom_noFence (s : Str) (h : Fenced.noFenceLine s = true) : Fenced.fenceFindFrom s 0 = none := by
  unfold Fenced.fenceFindFrom
  simp only [decide_true, Bool.true_or, List.drop_zero]
  exact Fenced.fenceScan_none_of_lines true 0 s (by simpa [Fenced.noFenceLine_eq] using h)

/-- `FencedBlockPreprocessor.run` on a text in which the pattern finds nothing: nothing happens -/
theorem fencedRunA_noFind (s : Str) (h : Fenced.fenceFindFrom s 0 = none) : Fenced.fencedRunA s = .ok s [] := by
  simp only [Fenced.fencedRunA, Fenced.fencedLoopA, h]

theorem fencedHasConfig_noFind (s : Str) (h : Fenced.fenceFindFrom s 0 = none) :
    fencedHasConfig (s.length + 1) s 0 0 = false := by
  simp only [fencedHasConfig, h]

theorem fencedRunA_noFence (s : Str) (h : Fenced.noFenceLine s = true) : Fenced.fencedRunA s = .ok s [] :=
  fencedRunA_noFind s (fenceFindFrom_noFence s h)

theorem fencedHasConfig_noFence (s : Str) (h : Fenced.noFenceLine s = true) :
    fencedHasConfig (s.length + 1) s 0 0 = false :=
  fencedHasConfig_noFind s (fenceFindFrom_noFence s h)

/-- no line of the source of an indented code block starts with a fence: every line is empty or indented -/
theorem noFenceLine_codeSource (tab : Nat) (htab : 0 < tab) (first : List Str) (more : List (Nat × List Str))
    (h1 : RunOk first) (h : ∀ er ∈ more, RunOk er.2) :
    Fenced.noFenceLine (codeSource tab first more ++ ['\n', '\n']) = true :=
  noFenceLine_of_heads _ (lineHeads_codeSource isFenceCh (by decide) (by decide) tab htab first more h1 h)

/-- the preprocessors on a text in which the fence pattern finds nothing, without open character references -/
theorem prepareX_plain (x : Exts) (tab : Nat) (fmt : Ser.Fmt) (src t : Str)
    (hnorm : Normalize.normalize tab src = t) (hadm : (x.admonition && admNonAscii t) = false)
    (hf : Fenced.fenceFindFrom t 0 = none) (hrefs : refsClosed t = true) :
    prepareX x { tab := tab, fmt := fmt } src = .ok (t, []) := by
  unfold prepareX
  simp only
  rw [hnorm, hadm]
  simp only [Bool.false_eq_true, if_false, fencedRunA_noFind t hf, fencedHasConfig_noFind t hf, Bool.and_false,
    extract_id t hrefs, ite_self]

/-! ### G. `Markdown.convert` with extensions on an indented code block -/

theorem postX_nil (x : Exts) (cfg : Pipeline.Cfg) (s : Str) (h : Post.STX ∉ s) : postX x cfg [] s = some s := by
  have hpp : (if x.footnotes then FootnotesTree.postprocess s else s) = s := by
    split
    · exact FencedPipe.postprocess_id _ h
    · rfl
  simp [postX, Post.rawHtml, Post.rawHtmlFuel, hpp, postAmpSub_id _ h]

/-- the end of `convert` when nothing is in the HTML stash and the text has no STX -/
theorem finishX_div (x : Exts) (cfg : Pipeline.Cfg) (body : Str) (h : Post.STX ∉ body) :
    finishX x cfg [] ("<div>".toList ++ body ++ "</div>\n".toList) = .ok (strip (strip body)) := by
  have hs : Post.STX ∉ strip body := fun hm => h ((strip_infix body).subset hm)
  unfold finishX
  rw [topLevelStrip_div]
  simp only [postX_nil x cfg _ hs]

/-- **`Markdown.convert` with ANY set of the eleven modelled extensions on an indented code block**: the answer of
    the core pipeline.  `hadm` excludes the one point where the model answers "outside the modelled domain"
    (admonition enabled and `!!!`, an optional blank and a non-ASCII character somewhere in the text). -/
theorem convertX_codeBlock (x : Exts) (tab : Nat) (htab : 0 < tab) (fmt : Ser.Fmt) (first : List Str)
    (more : List (Nat × List Str)) (h : CodeDoc first more)
    (hadm : (x.admonition && admNonAscii (codeSource tab first more ++ ['\n', '\n'])) = false) :
    convertX x { tab := tab, fmt := fmt } (codeSource tab first more) =
      .ok ("<pre><code>".toList ++ Code.codeEscape (trimSpec first more) ++ "\n</code></pre>".toList) := by
  obtain ⟨i1, r1, c1⟩ := isCodeRun_spec h.hfirst
  have hm : ∀ er ∈ more, RunInk er.2 ∧ RunRefs er.2 ∧ ∀ l ∈ er.2, ∀ c ∈ l, isCodeChar c = true :=
    fun er her => isCodeRun_spec (h.hmore er her)
  -- the characters of the source
  have hchars : ∀ c ∈ codeSource tab first more,
      c ≠ '<' ∧ c ≠ '\r' ∧ c ≠ '\t' ∧ c ≠ Char.ofNat 2 ∧ c ≠ Char.ofNat 3 := by
    intro c hc
    rcases mem_codeSource hc with rfl | rfl | ⟨l, hl, hcl⟩ | ⟨er, her, l, hl, hcl⟩
    · decide
    · decide
    · obtain ⟨a1, _, a3, a4, a5, a6⟩ := isCodeChar_spec (c1 l hl c hcl); exact ⟨a1, a3, a4, a5, a6⟩
    · obtain ⟨a1, _, a3, a4, a5, a6⟩ := isCodeChar_spec ((hm er her).2.2 l hl c hcl); exact ⟨a1, a3, a4, a5, a6⟩
  have hlt : (codeSource tab first more).contains '<' = false := by
    rw [Bool.eq_false_iff]; intro hc
    exact (hchars '<' (by simpa using hc)).1 rfl
  have hblank : Normalize.isBlankDoc (codeSource tab first more) = false := by
    rw [Normalize.isBlankDoc_eq_all, Bool.eq_false_iff]; intro ha
    obtain ⟨l, hl, hb⟩ := List.any_eq_true.1 h.hvisible
    have hb' : isBlank l = false := by simpa using hb
    have : ¬ (∀ c ∈ l, isSpace c = true) := fun hall => by
      rw [(isBlank_iff l).2 hall] at hb'; cases hb'
    apply this
    intro c hc
    exact List.all_eq_true.1 ha c (mem_codeSource_of_line (tab := tab) hl hc)
  have hnorm : Normalize.normalize tab (codeSource tab first more) = codeSource tab first more ++ ['\n', '\n'] :=
    normalize_of_clean tab _ (fun c hc => by
      obtain ⟨_, a2, a3, a4, a5⟩ := hchars c hc; exact ⟨a4, a5, a2, a3⟩)
      (ws_codeSource tab first more i1 (fun er her => (hm er her).1))
  have hprep : prepareX x { tab := tab, fmt := fmt } (codeSource tab first more) =
      .ok (codeSource tab first more ++ ['\n', '\n'], []) :=
    prepareX_plain x tab fmt _ _ hnorm hadm
      (fenceFindFrom_noFence _ (noFenceLine_codeSource tab htab first more i1.ok (fun er her => (hm er her).1.ok)))
      (refsClosed_codeSource tab first more r1 (fun er her => (hm er her).2.1))
  have hmk : ∀ pc : Block.Refs → Str → Option (Node × Block.Refs),
      FootnotesTree.makeDiv pc fnCount (BlockExt.footnotesOf []) [] = .ok (none, []) := fun _ => rfl
  have htree : treeX x { tab := tab, fmt := fmt } (codeSource tab first more) =
      .ok (codeTreeP (Code.codeEscape (trimSpec first more) ++ ['\n'])) [] := by
    unfold treeX
    rw [hprep]
    simp only
    rw [parseDocumentXT_code x.tables x.blockCfg tab htab first more i1.ok (fun er her => (hm er her).1.ok)]
    simp only [hmk, ite_self]
    rw [runX_codeTree]
    simp only
    have hdup : (if x.footnotes then FootnotesTree.duplicates Footnotes.State.empty
          ((Node.el "div").append (codePre (codeAccum first more ++ ['\n', '\n'])))
        else some ((Node.el "div").append (codePre (codeAccum first more ++ ['\n', '\n'])))) =
        some ((Node.el "div").append (codePre (codeAccum first more ++ ['\n', '\n']))) := by
      split
      · exact duplicates_codeTree _ _
      · rfl
    rw [hdup]
    simp only
    have hstages := treeStages_codeTree x tab fmt (codeAccum first more ++ ['\n', '\n']) []
    simp only at hstages
    rw [hstages]
    simp only
    rw [prettified_codeAccum, unescape_codeTree]
  unfold convertX
  rw [hlt, hblank, htree]
  simp only [Exts.unsupported, Bool.false_eq_true, if_false]
  rw [serialize_codeTree _ _ (by simp)]
  rw [escCdata_code_nl]
  have hstx : Post.STX ∉ "\n<pre><code>".toList ++ (Code.codeEscape (trimSpec first more) ++ ['\n']) ++
      "</code></pre>\n".toList := by
    intro hmem
    simp only [List.mem_append] at hmem
    rcases hmem with (hmem | hmem | hmem) | hmem
    · revert hmem; decide
    · rcases mem_codeEscape hmem with hmem | hmem
      · rcases mem_trimSpec hmem with e | ⟨l, hl, hcl⟩ | ⟨er, her, l, hl, hcl⟩
        · revert e; decide
        · exact (isCodeChar_spec (c1 l hl _ hcl)).2.2.2.2.1 rfl
        · exact (isCodeChar_spec ((hm er her).2.2 l hl _ hcl)).2.2.2.2.1 rfl
      · revert hmem; decide
    · revert hmem; decide
    · revert hmem; decide
  rw [finishX_div _ _ _ hstx]
  have e : "\n<pre><code>".toList ++ (Code.codeEscape (trimSpec first more) ++ ['\n']) ++ "</code></pre>\n".toList =
      '\n' :: '<' :: ("pre><code>".toList ++ Code.codeEscape (trimSpec first more) ++ "\n</code></pre".toList) ++
        ['>', '\n'] := by simp
  rw [e, strip_tagged]
  have e2 : strip ('<' :: ("pre><code>".toList ++ Code.codeEscape (trimSpec first more) ++ "\n</code></pre".toList) ++ ['>']) =
      '<' :: ("pre><code>".toList ++ Code.codeEscape (trimSpec first more) ++ "\n</code></pre".toList) ++ ['>'] := by
    apply strip_eq_self
    · intro c hc
      simp at hc; subst hc; decide
    · intro c hc
      rw [List.getLast?_append] at hc
      simp at hc; subst hc; decide
  rw [e2]
  simp

end MdVerif.CodeX
