/-
Helper lemmas for `Props/C16RenderG.lean`, part 28: footnotes with references in SEVERAL paragraphs — the printed
form, the block stage, the footnote `div` placed after the paragraphs.

Core Lean only.
-/
import MdVerif.Lemmas.RenderGNest3

namespace MdVerif.RenderG
open Py Block BlockExt MdVerif.RenderX

/-- a paragraph with references: its leading text and the references, each followed by its own text -/
abbrev FPara := Str × List (Str × Str)

def fpLine (p : FPara) : Str := fnPara p.1 p.2

structure FParaOK (p : FPara) : Prop where
  text : PlainFacts p.1
  segs : SegsOK p.2

/-- the source: the paragraph lines, then the definition blocks, separated by empty lines -/
def fnSrcP (p0 : FPara) (pr : List FPara) (defs : List (Str × Str)) : Str :=
  DocParse.joinChunks ((p0 :: pr).map fpLine ++ defBlocks defs)

/-- the paragraphs, one after the other -/
theorem parse_fparas (cfg : XCfg) (tab : Nat) (htab : 0 < tab) :
    ∀ (ps : List FPara) (kids : List Node) (refs : Refs) (f : Nat) (REST : List Str), (∀ p ∈ ps, FParaOK p) →
      parseBlocksXT false cfg tab (f + ps.length) [] refs (rootOf kids) (ps.map fpLine ++ REST) =
        parseBlocksXT false cfg tab f [] refs (rootOf (kids ++ ps.map (fun p => mkText "p" (fpLine p)))) REST := by
  intro ps
  induction ps with
  | nil => intro kids refs f REST _; simp
  | cons p r ih =>
    intro kids refs f REST hp
    have hq := hp p List.mem_cons_self
    have hL := paraLine_fnPara p.1 p.2 hq.text hq.segs
    rw [show f + (p :: r).length = (f + r.length) + 1 by simp; omega]
    simp only [List.map_cons, List.cons_append, parseBlocksXT]
    rw [show fpLine p = fnPara p.1 p.2 from rfl, dispatch_para cfg tab htab _ refs (rootOf kids) _ _ hL]
    simp only []
    rw [show (rootOf kids).append (mkText "p" (fnPara p.1 p.2)) = rootOf (kids ++ [mkText "p" (fpLine p)]) by
      simp [rootOf, Node.append, fpLine]]
    rw [ih _ refs f REST (fun x hx => hp x (List.mem_cons_of_mem _ hx))]
    simp [fpLine]

theorem parseDocumentXT_fnP (cfg : XCfg) (hfo : cfg.footnotes = true) (tab : Nat) (htab : tab > 0) (p0 : FPara)
    (pr : List FPara) (defs : List (Str × Str)) (hp : ∀ p ∈ p0 :: pr, FParaOK p) (hd : DefsOK defs) :
    parseDocumentXT false cfg tab (fnSrcP p0 pr defs ++ ['\n', '\n']) =
      some (rootOf ((p0 :: pr).map (fun p => mkText "p" (fpLine p))), defEntries defs) := by
  have hnel : ∀ b ∈ (p0 :: pr).map fpLine ++ defBlocks defs, Escape.noEmptyLineFrom true b = true := by
    intro b hb
    rcases List.mem_append.1 hb with hb | hb
    · obtain ⟨p, hpm, rfl⟩ := List.mem_map.1 hb
      have hL := paraLine_fnPara p.1 p.2 (hp p hpm).text (hp p hpm).segs
      exact DocParse.nel_line _ hL.ne hL.noNl
    · obtain ⟨d, hdm, rfl⟩ := List.mem_map.1 hb
      exact DocParse.nel_line _ (by simp [fnLine2]) (nl_not_mem_fnLine2 d.1 d.2 (hd.ids d hdm) (hd.notes d hdm))
  have hsplit := DocParse.splitS_chunks _ (by simp) hnel
  have hlen : pr.length + defs.length ≤ (fnSrcP p0 pr defs).length := by
    have := length_joinChunks (fpLine p0) (pr.map fpLine ++ defBlocks defs) (by
      intro b hb
      rcases List.mem_append.1 hb with hb | hb
      · obtain ⟨p, hpm, rfl⟩ := List.mem_map.1 hb
        exact (paraLine_fnPara p.1 p.2 (hp p (List.mem_cons_of_mem _ hpm)).text (hp p (List.mem_cons_of_mem _ hpm)).segs).ne
      · obtain ⟨d, _, rfl⟩ := List.mem_map.1 hb
        simp [fnLine2])
    simpa [fnSrcP, defBlocks] using this
  obtain ⟨g, hg⟩ : ∃ g, fuelForX (fnSrcP p0 pr defs ++ ['\n', '\n']).length = (g + defs.length + 1) + (p0 :: pr).length := by
    refine ⟨fuelForX (fnSrcP p0 pr defs ++ ['\n', '\n']).length - (defs.length + 1 + (p0 :: pr).length), ?_⟩
    simp only [fuelForX, List.length_append, List.length_cons]
    omega
  simp only [parseDocumentXT, parseChunk]
  rw [show fnSrcP p0 pr defs = DocParse.joinChunks ((p0 :: pr).map fpLine ++ defBlocks defs) from rfl] at hg ⊢
  rw [hsplit, hg, show (Node.el "div" : Node) = rootOf [] from rfl, List.append_assoc,
    parse_fparas cfg tab htab (p0 :: pr) [] [] _ _ hp]
  rw [parseBlocksXT_defs cfg hfo tab htab _ (by
    intro c hc
    simp only [rootOf, Node.last?, Node.el, List.nil_append] at hc
    obtain ⟨p, _, rfl⟩ := List.mem_map.1 (List.mem_of_getLast? hc)
    exact preCode_p _) defs [] _ hd (by omega)]
  simp

/-! ### the footnote `div` goes after the paragraphs -/

theorem placeKids_ps (D : Node) : ∀ (ts : List Str), (∀ t ∈ ts, '/' ∉ t) →
    FootnotesTree.placeKids D (ts.map (mkText "p")) = none := by
  intro ts
  induction ts with
  | nil => intro _; rfl
  | cons t r ih =>
    intro h
    have hm : contains t FootnotesTree.placeMarker = false := by
      have : FootnotesTree.placeMarker = '/' :: "//Footnotes Go Here///".toList := by decide +kernel
      rw [this]; exact contains_false_of_head _ (h t List.mem_cons_self)
    have hr := ih (fun x hx => h x (List.mem_cons_of_mem _ hx))
    simp [FootnotesTree.placeKids, FootnotesTree.placeNode, FootnotesTree.hasMarker, mkText, Node.el, Node.truthy, hm, hr]

theorem placeDiv_ps (ts : List Str) (D : Node) (h : ∀ t ∈ ts, '/' ∉ t) :
    FootnotesTree.placeDiv (rootOf (ts.map (mkText "p"))) D = rootOf (ts.map (mkText "p") ++ [D]) := by
  simp [FootnotesTree.placeDiv, FootnotesTree.placeNode, rootOf, Node.el, placeKids_ps D ts h, Node.append]

end MdVerif.RenderG
