/-
C17 (footnotes) at the document level: the `li` of every footnote is in the footnote `div` and stays in the tree
through the later stages of `PipelineX.treeX`.  Core Lean only.
-/
import MdVerif.Lemmas.InlineXSkel
namespace MdVerif.FnDocSkel
open MdVerif.Py MdVerif.Inline MdVerif.InlineX MdVerif.Vocab2 MdVerif.InlineXNodes MdVerif.InlineXSkel
open MdVerif.FnTreeDoc MdVerif.TocTreeDoc MdVerif.FnDocNI
open MdVerif.BlockExt (NI NI_iff allNodes allKids)
open MdVerif.FootnotesTree

/-! ### no pattern creates an `li` -/

def keepLi (tag : Tag) (_ : List (Str × Str)) : Bool := tag == .name "li".toList

theorem inline_not_li (t : Str) (attrs : List (Str × Str)) (h : hasTag inlineTags t = true) (_ : attrsOk attrs = true) :
    nk keepLi (.name t) attrs = true := by
  simp only [hasTag, inlineTags, List.any_cons, List.any_nil, Bool.or_false, Bool.or_eq_true,
    decide_eq_true_eq] at h
  rcases h with h | h | h | h | h | h <;> subst h <;> rfl

theorem patOk_li (xc : XCfg) : PatOk (nk keepLi) xc :=
  patOk_table xc inline_not_li
    (fun id _ refId => by rw [fnRefNode_eq]; rfl)
    (fun g n h => by
      unfold wikiNode at h
      simp only [] at h
      split at h
      · cases h
      · simp only [PNode.el.injEq] at h; subst h; rfl)
    rfl

/-! ### the `li` of every footnote is in the footnote `div`, and stays -/

/-- the (tag, attributes) pair of the `li` of the footnote `id` -/
def liPair (id : Str) : Tag × List (Str × Str) := (.name "li".toList, [("id".toList, Footnotes.footnoteId id)])

theorem allPairs_mem {α β : Type} {R : α → β → Prop} : ∀ {l : List α} {m : List β}, AllPairs R l m →
    ∀ a ∈ l, ∃ b ∈ m, R a b
  | [], [], _, a, ha => by cases ha
  | [], _ :: _, h, _, _ => by cases h
  | _ :: _, [], h, _, _ => by cases h
  | x :: l, y :: m, h, a, ha => by
    rcases List.mem_cons.1 ha with e | ha
    · subst e; exact ⟨y, List.mem_cons_self, h.1⟩
    · obtain ⟨b, hb, hr⟩ := allPairs_mem h.2 a ha
      exact ⟨b, List.mem_cons_of_mem _ hb, hr⟩

theorem mem_shapeKids {l : List Node} {c : Node} (hc : c ∈ l) : ∀ p ∈ shape c, p ∈ shapeKids l := by
  induction l with
  | nil => cases hc
  | cons a r ih =>
    intro p hp
    simp only [shapeKids, List.mem_append]
    rcases List.mem_cons.1 hc with e | hc
    · subst e; exact Or.inl hp
    · exact Or.inr (ih hc p hp)

theorem makeDiv_li (parse : Block.Refs → Str → Option (Node × Block.Refs)) (fnCount : Block.Refs → Nat)
    (fns : List (Str × Str)) (log log' : Block.Refs) (div : Node)
    (h : makeDiv parse fnCount fns log = .ok (some div, log')) : ∀ f ∈ fns, liPair f.1 ∈ shape div := by
  obtain ⟨lis, hdiv, hp⟩ := makeDiv_spec parse fnCount fns log log' div h
  intro f hf
  obtain ⟨li, hli, hok⟩ := allPairs_mem hp f hf
  rw [hdiv]
  simp only [shape, shapeKids, el, List.append_nil, List.mem_cons, List.mem_append]
  right; right; right
  apply mem_shapeKids hli
  rw [shape_eq, hok.1, hok.2.1]
  exact List.mem_cons_self

mutual
theorem placeNode_mem (div : Node) : (n n' : Node) → placeNode div n = some n' → ∀ p ∈ shape div, p ∈ shape n'
  | ⟨tag, attrs, text, ta, children, tail, tla⟩, n', h => by
    simp only [placeNode] at h
    split at h
    · rename_i ks hk
      simp only [Option.some.injEq] at h; subst h
      intro p hp
      simp only [shape, List.mem_cons]
      exact Or.inr (placeKids_mem div children ks hk p hp)
    · cases h
theorem placeKids_mem (div : Node) : (l l' : List Node) → placeKids div l = some l' →
    ∀ p ∈ shape div, p ∈ shapeKids l'
  | [], l', h => by simp [placeKids] at h
  | c :: r, l', h => by
    simp only [placeKids] at h
    split at h
    · simp only [Option.some.injEq] at h; subst h
      intro p hp; simp only [shapeKids, List.mem_append]; exact Or.inl hp
    · split at h
      · simp only [Option.some.injEq] at h; subst h
        intro p hp; simp only [shapeKids, List.mem_append]; exact Or.inr (Or.inl hp)
      · split at h
        · rename_i c1 hc1
          simp only [Option.some.injEq] at h; subst h
          intro p hp; simp only [shapeKids, List.mem_append]
          exact Or.inl (placeNode_mem div c _ hc1 p hp)
        · split at h
          · rename_i r1 hr1
            simp only [Option.some.injEq] at h; subst h
            intro p hp; simp only [shapeKids, List.mem_append]
            exact Or.inr (placeKids_mem div r _ hr1 p hp)
          · cases h
end

theorem placeDiv_mem (root div : Node) : ∀ p ∈ shape div, p ∈ shape (placeDiv root div) := by
  unfold placeDiv
  split
  · rename_i r h; exact placeNode_mem div root r h
  · intro p hp
    rw [shape_eq]
    simp only [Node.append, shapeKids_append, shapeKids, List.append_nil, List.mem_cons, List.mem_append]
    exact Or.inr (Or.inr hp)

/-- the inline stage keeps every `li` -/
theorem runX_li (xc : XCfg) (tree : Node) (html : List Str) (t : Node) (xs : XSt)
    (h : runX xc tree html = some (t, xs)) (id : Str) (hm : liPair id ∈ shape tree) : liPair id ∈ shape t := by
  have hs := runX_skel (keep := keepLi) (patOk_li xc) tree html t xs h
  have : liPair id ∈ skel keepLi tree := by
    rw [skel, List.mem_filter]; exact ⟨hm, rfl⟩
  rw [← hs, skel, List.mem_filter] at this
  exact this.1

/-! ### `FootnotePostTreeprocessor` only adds elements -/

abbrev Sub (a b : Node) : Prop := ∀ p ∈ shape a, p ∈ shape b
abbrev SubKids (a b : List Node) : Prop := ∀ p ∈ shapeKids a, p ∈ shapeKids b

theorem sub_node {a b : Node} (htag : b.tag = a.tag) (hattrs : b.attrs = a.attrs) (hk : SubKids a.children b.children) :
    Sub a b := by
  intro p hp
  rw [shape_eq] at hp ⊢
  rw [htag, hattrs]
  rcases List.mem_cons.1 hp with e | hp
  · exact e ▸ List.mem_cons_self
  · exact List.mem_cons_of_mem _ (hk p hp)

theorem subKids_cons {a b : Node} {r s : List Node} (h1 : Sub a b) (h2 : SubKids r s) : SubKids (a :: r) (b :: s) := by
  intro p hp
  simp only [shapeKids, List.mem_append] at hp ⊢
  rcases hp with hp | hp
  · exact Or.inl (h1 p hp)
  · exact Or.inr (h2 p hp)

theorem subKids_refl (l : List Node) : SubKids l l := fun _ hp => hp

theorem setLast_sub (li last last' : Node) (hl : li.last? = some last) (hs : Sub last last') :
    Sub li (li.setLast last') := by
  have hne : li.children ≠ [] := by intro e; simp [Node.last?, e] at hl
  have hdec : li.children.dropLast ++ [last] = li.children := by
    have h1 : li.children.getLast? = some last := hl
    rw [List.getLast?_eq_some_getLast hne] at h1
    simp only [Option.some.injEq] at h1
    rw [← h1]; exact List.dropLast_concat_getLast hne
  apply sub_node (a := li) (b := li.setLast last') rfl rfl
  intro p hp
  rw [← hdec] at hp
  simp only [Node.setLast, shapeKids_append, shapeKids, List.append_nil, List.mem_append] at hp ⊢
  rcases hp with hp | hp
  · exact Or.inl hp
  · exact Or.inr (hs p hp)

theorem dupLi_sub (fn : Footnotes.State) (li li' : Node) (h : dupLi fn li = some li') : Sub li li' := by
  unfold dupLi at h
  simp only [] at h
  split at h
  · cases h
  · split at h
    · split at h
      · simp only [Option.some.injEq] at h; subst h; exact fun _ hp => hp
      · split at h
        · cases h
        · split at h
          · rename_i last hlast
            simp only [Option.some.injEq] at h; subst h
            apply setLast_sub li last _ hlast
            refine sub_node (a := last) (b := { last with children := last.children ++ _ }) rfl rfl ?_
            intro p hp
            simp only [shapeKids_append, List.mem_append]
            exact Or.inl hp
          · cases h
    · simp only [Option.some.injEq] at h; subst h; exact fun _ hp => hp

theorem dupLis_sub (fn : Footnotes.State) : (l l' : List Node) → dupLis fn l = some l' → SubKids l l'
  | [], l', h => by simp only [dupLis, Option.some.injEq] at h; subst h; exact subKids_refl _
  | li :: r, l', h => by
    simp only [dupLis] at h
    split at h
    · rename_i li' r' h1 h2
      simp only [Option.some.injEq] at h; subst h
      exact subKids_cons (dupLi_sub fn li _ h1) (dupLis_sub fn r r' h2)
    · cases h

mutual
theorem dupFirstOl_sub (fn : Footnotes.State) : (n n' : Node) → (b : Bool) → dupFirstOl fn n = some (n', b) → Sub n n'
  | ⟨tag, attrs, text, ta, children, tail, tla⟩, n', b, h => by
    simp only [dupFirstOl] at h
    split at h
    · split at h
      · rename_i ks hk
        simp only [Option.some.injEq, Prod.mk.injEq] at h
        rw [← h.1]
        exact sub_node rfl rfl (dupLis_sub fn children ks hk)
      · cases h
    · split at h
      · rename_i ks found hk
        simp only [Option.some.injEq, Prod.mk.injEq] at h
        rw [← h.1]
        exact sub_node rfl rfl (dupFirstOlKids_sub fn children ks found hk)
      · cases h
theorem dupFirstOlKids_sub (fn : Footnotes.State) : (l l' : List Node) → (b : Bool) →
    dupFirstOlKids fn l = some (l', b) → SubKids l l'
  | [], l', b, h => by
    simp only [dupFirstOlKids, Option.some.injEq, Prod.mk.injEq] at h
    rw [← h.1]; exact subKids_refl _
  | c :: r, l', b, h => by
    simp only [dupFirstOlKids] at h
    split at h
    · cases h
    · rename_i c1 h1
      simp only [Option.some.injEq, Prod.mk.injEq] at h
      rw [← h.1]
      exact subKids_cons (dupFirstOl_sub fn c _ true h1) (subKids_refl r)
    · rename_i c1 h1
      split at h
      · rename_i r1 found h2
        simp only [Option.some.injEq, Prod.mk.injEq] at h
        rw [← h.1]
        exact subKids_cons (dupFirstOl_sub fn c _ false h1) (dupFirstOlKids_sub fn r r1 found h2)
      · cases h
end

mutual
theorem duplicates_sub (fn : Footnotes.State) : (n n' : Node) → duplicates fn n = some n' → Sub n n'
  | ⟨tag, attrs, text, ta, children, tail, tla⟩, n', h => by
    simp only [duplicates] at h
    split at h
    · cases h
    · rename_i ks hk
      have hks := duplicatesKids_sub fn children ks hk
      have h1 : Sub ⟨tag, attrs, text, ta, children, tail, tla⟩ ⟨tag, attrs, text, ta, ks, tail, tla⟩ :=
        sub_node rfl rfl hks
      split at h
      · cases hd : dupFirstOl fn ⟨tag, attrs, text, ta, ks, tail, tla⟩ with
        | none => rw [hd] at h; cases h
        | some r =>
          obtain ⟨m, b⟩ := r
          rw [hd] at h
          simp only [Option.map_some, Option.some.injEq] at h
          subst h
          exact fun p hp => dupFirstOl_sub fn _ _ b hd p (h1 p hp)
      · simp only [Option.some.injEq] at h; subst h; exact h1
theorem duplicatesKids_sub (fn : Footnotes.State) : (l l' : List Node) → duplicatesKids fn l = some l' → SubKids l l'
  | [], l', h => by simp only [duplicatesKids, Option.some.injEq] at h; subst h; exact subKids_refl _
  | c :: r, l', h => by
    simp only [duplicatesKids] at h
    split at h
    · rename_i c1 r1 h1 h2
      simp only [Option.some.injEq] at h; subst h
      exact subKids_cons (duplicates_sub fn c _ h1) (duplicatesKids_sub fn r r1 h2)
    · cases h
end

/-! ### the final `unescape` -/

/-- `unescape` on every attribute value -/
def ueAttrs (attrs : List (Str × Str)) : List (Str × Str) := attrs.map (fun kv => (kv.1, ue kv.2))

theorem unescAttrs_eq {a a' : List (Str × Str)} (h : TreeProc.unescAttrs a = some a') : a' = ueAttrs a := by
  induction a generalizing a' with
  | nil => simp only [TreeProc.unescAttrs, Option.some.injEq] at h; subst h; rfl
  | cons kv r ih =>
    obtain ⟨k, v⟩ := kv
    simp only [TreeProc.unescAttrs] at h
    split at h
    · rename_i v' r' hv hr
      simp only [Option.some.injEq] at h; subst h
      rw [ih hr]
      simp [ueAttrs, ue, unesc, hv]
    · cases h

mutual
theorem unescapeTree_shape : (n u : Node) → TreeProc.unescapeTree n = some u →
    shape u = (shape n).map (fun p => (p.1, ueAttrs p.2))
  | ⟨tag, attrs, text, ta, children, tail, tla⟩, u, h => by
    simp only [TreeProc.unescapeTree] at h
    split at h
    · rename_i t tl a ks ht htl ha hks
      simp only [Option.some.injEq] at h; subst h
      simp only [shape, List.map_cons, unescAttrs_eq ha, unescapeKids_shape children ks hks]
    · cases h
theorem unescapeKids_shape : (l l' : List Node) → TreeProc.unescapeKids l = some l' →
    shapeKids l' = (shapeKids l).map (fun p => (p.1, ueAttrs p.2))
  | [], l', h => by simp only [TreeProc.unescapeKids, Option.some.injEq] at h; subst h; rfl
  | c :: r, l', h => by
    simp only [TreeProc.unescapeKids] at h
    split at h
    · rename_i c' r' hc hr
      simp only [Option.some.injEq] at h; subst h
      simp only [shapeKids, List.map_append, unescapeTree_shape c c' hc, unescapeKids_shape r r' hr]
    · cases h
end

end MdVerif.FnDocSkel
