/-
Helper lemmas for `Props/C01b.lean`: the conversion of documents with indented code blocks, code spans and one level
of emphasis, for every spelling.  Built on `Lemmas/DocParse.lean` (flat documents) and `Lemmas/CodePipe.lean` (C03:
code through the pipeline).  Core Lean only.
-/
import MdVerif.Spec.DocFlat2
import MdVerif.Lemmas.DocParse
import MdVerif.Lemmas.CodePipe
import MdVerif.Props.C03

namespace MdVerif.DocParse2
open Py DocSpec CodeLaw Inline DocParse Block

/-! ### 1. the lines of a code block as runs of lines -/

/-- leading blank lines, first run, further runs (each after `e + 1` blank lines) -/
def groupRuns : List Str → Nat × List Str × List (Nat × List Str)
  | [] => (0, [], [])
  | l :: r =>
    match groupRuns r with
    | (k, f, m) =>
      if l.isEmpty then (k + 1, f, m)
      else if k = 0 then (0, l :: f, m)
      else (0, [l], (k - 1, f) :: m)

theorem groupRuns_spec (ls : List Str) (hlast : ∀ x, ls.getLast? = some x → x ≠ []) :
    ls = List.replicate (groupRuns ls).1 [] ++ allLines (groupRuns ls).2.1 (groupRuns ls).2.2 ∧
    (ls ≠ [] → (groupRuns ls).2.1 ≠ []) ∧ (∀ x ∈ (groupRuns ls).2.1, x ≠ []) ∧
    (∀ er ∈ (groupRuns ls).2.2, er.2 ≠ [] ∧ ∀ x ∈ er.2, x ≠ []) := by
  induction ls with
  | nil => simp [groupRuns, allLines]
  | cons l r ih =>
    have hr : ∀ x, r.getLast? = some x → x ≠ [] := by
      intro x hx
      cases r with
      | nil => simp at hx
      | cons a b => exact hlast x (by simpa [List.getLast?_cons_cons] using hx)
    obtain ⟨h1, h2, h3, h4⟩ := ih hr
    rcases hg : groupRuns r with ⟨k, f, m⟩
    rw [hg] at h1 h2 h3 h4
    simp only at h1 h2 h3 h4
    by_cases hl : l.isEmpty = true
    · have hle : l = [] := by simpa using hl
      have hrne : r ≠ [] := by
        intro e; subst e; exact hlast l (by simp) hle
      simp only [groupRuns, hg, hl, if_true]
      refine ⟨?_, fun _ => h2 hrne, h3, h4⟩
      rw [List.replicate_succ, List.cons_append, ← h1, hle]
    · have hlne : l ≠ [] := by simpa using hl
      by_cases hk : k = 0
      · subst hk
        simp only [groupRuns, hg, hl, Bool.false_eq_true, if_false, if_true]
        refine ⟨?_, fun _ => by simp, ?_, h4⟩
        · simp only [List.replicate_zero, List.nil_append, allLines, List.cons_append] at h1 ⊢
          rw [← h1]
        · intro x hx
          rcases List.mem_cons.1 hx with rfl | hx
          · exact hlne
          · exact h3 x hx
      · have hrne : r ≠ [] := by
          intro e; subst e; simp [groupRuns] at hg; omega
        simp only [groupRuns, hg, hl, hk, Bool.false_eq_true, if_false]
        refine ⟨?_, fun _ => by simp, ?_, ?_⟩
        · simp only [List.replicate_zero, List.nil_append, allLines, List.flatMap_cons, List.cons_append]
          rw [show k - 1 + 1 = k by omega]
          simp only [allLines] at h1
          rw [h1]; simp
        · intro x hx; have : x = l := by simpa using hx
          subst this; exact hlne
        · intro er her
          rcases List.mem_cons.1 her with rfl | her
          · exact ⟨h2 hrne, h3⟩
          · exact h4 er her

theorem nl_comm (n : Nat) (X : Str) :
    List.replicate n '\n' ++ '\n' :: X = '\n' :: (List.replicate n '\n' ++ X) := by
  induction n with
  | zero => rfl
  | succ n ih => simp [List.replicate_succ, ih]

/-- the flat list of lines and the runs structure render to the same text -/
theorem joinLines_allLines (g : List Str → List Str) (hg : ∀ r, r ≠ [] → g r ≠ []) (gnil : ∀ n, g (List.replicate n []) = List.replicate n [])
    (gapp : ∀ a b, g (a ++ b) = g a ++ g b) (m : List (Nat × List Str)) :
    ∀ (f : List Str), f ≠ [] → (∀ er ∈ m, er.2 ≠ []) →
      joinLines (g (allLines f m)) = runsText (fun r => joinLines (g r)) f m := by
  induction m with
  | nil => intro f _ _; simp [allLines, runsText]
  | cons er m ih =>
    intro f hf hm
    have her := hm er List.mem_cons_self
    have ih' := ih er.2 her (fun x hx => hm x (List.mem_cons_of_mem _ hx))
    have e : allLines f (er :: m) = (f ++ List.replicate (er.1 + 1) []) ++ allLines er.2 m := by
      simp [allLines, List.append_assoc]
    have hne2 : g (allLines er.2 m) ≠ [] := hg _ (by simp [allLines, her])
    have hrep : joinLines (List.replicate (er.1 + 1) ([] : Str)) = nls er.1 := by
      induction er.1 with
      | zero => rfl
      | succ n ihn =>
        rw [List.replicate_succ, List.replicate_succ, Block.joinLines_cons_cons, ← List.replicate_succ, ihn]
        simp [nls, List.replicate_succ]
    rw [e, gapp, gapp, gnil, Block.joinLines_append _ _ (by simp [List.replicate_succ]) hne2,
      Block.joinLines_append _ _ (hg f hf) (by simp [List.replicate_succ]), hrep, ih']
    simp [runsText, nls, List.replicate_succ, List.append_assoc, nl_comm]

theorem indentLines_append (tab : Nat) (a b : List Str) :
    indentLines tab (a ++ b) = indentLines tab a ++ indentLines tab b := by simp [indentLines]

theorem indentLines_replicate (tab n : Nat) : indentLines tab (List.replicate n []) = List.replicate n [] := by
  simp [indentLines, indentLine]

theorem indentLines_ne_nil (tab : Nat) (r : List Str) (h : r ≠ []) : indentLines tab r ≠ [] := by
  simpa [indentLines] using h

theorem codeSource_of_lines (tab : Nat) (f : List Str) (m : List (Nat × List Str)) (hf : f ≠ [])
    (hm : ∀ er ∈ m, er.2 ≠ []) : joinLines (indentLines tab (allLines f m)) = codeSource tab f m :=
  joinLines_allLines (indentLines tab) (indentLines_ne_nil tab) (indentLines_replicate tab) (indentLines_append tab)
    m f hf hm

theorem codeTyped_of_lines (f : List Str) (m : List (Nat × List Str)) (hf : f ≠ [])
    (hm : ∀ er ∈ m, er.2 ≠ []) : joinLines (allLines f m) = codeTyped f m :=
  joinLines_allLines id (fun _ h => h) (fun _ => rfl) (fun _ _ => rfl) m f hf hm

theorem prefixLines_eq (ls : List Str) : prefixLines (rep 4 ' ') ls = indentLines 4 ls := rfl


/-! ### 2. well-formed code lines are code lines in the sense of C03 -/

theorem printable_facts {c : Char} (h : isPrintable c = true) :
    c ≠ '\n' ∧ c ≠ '\r' ∧ c ≠ '\t' ∧ c ≠ Char.ofNat 2 ∧ c ≠ Char.ofNat 3 ∧ (c ≠ ' ' → isSpace c = false) := by
  have h128 : c.toNat < 128 := by
    simp only [isPrintable, Bool.and_eq_true, decide_eq_true_eq] at h; omega
  have key : ∀ n, n < 128 → isPrintable (Char.ofNat n) = true →
      Char.ofNat n ≠ '\n' ∧ Char.ofNat n ≠ '\r' ∧ Char.ofNat n ≠ '\t' ∧ Char.ofNat n ≠ Char.ofNat 2 ∧
      Char.ofNat n ≠ Char.ofNat 3 ∧ (Char.ofNat n ≠ ' ' → isSpace (Char.ofNat n) = false) := by decide
  exact RefDef.char_of_ascii (fun c => isPrintable c = true → c ≠ '\n' ∧ c ≠ '\r' ∧ c ≠ '\t' ∧ c ≠ Char.ofNat 2 ∧
      c ≠ Char.ofNat 3 ∧ (c ≠ ' ' → isSpace c = false)) key c h128 h

/-- no `&#` in a string: every reference is closed -/
theorem refsClosed_of_noAmpHash (s : Str) (h : noAmpHash s = true) : refsClosed s = true := by
  simp only [noAmpHash, Bool.not_eq_true'] at h
  induction s with
  | nil => rfl
  | cons c r ih =>
    obtain ⟨h1, h2⟩ := contains_cons_eq_false h
    simp only [refsClosed, Bool.and_eq_true, Bool.or_eq_true, bne_iff_ne, ne_eq]
    refine ⟨?_, ih h2⟩
    by_cases hc : c = '&'
    · subst hc
      right
      cases r with
      | nil => rfl
      | cons d r' =>
        have hd : d ≠ '#' := by
          intro e; subst e; simp [startsWith, S] at h1
        unfold refClosedAt
        split
        · rename_i heq; simp only [List.cons.injEq] at heq; exact absurd heq.1 hd
        · rfl
    · exact Or.inl hc

/-- a non-empty well-formed code line without `<` is a code line of the C03 theorems, with a visible last character -/
theorem codeLine_of_wf (l : Str) (hw : wfCodeLine l = true) (hlt : noLt l = true) (hne : l ≠ []) :
    isCodeLine l = true ∧ ∃ z, l.getLast? = some z ∧ isSpace z = false := by
  simp only [wfCodeLine, Bool.and_eq_true, List.all_eq_true, bne_iff_ne, ne_eq] at hw
  obtain ⟨⟨hp, hlast⟩, hamp⟩ := hw
  obtain ⟨z, hz⟩ : ∃ z, l.getLast? = some z := by
    cases h : l.getLast? with
    | none => exact absurd (List.getLast?_eq_none_iff.1 h) hne
    | some z => exact ⟨z, rfl⟩
  have hzm : z ∈ l := List.mem_of_getLast? hz
  have hzs : z ≠ ' ' := fun e => hlast (e ▸ hz)
  have hzv : isSpace z = false := (printable_facts (hp z hzm)).2.2.2.2.2 hzs
  refine ⟨?_, z, hz, hzv⟩
  simp only [isCodeLine, Bool.and_eq_true, List.all_eq_true, List.any_eq_true]
  refine ⟨⟨fun c hc => ?_, ⟨z, hzm, by simpa using hzs⟩⟩, refsClosed_of_noAmpHash l hamp⟩
  obtain ⟨a1, a2, a3, a4, a5, _⟩ := printable_facts (hp c hc)
  have hlt' : c ≠ '<' := by
    intro e; subst e
    simp only [noLt, Bool.not_eq_true'] at hlt
    have : l.contains '<' = true := List.contains_iff_mem.2 hc
    rw [hlt] at this; cases this
  simp [isCodeChar, hlt', a1, a2, a3, a4, a5]


theorem joinLines_getLast (r : List Str) (x : Str) (hx : r.getLast? = some x) (hne : x ≠ []) :
    (joinLines r).getLast? = x.getLast? := by
  induction r with
  | nil => simp at hx
  | cons a r ih =>
    cases r with
    | nil =>
      have : a = x := by simpa using hx
      subst this; rfl
    | cons b r' =>
      have hx' : (b :: r').getLast? = some x := by simpa [List.getLast?_cons_cons] using hx
      have hj : joinLines (b :: r') ≠ [] := by
        intro e
        have := ih hx'
        rw [e] at this
        cases hxl : x.getLast? with
        | none => exact hne (List.getLast?_eq_none_iff.1 hxl)
        | some z => rw [hxl] at this; simp at this
      rw [Block.joinLines_cons_cons, List.getLast?_append, List.getLast?_cons]
      rw [← ih hx']
      cases hjl : (joinLines (b :: r')).getLast? with
      | none => exact absurd (List.getLast?_eq_none_iff.1 hjl) hj
      | some z => simp

theorem rstrip_of_visible_last (s : Str) (z : Char) (h : s.getLast? = some z) (hz : isSpace z = false) :
    rstrip s = s := by
  unfold rstrip
  rw [rstripP_eq_self_iff]
  intro c hc
  rw [h] at hc; cases hc; exact hz

theorem runsText_congr (g h : List Str → Str) (f : List Str) (m : List (Nat × List Str)) (hf : g f = h f)
    (hm : ∀ er ∈ m, g er.2 = h er.2) : runsText g f m = runsText h f m := by
  simp only [runsText, hf]
  congr 1
  induction m with
  | nil => rfl
  | cons er m ih =>
    simp only [List.flatMap_cons, hm er List.mem_cons_self,
      ih (fun x hx => hm x (List.mem_cons_of_mem _ hx))]

open Code in
theorem htmlEsc_eq_codeEscape (s : Str) : htmlEsc s = Code.codeEscape s := by
  rw [codeEscape_onepass]
  induction s with
  | nil => rfl
  | cons c r ih =>
    by_cases h1 : c = '&'
    · simp [htmlEsc, codeEscape1, esc1Char, h1, ih, S]
    · by_cases h2 : c = '<'
      · simp [htmlEsc, codeEscape1, esc1Char, h2, ih, S]
      · by_cases h3 : c = '>'
        · simp [htmlEsc, codeEscape1, esc1Char, h3, ih, S]
        · simp [htmlEsc, codeEscape1, esc1Char, h1, h2, h3, ih]

/-- what `groupRuns` gives for the lines of a well-formed code block -/
theorem codeLines_runs (ls : List Str) (hw : wfCodeLines ls = true) (hlt : ls.all noLt = true) :
    ∃ (f : List Str) (m : List (Nat × List Str)), ls = allLines f m ∧ isCodeRun f = true ∧
      (∀ er ∈ m, isCodeRun er.2 = true) ∧ (allLines f m).any (fun l => !isBlank l) = true ∧
      joinLines (indentLines 4 ls) = codeSource 4 f m ∧ trimSpec f m = joinLines ls := by
  simp only [wfCodeLines, Bool.and_eq_true, List.all_eq_true] at hw
  obtain ⟨⟨hall, hhead⟩, hlastb⟩ := hw
  have hlts : ∀ l ∈ ls, noLt l = true := by simpa [List.all_eq_true] using hlt
  obtain ⟨l0, r0, rfl⟩ : ∃ l0 r0, ls = l0 :: r0 := by
    cases ls with
    | nil => simp at hhead
    | cons a b => exact ⟨a, b, rfl⟩
  have hl0 : l0 ≠ [] := by simpa using hhead
  have hlast : ∀ x, (l0 :: r0).getLast? = some x → x ≠ [] := by
    intro x hx; rw [hx] at hlastb; simpa using hlastb
  obtain ⟨h1, h2, h3, h4⟩ := groupRuns_spec (l0 :: r0) hlast
  have hk : (groupRuns (l0 :: r0)).1 = 0 := by
    simp only [groupRuns]
    rcases groupRuns r0 with ⟨k, f, m⟩
    have : l0.isEmpty = false := by
      cases l0 with
      | nil => exact absurd rfl hl0
      | cons _ _ => rfl
    simp only [this, Bool.false_eq_true, if_false]
    split <;> rfl
  rw [hk] at h1
  simp only [List.replicate_zero, List.nil_append] at h1
  generalize (groupRuns (l0 :: r0)).2.1 = f at h1 h2 h3 h4
  generalize (groupRuns (l0 :: r0)).2.2 = m at h1 h3 h4
  have hf := h2 (by simp)
  have hmne : ∀ er ∈ m, er.2 ≠ [] := fun er her => (h4 er her).1
  -- every non-empty line is a code line with a visible last character
  have hmemf : ∀ x ∈ f, x ∈ l0 :: r0 := by
    intro x hx; rw [h1]; simp [allLines, hx]
  have hmemm : ∀ er ∈ m, ∀ x ∈ er.2, x ∈ l0 :: r0 := by
    intro er her x hx; rw [h1]
    simp only [allLines, List.mem_append, List.mem_flatMap]
    exact Or.inr ⟨er, her, Or.inr hx⟩
  have hline : ∀ x ∈ l0 :: r0, x ≠ [] → isCodeLine x = true ∧ ∃ z, x.getLast? = some z ∧ isSpace z = false :=
    fun x hx hne => codeLine_of_wf x (hall x hx) (hlts x hx) hne
  have hrunf : isCodeRun f = true := by
    simp only [isCodeRun, Bool.and_eq_true, Bool.not_eq_true', List.all_eq_true]
    exact ⟨by cases f <;> simp_all, fun x hx => (hline x (hmemf x hx) (h3 x hx)).1⟩
  have hrunm : ∀ er ∈ m, isCodeRun er.2 = true := by
    intro er her
    simp only [isCodeRun, Bool.and_eq_true, Bool.not_eq_true', List.all_eq_true]
    refine ⟨?_, fun x hx => (hline x (hmemm er her x hx) ((h4 er her).2 x hx)).1⟩
    have := hmne er her
    cases h : er.2 with
    | nil => exact absurd h this
    | cons _ _ => rfl
  -- right-trimming changes nothing
  have hrs0 : ∀ (r : List Str) (x : Str), r.getLast? = some x → x ∈ l0 :: r0 → x ≠ [] →
      rstrip (joinLines r) = joinLines r := by
    intro r x hxl hxm hxne
    obtain ⟨_, z, hz, hzv⟩ := hline x hxm hxne
    exact rstrip_of_visible_last _ z (by rw [joinLines_getLast r x hxl hxne, hz]) hzv
  have hrs : ∀ r : List Str, r ≠ [] → (∀ x ∈ r, x ∈ l0 :: r0 ∧ x ≠ []) → rstrip (joinLines r) = joinLines r := by
    intro r hr hx
    obtain ⟨x, hxl⟩ : ∃ x, r.getLast? = some x := by
      cases h : r.getLast? with
      | none => exact absurd (List.getLast?_eq_none_iff.1 h) hr
      | some x => exact ⟨x, rfl⟩
    obtain ⟨hxm, hxne⟩ := hx x (List.mem_of_getLast? hxl)
    exact hrs0 r x hxl hxm hxne
  refine ⟨f, m, h1, hrunf, hrunm, ?_, ?_, ?_⟩
  · rw [← h1]
    simp only [List.any_cons, Bool.or_eq_true, Bool.not_eq_true']
    left
    obtain ⟨_, z, hz, hzv⟩ := hline l0 List.mem_cons_self hl0
    cases hb : isBlank l0 with
    | false => rfl
    | true =>
      have := (isBlank_iff l0).1 hb z (List.mem_of_getLast? hz)
      rw [hzv] at this; cases this
  · rw [h1]; exact codeSource_of_lines 4 f m hf hmne
  · unfold trimSpec
    rw [runsText_congr (fun r => rstrip (joinLines r)) joinLines f m
      (hrs f hf (fun x hx => ⟨hmemf x hx, h3 x hx⟩))
      (fun er her => hrs er.2 (hmne er her) (fun x hx => ⟨hmemm er her x hx, (h4 er her).2 x hx⟩))]
    have : runsText joinLines f m = joinLines (l0 :: r0) := by
      rw [h1]; exact (codeTyped_of_lines f m hf hmne).symm
    rw [this]
    obtain ⟨x, hxl⟩ : ∃ x, (l0 :: r0).getLast? = some x := by
      cases h : (l0 :: r0).getLast? with
      | none => simp at h
      | some x => exact ⟨x, rfl⟩
    exact hrs0 (l0 :: r0) x hxl (List.mem_of_getLast? hxl) (hlast x hxl)


/-! ### 3. rung A, one block: an indented code block in every spelling (there is one) -/

theorem print_code (ls : List Str) (sp : Spelling) : print [.code ls] sp = joinLines (indentLines 4 ls) := by
  simp [print, printBlocks, printBlock, joinLines, prefixLines_eq]

theorem wf_code (ls : List Str) (h : WF [.code ls] = true) : wfCodeLines ls = true := by
  simp only [WF, Bool.and_eq_true] at h
  have hb := DocParse.wfBlockList_mem h.1.2 (.code ls) List.mem_cons_self
  simp only [wfBlock, Bool.and_eq_true] at hb
  exact hb.1

theorem convert_code_block (ls : List Str) (sp : Spelling) (hwf : WF [Block.code ls] = true) (hlt : ls.all noLt = true) :
    Pipeline.convert {} (print [Block.code ls] sp) = .ok (spec [Block.code ls]) := by
  obtain ⟨f, m, _, hf, hm, hvis, hsrc, htrim⟩ := codeLines_runs ls (wf_code ls hwf) hlt
  rw [print_code, hsrc]
  have h := C03_block_top 4 f m hf (List.all_eq_true.2 (fun er her => hm er her)) hvis
  have e : spec [Block.code ls] = "<pre><code>".toList ++ htmlEsc (joinLines ls) ++ "\n</code></pre>".toList := by
    rw [spec, DocParse.specBlocks_one]; rfl
  rw [e, ← htrim, htmlEsc_eq_codeEscape]
  exact h

/-! ### 4. top-level elements through the stages after the block parser, generically -/

/-- one child of the root `<div>` at every stage, with what the inline stage adds to the stash and pushes on its
    stack when the element is the `i`-th child -/
structure Elem where
  src : Node
  mid : Node
  items : List StashItem
  pushes : Nat → List Path
  pretty : Node
  fin : Node
  out : Str

structure ElemOK (cfg : Inline.Cfg) (e : Elem) : Prop where
  visit : ∀ v : Visit, visitChild cfg e.src v =
    some (e.mid, [], { v with pushes := e.pushes v.done.length ++ v.pushes,
                              st := { v.st with stash := v.st.stash ++ e.items } })
  pushBound : ∀ i, (e.pushes i).length ≤ Inline.size e.src
  pushOk : ∀ i q, q ∈ e.pushes i → ∃ rel cur, q = i :: rel ∧ getAt e.mid rel = some cur ∧
    cur.children.length ≤ Inline.size e.src ∧ ∀ c ∈ cur.children, calmNode c = true ∧ c.children = []
  block : TreeProc.isBlockLevel TreeProc.defaultBlockLevel e.mid.tag = true
  pretty : TreeProc.mapTree TreeProc.preRule (TreeProc.mapTree TreeProc.brRule
    (TreeProc.prettifyETree TreeProc.defaultBlockLevel e.mid)) = e.pretty
  unesc : TreeProc.unescapeTree e.pretty = some e.fin
  ser : Ser.serialize .xhtml e.fin = e.out ++ ['\n']
  outOk : Post.STX ∉ e.out ∧ e.out.head? = some '<' ∧ e.out.getLast? = some '>'

/-- everything pushed while the children `L` (the first one being child number `i`) are visited, last pushed first -/
def allPushes : List Elem → Nat → List Path
  | [], _ => []
  | e :: r, i => allPushes r (i + 1) ++ e.pushes i

def allItems : List Elem → List StashItem
  | [] => []
  | e :: r => e.items ++ allItems r

theorem visitLoop_elems (cfg : Inline.Cfg) (L : List Elem) (hL : ∀ e ∈ L, ElemOK cfg e) :
    ∀ (i : Nat) (v : Visit) (g : Nat), v.done.length = i → L.length + 1 ≤ g →
      ∃ pm, visitLoop cfg g (withIdx (L.map (·.src)) i) v =
        some { done := (L.map (·.mid)).reverse ++ v.done, posmap := pm, pushes := allPushes L i ++ v.pushes,
               st := { v.st with stash := v.st.stash ++ allItems L } } := by
  induction L with
  | nil =>
    intro i v g _ hg
    obtain ⟨g', rfl⟩ : ∃ g', g = g' + 1 := ⟨g - 1, by simp at hg; omega⟩
    exact ⟨v.posmap, by simp [withIdx, visitLoop, allPushes, allItems]⟩
  | cons e r ih =>
    intro i v g hv hg
    obtain ⟨g', rfl⟩ : ∃ g', g = g' + 1 := ⟨g - 1, by simp at hg; omega⟩
    have he := (hL e List.mem_cons_self).visit v
    simp only [List.map_cons, withIdx, visitLoop, he, List.map_nil, List.nil_append]
    obtain ⟨pm, hpm⟩ := ih (fun x hx => hL x (List.mem_cons_of_mem _ hx)) (i + 1)
      { done := e.mid :: v.done, posmap := (i, v.done.length) :: v.posmap,
        pushes := e.pushes v.done.length ++ v.pushes,
        st := { v.st with stash := v.st.stash ++ e.items } } g' (by simp [hv]) (by simp at hg ⊢; omega)
    refine ⟨pm, ?_⟩
    rw [hpm]
    simp [allPushes, allItems, hv, List.append_assoc]

theorem pushesRev_childless (kids : List Node) (h : ∀ c ∈ kids, c.children = []) (i : Nat) : pushesRev kids i = [] := by
  induction kids generalizing i with
  | nil => rfl
  | cons c r ih =>
    simp [pushesRev, h c List.mem_cons_self, ih (fun x hx => h x (List.mem_cons_of_mem _ hx))]

/-- the stack loop when every stacked path leads to an element whose children are calm and childless: nothing
    changes -/
theorem runLoop_childless (cfg : Inline.Cfg) (g2 : Nat) (root : Node) (st : St) :
    ∀ (stack : List Path) (g : Nat), stack.length + 1 ≤ g →
      (∀ q ∈ stack, ∃ cur, getAt root q = some cur ∧ cur.children.length + 1 ≤ g2 ∧
        ∀ c ∈ cur.children, calmNode c = true ∧ c.children = []) →
      runLoop cfg g2 g root stack st = some (root, st) := by
  intro stack
  induction stack with
  | nil =>
    intro g hg _
    obtain ⟨g', rfl⟩ : ∃ g', g = g' + 1 := ⟨g - 1, by simp at hg; omega⟩
    rfl
  | cons p stack ih =>
    intro g hg hs
    obtain ⟨g', rfl⟩ : ∃ g', g = g' + 1 := ⟨g - 1, by simp at hg; omega⟩
    obtain ⟨cur, hcur, hlen, hk⟩ := hs p List.mem_cons_self
    have hvl := visitLoop_calm cfg cur.children 0 { st := st } g2 (fun c hc => (hk c hc).1) rfl hlen
    obtain ⟨v1, v2, v3, v4⟩ := vl_spec cur.children 0 { st := st }
    simp only [runLoop, hcur, hvl, v1, v2, List.append_nil, List.reverse_reverse]
    have e : (⟨cur.tag, cur.attrs, cur.text, cur.textAtomic, cur.children, cur.tail, cur.tailAtomic⟩ : Node) = cur := by
      cases cur; rfl
    rw [e, setAt_getAt root p cur hcur, v3, pushesRev_childless _ (fun c hc => (hk c hc).2)]
    have hid := v4 (by simp)
    rw [show remap p (vl cur.children 0 { st := st }).posmap = id from funext (remap_id p _ hid)]
    simp only [List.nil_append, List.map_nil, List.map_id]
    exact ih g' (by simp at hg ⊢; omega) (fun q hq => hs q (List.mem_cons_of_mem _ hq))


theorem mem_allPushes (L : List Elem) : ∀ (i : Nat) (q : Path), q ∈ allPushes L i →
    ∃ (k : Nat) (e : Elem), L[k]? = some e ∧ q ∈ e.pushes (i + k) := by
  induction L with
  | nil => intro i q h; simp [allPushes] at h
  | cons e r ih =>
    intro i q h
    simp only [allPushes, List.mem_append] at h
    rcases h with h | h
    · obtain ⟨k, e', hk, hq⟩ := ih (i + 1) q h
      exact ⟨k + 1, e', by simpa using hk, by rwa [show i + (k + 1) = i + 1 + k by omega]⟩
    · exact ⟨0, e, rfl, h⟩

theorem length_allPushes (cfg : Inline.Cfg) (L : List Elem) (hL : ∀ e ∈ L, ElemOK cfg e) (i : Nat) :
    (allPushes L i).length ≤ Inline.sizeList (L.map (·.src)) := by
  induction L generalizing i with
  | nil => simp [allPushes, Inline.sizeList]
  | cons e r ih =>
    have h1 := (hL e List.mem_cons_self).pushBound i
    have h2 := ih (fun x hx => hL x (List.mem_cons_of_mem _ hx)) (i + 1)
    simp only [allPushes, List.length_append, List.map_cons, Inline.sizeList]
    omega

/-- **`InlineProcessor.run`** on a `<div>` of elements -/
theorem run_elems (cfg : Inline.Cfg) (L : List Elem) (hL : ∀ e ∈ L, ElemOK cfg e) (html : List Str) :
    Inline.run cfg (divOf (L.map (·.src))) html =
      some (divOf (L.map (·.mid)), { stash := allItems L, html := html }) := by
  have hsl := CodeLaw.length_le_sizeList (L.map (·.src))
  have hsz : Inline.size (divOf (L.map (·.src))) = 1 + Inline.sizeList (L.map (·.src)) := by
    simp [divOf, Inline.size]
  obtain ⟨g, hg⟩ : ∃ g, runFuel (divOf (L.map (·.src))) = g + 1 := ⟨runFuel (divOf (L.map (·.src))) - 1, by
    simp [runFuel]⟩
  have hgf : 16 * (1 + Inline.sizeList (L.map (·.src))) + 64 = g + 1 := by rw [← hg, runFuel, hsz]
  obtain ⟨pm, hpm⟩ := visitLoop_elems cfg L hL 0 { st := { html := html } } (g + 1) rfl (by
    simp only [List.length_map] at hsl; omega)
  simp only [Inline.run]
  rw [hg]
  simp only [runLoop, getAt, show (divOf (L.map (·.src))).children = L.map (·.src) from rfl, hpm]
  simp only [List.append_nil, List.reverse_reverse, List.map_nil, List.nil_append, setAt]
  simp only [List.map_id']
  have hroot : ({ divOf (L.map (·.src)) with children := L.map (·.mid) } : Node) = divOf (L.map (·.mid)) := rfl
  rw [hroot]
  have := runLoop_childless cfg (g + 1) (divOf (L.map (·.mid))) { stash := allItems L, html := html } (allPushes L 0) g
    (by have := length_allPushes cfg L hL 0; omega)
    (by
      intro q hq
      obtain ⟨k, e, hk, hqe⟩ := mem_allPushes L 0 q hq
      rw [Nat.zero_add] at hqe
      have heL : e ∈ L := List.mem_of_getElem? hk
      obtain ⟨rel, cur, rfl, hget, hlen, hkids⟩ := (hL e heL).pushOk k q hqe
      refine ⟨cur, ?_, ?_, hkids⟩
      · simp only [getAt, divOf, List.getElem?_map, hk, Option.map_some]
        exact hget
      · have := CodeLaw.size_mem_le (L.map (·.src)) e.src (List.mem_map.2 ⟨e, heL, rfl⟩)
        omega)
  simpa using this


/-! #### prettify, unescape, serializer, end of `convert` -/

theorem prettifyKids_block (ns : List Node)
    (h : ∀ n ∈ ns, TreeProc.isBlockLevel TreeProc.defaultBlockLevel n.tag = true) :
    TreeProc.prettifyKids TreeProc.defaultBlockLevel ns =
      ns.map (TreeProc.prettifyETree TreeProc.defaultBlockLevel) := by
  induction ns with
  | nil => rfl
  | cons n r ih =>
    simp only [TreeProc.prettifyKids, h n List.mem_cons_self, if_true, List.map_cons,
      ih (fun x hx => h x (List.mem_cons_of_mem _ hx))]

theorem mapKids_eq_map (f : Node → Node) (ns : List Node) : TreeProc.mapKids f ns = ns.map (TreeProc.mapTree f) := by
  induction ns with
  | nil => rfl
  | cons n r ih => simp only [TreeProc.mapKids, List.map_cons, ih]

/-- the outputs, one per line -/
def joinOutS : List Str → Str
  | [] => []
  | [o] => o
  | o :: o' :: r => o ++ ['\n'] ++ joinOutS (o' :: r)

theorem prettify_elems (cfg : Inline.Cfg) (L : List Elem) (hne : L ≠ []) (hL : ∀ e ∈ L, ElemOK cfg e) :
    TreeProc.prettify (divOf (L.map (·.mid))) = prettyDiv (L.map (·.pretty)) := by
  have h1 : TreeProc.isBlockLevel TreeProc.defaultBlockLevel (.name "div".toList) = true := by decide
  have h3 : (Tag.name "div".toList == Tag.name "code".toList) = false := by decide
  have h4 : (Tag.name "div".toList == Tag.name "pre".toList) = false := by decide
  have h7 : (Tag.name "div".toList == Tag.name "br".toList) = false := by decide
  obtain ⟨l, r, rfl⟩ : ∃ l r, L = l :: r := by
    cases L with
    | nil => exact absurd rfl hne
    | cons l r => exact ⟨l, r, rfl⟩
  have hb : TreeProc.isBlockLevel TreeProc.defaultBlockLevel l.mid.tag = true := (hL l List.mem_cons_self).block
  have hk := prettifyKids_block ((l :: r).map (·.mid)) (by
    intro n hn; obtain ⟨e, he, rfl⟩ := List.mem_map.1 hn; exact (hL e he).block)
  have hm : ((l :: r).map (·.mid)).map (fun n => TreeProc.mapTree TreeProc.preRule (TreeProc.mapTree TreeProc.brRule
      (TreeProc.prettifyETree TreeProc.defaultBlockLevel n))) = (l :: r).map (·.pretty) := by
    rw [List.map_map]
    apply List.map_congr_left
    intro e he
    exact (hL e he).pretty
  simp only [List.map_cons] at hk hm
  simp only [TreeProc.prettify, divOf, List.map_cons, TreeProc.prettifyETree, h1, h3, hb, TreeProc.blankOrNone,
    Node.truthy, Bool.not_false, Bool.true_or, Bool.and_self, if_true, hk, TreeProc.mapTree,
    TreeProc.brRule, TreeProc.preRule, TreeProc.tagIs, h7, h4, Bool.false_eq_true, if_false, prettyDiv,
    mapKids_eq_map, List.map_cons, List.map_map]
  simp only [List.map_map] at hm
  simp only [Function.comp_def] at hm ⊢
  rw [← hm]

theorem unescapeKids_elems (cfg : Inline.Cfg) (L : List Elem) (hL : ∀ e ∈ L, ElemOK cfg e) :
    TreeProc.unescapeKids (L.map (·.pretty)) = some (L.map (·.fin)) := by
  induction L with
  | nil => rfl
  | cons l r ih =>
    simp only [List.map_cons, TreeProc.unescapeKids, (hL l List.mem_cons_self).unesc,
      ih (fun x hx => hL x (List.mem_cons_of_mem _ hx))]

theorem unescapeTree_elems (cfg : Inline.Cfg) (L : List Elem) (hL : ∀ e ∈ L, ElemOK cfg e) :
    TreeProc.unescapeTree (prettyDiv (L.map (·.pretty))) = some (prettyDiv (L.map (·.fin))) := by
  have hnl : TreeProc.unescapeText 0 ['\n'] = some ['\n'] := by decide
  simp [prettyDiv, TreeProc.unescapeTree, unescapeKids_elems cfg L hL, TreeProc.unescAttrs, hnl, Node.truthy]

theorem serializeList_elems (cfg : Inline.Cfg) (L : List Elem) (hne : L ≠ []) (hL : ∀ e ∈ L, ElemOK cfg e) :
    Ser.serializeList .xhtml (L.map (·.fin)) = joinOutS (L.map (·.out)) ++ ['\n'] := by
  induction L with
  | nil => exact absurd rfl hne
  | cons l r ih =>
    have hl := (hL l List.mem_cons_self).ser
    cases r with
    | nil => simp [Ser.serializeList, hl, joinOutS]
    | cons l' r' =>
      have := ih (by simp) (fun x hx => hL x (List.mem_cons_of_mem _ hx))
      simp only [List.map_cons, Ser.serializeList] at this ⊢
      rw [hl, this]
      simp [joinOutS, List.append_assoc]

theorem serialize_elems (cfg : Inline.Cfg) (L : List Elem) (hne : L ≠ []) (hL : ∀ e ∈ L, ElemOK cfg e) :
    Ser.serialize .xhtml (prettyDiv (L.map (·.fin))) =
      "<div>".toList ++ ('\n' :: joinOutS (L.map (·.out)) ++ ['\n']) ++ "</div>\n".toList := by
  have h1 : Ser.isEmptyTag "div".toList = false := by decide
  have h3 : Ser.isRawTextTag "div".toList = false := by decide
  have h5 : Ser.escCdata ['\n'] = ['\n'] := by decide
  simp only [prettyDiv, Ser.serialize, Ser.element, Ser.sortAttrs, List.foldr_nil, Ser.writeAttrs, h1, h3, h5,
    Node.truthy, Option.getD_some, Bool.false_eq_true, if_false, if_true, List.append_nil,
    serializeList_elems cfg L hne hL, Bool.and_false]
  simp [List.append_assoc]

theorem joinOutS_facts (outs : List Str) (hne : outs ≠ [])
    (h : ∀ o ∈ outs, Post.STX ∉ o ∧ o.head? = some '<' ∧ o.getLast? = some '>') :
    Post.STX ∉ joinOutS outs ∧ (joinOutS outs).head? = some '<' ∧ (joinOutS outs).getLast? = some '>' := by
  induction outs with
  | nil => exact absurd rfl hne
  | cons o r ih =>
    have ho := h o List.mem_cons_self
    cases r with
    | nil => simpa [joinOutS] using ho
    | cons o' r' =>
      have ih' := ih (by simp) (fun x hx => h x (List.mem_cons_of_mem _ hx))
      refine ⟨?_, ?_, ?_⟩
      · intro hm
        simp only [joinOutS, List.mem_append, List.mem_singleton] at hm
        rcases hm with (h' | h') | h'
        · exact ho.1 h'
        · exact absurd h' (by decide)
        · exact ih'.1 h'
      · simp only [joinOutS, List.append_assoc]
        cases hlo : o with
        | nil => rw [hlo] at ho; simp at ho
        | cons a b => rw [hlo] at ho; simpa using ho.2.1
      · simp only [joinOutS]
        rw [List.getLast?_append, ih'.2.2]; rfl

/-- **the stages after the block parser** on a `<div>` of elements -/
theorem render_elems (cfg : Pipeline.Cfg) (hbl : cfg.blockLevel = TreeProc.defaultBlockLevel)
    (hfmt : cfg.fmt = .xhtml) (refs : List (Str × Str × Option Str)) (L : List Elem) (hne : L ≠ [])
    (hL : ∀ e ∈ L, ElemOK { esc := cfg.esc, refs := refs } e) :
    Probe.render cfg refs (divOf (L.map (·.src))) = .ok (joinOutS (L.map (·.out))) := by
  have h1 := run_elems { esc := cfg.esc, refs := refs } L hL []
  have h2 := prettify_elems _ L hne hL
  have h3 := unescapeTree_elems _ L hL
  have h4 := serialize_elems _ L hne hL
  obtain ⟨j1, j2, j3⟩ := joinOutS_facts (L.map (·.out)) (by simpa using hne) (by
    intro o ho; obtain ⟨e, he, rfl⟩ := List.mem_map.1 ho; exact (hL e he).outOk)
  have h5 := finish_wrapped cfg.blockLevel (joinOutS (L.map (·.out))) j1
    (fun c hc => by rw [j2] at hc; cases hc; decide) (fun c hc => by rw [j3] at hc; cases hc; decide)
  simp only [Probe.render, h1, hbl, h2, h3, hfmt, h4]
  rw [hbl] at h5
  simp only [h5]


/-! #### the elements of flat documents, and code blocks, as `Elem`s -/

/-- a leaf of `Lemmas/DocParse.lean` (`hr`, or `p`/`h1`–`h6` with escaped text) -/
def leafElem (esc : List Char) (l : Leaf) : Elem :=
  ⟨l.src esc, l.mid esc, l.stash esc, fun _ => [], l.pretty esc, l.fin, l.out⟩

theorem leafElem_ok (cfg : Inline.Cfg) (hE : EscOK cfg.esc) (l : Leaf) (hl : l.ok = true) :
    ElemOK cfg (leafElem cfg.esc l) where
  visit := fun v => by simpa [leafElem] using visitChild_leaf cfg hE l hl v
  pushBound := fun _ => by simp [leafElem]
  pushOk := fun _ q hq => by simp [leafElem] at hq
  block := by
    have hf := tagFacts _ (leaf_tag_mem hl)
    cases l <;> exact hf.1
  pretty := by
    show TreeProc.mapTree TreeProc.preRule (TreeProc.mapTree TreeProc.brRule
      (TreeProc.prettifyETree TreeProc.defaultBlockLevel (l.mid cfg.esc))) = l.pretty cfg.esc
    rw [prettifyETree_leaf cfg.esc l hl, mapTree_rules_leaf cfg.esc l hl]
  unesc := unescapeTree_leaf cfg.esc l hl
  ser := serialize_leaf l hl
  outOk := out_facts l hl

/-- a code block whose accumulated text is `t` -/
def codeElem (t : Str) : Elem :=
  ⟨codePre t, codePre t, [], fun i => [[i]], { codePre (rstrip t ++ ['\n']) with tail := some ['\n'] },
   { codePre (rstrip t ++ ['\n']) with tail := some ['\n'] },
   "<pre><code>".toList ++ Ser.escCdata (rstrip t ++ ['\n']) ++ "</code></pre>".toList⟩

theorem bl_pre' : TreeProc.isBlockLevel TreeProc.defaultBlockLevel (.name "pre".toList) = true := by decide

theorem codeElem_ok (cfg : Inline.Cfg) (t : Str) (hstx : Post.STX ∉ t) : ElemOK cfg (codeElem t) where
  visit := fun v => by
    have := visitChild_inert cfg (codePre t) v rfl
    simpa [codeElem, codePre] using this
  pushBound := fun _ => by simp [codeElem, codePre, Inline.size, Inline.sizeList, Node.el]
  pushOk := fun i q hq => by
    have : q = [i] := by simpa [codeElem] using hq
    subst this
    refine ⟨[], codePre t, rfl, rfl, ?_, ?_⟩
    · simp [codeElem, codePre, Inline.size, Inline.sizeList, Node.el]
    · intro c hc
      have : c = codeSpan t := by simpa [codePre, codeSpan] using hc
      subst this
      exact ⟨by simp [calmNode, codeSpan, Node.el], rfl⟩
  block := bl_pre'
  pretty := rfl
  unesc := by
    simp [codeElem, TreeProc.unescapeTree, TreeProc.unescapeKids, TreeProc.unescapeText, TreeProc.unescAttrs,
      codePre, Node.el, Node.truthy]
  ser := by
    have e7 : Ser.escCdata ['\n'] = ['\n'] := by decide
    obtain ⟨c, r, hcr⟩ : ∃ c r, rstrip t ++ ['\n'] = c :: r := by
      cases h : rstrip t ++ ['\n'] with
      | nil => simp at h
      | cons c r => exact ⟨c, r, rfl⟩
    simp only [codeElem, codePre, Node.el, hcr]
    rw [serialize_plain _ _ _ _ _ _ _ (by decide) (by decide)]
    simp only [Ser.serializeList]
    rw [serialize_plain _ _ _ _ _ _ _ (by decide) (by decide)]
    simp [Node.truthy, Ser.serializeList, e7]
  outOk := by
    refine ⟨?_, rfl, ?_⟩
    · intro hm
      simp only [codeElem, List.mem_append] at hm
      rcases hm with (hm | hm) | hm
      · revert hm; decide
      · rw [Ser.onepass_cdata'] at hm
        refine Escape.stx_not_mem_esc1 _ _ _ ?_ hm
        intro h
        rcases List.mem_append.1 h with h | h
        · exact hstx ((rstrip_prefix t).subset h)
        · revert h; decide
      · revert hm; decide
    · have e : (codeElem t).out = ("<pre><code>".toList ++ Ser.escCdata (rstrip t ++ ['\n']) ++ "</code></pre".toList) ++ ['>'] := by
        simp [codeElem]
      rw [e, List.getLast?_append]; rfl

/-! ### 5. the block parser on a document of pieces, some of which are code blocks -/

/-- a top-level block of the document at the block stage -/
structure BPiece where
  /-- its lines -/
  g : List Str
  /-- the blocks `text.split("\n\n")` cuts it into -/
  blocks : List Str
  isCode : Bool
  /-- the element it appends to the parent -/
  node : Node
  /-- the same after the empty block that ends the document -/
  nodeLast : Node

/-- the last child of `parent`, if any, is neither a list nor a code block -/
def cleanLast (parent : Node) : Prop := ∀ sib, parent.last? = some sib → isListTag sib = false ∧ preCode sib = none

structure BPieceOK (tab : Nat) (p : BPiece) : Prop where
  ne : p.g ≠ []
  split : ∀ Y, splitAux ['\n', '\n'] 0 (joinLines p.g ++ '\n' :: '\n' :: Y) = p.blocks ++ splitAux ['\n', '\n'] 0 Y
  prod : ∀ (refs : Refs) (parent : Node) (rest : List Str) (f : Nat), isItemTag parent = false →
    (p.isCode = true → cleanLast parent) →
    ∃ k, parseBlocks tab (f + k) [] refs parent (p.blocks ++ rest) =
      parseBlocks tab f [] refs (parent.append p.node) rest
  clean : p.isCode = false → isListTag p.node = false ∧ preCode p.node = none
  last : ∀ (pb : PB) (refs : Refs) (parent : Node),
    dispatch tab pb [] refs (parent.append p.node) [] [] = some (parent.append p.nodeLast, refs, [])

/-- no code block directly after a code block -/
def noCodeAfterCode : List BPiece → Prop
  | a :: b :: r => (b.isCode = true → a.isCode = false) ∧ noCodeAfterCode (b :: r)
  | _ => True

/-- the children the pieces give: the last one as the final empty block leaves it -/
def finalNodes : List BPiece → List Node
  | [] => []
  | [p] => [p.nodeLast]
  | p :: q :: r => p.node :: finalNodes (q :: r)

def blocksOf (ps : List BPiece) : List Str := ps.flatMap (·.blocks)

theorem splitS_pieces (tab : Nat) (ps : List BPiece) (hne : ps ≠ []) (hP : ∀ p ∈ ps, BPieceOK tab p) :
    splitS ['\n', '\n'] (joinChunks (ps.map (fun p => joinLines p.g)) ++ ['\n', '\n']) = blocksOf ps ++ [[]] := by
  induction ps with
  | nil => exact absurd rfl hne
  | cons p r ih =>
    have hp := hP p List.mem_cons_self
    cases r with
    | nil =>
      simp only [List.map_cons, List.map_nil, joinChunks, splitS, blocksOf, List.flatMap_cons, List.flatMap_nil,
        List.append_nil]
      have := hp.split []
      simpa [splitAux] using this
    | cons q r' =>
      have := ih (by simp) (fun x hx => hP x (List.mem_cons_of_mem _ hx))
      simp only [List.map_cons, joinChunks, splitS, blocksOf, List.flatMap_cons, List.append_assoc,
        List.cons_append, List.nil_append] at this ⊢
      rw [hp.split, this]

theorem parse_pieces (tab : Nat) (refs : Refs) (ps : List BPiece) (hne : ps ≠ []) (hP : ∀ p ∈ ps, BPieceOK tab p)
    (hadj : noCodeAfterCode ps) :
    ∀ (parent : Node), isItemTag parent = false →
      (∀ p, ps.head? = some p → p.isCode = true → cleanLast parent) →
      ∃ F, parseBlocks tab F [] refs parent (blocksOf ps ++ [[]]) =
        some ({ parent with children := parent.children ++ finalNodes ps }, refs) := by
  induction ps with
  | nil => exact absurd rfl hne
  | cons p r ih =>
    intro parent hpar hhead
    have hp := hP p List.mem_cons_self
    cases r with
    | nil =>
      obtain ⟨k, hk⟩ := hp.prod refs parent [[]] 1 hpar (hhead p rfl)
      refine ⟨1 + k, ?_⟩
      simp only [blocksOf, List.flatMap_cons, List.flatMap_nil, List.append_nil, finalNodes]
      rw [hk, parseBlocks_step, hp.last]
      simp [parseBlocks, Node.append]
    | cons q r' =>
      have hadj' : noCodeAfterCode (q :: r') := hadj.2
      obtain ⟨F, hF⟩ := ih (by simp) (fun x hx => hP x (List.mem_cons_of_mem _ hx)) hadj' (parent.append p.node)
        (by rw [isItemTag_append]; exact hpar)
        (by
          intro q' hq' hc
          have : q' = q := by simpa using hq'.symm
          subst this
          intro sib hs
          rw [last_append] at hs
          cases hs
          exact hp.clean (hadj.1 hc))
      obtain ⟨k, hk⟩ := hp.prod refs parent (blocksOf (q :: r') ++ [[]]) F hpar (hhead p rfl)
      refine ⟨F + k, ?_⟩
      have e : blocksOf (p :: q :: r') ++ [[]] = p.blocks ++ (blocksOf (q :: r') ++ [[]]) := by
        simp [blocksOf, List.append_assoc]
      rw [e, hk, hF]
      simp [Node.append, finalNodes, List.append_assoc]

/-- **the block parser on a document of pieces** -/
theorem parseDocument_pieces (tab : Nat) (ps : List BPiece) (hne : ps ≠ []) (hP : ∀ p ∈ ps, BPieceOK tab p)
    (hadj : noCodeAfterCode ps) :
    parseDocument tab (joinChunks (ps.map (fun p => joinLines p.g)) ++ ['\n', '\n']) =
      some (divOf (finalNodes ps), []) := by
  obtain ⟨F, hF⟩ := parse_pieces tab [] ps hne hP hadj (Node.el "div") rfl
    (fun p _ _ sib hs => by simp [Node.last?, Node.el] at hs)
  rw [← splitS_pieces tab ps hne hP] at hF
  obtain ⟨r, hr⟩ := Option.isSome_iff_exists.1
    (parseDocument_total tab (joinChunks (ps.map (fun p => joinLines p.g)) ++ ['\n', '\n']))
  rw [hr]
  simp only [parseDocument, parseDocumentWith, parseChunk] at hr
  have a1 := parseBlocks_fuel_mono (fuelFor (joinChunks (ps.map (fun p => joinLines p.g)) ++ ['\n', '\n']).length) hF
  have a2 := parseBlocks_fuel_mono F hr
  rw [Nat.add_comm] at a2
  rw [a2] at a1
  rw [a1]
  simp [divOf, Node.el]


/-! #### the two kinds of pieces -/

/-- a piece of `Lemmas/DocParse.lean`: one chunk without empty line, one element -/
def chunkPiece (esc : List Char) (p : Piece) : BPiece :=
  ⟨p.g, [joinLines p.g], false, p.leaf.src esc, p.leaf.src esc⟩

theorem isListTag_leaf (esc : List Char) (l : Leaf) (hl : l.ok = true) : isListTag (l.src esc) = false := by
  have hmem := leaf_tag_mem hl
  have key : ∀ tag ∈ "hr".toList :: textTags, tag ≠ "ul".toList ∧ tag ≠ "ol".toList := by decide
  have := key _ hmem
  cases l with
  | hr => simp only [Leaf.src, isListTag, Node.isTag]; decide
  | txt tag t =>
    simp only [Leaf.tag] at this
    have a1 : tag ≠ ['u', 'l'] := this.1
    have a2 : tag ≠ ['o', 'l'] := this.2
    simp [Leaf.src, isListTag, Node.isTag, a1, a2]

theorem chunkPiece_ok (esc : List Char) (tab : Nat) (p : Piece) (h : PieceOK esc tab p) :
    BPieceOK tab (chunkPiece esc p) where
  ne := h.ne
  split := fun Y => by
    simpa [chunkPiece] using splitAux_chunk true (joinLines p.g) Y h.nel
  prod := fun refs parent rest f _ _ => ⟨1, by
    simp only [chunkPiece, List.singleton_append, parseBlocks_step, h.prod _ refs parent rest]⟩
  clean := fun _ => ⟨isListTag_leaf esc p.leaf h.ok, preCode_leaf esc p.leaf h.ok⟩
  last := fun pb refs parent => by
    apply dispatch_empty_block
    intro sib hs
    rw [last_append] at hs
    cases hs
    exact preCode_leaf esc p.leaf h.ok

/-- the blocks of the further runs of a code block -/
def moreBlocks (tab : Nat) (more : List (Nat × List Str)) : List Str := more.flatMap (fun er => gapBlocks tab er.1 er.2)

/-- the text after the `"\n\n"` that ends the first run, followed by `"\n\n"` and `Y` -/
def restTextY (tab : Nat) (Y : Str) : List (Nat × List Str) → Str
  | [] => Y
  | er :: more => nls er.1 ++ indentRun tab er.2 ++ '\n' :: '\n' :: restTextY tab Y more

theorem codeSource_then (tab : Nat) (first : List Str) (more : List (Nat × List Str)) (Y : Str) :
    codeSource tab first more ++ '\n' :: '\n' :: Y = indentRun tab first ++ '\n' :: '\n' :: restTextY tab Y more := by
  have e : ∀ more : List (Nat × List Str),
      more.flatMap (fun er => nls (er.1 + 2) ++ joinLines (indentLines tab er.2)) ++ '\n' :: '\n' :: Y =
        '\n' :: '\n' :: restTextY tab Y more := by
    intro more
    induction more with
    | nil => rfl
    | cons er more ih =>
      simp only [List.flatMap_cons, List.append_assoc, ih, restTextY, indentRun]
      simp [nls, List.replicate_succ]
  simp only [codeSource, runsText, List.append_assoc, e, indentRun]

theorem splitAux_restTextY (tab : Nat) (Y : Str) (more : List (Nat × List Str)) (h : ∀ er ∈ more, RunOk er.2) :
    splitAux ['\n', '\n'] 0 (restTextY tab Y more) = moreBlocks tab more ++ splitAux ['\n', '\n'] 0 Y := by
  induction more with
  | nil => rfl
  | cons er more ih =>
    simp only [restTextY, moreBlocks, List.flatMap_cons, List.append_assoc]
    rw [← List.append_assoc, splitAux_gap tab er.2 (h er List.mem_cons_self),
      ih (fun x hx => h x (List.mem_cons_of_mem _ hx))]
    rfl

/-- the further runs of a code block, followed by any blocks -/
theorem parse_more (tab : Nat) (state : List BState) (refs : Refs) (parent : Node) (hp : isItemTag parent = false)
    (bs : List Str) (more : List (Nat × List Str)) (h : ∀ er ∈ more, RunOk er.2) :
    ∀ (t : Str) (f : Nat), ∃ k,
      parseBlocks tab (f + k) state refs (parent.append (codePre t)) (moreBlocks tab more ++ bs) =
        parseBlocks tab f state refs
          (parent.append (codePre (t ++ more.flatMap (fun er => nls (er.1 + 1) ++ runText er.2)))) bs := by
  induction more with
  | nil => intro t f; exact ⟨0, by simp [moreBlocks]⟩
  | cons er more ih =>
    intro t f
    obtain ⟨k1, h1⟩ := ih (fun x hx => h x (List.mem_cons_of_mem _ hx)) (t ++ nls (er.1 + 1) ++ runText er.2) f
    obtain ⟨k2, h2⟩ := parse_gap tab state refs parent hp er.2 (h er List.mem_cons_self) (moreBlocks tab more ++ bs)
      er.1 t (f + k1)
    refine ⟨k1 + k2, ?_⟩
    simp only [moreBlocks, List.flatMap_cons, List.append_assoc] at h1 h2 ⊢
    rw [← Nat.add_assoc, h2, h1]

/-- an indented code block as a piece -/
def codePiece (tab : Nat) (first : List Str) (more : List (Nat × List Str)) : BPiece :=
  ⟨indentLines tab (allLines first more), indentRun tab first :: moreBlocks tab more, true,
   codePre (codeAccum first more), codePre (codeAccum first more ++ ['\n', '\n'])⟩

theorem codePiece_ok (tab : Nat) (first : List Str) (more : List (Nat × List Str)) (h1 : RunOk first)
    (h : ∀ er ∈ more, RunOk er.2) : BPieceOK tab (codePiece tab first more) where
  ne := by
    have := h1.1
    cases first with
    | nil => exact absurd rfl this
    | cons a b => simp [codePiece, indentLines, allLines]
  split := fun Y => by
    have hsrc : joinLines (codePiece tab first more).g = codeSource tab first more :=
      codeSource_of_lines tab first more h1.1 (fun er her => (h er her).1)
    rw [hsrc, codeSource_then]
    open Escape in
    rw [splitAux_tight true _ (tight_indentRun tab h1), splitAux_restTextY tab Y more h]
    rfl
  prod := fun refs parent rest f hpar hclean => by
    obtain ⟨c, l, ls, rfl, hc⟩ := h1.shape
    obtain ⟨k, hk⟩ := parse_more tab [] refs parent hpar rest more h (runText ((c :: l) :: ls)) f
    refine ⟨k + 1, ?_⟩
    simp only [codePiece, List.cons_append]
    rw [← Nat.add_assoc, parseBlocks_step]
    simp only [indentRun]
    rw [dispatch_run tab _ [] refs _ c l ls _ hc hpar (fun sib hs => (hclean rfl sib hs).1),
      codeP_fresh tab refs _ _ _ h1.1 h1.nl (fun sib hs => (hclean rfl sib hs).2)]
    simpa [codeAccum] using hk
  clean := fun hc => by simp [codePiece] at hc
  last := fun pb refs parent => by
    rw [dispatch_nil]
    show some (emptyP refs (parent.append (codePre (codeAccum first more))) [] []) = _
    rw [emptyP_nil]; rfl

/-! ### 6. the conversion of a document of pieces -/

/-- a piece at the block stage with its element (and the element it is when it ends the document) -/
structure Piece2 where
  b : BPiece
  elem : Elem
  elemLast : Elem

structure Piece2OK (cfg : Pipeline.Cfg) (p : Piece2) : Prop where
  bok : BPieceOK cfg.tab p.b
  safe : ∀ l ∈ p.b.g, lineSafe l = true ∧ '<' ∉ l ∧ refsClosed l = true
  vis : ∃ c ∈ joinLines p.b.g, isSpace c = false
  src : p.elem.src = p.b.node
  srcLast : p.elemLast.src = p.b.nodeLast
  eok : ∀ refs, ElemOK { esc := cfg.esc, refs := refs } p.elem
  eokLast : ∀ refs, ElemOK { esc := cfg.esc, refs := refs } p.elemLast
  out : p.elemLast.out = p.elem.out

/-- the elements of the document: the last piece contributes its `elemLast` -/
def finalElems : List Piece2 → List Elem
  | [] => []
  | [p] => [p.elemLast]
  | p :: q :: r => p.elem :: finalElems (q :: r)

theorem finalElems_src (cfg : Pipeline.Cfg) (ps : List Piece2) (hP : ∀ p ∈ ps, Piece2OK cfg p) :
    (finalElems ps).map (·.src) = finalNodes (ps.map (·.b)) := by
  induction ps with
  | nil => rfl
  | cons p r ih =>
    cases r with
    | nil => simp [finalElems, finalNodes, (hP p List.mem_cons_self).srcLast]
    | cons q r' =>
      have := ih (fun x hx => hP x (List.mem_cons_of_mem _ hx))
      simp only [List.map_cons] at this
      simp [finalElems, finalNodes, (hP p List.mem_cons_self).src, this]

theorem finalElems_out (cfg : Pipeline.Cfg) (ps : List Piece2) (hP : ∀ p ∈ ps, Piece2OK cfg p) :
    (finalElems ps).map (·.out) = ps.map (·.elem.out) := by
  induction ps with
  | nil => rfl
  | cons p r ih =>
    cases r with
    | nil => simp [finalElems, (hP p List.mem_cons_self).out]
    | cons q r' =>
      have := ih (fun x hx => hP x (List.mem_cons_of_mem _ hx))
      simp only [List.map_cons] at this
      simp [finalElems, this]

theorem finalElems_ok (cfg : Pipeline.Cfg) (ps : List Piece2) (hP : ∀ p ∈ ps, Piece2OK cfg p) (refs) :
    ∀ e ∈ finalElems ps, ElemOK { esc := cfg.esc, refs := refs } e := by
  induction ps with
  | nil => intro e he; simp [finalElems] at he
  | cons p r ih =>
    cases r with
    | nil =>
      intro e he
      have : e = p.elemLast := by simpa [finalElems] using he
      subst this; exact (hP p List.mem_cons_self).eokLast refs
    | cons q r' =>
      intro e he
      simp only [finalElems, List.mem_cons] at he
      rcases he with rfl | he
      · exact (hP p List.mem_cons_self).eok refs
      · exact ih (fun x hx => hP x (List.mem_cons_of_mem _ hx)) e (by simpa [finalElems] using he)

theorem finalElems_ne (ps : List Piece2) (h : ps ≠ []) : finalElems ps ≠ [] := by
  cases ps with
  | nil => exact absurd rfl h
  | cons p r => cases r <;> simp [finalElems]

theorem noAmpHash_of_no_amp (l : Str) (h : '&' ∉ l) : noAmpHash l = true := by
  simp only [noAmpHash, Bool.not_eq_true']
  rw [contains_eq_false_iff]
  intro pre post e
  apply h
  rw [e]; simp [S]

/-- lines without `&#`: the text they make has closed references -/
theorem refsClosed_lines (ls : List Str) (h : ∀ l ∈ ls, refsClosed l = true) :
    refsClosed (joinLines ls ++ ['\n', '\n']) = true := by
  induction ls with
  | nil => decide
  | cons l r ih =>
    have hl := h l List.mem_cons_self
    have ihr := ih (fun x hx => h x (List.mem_cons_of_mem _ hx))
    cases r with
    | nil =>
      simp only [joinLines, join_singleton]
      exact refsClosed_append l '\n' ['\n'] (by decide) hl (by decide)
    | cons l' r' =>
      rw [joinLines_cons_cons, List.append_assoc, List.cons_append]
      exact refsClosed_append l '\n' _ (by decide) hl (refsClosed_cons_of_ne (by decide) ihr)

/-- **`Markdown.convert`** on a document made of pieces separated by blank lines: the outputs of the pieces, one per
    line -/
theorem convert_pieces2 (cfg : Pipeline.Cfg) (hbl : cfg.blockLevel = TreeProc.defaultBlockLevel)
    (hfmt : cfg.fmt = .xhtml) (ps : List Piece2) (hne : ps ≠ []) (hP : ∀ p ∈ ps, Piece2OK cfg p)
    (hadj : noCodeAfterCode (ps.map (·.b))) :
    Pipeline.convert cfg (joinLines (flatLines (ps.map (·.b.g)))) = .ok (joinOutS (ps.map (·.elem.out))) := by
  have hgne : ∀ g ∈ ps.map (·.b.g), g ≠ [] := by
    intro g hg; obtain ⟨p, hp, rfl⟩ := List.mem_map.1 hg; exact (hP p hp).bok.ne
  have hlines : ∀ l ∈ flatLines (ps.map (·.b.g)), lineSafe l = true ∧ '<' ∉ l ∧ refsClosed l = true := by
    intro l hl
    rcases mem_flatLines hl with rfl | ⟨g, hg, hlg⟩
    · exact ⟨by decide, by simp, rfl⟩
    · obtain ⟨p, hp, rfl⟩ := List.mem_map.1 hg
      exact (hP p hp).safe l hlg
  have hfl : flatLines (ps.map (·.b.g)) ≠ [] := by
    obtain ⟨p, r, rfl⟩ : ∃ p r, ps = p :: r := by
      cases ps with
      | nil => exact absurd rfl hne
      | cons p r => exact ⟨p, r, rfl⟩
    have := (hP p List.mem_cons_self).bok.ne
    cases r with
    | nil => simpa [flatLines] using this
    | cons a b => simp [flatLines, this]
  generalize hsrc : joinLines (flatLines (ps.map (·.b.g))) = src
  have hchunks : src = joinChunks ((ps.map (·.b)).map (fun p => joinLines p.g)) := by
    rw [← hsrc, joinLines_flatLines _ hgne, List.map_map, List.map_map]; rfl
  have hlt : ∀ c ∈ src, c ≠ '<' := by
    intro c hc
    rw [← hsrc] at hc
    rcases DocParse.mem_joinLines hc with rfl | ⟨l, hl, hcl⟩
    · decide
    · exact fun e => (hlines l hl).2.1 (e ▸ hcl)
  have h1 : src.contains '<' = false := by
    cases hc : src.contains '<' with
    | false => rfl
    | true => exact absurd rfl (hlt _ (List.contains_iff_mem.1 hc))
  have h2 : Normalize.isBlankDoc src = false := by
    rw [Normalize.isBlankDoc_eq_all]
    obtain ⟨p, r, rfl⟩ : ∃ p r, ps = p :: r := by
      cases ps with
      | nil => exact absurd rfl hne
      | cons p r => exact ⟨p, r, rfl⟩
    obtain ⟨c, hc, hcs⟩ := (hP p List.mem_cons_self).vis
    have hmem : c ∈ src := by
      rw [hchunks]
      cases r with
      | nil => simpa [joinChunks] using hc
      | cons a b => simp [joinChunks, hc]
    cases hall : src.all isSpace with
    | false => rfl
    | true =>
      have := List.all_eq_true.1 hall c hmem
      rw [hcs] at this; cases this
  have h3 : Pipeline.prepare cfg src = src ++ ['\n', '\n'] := by
    rw [Pipeline.prepare, ← hsrc, normalize_lines cfg.tab _ hfl (fun l hl => (hlines l hl).1)]
    exact extract_id _ (refsClosed_lines _ (fun l hl => (hlines l hl).2.2))
  have h4 := parseDocument_pieces cfg.tab (ps.map (·.b)) (by simpa using hne)
    (by intro b hb; obtain ⟨p, hp, rfl⟩ := List.mem_map.1 hb; exact (hP p hp).bok) hadj
  rw [← hchunks, ← finalElems_src cfg ps hP] at h4
  have h5 := render_elems cfg hbl hfmt [] (finalElems ps) (finalElems_ne ps hne) (finalElems_ok cfg ps hP [])
  rw [finalElems_out cfg ps hP] at h5
  rw [Probe.convert_eq_render]
  simp only [h1, h2, Bool.false_eq_true, if_false, h3, h4, List.reverse_nil, h5]

/-! ### 7. the printed form of a block as a piece -/

/-- a piece of a flat document -/
def piece2OfPiece (esc : List Char) (p : Piece) : Piece2 :=
  ⟨chunkPiece esc p, leafElem esc p.leaf, leafElem esc p.leaf⟩

theorem piece2OfPiece_ok (p : Piece) (h : PieceOK Generated.escapedChars 4 p) :
    Piece2OK {} (piece2OfPiece Generated.escapedChars p) where
  bok := chunkPiece_ok _ 4 p h
  safe := fun l hl => ⟨(h.safe l hl).1, (h.safe l hl).2.1, refsClosed_of_no_amp l (h.safe l hl).2.2⟩
  vis := h.vis
  src := rfl
  srcLast := rfl
  eok := fun refs => leafElem_ok { esc := Generated.escapedChars, refs := refs } escOK_generated p.leaf h.ok
  eokLast := fun refs => leafElem_ok { esc := Generated.escapedChars, refs := refs } escOK_generated p.leaf h.ok
  out := rfl

/-- a code block -/
def codePiece2 (f : List Str) (m : List (Nat × List Str)) : Piece2 :=
  ⟨codePiece 4 f m, codeElem (codeAccum f m), codeElem (codeAccum f m ++ ['\n', '\n'])⟩

theorem mem_codeAccum {f : List Str} {m : List (Nat × List Str)} {c : Char} (h : c ∈ codeAccum f m) :
    c = '\n' ∨ c ∈ "&amp;lt;gt;".toList ∨ (∃ l ∈ f, c ∈ l) ∨ ∃ er ∈ m, ∃ l ∈ er.2, c ∈ l := by
  rw [codeAccum_eq] at h
  rcases List.mem_append.1 h with h | h
  · rcases mem_codeEscape h with h | h
    · simp only [runsText, List.mem_append, List.mem_flatMap] at h
      rcases h with h | ⟨er, her, h | h⟩
      · rcases CodeLaw.mem_joinLines ((rstrip_prefix _).subset h) with h | h
        · exact Or.inl h
        · exact Or.inr (Or.inr (Or.inl h))
      · exact Or.inl (List.eq_of_mem_replicate h)
      · rcases CodeLaw.mem_joinLines ((rstrip_prefix _).subset h) with h | h
        · exact Or.inl h
        · exact Or.inr (Or.inr (Or.inr ⟨er, her, h⟩))
    · exact Or.inr (Or.inl h)
  · exact Or.inl (by simpa using h)

open Code in
/-- what `PrettifyTreeprocessor` leaves of the code text when the block does not end the document -/
theorem prettified_codeAccum' (first : List Str) (more : List (Nat × List Str)) :
    rstrip (codeAccum first more) ++ ['\n'] = Code.codeEscape (trimSpec first more) ++ ['\n'] := by
  have h3 : (['\n'] : Str).all isSpace = true := by decide
  rw [codeAccum_eq]
  unfold rstrip at *
  rw [rstripP_append_of_all h3]
  exact congrArg (· ++ ['\n']) (rstrip_codeEscape _)

theorem rstrip_nl2 (t : Str) : rstrip (t ++ ['\n', '\n']) = rstrip t := by
  unfold rstrip; exact rstripP_append_of_all (by decide) t

theorem codePiece2_ok (f : List Str) (m : List (Nat × List Str))
    (hf : isCodeRun f = true) (hm : ∀ er ∈ m, isCodeRun er.2 = true)
    (hvis : (allLines f m).any (fun l => !isBlank l) = true) :
    Piece2OK {} (codePiece2 f m) := by
  obtain ⟨i1, r1, c1⟩ := isCodeRun_spec hf
  have hm' := fun er her => isCodeRun_spec (hm er her)
  have hstx : Post.STX ∉ codeAccum f m := by
    intro h
    rcases mem_codeAccum h with h | h | ⟨l, hl, hc⟩ | ⟨er, her, l, hl, hc⟩
    · revert h; decide
    · revert h; decide
    · exact (isCodeChar_spec (c1 l hl _ hc)).2.2.2.2.1 rfl
    · exact (isCodeChar_spec ((hm' er her).2.2 l hl _ hc)).2.2.2.2.1 rfl
  have hlineOk : ∀ l ∈ allLines f m, l = [] ∨ (isCodeLine l = true) := by
    intro l hl
    simp only [allLines, List.mem_append, List.mem_flatMap] at hl
    rcases hl with hl | ⟨er, her, hl | hl⟩
    · have := hf; simp only [isCodeRun, Bool.and_eq_true, List.all_eq_true] at this; exact Or.inr (this.2 l hl)
    · exact Or.inl (List.eq_of_mem_replicate hl)
    · have := hm er her; simp only [isCodeRun, Bool.and_eq_true, List.all_eq_true] at this; exact Or.inr (this.2 l hl)
  refine ⟨codePiece_ok 4 f m i1.ok (fun er her => (hm' er her).1.ok), ?_, ?_, rfl, rfl,
    fun refs => codeElem_ok _ _ hstx, fun refs => codeElem_ok _ _ ?_, ?_⟩
  · intro l hl
    obtain ⟨l0, hl0, rfl⟩ := List.mem_map.1 hl
    rcases hlineOk l0 hl0 with rfl | hcl
    · exact ⟨by decide, by simp [indentLine], rfl⟩
    · simp only [isCodeLine, Bool.and_eq_true, List.all_eq_true, List.any_eq_true] at hcl
      obtain ⟨⟨hch, x, hx, hxs⟩, hrc⟩ := hcl
      have hne : l0 ≠ [] := by intro e; subst e; simp at hx
      have hil : indentLine 4 l0 = spaces 4 ++ l0 := by
        cases l0 with
        | nil => exact absurd rfl hne
        | cons a b => rfl
      refine ⟨?_, ?_, refsClosed_indentLine 4 hrc⟩
      · rw [hil]
        simp only [lineSafe, Bool.and_eq_true, List.all_eq_true, Bool.or_eq_true, List.any_eq_true, bne_iff_ne, ne_eq]
        refine ⟨?_, Or.inr ⟨x, List.mem_append_right _ hx, by simpa using hxs⟩⟩
        intro c hc
        rcases List.mem_append.1 hc with hc | hc
        · rw [List.eq_of_mem_replicate hc]; decide
        · obtain ⟨_, a2, a3, a4, a5, a6⟩ := isCodeChar_spec (hch c hc)
          exact ⟨⟨⟨⟨a2, a5⟩, a6⟩, a3⟩, a4⟩
      · rw [hil]
        intro hc
        rcases List.mem_append.1 hc with hc | hc
        · exact absurd (List.eq_of_mem_replicate hc) (by decide)
        · exact (isCodeChar_spec (hch _ hc)).1 rfl
  · obtain ⟨l, hl, hb⟩ := List.any_eq_true.1 hvis
    have hb' : isBlank l = false := by simpa using hb
    have : ¬ (∀ c ∈ l, isSpace c = true) := fun hall => by
      rw [(isBlank_iff l).2 hall] at hb'; cases hb'
    have hex : ∃ c ∈ l, isSpace c = false := by
      apply Decidable.by_contra
      intro hn
      apply this
      intro c hc
      cases hs : isSpace c with
      | true => rfl
      | false => exact absurd ⟨c, hc, hs⟩ hn
    obtain ⟨c, hc, hcs⟩ := hex
    refine ⟨c, ?_, hcs⟩
    show c ∈ joinLines (indentLines 4 (allLines f m))
    rw [codeSource_of_lines 4 f m i1.1 (fun er her => (hm' er her).1.1)]
    exact mem_codeSource_of_line hl hc
  · intro h
    rcases List.mem_append.1 h with h | h
    · exact hstx h
    · revert h; decide
  · show (codeElem (codeAccum f m ++ ['\n', '\n'])).out = (codeElem (codeAccum f m)).out
    simp only [codeElem, rstrip_nl2]


theorem specBlock_code (ls : List Str) :
    specBlock (.code ls) = S "<pre><code>" ++ htmlEsc (join ['\n'] ls) ++ S "\n</code></pre>" := rfl

/-- every printed form of a well-formed block of the sub-grammar is a piece whose output is what `spec` prescribes -/
theorem printBlock_flatCode (b : DocSpec.Block) (hf : isFlatCodeBlock b = true) (hw : wfBlock none b = true)
    (st : PSt) :
    ∃ (p : Piece2) (st' : PSt), printBlock true b st = (p.b.g, st') ∧ st'.defs = st.defs ∧
      Piece2OK {} p ∧ p.elem.out = specBlock b ∧ p.b.isCode = isCode b := by
  by_cases hc : isCode b = true
  · cases b with
    | code ls =>
      simp only [isFlatCodeBlock] at hf
      simp only [wfBlock, Bool.and_eq_true] at hw
      obtain ⟨f, m, hls, hfr, hmr, hvis, _, htrim⟩ := codeLines_runs ls hw.1 hf
      refine ⟨codePiece2 f m, st, ?_, rfl, codePiece2_ok f m hfr hmr hvis, ?_, rfl⟩
      · show (prefixLines (rep 4 ' ') ls, st) = _
        rw [prefixLines_eq, hls]; rfl
      · show "<pre><code>".toList ++ Ser.escCdata (rstrip (codeAccum f m) ++ ['\n']) ++ "</code></pre>".toList = _
        rw [prettified_codeAccum', escCdata_code_nl, htrim, specBlock_code, htmlEsc_eq_codeEscape]
        simp [S, joinLines]
    | rule => simp [isCode] at hc
    | para _ => simp [isCode] at hc
    | atx _ _ => simp [isCode] at hc
    | setext _ _ => simp [isCode] at hc
    | quote _ => simp [isCode] at hc
    | ulist _ _ => simp [isCode] at hc
    | olist _ _ => simp [isCode] at hc
  · have hflat : isFlatBlock b = true := by
      cases b <;> simp_all [isFlatCodeBlock, isFlatBlock, isCode]
    obtain ⟨p, st', hp, hd, hok, hout⟩ := printBlock_flat b hflat hw st
    refine ⟨piece2OfPiece Generated.escapedChars p, st', hp, hd, piece2OfPiece_ok p hok, hout, ?_⟩
    simp only [Bool.not_eq_true] at hc
    rw [hc]; rfl

theorem okNexts_cons2 (a b : DocSpec.Block) (r : List DocSpec.Block) :
    okNexts (a :: b :: r) = (okNext a b && okNexts (b :: r)) := by rw [okNexts]

theorem printBlocks_flatCode (d : Doc) (hne : d ≠ []) (hf : ∀ b ∈ d, isFlatCodeBlock b = true)
    (hw : ∀ b ∈ d, wfBlock none b = true) (hnext : okNexts d = true) :
    ∀ st : PSt, ∃ (ps : List Piece2) (st' : PSt), printBlocks true d st = (flatLines (ps.map (·.b.g)), st') ∧
      st'.defs = st.defs ∧ ps ≠ [] ∧ (∀ p ∈ ps, Piece2OK {} p) ∧
      joinOutS (ps.map (·.elem.out)) = specBlocks d ∧ noCodeAfterCode (ps.map (·.b)) ∧
      (ps.head?.map (·.b.isCode) = d.head?.map isCode) := by
  induction d with
  | nil => exact absurd rfl hne
  | cons b r ih =>
    intro st
    obtain ⟨p, st1, hp, hd1, hok, hout, hcode⟩ :=
      printBlock_flatCode b (hf b List.mem_cons_self) (hw b List.mem_cons_self) st
    cases r with
    | nil =>
      refine ⟨[p], st1, ?_, hd1, by simp, ?_, ?_, trivial, by simp [hcode]⟩
      · rw [printBlocks_one, hp]; rfl
      · intro q hq; have : q = p := by simpa using hq
        subst this; exact hok
      · rw [specBlocks_one, ← hout]; rfl
    | cons b' r' =>
      rw [okNexts_cons2, Bool.and_eq_true] at hnext
      obtain ⟨ps, st2, hps, hd2, hpsne, hoks, houts, hadj, hhead⟩ := ih (by simp)
        (fun x hx => hf x (List.mem_cons_of_mem _ hx)) (fun x hx => hw x (List.mem_cons_of_mem _ hx)) hnext.2 st1
      obtain ⟨q, qs, rfl⟩ : ∃ q qs, ps = q :: qs := by
        cases ps with
        | nil => exact absurd rfl hpsne
        | cons q qs => exact ⟨q, qs, rfl⟩
      have hq : q.b.isCode = isCode b' := by simpa using hhead
      refine ⟨p :: q :: qs, st2, ?_, by rw [hd2, hd1], by simp, ?_, ?_, ?_, by simp [hcode]⟩
      · rw [printBlocks_cons2, hp]
        simp only [hps]
        rfl
      · intro x hx
        rcases List.mem_cons.1 hx with rfl | hx
        · exact hok
        · exact hoks x hx
      · rw [specBlocks_cons2, ← houts, ← hout]; rfl
      · refine ⟨?_, hadj⟩
        intro hqc
        rw [hq] at hqc
        rw [hcode]
        have h1 := hnext.1
        simp only [okNext, hqc, Bool.and_true, Bool.and_eq_true, Bool.not_eq_true', Bool.or_eq_false_iff] at h1
        exact h1.1.2.1

/-- **C01 on flat documents with indented code blocks**: every spelling of a well-formed document of the
    sub-grammar converts to what `spec` prescribes -/
theorem convert_flatCode (d : Doc) (sp : Spelling) (hwf : WF d = true) (hflat : FlatCodeDoc d = true) :
    Pipeline.convert {} (print d sp) = .ok (spec d) := by
  simp only [WF, Bool.and_eq_true, Bool.not_eq_true', List.isEmpty_eq_false_iff] at hwf
  obtain ⟨⟨⟨hne, hnx⟩, hbl⟩, _⟩ := hwf
  have hf : ∀ b ∈ d, isFlatCodeBlock b = true := by
    simpa [FlatCodeDoc, List.all_eq_true] using hflat
  obtain ⟨ps, st', hps, hdefs, hpsne, hoks, houts, hadj, _⟩ :=
    printBlocks_flatCode d hne hf (wfBlockList_mem hbl) hnx ⟨sp.choices, 1, []⟩
  have hprint : print d sp = joinLines (flatLines (ps.map (·.b.g))) := by
    simp only [print, hps]
    have : st'.defs = [] := hdefs
    simp [this, joinLines]
  rw [hprint, spec, ← houts]
  exact convert_pieces2 {} rfl rfl ps hpsne hoks hadj

end MdVerif.DocParse2
